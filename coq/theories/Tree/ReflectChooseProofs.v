(** Proofs about Tree/ReflectChoose.v (case detection of the Reflect map node).

    A. [rchoose] on a hierarchy of any nesting depth answers with the FIRST case (name order) of the
       choice it was asked about under which - directly or through nested choices - something is
       held; with [None] exactly when nothing is held under the choice.
    B. on a well-formed hierarchy [rchoose] is [Schema.choose] of the flat view, for every choice of
       the hierarchy: the Reflect map node detects cases as the reference store does, so the editor
       model of Tree/Editor.v (and the history theorem of Tree/ChoiceInvProofs.v) is the model of an
       upsert into a Reflect map target. *)
From Coq Require Import List Bool Arith Lia.
From YV Require Import Val.Model Tree.Schema Tree.Editor Tree.Merge Tree.ChoiceInv Tree.ChoiceInvProofs Tree.ReflectChoose.
Import ListNotations.

(** * induction over the nested hierarchy *)
Section HInd.
  Variable P : hdef -> Prop.
  Hypothesis Hd : forall s d, P (HData s d).
  Hypothesis Hc : forall id cases, Forall (Forall P) cases -> P (HChoice id cases).
  Fixpoint hdef_ind' (h : hdef) : P h :=
    match h with
    | HData s d => Hd s d
    | HChoice id cases =>
        Hc id cases
          ((fix fc (cs : list (list hdef)) : Forall (Forall P) cs :=
              match cs with
              | [] => Forall_nil _
              | c :: cs' =>
                  Forall_cons c
                    ((fix fd (ds : list hdef) : Forall P ds :=
                        match ds with
                        | [] => Forall_nil _
                        | d :: ds' => Forall_cons d (hdef_ind' d) (fd ds')
                        end) c)
                    (fc cs')
              end) cases)
    end.
End HInd.

Lemma Forall_all (P : hdef -> Prop) : (forall h, P h) -> forall ds, Forall P ds.
Proof. intros H ds. induction ds; constructor; auto. Qed.
Lemma Forall_all2 (P : hdef -> Prop) : (forall h, P h) -> forall cs, Forall (Forall P) cs.
Proof. intros H cs. induction cs; constructor; auto using Forall_all. Qed.

(** * A. what the answer means *)

Lemma any_present_app a b : any_present (a ++ b) = any_present a || any_present b.
Proof. unfold any_present. apply existsb_app. Qed.

Lemma any_def_flat ds :
  Forall (fun d => hheld d = any_present (hflat d)) ds ->
  any_def hheld ds = any_present (flat_defs hflat ds).
Proof.
  induction 1 as [|d ds Hd _ IH]; simpl; [reflexivity|].
  rewrite any_present_app, Hd, IH. reflexivity.
Qed.

Lemma sel_from_flat cs :
  Forall (Forall (fun d => hheld d = any_present (hflat d))) cs ->
  forall k, (match sel_from hheld cs k with Some _ => true | None => false end)
            = any_present (flat_cases hflat cs).
Proof.
  induction 1 as [|c cs Hc _ IH]; intros k; simpl; [reflexivity|].
  rewrite any_present_app, <- (any_def_flat c Hc).
  destruct (any_def hheld c); simpl; [reflexivity|apply IH].
Qed.

(** the test on one definition: something is held at it or, through nested choices, under it *)
Theorem hheld_flat h : hheld h = any_present (hflat h).
Proof.
  induction h as [s d|id cases IH] using hdef_ind'.
  - simpl. destruct (present d); reflexivity.
  - simpl. apply (sel_from_flat cases IH).
Qed.

Lemma any_def_present c : any_def hheld c = any_present (hflat_defs c).
Proof. apply any_def_flat. apply Forall_all. exact hheld_flat. Qed.

Lemma sel_from_some cs : forall k0 k,
  sel_from hheld cs k0 = Some k ->
  exists j, k = k0 + j /\ j < length cs /\
            any_present (hflat_defs (nth j cs [])) = true /\
            forall i, i < j -> any_present (hflat_defs (nth i cs [])) = false.
Proof.
  induction cs as [|c cs IH]; intros k0 k H; simpl in H; [discriminate|].
  destruct (any_def hheld c) eqn:Hc.
  - injection H as <-. exists 0. rewrite any_def_present in Hc. simpl.
    repeat split; try lia. exact Hc.
  - apply IH in H as (j & -> & Hlt & Hj & Hbefore). exists (S j).
    rewrite any_def_present in Hc. simpl. repeat split; try lia; try exact Hj.
    intros [|i] Hi; [exact Hc|]. apply Hbefore. lia.
Qed.

Lemma sel_from_none cs : forall k0,
  sel_from hheld cs k0 = None -> any_present (hflat_cases cs) = false.
Proof.
  intros k0 H. unfold hflat_cases.
  rewrite <- (sel_from_flat cs (Forall_all2 _ hheld_flat cs) k0), H. reflexivity.
Qed.

(** the answer is a case OF THE CHOICE ASKED ABOUT ([k < length cases]); something is held under it,
    at any depth of nesting; nothing is held under a case before it *)
Theorem rchoose_some cases k :
  rchoose cases = Some k ->
  k < length cases /\
  any_present (hflat_defs (nth k cases [])) = true /\
  forall i, i < k -> any_present (hflat_defs (nth i cases [])) = false.
Proof.
  intros H. apply sel_from_some in H as (j & -> & H). simpl. exact H.
Qed.

(** no answer: nothing is held under the choice, at any depth of nesting *)
Theorem rchoose_none cases :
  rchoose cases = None -> any_present (hflat_cases cases) = false.
Proof. apply sel_from_none. Qed.

(** and conversely: whenever something is held under the choice there is an answer *)
Theorem rchoose_complete cases :
  any_present (hflat_cases cases) = true -> exists k, rchoose cases = Some k.
Proof.
  intros H. destruct (rchoose cases) as [k|] eqn:E; [eauto|].
  apply rchoose_none in E. congruence.
Qed.

(** * B. the walk over the hierarchy computes Schema.choose of the flat view *)

Definition cwd (c : nat) (l : list (snode * option dnode)) : list nat :=
  cases_with_data c (map fst l) (map snd l).

Lemma cwd_cons c s d l :
  cwd c ((s, d) :: l) =
  match guard_case c (sguard s), present d with
  | Some k, true => k :: cwd c l
  | _, _ => cwd c l
  end.
Proof. reflexivity. Qed.

Lemma cwd_app c a : forall b, cwd c (a ++ b) = cwd c a ++ cwd c b.
Proof.
  induction a as [|[s d] a IH]; intros b; [reflexivity|].
  rewrite <- app_comm_cons, !cwd_cons, IH.
  destruct (guard_case c (sguard s)), (present d); reflexivity.
Qed.

Lemma guard_eqb_eq a : forall b, guard_eqb a b = true -> a = b.
Proof.
  unfold guard_eqb. induction a as [|[c k] a IH]; intros [|[c' k'] b] H; try discriminate; [reflexivity|].
  apply andb_true_iff in H as [H Hr]. apply andb_true_iff in H as [Hc Hk].
  apply Nat.eqb_eq in Hc, Hk. subst. f_equal. apply IH. exact Hr.
Qed.

Lemma mem_nat_In x l : mem_nat x l = true <-> In x l.
Proof.
  unfold mem_nat. rewrite existsb_exists. split.
  - intros (y & Hy & E). apply Nat.eqb_eq in E. subst. exact Hy.
  - intros H. exists x. split; [exact H|apply Nat.eqb_refl].
Qed.

Lemma nodup_nat_NoDup l : nodup_nat l = true -> NoDup l.
Proof.
  induction l as [|x l IH]; simpl; intros H; constructor.
  - apply andb_true_iff in H as [H _]. apply negb_true_iff in H.
    intros Hin. apply mem_nat_In in Hin. congruence.
  - apply IH. apply andb_true_iff in H as [_ H]. exact H.
Qed.

Lemma NoDup_app_l {A} (a b : list A) : NoDup (a ++ b) -> NoDup a.
Proof.
  induction a as [|x a IH]; simpl; intros H; [constructor|].
  inversion H as [|? ? Hn Hd]; subst. constructor; [|apply IH; exact Hd].
  intros Hin. apply Hn. apply in_or_app. left. exact Hin.
Qed.
Lemma NoDup_app_r {A} (a b : list A) : NoDup (a ++ b) -> NoDup b.
Proof.
  induction a as [|x a IH]; simpl; intros H; [exact H|].
  inversion H; subst. apply IH. assumption.
Qed.
Lemma NoDup_app_disj {A} (a b : list A) : NoDup (a ++ b) -> forall x, In x a -> ~ In x b.
Proof.
  induction a as [|y a IH]; simpl; intros H x Hx; [contradiction|].
  inversion H as [|? ? Hn Hd]; subst. destruct Hx as [->|Hx].
  - intros Hb. apply Hn. apply in_or_app. right. exact Hb.
  - apply IH; assumption.
Qed.

Lemma guard_case_app_some c g g' k : guard_case c g = Some k -> guard_case c (g ++ g') = Some k.
Proof.
  induction g as [|[c' k'] g IH]; simpl; [discriminate|].
  destruct (Nat.eqb c c'); auto.
Qed.
Lemma guard_case_app_none c g g' : guard_case c g = None -> guard_case c (g ++ g') = guard_case c g'.
Proof.
  induction g as [|[c' k'] g IH]; simpl; [reflexivity|].
  destruct (Nat.eqb c c'); [discriminate|auto].
Qed.
Lemma guard_case_notin c g : ~ In c (map fst g) -> guard_case c g = None.
Proof.
  induction g as [|[c' k'] g IH]; simpl; intros H; [reflexivity|].
  destruct (Nat.eqb c c') eqn:E.
  - apply Nat.eqb_eq in E. subst. exfalso. apply H. left. reflexivity.
  - apply IH. intros Hin. apply H. right. exact Hin.
Qed.
Lemma guard_case_other c id k g : guard_case c g = None -> c <> id -> guard_case c (g ++ [(id, k)]) = None.
Proof.
  intros H Hne. rewrite (guard_case_app_none _ _ _ H). simpl.
  destruct (Nat.eqb c id) eqn:E; [apply Nat.eqb_eq in E; contradiction|reflexivity].
Qed.
Lemma guard_case_self id k g : guard_case id g = None -> guard_case id (g ++ [(id, k)]) = Some k.
Proof. intros H. rewrite (guard_case_app_none _ _ _ H). simpl. rewrite Nat.eqb_refl. reflexivity. Qed.

(** unfoldings (the nested fixes of the model are the list-level functions) *)
Lemma hflat_choice id cases : hflat (HChoice id cases) = flat_cases hflat cases.
Proof. reflexivity. Qed.
Lemma hids_choice id cases : hids (HChoice id cases) = id :: hids_cases cases.
Proof. reflexivity. Qed.
Lemma wfh_choice g id cases :
  wfh g (HChoice id cases) = negb (mem_nat id (map fst g)) && wf_cases wfh g id cases 0.
Proof. reflexivity. Qed.
Lemma agrees_choice top id cases :
  agrees top (HChoice id cases) =
  (match rchoose cases, choose id (map fst top) (map snd top) with
   | Some a, Some b => Nat.eqb a b
   | None, None => true
   | _, _ => false
   end) && agrees_cases top cases.
Proof. reflexivity. Qed.

(** ** a choice [c] that neither encloses a definition nor occurs in it gets nothing from it *)
Definition outside_stmt (c : nat) (h : hdef) : Prop :=
  forall g, wfh g h = true -> guard_case c g = None -> ~ In c (hids h) -> cwd c (hflat h) = [].

Lemma outside_defs c ds : Forall (outside_stmt c) ds ->
  forall g, wf_defs wfh g ds = true -> guard_case c g = None -> ~ In c (hids_defs ds) ->
  cwd c (flat_defs hflat ds) = [].
Proof.
  induction 1 as [|d ds Hd _ IH]; intros g Hwf Hg Hn; [reflexivity|].
  simpl in Hwf. apply andb_true_iff in Hwf as [Hwd Hwf].
  simpl in Hn. simpl. rewrite cwd_app.
  rewrite (Hd g Hwd Hg), (IH g Hwf Hg); [reflexivity| |];
    intros Hin; apply Hn; apply in_or_app; auto.
Qed.

Lemma outside_cases c id cs : Forall (Forall (outside_stmt c)) cs ->
  forall g k, wf_cases wfh g id cs k = true -> guard_case c g = None -> c <> id ->
  ~ In c (hids_cases cs) -> cwd c (flat_cases hflat cs) = [].
Proof.
  induction 1 as [|ca cs Hc _ IH]; intros g k Hwf Hg Hne Hn; [reflexivity|].
  simpl in Hwf. apply andb_true_iff in Hwf as [Hwc Hwf].
  simpl in Hn. simpl. rewrite cwd_app.
  rewrite (outside_defs c ca Hc _ Hwc (guard_case_other _ _ _ _ Hg Hne)), (IH g (S k) Hwf Hg Hne);
    [reflexivity| |]; intros Hin; apply Hn; apply in_or_app; auto.
Qed.

Lemma outside c h : outside_stmt c h.
Proof.
  induction h as [s d|id cases IH] using hdef_ind'; intros g Hwf Hg Hn.
  - simpl in Hwf. apply guard_eqb_eq in Hwf. simpl. rewrite cwd_cons, Hwf, Hg. reflexivity.
  - rewrite wfh_choice in Hwf. apply andb_true_iff in Hwf as [_ Hwf].
    rewrite hids_choice in Hn. rewrite hflat_choice.
    apply (outside_cases c id cases IH g 0 Hwf Hg).
    + intros ->. apply Hn. left. reflexivity.
    + intros Hin. apply Hn. right. exact Hin.
Qed.

Lemma outside_defs' c ds g : wf_defs wfh g ds = true -> guard_case c g = None ->
  ~ In c (hids_defs ds) -> cwd c (flat_defs hflat ds) = [].
Proof. apply outside_defs. apply Forall_all. apply outside. Qed.
Lemma outside_cases' c id cs g k : wf_cases wfh g id cs k = true -> guard_case c g = None -> c <> id ->
  ~ In c (hids_cases cs) -> cwd c (flat_cases hflat cs) = [].
Proof. apply outside_cases. apply Forall_all2. apply outside. Qed.

(** ** under case [k] of choice [c], every held flat kid counts for [k] *)
Definition nonempty {A} (l : list A) : bool := match l with [] => false | _ => true end.
Lemma nonempty_app {A} (a b : list A) : nonempty (a ++ b) = nonempty a || nonempty b.
Proof. destruct a; reflexivity. Qed.

Definition inside_stmt (c k : nat) (h : hdef) : Prop :=
  forall g, wfh g h = true -> guard_case c g = Some k ->
  Forall (eq k) (cwd c (hflat h)) /\ nonempty (cwd c (hflat h)) = any_present (hflat h).

Lemma inside_defs c k ds : Forall (inside_stmt c k) ds ->
  forall g, wf_defs wfh g ds = true -> guard_case c g = Some k ->
  Forall (eq k) (cwd c (flat_defs hflat ds)) /\
  nonempty (cwd c (flat_defs hflat ds)) = any_present (flat_defs hflat ds).
Proof.
  induction 1 as [|d ds Hd _ IH]; intros g Hwf Hg; [split; [constructor|reflexivity]|].
  simpl in Hwf. apply andb_true_iff in Hwf as [Hwd Hwf].
  destruct (Hd g Hwd Hg) as [F1 N1]. destruct (IH g Hwf Hg) as [F2 N2].
  simpl. rewrite cwd_app, nonempty_app, any_present_app, N1, N2. split; [|reflexivity].
  apply Forall_app. split; assumption.
Qed.

Lemma inside_cases c k id cs : Forall (Forall (inside_stmt c k)) cs ->
  forall g j, wf_cases wfh g id cs j = true -> guard_case c g = Some k ->
  Forall (eq k) (cwd c (flat_cases hflat cs)) /\
  nonempty (cwd c (flat_cases hflat cs)) = any_present (flat_cases hflat cs).
Proof.
  induction 1 as [|ca cs Hc _ IH]; intros g j Hwf Hg; [split; [constructor|reflexivity]|].
  simpl in Hwf. apply andb_true_iff in Hwf as [Hwc Hwf].
  destruct (inside_defs c k ca Hc _ Hwc (guard_case_app_some _ _ _ _ Hg)) as [F1 N1].
  destruct (IH g (S j) Hwf Hg) as [F2 N2].
  simpl. rewrite cwd_app, nonempty_app, any_present_app, N1, N2. split; [|reflexivity].
  apply Forall_app. split; assumption.
Qed.

Lemma inside c k h : inside_stmt c k h.
Proof.
  induction h as [s d|id cases IH] using hdef_ind'; intros g Hwf Hg.
  - simpl in Hwf. apply guard_eqb_eq in Hwf. simpl. rewrite cwd_cons, Hwf, Hg.
    unfold any_present. simpl. destruct (present d); simpl; split; repeat constructor.
  - rewrite wfh_choice in Hwf. apply andb_true_iff in Hwf as [_ Hwf]. rewrite hflat_choice.
    apply (inside_cases c k id cases IH g 0 Hwf Hg).
Qed.

Lemma inside_defs' c k ds g : wf_defs wfh g ds = true -> guard_case c g = Some k ->
  Forall (eq k) (cwd c (flat_defs hflat ds)) /\
  nonempty (cwd c (flat_defs hflat ds)) = any_present (flat_defs hflat ds).
Proof. apply inside_defs. apply Forall_all. apply inside. Qed.

(** ** the choice itself: its flat kids list the cases in ascending order, so the minimum
    [Schema.choose] takes is the first case in which something is held *)
Lemma fold_min_ge l : forall k, Forall (fun x => k <= x) l -> fold_left Nat.min l k = k.
Proof.
  induction l as [|x l IH]; intros k H; [reflexivity|].
  inversion H; subst. simpl. rewrite Nat.min_l by assumption. apply IH. assumption.
Qed.

Definition answer (l : list nat) : option nat :=
  match l with [] => None | x :: tl => Some (fold_left Nat.min tl x) end.

Lemma choose_answer c l : choose c (map fst l) (map snd l) = answer (cwd c l).
Proof. reflexivity. Qed.

Lemma choice_cases id g cs : guard_case id g = None ->
  forall k0, wf_cases wfh g id cs k0 = true ->
  Forall (fun x => k0 <= x) (cwd id (flat_cases hflat cs)) /\
  sel_from hheld cs k0 = answer (cwd id (flat_cases hflat cs)).
Proof.
  intros Hg. induction cs as [|c cs IH]; intros k0 Hwf; [split; [constructor|reflexivity]|].
  simpl in Hwf. apply andb_true_iff in Hwf as [Hwc Hwf].
  destruct (inside_defs' id k0 c _ Hwc (guard_case_self _ _ _ Hg)) as [F1 N1].
  destruct (IH (S k0) Hwf) as [F2 A2].
  assert (F2' : Forall (fun x => k0 <= x) (cwd id (flat_cases hflat cs))).
  { eapply Forall_impl; [|exact F2]. simpl. intros; lia. }
  assert (F1' : Forall (fun x => k0 <= x) (cwd id (flat_defs hflat c))).
  { eapply Forall_impl; [|exact F1]. simpl. intros; lia. }
  simpl. rewrite cwd_app. split; [apply Forall_app; split; assumption|].
  rewrite any_def_present. unfold hflat_defs. rewrite <- N1.
  destruct (cwd id (flat_defs hflat c)) as [|x tl] eqn:E; simpl.
  - exact A2.
  - inversion F1 as [|? ? Hx Htl]; subst. f_equal. symmetry. apply fold_min_ge.
    apply Forall_app. split; [|exact F2'].
    inversion F1'; assumption.
Qed.

(** ** every choice of a hierarchy, in its context *)
Definition ctx_stmt (h : hdef) : Prop :=
  forall g, wfh g h = true -> NoDup (hids h) ->
  (forall c, In c (hids h) -> guard_case c g = None) ->
  forall pre post,
    (forall c, In c (hids h) -> cwd c pre = [] /\ cwd c post = []) ->
    agrees (pre ++ hflat h ++ post) h = true.

Lemma ctx_defs ds : Forall ctx_stmt ds ->
  forall g, wf_defs wfh g ds = true -> NoDup (hids_defs ds) ->
  (forall c, In c (hids_defs ds) -> guard_case c g = None) ->
  forall pre post,
    (forall c, In c (hids_defs ds) -> cwd c pre = [] /\ cwd c post = []) ->
    agrees_defs (pre ++ flat_defs hflat ds ++ post) ds = true.
Proof.
  induction 1 as [|d ds Hd _ IH]; intros g Hwf Hnd Hg pre post Hpp; [reflexivity|].
  simpl in Hwf. apply andb_true_iff in Hwf as [Hwd Hwf].
  simpl in Hnd, Hg, Hpp. simpl. apply andb_true_iff. split.
  - rewrite <- app_assoc. apply (Hd g Hwd (NoDup_app_l _ _ Hnd)).
    + intros c Hc. apply Hg. apply in_or_app. auto.
    + intros c Hc. destruct (Hpp c (in_or_app _ _ _ (or_introl Hc))) as [Hpre Hpost].
      split; [exact Hpre|]. rewrite cwd_app, Hpost, app_nil_r.
      apply (outside_defs' c ds g Hwf).
      * apply Hg. apply in_or_app. auto.
      * apply (NoDup_app_disj _ _ Hnd). exact Hc.
  - replace (pre ++ (hflat d ++ flat_defs hflat ds) ++ post)
      with ((pre ++ hflat d) ++ flat_defs hflat ds ++ post)
      by (rewrite <- !app_assoc; reflexivity).
    apply (IH g Hwf (NoDup_app_r _ _ Hnd)).
    + intros c Hc. apply Hg. apply in_or_app. auto.
    + intros c Hc. destruct (Hpp c (in_or_app _ _ _ (or_intror Hc))) as [Hpre Hpost].
      split; [|exact Hpost]. rewrite cwd_app, Hpre. simpl.
      apply (outside c d g Hwd).
      * apply Hg. apply in_or_app. auto.
      * intros Hin. apply (NoDup_app_disj _ _ Hnd c Hin Hc).
Qed.

Lemma ctx_cases id cs : Forall (Forall ctx_stmt) cs ->
  forall g k, wf_cases wfh g id cs k = true -> NoDup (hids_cases cs) ->
  (forall c, In c (hids_cases cs) -> guard_case c g = None /\ c <> id) ->
  forall pre post,
    (forall c, In c (hids_cases cs) -> cwd c pre = [] /\ cwd c post = []) ->
    agrees_cases (pre ++ flat_cases hflat cs ++ post) cs = true.
Proof.
  induction 1 as [|ca cs Hc _ IH]; intros g k Hwf Hnd Hg pre post Hpp; [reflexivity|].
  simpl in Hwf. apply andb_true_iff in Hwf as [Hwc Hwf].
  simpl in Hnd, Hg, Hpp. simpl. apply andb_true_iff. split.
  - rewrite <- app_assoc. apply (ctx_defs ca Hc _ Hwc (NoDup_app_l _ _ Hnd)).
    + intros c Hin. destruct (Hg c (in_or_app _ _ _ (or_introl Hin))) as [H1 H2].
      apply guard_case_other; assumption.
    + intros c Hin. destruct (Hpp c (in_or_app _ _ _ (or_introl Hin))) as [Hpre Hpost].
      destruct (Hg c (in_or_app _ _ _ (or_introl Hin))) as [H1 H2].
      split; [exact Hpre|]. rewrite cwd_app, Hpost, app_nil_r.
      apply (outside_cases' c id cs g (S k) Hwf H1 H2).
      apply (NoDup_app_disj _ _ Hnd). exact Hin.
  - replace (pre ++ (flat_defs hflat ca ++ flat_cases hflat cs) ++ post)
      with ((pre ++ flat_defs hflat ca) ++ flat_cases hflat cs ++ post)
      by (rewrite <- !app_assoc; reflexivity).
    apply (IH g (S k) Hwf (NoDup_app_r _ _ Hnd)).
    + intros c Hin. apply Hg. apply in_or_app. auto.
    + intros c Hin. destruct (Hpp c (in_or_app _ _ _ (or_intror Hin))) as [Hpre Hpost].
      destruct (Hg c (in_or_app _ _ _ (or_intror Hin))) as [H1 H2].
      split; [|exact Hpost]. rewrite cwd_app, Hpre. simpl.
      apply (outside_defs' c ca _ Hwc (guard_case_other _ _ _ _ H1 H2)).
      intros Hin'. apply (NoDup_app_disj _ _ Hnd c Hin' Hin).
Qed.

Lemma ctx_all h : ctx_stmt h.
Proof.
  induction h as [s d|id cases IH] using hdef_ind'; intros g Hwf Hnd Hg pre post Hpp; [reflexivity|].
  rewrite wfh_choice in Hwf. apply andb_true_iff in Hwf as [_ Hwf].
  rewrite hids_choice in Hnd, Hg, Hpp. inversion Hnd as [|? ? Hnotin Hnd']; subst.
  rewrite agrees_choice, hflat_choice. apply andb_true_iff. split.
  - rewrite choose_answer, !cwd_app.
    destruct (Hpp id (or_introl eq_refl)) as [-> ->]. rewrite app_nil_r. simpl.
    destruct (choice_cases id g cases (Hg id (or_introl eq_refl)) 0 Hwf) as [_ A].
    unfold rchoose. rewrite A.
    destruct (answer (cwd id (flat_cases hflat cases))); [apply Nat.eqb_refl|reflexivity].
  - apply (ctx_cases id cases IH g 0 Hwf Hnd').
    + intros c Hin. split; [apply Hg; right; exact Hin|].
      intros ->. contradiction.
    + intros c Hin. apply Hpp. right. exact Hin.
Qed.

(** every choice of a container's definitions - at any depth of nesting - is answered by the Reflect
    map node as by [Schema.choose] on the flat view of those definitions *)
Theorem rchoose_is_choose defs :
  wf_top defs = true -> agrees_defs (hflat_defs defs) defs = true.
Proof.
  unfold wf_top. intros H. apply andb_true_iff in H as [Hwf Hnd].
  apply nodup_nat_NoDup in Hnd.
  pose proof (ctx_defs defs (Forall_all _ ctx_all defs) [] Hwf Hnd) as H.
  specialize (H (fun _ _ => eq_refl) [] []). simpl in H. rewrite app_nil_r in H.
  apply H. intros; split; reflexivity.
Qed.

(** [agrees_defs] read at one choice: the choice numbered [id], wherever it sits *)
Definition find_choice_cases (id : nat) : list (list hdef) -> option (list (list hdef)) :=
  fix fc (cs : list (list hdef)) :=
    match cs with
    | [] => None
    | c :: cs' => match find_choice_defs id c with Some r => Some r | None => fc cs' end
    end.
Lemma find_choice_choice id id' cases :
  find_choice id (HChoice id' cases) = if Nat.eqb id id' then Some cases else find_choice_cases id cases.
Proof. reflexivity. Qed.

Definition find_stmt (top : list (snode * option dnode)) (id : nat) (h : hdef) : Prop :=
  forall cases, agrees top h = true -> find_choice id h = Some cases ->
  rchoose cases = choose id (map fst top) (map snd top).

Lemma find_defs top id ds : Forall (find_stmt top id) ds ->
  forall cases, agrees_defs top ds = true -> find_choice_defs id ds = Some cases ->
  rchoose cases = choose id (map fst top) (map snd top).
Proof.
  induction 1 as [|d ds Hd _ IH]; intros cases Ha Hf; simpl in Hf; [discriminate|].
  simpl in Ha. apply andb_true_iff in Ha as [Ha1 Ha2].
  destruct (find_choice id d) as [r|] eqn:E.
  - injection Hf as <-. apply Hd; assumption.
  - apply IH; assumption.
Qed.

Lemma find_cases top id cs : Forall (Forall (find_stmt top id)) cs ->
  forall cases, agrees_cases top cs = true -> find_choice_cases id cs = Some cases ->
  rchoose cases = choose id (map fst top) (map snd top).
Proof.
  induction 1 as [|c cs Hc _ IH]; intros cases Ha Hf; simpl in Hf; [discriminate|].
  simpl in Ha. apply andb_true_iff in Ha as [Ha1 Ha2].
  destruct (find_choice_defs id c) as [r|] eqn:E.
  - injection Hf as <-. apply (find_defs top id c Hc); assumption.
  - apply IH; assumption.
Qed.

Lemma find_all top id h : find_stmt top id h.
Proof.
  induction h as [s d|id' cs IH] using hdef_ind'; intros cases Ha Hf; [discriminate|].
  rewrite agrees_choice in Ha. apply andb_true_iff in Ha as [Ha1 Ha2].
  rewrite find_choice_choice in Hf. destruct (Nat.eqb id id') eqn:E.
  - injection Hf as <-. apply Nat.eqb_eq in E. subst id'.
    destruct (rchoose cs), (choose id (map fst top) (map snd top)); try discriminate; [|reflexivity].
    apply Nat.eqb_eq in Ha1. congruence.
  - apply (find_cases top id cs IH); assumption.
Qed.

(** the statement at one choice: in a container whose definitions are [defs], the choice numbered
    [id] - at any depth of nesting - is answered as [Schema.choose id] answers on the flat kids *)
Theorem rchoose_is_choose_at defs id cases :
  wf_top defs = true -> find_choice_defs id defs = Some cases ->
  rchoose cases = choose id (map fst (hflat_defs defs)) (map snd (hflat_defs defs)).
Proof.
  intros Hwf Hf. apply (find_defs (hflat_defs defs) id defs); [|apply rchoose_is_choose; exact Hwf|exact Hf].
  apply Forall_all. apply find_all.
Qed.

(** * C. the dumped hierarchy zipped with a store's data *)
Section CInd.
  Variable P : cdef -> Prop.
  Hypothesis Hd : forall p, P (CD p).
  Hypothesis Hc : forall id cases, Forall (Forall P) cases -> P (CC id cases).
  Fixpoint cdef_ind' (c : cdef) : P c :=
    match c with
    | CD p => Hd p
    | CC id cases =>
        Hc id cases
          ((fix fc (cs : list (list cdef)) : Forall (Forall P) cs :=
              match cs with
              | [] => Forall_nil _
              | c :: cs' =>
                  Forall_cons c
                    ((fix fd (ds : list cdef) : Forall P ds :=
                        match ds with
                        | [] => Forall_nil _
                        | d :: ds' => Forall_cons d (cdef_ind' d) (fd ds')
                        end) c)
                    (fc cs')
              end) cases)
    end.
End CInd.

Lemma CForall_all (P : cdef -> Prop) : (forall c, P c) -> forall ds, Forall P ds.
Proof. intros H ds. induction ds; constructor; auto. Qed.

(** the flat view of the zipped hierarchy: the kids and the data at the walked positions *)
Definition at_pos (kids : list snode) (data : content) (p : nat) : snode * option dnode :=
  (nth p kids no_snode, nth p data None).

Lemma zip_flat_defs kids data ds :
  Forall (fun c => hflat (hzip kids data c) = map (at_pos kids data) (cpos c)) ds ->
  flat_defs hflat (map (hzip kids data) ds) = map (at_pos kids data) (cpos_defs ds).
Proof.
  induction 1 as [|d ds Hd _ IH]; [reflexivity|].
  simpl. rewrite map_app, Hd, IH. reflexivity.
Qed.
Lemma zip_flat_cases kids data cs :
  Forall (Forall (fun c => hflat (hzip kids data c) = map (at_pos kids data) (cpos c))) cs ->
  flat_cases hflat (map (map (hzip kids data)) cs) = map (at_pos kids data) (cpos_cases cs).
Proof.
  induction 1 as [|c cs Hc _ IH]; [reflexivity|].
  simpl. rewrite map_app, (zip_flat_defs kids data c Hc), IH. reflexivity.
Qed.
Lemma zip_flat kids data c : hflat (hzip kids data c) = map (at_pos kids data) (cpos c).
Proof.
  induction c as [p|id cases IH] using cdef_ind'; [reflexivity|].
  simpl. apply (zip_flat_cases kids data cases IH).
Qed.

Lemma map_nth_seq {A} (d : A) (l : list A) : map (fun p => nth p l d) (seq 0 (length l)) = l.
Proof.
  induction l as [|x l IH]; [reflexivity|].
  simpl. f_equal. rewrite <- seq_shift, map_map. exact IH.
Qed.

Lemma nats_eqb_eq a : forall b, nats_eqb a b = true -> a = b.
Proof.
  unfold nats_eqb. induction a as [|x a IH]; intros [|y b] H; try discriminate; [reflexivity|].
  apply andb_true_iff in H as [E H]. apply Nat.eqb_eq in E. subst. f_equal. apply IH. exact H.
Qed.

Lemma zip_top kids data defs :
  cpos_defs defs = seq 0 (length kids) -> length data = length kids ->
  map fst (hflat_defs (hzip_defs kids data defs)) = kids /\
  map snd (hflat_defs (hzip_defs kids data defs)) = data.
Proof.
  intros Hp Hl. unfold hflat_defs, hzip_defs.
  rewrite (zip_flat_defs kids data defs (CForall_all _ (zip_flat kids data) defs)), Hp, !map_map.
  unfold at_pos. simpl. split; [apply map_nth_seq|].
  rewrite <- Hl. apply map_nth_seq.
Qed.

(** well-formedness looks at guards and choice numbers only, not at the data *)
Lemma zip_wfh kids d1 d2 c : forall g, wfh g (hzip kids d1 c) = wfh g (hzip kids d2 c).
Proof.
  induction c as [p|id cases IH] using cdef_ind'; intros g; [reflexivity|].
  simpl hzip. rewrite !wfh_choice. f_equal. generalize 0.
  induction IH as [|ca cs Hc _ IHcs]; intros k; [reflexivity|].
  simpl. f_equal; [|apply IHcs].
  clear -Hc. induction Hc as [|d ds Hd _ IHd]; [reflexivity|].
  simpl. rewrite Hd, IHd. reflexivity.
Qed.
Lemma zip_hids kids d1 d2 c : hids (hzip kids d1 c) = hids (hzip kids d2 c).
Proof.
  induction c as [p|id cases IH] using cdef_ind'; [reflexivity|].
  simpl hzip. rewrite !hids_choice. f_equal.
  induction IH as [|ca cs Hc _ IHcs]; [reflexivity|].
  simpl. f_equal; [|apply IHcs].
  clear -Hc. induction Hc as [|d ds Hd _ IHd]; [reflexivity|].
  simpl. rewrite Hd, IHd. reflexivity.
Qed.
Lemma zip_wf_top kids d1 d2 defs :
  wf_top (hzip_defs kids d1 defs) = wf_top (hzip_defs kids d2 defs).
Proof.
  unfold wf_top, hzip_defs. f_equal.
  - induction defs as [|d ds IH]; [reflexivity|]. simpl. rewrite (zip_wfh kids d1 d2 d), IH. reflexivity.
  - f_equal. induction defs as [|d ds IH]; [reflexivity|]. simpl. rewrite (zip_hids kids d1 d2 d), IH. reflexivity.
Qed.

(** On a Reflect map target whose container has the flat kids [kids] and holds [data], Choose for
    the choice numbered [id] - at any depth of nesting in the container's cases - answers what
    [Schema.choose id kids data] answers on the reference store. *)
Theorem reflect_choose_flat defs kids data id cases :
  dump_ok defs kids = true -> length data = length kids ->
  find_choice_defs id (hzip_defs kids data defs) = Some cases ->
  rchoose cases = choose id kids data.
Proof.
  unfold dump_ok. intros H Hl Hf. apply andb_true_iff in H as [Hp Hwf].
  apply nats_eqb_eq in Hp. rewrite (zip_wf_top kids _ data) in Hwf.
  rewrite (rchoose_is_choose_at _ id cases Hwf Hf).
  destruct (zip_top kids data defs Hp Hl) as [-> ->]. reflexivity.
Qed.

(** * D. with the invariant of C09: the answer is THE case that holds data

    On a target that holds data of at most one case per choice ([one_case_here], the level-wise part
    of Tree/ChoiceInv.v's invariant, which every upsert history preserves), whenever some held flat
    kid lies in case [k] of choice [id] - directly or below any nesting of choices, i.e. [(id, k)] is
    on its guard - the Reflect map node answers [k] for that choice. *)
Theorem reflect_choose_selected defs kids data id cases k :
  dump_ok defs kids = true -> length data = length kids ->
  find_choice_defs id (hzip_defs kids data defs) = Some cases ->
  one_case_here kids data = true -> In (id, k) (occupied kids data) ->
  rchoose cases = Some k.
Proof.
  intros Hd Hl Hf Hinv Hin. rewrite (reflect_choose_flat defs kids data id cases Hd Hl Hf).
  apply choose_inv; assumption.
Qed.

(** and "none" is answered only when nothing below the choice is held *)
Theorem reflect_choose_unselected defs kids data id cases k :
  dump_ok defs kids = true -> length data = length kids ->
  find_choice_defs id (hzip_defs kids data defs) = Some cases ->
  rchoose cases = None -> ~ In (id, k) (occupied kids data).
Proof.
  intros Hd Hl Hf Hn. rewrite (reflect_choose_flat defs kids data id cases Hd Hl Hf) in Hn.
  apply choose_none. exact Hn.
Qed.
