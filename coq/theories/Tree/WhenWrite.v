(** C16, writer side, general statement: declarative companions of [When.wedit].

    [wrestrict s src tgt new] is the SOURCE RESTRICTED to the definitions whose [when] holds on the
    target as the editor sees it at the moment it reaches them.  It is written in the positional style of
    Tree/Merge.v (kids consumed together with the aligned source and target; [pre] = what the target holds at
    the positions already passed) and never mentions [wedit]: the target "at that moment" is the unconditional
    merge (Merge.merge_one) of the restricted source so far - model semantics, left to right.

    Outcomes:  XOk src'  the restricted source;
               XErr / XPanic  a condition that had to be evaluated failed that way (CheckWhen delivers the error
                   or panics), a conditional list is addressed, or a conditional container that is absent cannot
                   be created because its condition is false on the fresh node;
               XUnsup  outside the statement: an expression outside the modelled domain, data not shaped like
                   the schema, or a conditional container that EXISTS in the target, whose condition is false on
                   the existing data but true on a fresh node: the editor then REPLACES the existing container
                   (its data is lost) - not a merge (see WhenWriteProofs.replaced_container_counterexample).

    [wwhens_true s src tgt new]: every condition the writer meets holds (same traversal, the target at each
    moment being the plain merge of the source so far). *)
From Coq Require Import ZArith List Bool Strings.Byte.
From YV Require Import Base.Wrap Val.Model Tree.Schema Tree.Editor Tree.Merge Tree.XPathLex Tree.When.
Import ListNotations.

Definition wr_kids (rec : snode -> dnode -> dnode -> bool -> xres dnode) (created : bool) (kids : list snode)
  : list snode -> content -> content -> content -> xres content :=
  fix go (ks : list snode) (sc pre rest : content) {struct ks} : xres content :=
    match ks, sc, rest with
    | k :: ks', sd :: sc', td :: rest' =>
        match k with
        | SLeaf _ _ _ dflt =>
            let v := match sd with
                     | Some d => Some d
                     | None => if created then option_map DLeaf dflt else None
                     end in
            match v with
            | None => xbind (go ks' sc' (pre ++ [td]) rest') (fun r => XOk (None :: r))
            | Some d =>
                xbind (when_field true [] kids (pre ++ td :: rest') k) (fun ok =>
                  if ok then xbind (go ks' sc' (pre ++ [Some d]) rest') (fun r => XOk (sd :: r))
                  else xbind (go ks' sc' (pre ++ [td]) rest') (fun r => XOk (None :: r)))
            end
        | SCont _ kk =>
            match sd with
            | None => xbind (go ks' sc' (pre ++ [td]) rest') (fun r => XOk (None :: r))
            | Some sdn =>
                match td with
                | Some (DCont cc as t) =>
                    xbind (when_cont true [] [] [] k cc) (fun ok =>
                      if ok then
                        xbind (rec k sdn t false) (fun sdn' =>
                          xbind (go ks' sc' (pre ++ [Some (merge_one k sdn' t false)]) rest')
                                (fun r => XOk (Some sdn' :: r)))
                      else
                        xbind (when_cont true [] [] [] k (empty_content kk)) (fun ok' =>
                          if ok' then XUnsup       (* the existing container is replaced: not a merge *)
                          else XErr))
                | Some _ => XUnsup
                | None =>
                    xbind (when_cont true [] [] [] k (empty_content kk)) (fun ok =>
                      if ok then
                        xbind (rec k sdn (empty_node k) true) (fun sdn' =>
                          xbind (go ks' sc' (pre ++ [Some (merge_one k sdn' (empty_node k) true)]) rest')
                                (fun r => XOk (Some sdn' :: r)))
                      else XErr)
                end
            end
        | SList _ _ _ =>
            match sd with
            | None => xbind (go ks' sc' (pre ++ [td]) rest') (fun r => XOk (None :: r))
            | Some sdn =>
                if has_when k then XErr else
                let t := match td with Some t => t | None => empty_node k end in
                let c := negb (present td) in
                xbind (rec k sdn t c) (fun sdn' =>
                  xbind (go ks' sc' (pre ++ [Some (merge_one k sdn' t c)]) rest')
                        (fun r => XOk (Some sdn' :: r)))
            end
        end
    | _, _, _ => XOk []
    end.

Definition wr_rows (rec : snode -> dnode -> dnode -> bool -> xres dnode) (keys : list nat) (row : snode)
  : list dnode -> list dnode -> xres (list dnode) :=
  fix rows (srs : list dnode) (acc : list dnode) {struct srs} : xres (list dnode) :=
    match srs with
    | [] => XOk []
    | sr :: srs' =>
        match lookup_row keys sr acc with
        | Some j =>
            let tr := nth j acc (DCont []) in
            xbind (rec row sr tr false) (fun sr' =>
              xbind (rows srs' (set_nth j (merge_one row sr' tr false) acc)) (fun r => XOk (sr' :: r)))
        | None =>
            xbind (rec row sr (empty_node row) true) (fun sr' =>
              xbind (rows srs' (acc ++ [merge_one row sr' (empty_node row) true])) (fun r => XOk (sr' :: r)))
        end
    end.

Fixpoint wrestrict (s : snode) (src tgt : dnode) (new : bool) {struct s} : xres dnode :=
  match s, src, tgt with
  | SCont _ kids, DCont sc, DCont tc =>
      xbind (wr_kids wrestrict new kids kids sc [] tc) (fun c => XOk (DCont c))
  | SList _ keys row, DList srows, DList trows =>
      xbind (wr_rows wrestrict keys row srows trows) (fun r => XOk (DList r))
  | _, _, _ => XUnsup
  end.

(** at a container-like entry point (what [wupsert] edits) *)
Definition wrestrict_content (kids : list snode) (src tgt : content) : xres content :=
  wr_kids wrestrict false kids kids src [] tgt.

(** * every condition the writer meets holds *)
Definition wt_kids (rec : snode -> dnode -> dnode -> bool -> bool) (created : bool) (kids : list snode)
  : list snode -> content -> content -> content -> bool :=
  fix go (ks : list snode) (sc pre rest : content) {struct ks} : bool :=
    match ks, sc, rest with
    | k :: ks', sd :: sc', td :: rest' =>
        match k with
        | SLeaf _ _ _ dflt =>
            let v := match sd with
                     | Some d => Some d
                     | None => if created then option_map DLeaf dflt else None
                     end in
            match v with
            | None => go ks' sc' (pre ++ [td]) rest'
            | Some d =>
                match when_field true [] kids (pre ++ td :: rest') k with
                | XOk true => go ks' sc' (pre ++ [Some d]) rest'
                | _ => false
                end
            end
        | SCont _ kk =>
            match sd with
            | None => go ks' sc' (pre ++ [td]) rest'
            | Some sdn =>
                match td with
                | Some (DCont cc as t) =>
                    match when_cont true [] [] [] k cc with
                    | XOk true => rec k sdn t false && go ks' sc' (pre ++ [Some (merge_one k sdn t false)]) rest'
                    | _ => false
                    end
                | Some _ => false
                | None =>
                    match when_cont true [] [] [] k (empty_content kk) with
                    | XOk true =>
                        rec k sdn (empty_node k) true
                        && go ks' sc' (pre ++ [Some (merge_one k sdn (empty_node k) true)]) rest'
                    | _ => false
                    end
                end
            end
        | SList _ _ _ =>
            match sd with
            | None => go ks' sc' (pre ++ [td]) rest'
            | Some sdn =>
                let t := match td with Some t => t | None => empty_node k end in
                let c := negb (present td) in
                negb (has_when k) && rec k sdn t c
                && go ks' sc' (pre ++ [Some (merge_one k sdn t c)]) rest'
            end
        end
    | _, _, _ => true
    end.

Definition wt_rows (rec : snode -> dnode -> dnode -> bool -> bool) (keys : list nat) (row : snode)
  : list dnode -> list dnode -> bool :=
  fix rows (srs : list dnode) (acc : list dnode) {struct srs} : bool :=
    match srs with
    | [] => true
    | sr :: srs' =>
        match lookup_row keys sr acc with
        | Some j =>
            let tr := nth j acc (DCont []) in
            rec row sr tr false && rows srs' (set_nth j (merge_one row sr tr false) acc)
        | None =>
            rec row sr (empty_node row) true && rows srs' (acc ++ [merge_one row sr (empty_node row) true])
        end
    end.

Fixpoint wwhens_true (s : snode) (src tgt : dnode) (new : bool) {struct s} : bool :=
  match s, src, tgt with
  | SCont _ kids, DCont sc, DCont tc => wt_kids wwhens_true new kids kids sc [] tc
  | SList _ keys row, DList srows, DList trows => wt_rows wwhens_true keys row srows trows
  | _, _, _ => false
  end.

Definition wwhens_true_content (kids : list snode) (src tgt : content) : bool :=
  wt_kids wwhens_true false kids kids src [] tgt.

(** * the schemas the general theorem speaks about (besides choice-free and well-formed):
    a conditional leaf has no default (a default that is NOT written because the condition is false cannot be
    expressed by removing something from the source), and list keys are unconditional leaves (YANG 1.1
    forbids 'when' on keys; the restricted entry must address the same entry). *)
Definition keys_uncond (keys : list nat) (row : snode) : bool :=
  forallb (fun i => match nth_error (skids row) i with
                    | Some (SLeaf m _ _ _) => match nm_when m with None => true | Some _ => false end
                    | _ => false
                    end) keys.

Fixpoint when_schema_ok (s : snode) : bool :=
  match s with
  | SLeaf m _ _ dflt => match nm_when m, dflt with Some _, Some _ => false | _, _ => true end
  | SCont _ kids => forallb when_schema_ok kids
  | SList _ keys row => keys_uncond keys row && when_schema_ok row
  end.
