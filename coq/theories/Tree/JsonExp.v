(** What JSON a YANG data tree must be (RFC 7951 as far as the C15/C04 properties state it),
    written declaratively: [expected] maps the exported content to an expectation tree [jexp]
    (containers are objects, lists arrays of objects, leaf-lists arrays, type empty is [null],
    member names are schema identifiers qualified by the defining module at the top level and
    where the module changes), and [matches] says when a decoded JSON value meets an expectation
    (numbers by exact numeric value, decimal64 by "rounds to the stored binary64", objects as
    unordered sets of uniquely named members).  No tokens, commas or whitespace here. *)
From Coq Require Import ZArith List Bool Strings.Byte.
From YV Require Import Val.Model Tree.Schema Tree.Export Tree.JStr Tree.JsonSpec.
Import ListNotations.
Open Scope Z_scope.

Record wcfg := mkCfg { c_pretty : bool; c_enum_ids : bool; c_qualify : bool }.

(** RFC 7951 section 4 as JSONWtr.ident applies it: a member name is qualified with the name of
    the module that defines the node when the node sits directly below the module ([top]) or its
    defining module differs from its parent's ([pmod]) - if qualification is switched on *)
Definition member_name (qualify top : bool) (pmod : ident) (m : nmeta) : list byte :=
  if (top || negb (ident_eqb pmod (nm_mod m))) && qualify
  then nm_mod m ++ x3a :: nm_name m else nm_name m.

(** strings.Join(labels, " ") *)
Fixpoint join_sp (l : list ident) : list byte :=
  match l with
  | [] => []
  | [x] => x
  | x :: tl => x ++ x20 :: join_sp tl
  end.

Inductive jexp :=
| EStr (s : list byte)
| EInt (z : Z)
| EDec (m e : Z)               (* the binary64 m * 2^e *)
| EBool (b : bool)
| EEmpty                       (* [null] *)
| EArr (items : list jexp)
| EObj (members : list (list byte * jexp)).

Section Expect.
  Variable cfg : wcfg.
  Variable idmod : ident -> option ident.   (* module defining an identity (meta.FindIdentity + RootModule) *)

  (** one scalar; [lmod]: the module defining the leaf (identities of another module are prefixed) *)
  Definition eitem (lmod : ident) (v : lval) : option jexp :=
    match v with
    | LV (VInt _ z) => Some (EInt z)
    | LV (VDec m e) => Some (EDec m e)
    | LV (VStr s) => Some (EStr s)
    | LV (VBin s) => Some (EStr s)
    | LV (VBool b) => Some (EBool b)
    | LV (VEnum id l) => Some (if c_enum_ids cfg then EInt id else EStr l)
    | LV (VIdRef l) =>
        match idmod l with
        | Some im => Some (EStr (if ident_eqb im lmod then l else im ++ x3a :: l))
        | None => None
        end
    | LEmpty => Some EEmpty
    | LBits names => Some (EStr (join_sp names))
    | LList _ => None
    end.

  Fixpoint eitems (lmod : ident) (l : list lval) : option (list jexp) :=
    match l with
    | [] => Some []
    | v :: tl =>
        match eitem lmod v, eitems lmod tl with
        | Some e, Some es => Some (e :: es)
        | _, _ => None
        end
    end.

  Definition evalue (lmod : ident) (v : lval) : option jexp :=
    match v with
    | LList items => option_map EArr (eitems lmod items)
    | _ => eitem lmod v
    end.

  (** members of a container-like node from its (exported, aligned) content *)
  Definition ekids (ekid : snode -> dnode -> option jexp) (top : bool) (pmod : ident)
    : list snode -> content -> option (list (list byte * jexp)) :=
    fix go ks cs :=
      match ks, cs with
      | k :: ks', Some dk :: cs' =>
          match ekid k dk, go ks' cs' with
          | Some e, Some ms => Some ((member_name (c_qualify cfg) top pmod (smeta k), e) :: ms)
          | _, _ => None
          end
      | _ :: ks', None :: cs' => go ks' cs'
      | [], [] => Some []
      | _, _ => None
      end.

  Definition erows (erow : dnode -> option jexp) : list dnode -> option (list jexp) :=
    fix go rs :=
      match rs with
      | [] => Some []
      | r :: rs' => match erow r, go rs' with Some e, Some es => Some (e :: es) | _, _ => None end
      end.

  (** the JSON value standing for node [s] with data [d] *)
  Fixpoint enode (top : bool) (s : snode) (d : dnode) {struct s} : option jexp :=
    match s, d with
    | SLeaf m _ _ _, DLeaf v => evalue (nm_mod m) v
    | SCont m kids, DCont c => option_map EObj (ekids (fun k dk => enode false k dk) top (nm_mod m) kids c)
    | SList m _ row, DList rows =>
        match row with
        | SCont _ _ => option_map EArr (erows (fun r => enode false row r) rows)   (* an entry is an object *)
        | _ => None
        end
    | _, _ => None
    end.

  (** the document for a read-out beginning at [st]: always one object; a list or a leaf start is
      wrapped in an object with that single member (unset leaf: the empty object) *)
  Definition estart (st : start) : option jexp :=
    match st with
    | StCont top s d => match s with SCont _ _ => enode top s (visit false s d) | _ => None end
    | StList top pmod s d =>
        match s with
        | SList _ _ _ =>
            option_map (fun e => EObj [(member_name (c_qualify cfg) top pmod (smeta s), e)])
                       (enode false s (visit true s d))
        | _ => None
        end
    | StLeaf m v =>
        match v with
        | None => Some (EObj [])
        | Some v => option_map (fun e => EObj [(member_name (c_qualify cfg) false (nm_mod m) m, e)])
                               (evalue (nm_mod m) v)
        end
    end.
End Expect.

(** every string the expectation mentions is well-formed UTF-8 (JSON cannot carry anything else) *)
Fixpoint exp_utf8 (e : jexp) : bool :=
  match e with
  | EStr s => valid_utf8 s
  | EArr l => forallb exp_utf8 l
  | EObj ms => forallb (fun kv => valid_utf8 (fst kv) && exp_utf8 (snd kv)) ms
  | _ => true
  end.

(** * when a decoded value meets an expectation *)

(** the number denotes exactly the integer [z] *)
Definition num_is_int (l : list byte) (z : Z) : bool :=
  match num_parse l with
  | Some (d, k) => if 0 <=? k then d * 10 ^ k =? z else d =? z * 10 ^ (- k)
  | None => false
  end.

(** the number rounds (to nearest) to the binary64 m * 2^e: with M = |m| scaled to 53 bits and E the
    matching exponent, the decimal value lies strictly within half a unit in the last place of
    M * 2^E (a quarter below when M is a power of two, where the spacing halves). Sub-normal
    numbers do not occur (decimal64). *)
Fixpoint norm53 (fuel : nat) (m e : Z) : Z * Z :=
  match fuel with
  | O => (m, e)
  | S f => if m <? 4503599627370496 then norm53 f (2 * m) (e - 1) else (m, e)
  end.
Definition num_is_dec (l : list byte) (m e : Z) : bool :=
  match num_parse l with
  | None => false
  | Some (d, k) =>
      if m =? 0 then d =? 0
      else
        let '(M, E) := norm53 64 (Z.abs m) e in
        let sgn := if m <? 0 then -1 else 1 in
        let a := Z.max 0 (- k) in
        let b := Z.max 0 (3 - E) in
        (* everything times 10^a * 2^b *)
        let X := d * 10 ^ (k + a) * 2 ^ b in
        let Y := sgn * M * 2 ^ (E + b) * 10 ^ a in
        let H := 2 ^ (E - 1 + b) * 10 ^ a in        (* half ulp *)
        let diff := Z.abs (X - Y) in
        let below := Z.abs X <? Z.abs Y in
        if below && (M =? 4503599627370496) then 2 * diff <? H else diff <? H
  end.

Definition find_member (k : list byte) (ms : list (list byte * jvalue)) : option jvalue :=
  match find (fun kv => bytes_eqb (fst kv) k) ms with Some kv => Some (snd kv) | None => None end.

Fixpoint keys_nodup (ks : list (list byte)) : bool :=
  match ks with
  | [] => true
  | k :: tl => negb (existsb (bytes_eqb k) tl) && keys_nodup tl
  end.

Definition all2 (f : jexp -> jvalue -> bool) : list jexp -> list jvalue -> bool :=
  fix go es vs :=
    match es, vs with
    | [], [] => true
    | e :: es', v :: vs' => f e v && go es' vs'
    | _, _ => false
    end.

(** every expected member is present (first member of that name) and meets its expectation *)
Definition all_members (f : jexp -> jvalue -> bool) (vs : list (list byte * jvalue))
  : list (list byte * jexp) -> bool :=
  fix go ms :=
    match ms with
    | [] => true
    | (k, e) :: ms' => match find_member k vs with Some v => f e v | None => false end && go ms'
    end.

Fixpoint matches (e : jexp) (v : jvalue) {struct e} : bool :=
  match e, v with
  | EStr s, JStr s' => bytes_eqb s s'
  | EInt z, JNum l => num_is_int l z
  | EDec m x, JNum l => num_is_dec l m x
  | EBool b, JBool b' => Bool.eqb b b'
  | EEmpty, JArr [JNull] => true
  | EArr es, JArr vs => all2 matches es vs
  | EObj ms, JObj vs =>
      (* same number of members, expected names pairwise distinct, each found: the member sets coincide *)
      Nat.eqb (length ms) (length vs) && keys_nodup (map fst ms) && all_members matches vs ms
  | _, _ => false
  end.
