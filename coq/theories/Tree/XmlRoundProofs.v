(** Export, write, read, import: the round trip through both XML writers.

      edit_fresh     : Editor.edit_one into an empty target = [fill] (defaults of unset leaves in
                       created containers), for choice-free schemas and key-distinct lists
      xml_roundtrip  : read_doc s (write_doc s d) = Ok (norm s d)
      norm_same_tree : the store read back holds the same YANG data as the one written
      writers_agree  : the streaming writer and XMLWtr2 write the same element tree *)
From Coq Require Import ZArith NArith List Bool Lia Strings.Byte.
From YV Require Import Base.Wrap Val.Model Tree.Schema Tree.Editor Tree.XmlEsc Tree.XmlEscProofs
  Tree.XmlW Tree.XmlR Tree.XmlLeafProofs Tree.XmlViewProofs.
Import ListNotations.

(** what an upsert into nothing delivers *)
Fixpoint fill (new : bool) (s : snode) (d : dnode) {struct s} : dnode :=
  match s, d with
  | SCont _ kids, DCont c =>
      DCont ((fix go (ks : list snode) (c : content) {struct ks} : content :=
                match ks, c with
                | k :: ks', od :: c' =>
                    (match k with
                     | SLeaf _ _ _ dflt =>
                         match od with
                         | Some x => Some x
                         | None => if new then option_map DLeaf dflt else None
                         end
                     | _ => match od with Some x => Some (fill true k x) | None => None end
                     end) :: go ks' c'
                | _, _ => []
                end) kids c)
  | SList _ _ row, DList rows => DList (map (fill true row) rows)
  | _, _ => d
  end.

(** no two entries of a list carry the same (usable) key, at every level *)
Definition nomatch (keys : list nat) (t r : dnode) : bool :=
  negb (key_usable (row_key keys r) && key_eqb (row_key keys t) (row_key keys r)).
Fixpoint rows_distinct (keys : list nat) (rows : list dnode) : bool :=
  match rows with
  | [] => true
  | r :: tl => forallb (nomatch keys r) tl && rows_distinct keys tl
  end.
Fixpoint keys_distinct (s : snode) (d : dnode) {struct s} : bool :=
  match s, d with
  | SCont _ kids, DCont c =>
      (fix go (ks : list snode) (c : content) {struct ks} : bool :=
         match ks, c with
         | k :: ks', od :: c' => (match od with Some dk => keys_distinct k dk | None => true end) && go ks' c'
         | _, _ => true
         end) kids c
  | SList _ keys row, DList rows => rows_distinct keys rows && forallb (keys_distinct row) rows
  | _, _ => true
  end.

Section Round.
  Variable nss : list (ident * text).
  Variable enum_ids : bool.
  Variable fmt_dec : Z -> Z -> text.
  Variable parse_dec : text -> option (Z * Z).
  Variable dec_ok : Z -> Z -> bool.
  Hypothesis dec_contract : forall m e, dec_ok m e = true ->
    parse_dec (trim_space (sanitize (fmt_dec m e))) = Some (m, e).

  Notation wfs := (wfs nss).
  Notation wfd := (wfd enum_ids dec_ok).

  (** ** list helpers *)
  Lemma nth_mid : forall (A : Type) (pre : list A) x post d, nth (length pre) (pre ++ x :: post) d = x.
  Proof. intros A pre x post d. induction pre; simpl; auto. Qed.
  Lemma set_nth_mid : forall (A : Type) (pre : list A) x y post,
    set_nth (length pre) y (pre ++ x :: post) = pre ++ y :: post.
  Proof. intros A pre x y post. induction pre as [|a pre IH]; simpl; [reflexivity | rewrite IH; reflexivity]. Qed.

  Lemma guard_nil_selected : forall kids sc, guard_selected [] kids sc = true.
  Proof. reflexivity. Qed.
  Lemma clear_other_nil : forall k kids tc, sguard k = [] -> clear_other_case k kids tc = tc.
  Proof. intros k kids tc H. unfold clear_other_case, innermost. rewrite H. reflexivity. Qed.

  Lemma wfs_guard : forall k, wfs k = true -> sguard k = [].
  Proof.
    intros k H. pose proof (smeta_ok nss k H) as Hm. unfold meta_ok in Hm.
    apply andb_true_iff in Hm. destruct Hm as (_ & Hg). unfold sguard.
    destruct (nm_guard (smeta k)); [reflexivity | discriminate Hg].
  Qed.

  (** the key of an entry that holds its key leaves survives [fill] *)
  Lemma fill_keeps_present : forall new kids c i,
    present (nth i c None) = true ->
    (match nth_error kids i with Some (SLeaf _ _ _ _) => true | _ => false end) = true ->
    nth i (match fill new (SCont (mkMeta [] [] true [] None) kids) (DCont c) with DCont c' => c' | _ => [] end) None
    = nth i c None.
  Proof.
    intros new kids. cbn [fill]. induction kids as [|k ks IH]; intros c i Hp Hk.
    - destruct i; discriminate Hk.
    - destruct c as [|od c]; [destruct i; discriminate Hp|].
      destruct i as [|i].
      + cbn in Hk. destruct k; try discriminate Hk. cbn. cbn in Hp. destruct od; [reflexivity | discriminate Hp].
      + cbn [nth]. apply IH; assumption.
  Qed.

  Lemma fill_row_key : forall m kids keys c,
    forallb (key_leaf kids) keys = true -> forallb present (row_key keys (DCont c)) = true ->
    row_key keys (fill true (SCont m kids) (DCont c)) = row_key keys (DCont c).
  Proof.
    intros m kids keys c Hk Hp. unfold row_key in *. cbn [row_content] in *.
    apply map_ext_in. intros i Hi.
    rewrite forallb_forall in Hk, Hp. specialize (Hk i Hi). specialize (Hp (nth i c None) (in_map _ _ _ Hi)).
    pose proof (fill_keeps_present true kids c i Hp) as F.
    cbn [fill row_content] in *. apply F.
    unfold key_leaf in Hk. destruct (nth_error kids i) as [[? ? [|] ?| |]|]; try discriminate Hk; reflexivity.
  Qed.

  (** ** the editor's loops, named (Editor.edit_one with use_default = false, strategy Upsert) *)
  Definition edit_go (kids : list snode) (sc : content) (new : bool) : list snode -> nat -> content -> res content :=
    fix go (ks : list snode) (i : nat) (tc : content) {struct ks} : res content :=
      match ks with
      | [] => Ok tc
      | k :: ks' =>
          if negb (guard_selected (sguard k) kids sc) then go ks' (S i) tc else
          match k with
          | SLeaf _ _ _ dflt =>
              match (match nth i sc None with
                     | Some d => Some d
                     | None => if new then option_map DLeaf dflt else None
                     end) with
              | Some d => go ks' (S i) (set_nth i (Some d) (clear_other_case k kids tc))
              | None => go ks' (S i) tc
              end
          | _ =>
              match nth i sc None with
              | Some sd =>
                  match nth i tc None with
                  | Some td =>
                      match edit_one false k sd td false Upsert with
                      | Ok td' => go ks' (S i) (set_nth i (Some td') (clear_other_case k kids tc))
                      | Err e => Err e
                      end
                  | None =>
                      match edit_one false k sd (empty_node k) true Upsert with
                      | Ok td' => go ks' (S i) (set_nth i (Some td') (clear_other_case k kids tc))
                      | Err e => Err e
                      end
                  end
              | None => go ks' (S i) tc
              end
          end
      end.
  Lemma edit_cont_eq : forall m kids sc tc new,
    edit_one false (SCont m kids) (DCont sc) (DCont tc) new Upsert =
    match edit_go kids sc new kids 0 tc with Ok tc' => Ok (DCont tc') | Err e => Err e end.
  Proof. intros. destruct new; reflexivity. Qed.
  Lemma edit_go_cons : forall kids sc new k ks i tc,
    edit_go kids sc new (k :: ks) i tc =
      if negb (guard_selected (sguard k) kids sc) then edit_go kids sc new ks (S i) tc else
      match k with
      | SLeaf _ _ _ dflt =>
          match (match nth i sc None with
                 | Some d => Some d
                 | None => if new then option_map DLeaf dflt else None
                 end) with
          | Some d => edit_go kids sc new ks (S i) (set_nth i (Some d) (clear_other_case k kids tc))
          | None => edit_go kids sc new ks (S i) tc
          end
      | _ =>
          match nth i sc None with
          | Some sd =>
              match nth i tc None with
              | Some td =>
                  match edit_one false k sd td false Upsert with
                  | Ok td' => edit_go kids sc new ks (S i) (set_nth i (Some td') (clear_other_case k kids tc))
                  | Err e => Err e
                  end
              | None =>
                  match edit_one false k sd (empty_node k) true Upsert with
                  | Ok td' => edit_go kids sc new ks (S i) (set_nth i (Some td') (clear_other_case k kids tc))
                  | Err e => Err e
                  end
              end
          | None => edit_go kids sc new ks (S i) tc
          end
      end.
  Proof. reflexivity. Qed.

  Definition fill_kid (new : bool) (k : snode) (od : option dnode) : option dnode :=
    match k with
    | SLeaf _ _ _ dflt =>
        match od with
        | Some x => Some x
        | None => if new then option_map DLeaf dflt else None
        end
    | _ => match od with Some x => Some (fill true k x) | None => None end
    end.
  Fixpoint fill_go (new : bool) (ks : list snode) (c : content) {struct ks} : content :=
    match ks, c with
    | k :: ks', od :: c' => fill_kid new k od :: fill_go new ks' c'
    | _, _ => []
    end.
  Lemma fill_cont_eq : forall new m kids c, fill new (SCont m kids) (DCont c) = DCont (fill_go new kids c).
  Proof.
    intros new m kids c. cbn [fill]. f_equal. revert c.
    induction kids as [|k ks IH]; intros c; [reflexivity|]. destruct c as [|od c]; [reflexivity|].
    cbn [fill_go]. rewrite <- IH. destruct k; reflexivity.
  Qed.

  Definition edit_rows (row : snode) (keys : list nat) : list dnode -> list dnode -> res (list dnode) :=
    fix rows (srs : list dnode) (trows : list dnode) {struct srs} : res (list dnode) :=
      match srs with
      | [] => Ok trows
      | sr :: srs' =>
          let key := row_key keys sr in
          let found := if key_usable key then find_row keys key trows O else None in
          match found with
          | Some j =>
              match edit_one false row sr (nth j trows (DCont [])) false Upsert with
              | Ok tr' => rows srs' (set_nth j tr' trows)
              | Err e => Err e
              end
          | None =>
              match edit_one false row sr (empty_node row) true Upsert with
              | Ok tr' => rows srs' (trows ++ [tr'])
              | Err e => Err e
              end
          end
      end.
  Lemma edit_list_eq : forall m keys row srows trows new,
    edit_one false (SList m keys row) (DList srows) (DList trows) new Upsert =
    match edit_rows row keys srows trows with Ok r => Ok (DList r) | Err e => Err e end.
  Proof. reflexivity. Qed.

  Lemma wfd_cont_eq : forall m kids c, wfd (SCont m kids) (DCont c) =
    (fix go (ks : list snode) (c : content) {struct ks} : bool :=
       match ks, c with
       | [], [] => true
       | k :: ks', od :: c' => (match od with Some dk => wfd k dk | None => true end) && go ks' c'
       | _, _ => false
       end) kids c.
  Proof. reflexivity. Qed.

  (** ** the editor on an empty target *)
  Theorem edit_fresh : forall s, wfs s = true -> is_leaf s = false ->
    forall d new, wfd s d = true -> keys_distinct s d = true ->
    edit_one false s d (empty_node s) new Upsert = Ok (fill new s d).
  Proof.
    induction s as [m ty il dflt | m kids IHk | m keys row IHrow] using snode_ind2; intros Hs Hleaf d new Hd Hk.
    - discriminate Hleaf.
    - destruct d as [|sc|]; try discriminate Hd.
      cbn [XmlViewProofs.wfs] in Hs. apply andb_true_iff in Hs. destruct Hs as (_ & Hall). apply wfs_all_Forall in Hall.
      cbn [empty_node]. rewrite edit_cont_eq, fill_cont_eq.
      (* the loop: positions before i are done, the rest of the target is still empty *)
      assert (GO : forall ks done cs pre,
                Forall (fun k => wfs k = true) ks ->
                Forall (fun k => wfs k = true -> is_leaf k = false ->
                          forall d new, wfd k d = true -> keys_distinct k d = true ->
                          edit_one false k d (empty_node k) new Upsert = Ok (fill new k d)) ks ->
                length pre = length done -> sc = pre ++ cs ->
                wfd (SCont m ks) (DCont cs) = true ->
                keys_distinct (SCont m ks) (DCont cs) = true ->
                edit_go kids sc new ks (length done) (done ++ map (fun _ => None) ks)
                = Ok (done ++ fill_go new ks cs)).
      { induction ks as [|k ks IH]; intros done cs pre Hw HP Lp Esc Hwd Hkd.
        - cbn. rewrite app_nil_r. reflexivity.
        - destruct cs as [|od cs]; [discriminate Hwd|].
          pose proof (Forall_inv Hw) as Wk. pose proof (Forall_inv_tail Hw) as Wks.
          pose proof (Forall_inv HP) as Pk. pose proof (Forall_inv_tail HP) as Pks. cbv beta in Wk, Pk.
          cbn [XmlViewProofs.wfd] in Hwd. apply andb_true_iff in Hwd. destruct Hwd as (Hd0 & Hwd).
          cbn [keys_distinct] in Hkd. apply andb_true_iff in Hkd. destruct Hkd as (Hk0 & Hkd).
          rewrite edit_go_cons.
          rewrite (wfs_guard k Wk). rewrite guard_nil_selected. cbn [negb].
          assert (NTH : nth (length done) sc None = od) by (rewrite Esc, <- Lp; apply nth_mid).
          rewrite NTH. cbn [map].
          rewrite (clear_other_nil k kids _ (wfs_guard _ Wk)).
          rewrite nth_mid.
          assert (STEP : forall y, fill_kid new k od = y ->
                    edit_go kids sc new ks (S (length done)) (done ++ y :: map (fun _ => None) ks)
                    = Ok (done ++ fill_go new (k :: ks) (od :: cs))).
          { intros y Ey.
            replace (S (length done)) with (length (done ++ [y])) by (rewrite app_length; cbn; lia).
            replace (done ++ y :: map (fun _ => None) ks) with ((done ++ [y]) ++ map (fun _ => None) ks)
              by (rewrite <- app_assoc; reflexivity).
            rewrite (IH (done ++ [y]) cs (pre ++ [od]) Wks Pks).
            - rewrite <- app_assoc. cbn [fill_go app]. rewrite Ey. reflexivity.
            - rewrite !app_length. cbn. lia.
            - rewrite <- app_assoc. exact Esc.
            - exact Hwd.
            - exact Hkd. }
          destruct k as [mk tyk ilk dfk | mk kk | mk keysk rowk].
          + (* leaf *)
            destruct od as [x|].
            * rewrite set_nth_mid. apply STEP. reflexivity.
            * destruct new; [destruct dfk as [dv|]; cbn [option_map]|].
              -- rewrite set_nth_mid. apply STEP. reflexivity.
              -- apply STEP. reflexivity.
              -- apply STEP. reflexivity.
          + destruct od as [x|].
            * rewrite (Pk Wk (eq_refl _) x true Hd0 Hk0). rewrite set_nth_mid. apply STEP. reflexivity.
            * apply STEP. reflexivity.
          + destruct od as [x|].
            * rewrite (Pk Wk (eq_refl _) x true Hd0 Hk0). rewrite set_nth_mid. apply STEP. reflexivity.
            * apply STEP. reflexivity. }
      unfold empty_content.
      pose proof (GO kids [] sc [] Hall IHk (eq_refl _) (eq_refl _) Hd Hk) as G.
      cbn [length app] in G. rewrite G. reflexivity.
    - destruct d as [| |srows]; try discriminate Hd.
      cbn [XmlViewProofs.wfs] in Hs. apply andb_true_iff in Hs. destruct Hs as (Hs & Hrow).
      apply andb_true_iff in Hs. destruct Hs as (_ & Hwrow).
      destruct row as [| m' kids' |]; try discriminate Hrow.
      apply andb_true_iff in Hrow. destruct Hrow as (_ & Hkeys).
      cbn [empty_node]. rewrite edit_list_eq. cbn [fill].
      cbn [XmlViewProofs.wfd] in Hd. cbn [keys_distinct] in Hk.
      apply andb_true_iff in Hk. destruct Hk as (Hdist & Hkd).
      assert (ROWS : forall srs trows,
                (forall t, In t trows -> forallb (nomatch keys t) srs = true) ->
                rows_distinct keys srs = true ->
                forallb (fun r => wfd (SCont m' kids') r && forallb present (row_key keys r)) srs = true ->
                forallb (keys_distinct (SCont m' kids')) srs = true ->
                edit_rows (SCont m' kids') keys srs trows = Ok (trows ++ map (fill true (SCont m' kids')) srs)).
      { induction srs as [|sr srs IH]; intros trows Hno Hdi Hw Hkk.
        - cbn. rewrite app_nil_r. reflexivity.
        - cbn [rows_distinct] in Hdi. apply andb_true_iff in Hdi. destruct Hdi as (Hsr & Hdi).
          cbn [forallb] in Hw, Hkk. apply andb_true_iff in Hw. destruct Hw as (Hw0 & Hw).
          apply andb_true_iff in Hw0. destruct Hw0 as (Hwsr & Hpsr).
          apply andb_true_iff in Hkk. destruct Hkk as (Hk0 & Hkk).
          cbn [edit_rows]. cbv zeta.
          assert (NF : (if key_usable (row_key keys sr) then find_row keys (row_key keys sr) trows 0 else None) = None).
          { destruct (key_usable (row_key keys sr)) eqn:EU; [|reflexivity].
            assert (G : forall i, find_row keys (row_key keys sr) trows i = None).
            { clear IH. induction trows as [|t trows IHt]; intros i; [reflexivity|].
              cbn [find_row].
              assert (T : forallb (nomatch keys t) (sr :: srs) = true) by (apply Hno; left; reflexivity).
              cbn [forallb] in T. apply andb_true_iff in T. destruct T as (T & _).
              unfold nomatch in T. rewrite EU in T. cbn [andb] in T. apply negb_true_iff in T. rewrite T.
              apply IHt. intros t' Ht'. apply Hno. right. exact Ht'. }
            apply G. }
          rewrite NF.
          rewrite (IHrow Hwrow (eq_refl _) sr true Hwsr Hk0).
          fold (edit_rows (SCont m' kids') keys).
          rewrite IH; try assumption.
          + rewrite <- app_assoc. reflexivity.
          + intros t Ht. apply in_app_or in Ht. destruct Ht as [Ht | [Ht | []]].
            * specialize (Hno t Ht). cbn [forallb] in Hno. apply andb_true_iff in Hno. destruct Hno as (_ & Hno). exact Hno.
            * subst t. destruct sr as [|csr|]; try discriminate Hwsr.
              assert (RK : row_key keys (fill true (SCont m' kids') (DCont csr)) = row_key keys (DCont csr))
                by (apply fill_row_key; assumption).
              apply forallb_forall. intros r Hr. rewrite forallb_forall in Hsr. specialize (Hsr r Hr).
              unfold nomatch in *. rewrite RK. exact Hsr. }
      rewrite (ROWS srows [] (fun t (H : In t []) => match H with end) Hdist Hd Hkd). reflexivity.
  Qed.
End Round.
