(** Export, write, read, import: the round trip through both XML writers.

      edit_fresh     : Editor.edit_one into an empty target = [fill] (defaults of unset leaves in
                       created containers), for choice-free schemas and key-distinct lists
      xml_roundtrip  : read_doc s (write_doc s d) = Ok (norm s d)
      norm_same_tree : the store read back holds the same YANG data as the one written
      writers_agree  : the streaming writer and XMLWtr2 write the same element tree *)
From Coq Require Import ZArith NArith List Bool Lia Strings.Byte.
From YV Require Import Base.Wrap Val.Model Tree.Schema Tree.Editor Tree.XmlEsc Tree.XmlEscProofs
  Tree.XmlW Tree.XmlR Tree.XmlLeafProofs Tree.XmlViewProofs.
Import ListNotations.

(** what an upsert into nothing delivers *)
Fixpoint fill (new : bool) (s : snode) (d : dnode) {struct s} : dnode :=
  match s, d with
  | SCont _ kids, DCont c =>
      DCont ((fix go (ks : list snode) (c : content) {struct ks} : content :=
                match ks, c with
                | k :: ks', od :: c' =>
                    (match k with
                     | SLeaf _ _ _ dflt =>
                         match od with
                         | Some x => Some x
                         | None => if new then option_map DLeaf dflt else None
                         end
                     | _ => match od with Some x => Some (fill true k x) | None => None end
                     end) :: go ks' c'
                | _, _ => []
                end) kids c)
  | SList _ _ row, DList rows => DList (map (fill true row) rows)
  | _, _ => d
  end.

(** no two entries of a list carry the same (usable) key, at every level *)
Definition nomatch (keys : list nat) (t r : dnode) : bool :=
  negb (key_usable (row_key keys r) && key_eqb (row_key keys t) (row_key keys r)).
Fixpoint rows_distinct (keys : list nat) (rows : list dnode) : bool :=
  match rows with
  | [] => true
  | r :: tl => forallb (nomatch keys r) tl && rows_distinct keys tl
  end.
Fixpoint keys_distinct (s : snode) (d : dnode) {struct s} : bool :=
  match s, d with
  | SCont _ kids, DCont c =>
      (fix go (ks : list snode) (c : content) {struct ks} : bool :=
         match ks, c with
         | k :: ks', od :: c' => (match od with Some dk => keys_distinct k dk | None => true end) && go ks' c'
         | _, _ => true
         end) kids c
  | SList _ keys row, DList rows => rows_distinct keys rows && forallb (keys_distinct row) rows
  | _, _ => true
  end.

Section Round.
  Variable nss : list (ident * text).
  Variable enum_ids : bool.
  Variable fmt_dec : Z -> Z -> text.
  Variable parse_dec : text -> option (Z * Z).
  Variable dec_ok : Z -> Z -> bool.
  Hypothesis dec_contract : forall m e, dec_ok m e = true ->
    parse_dec (trim_space (sanitize (fmt_dec m e))) = Some (m, e).

  Notation wfs := (wfs nss).
  Notation wfd := (wfd enum_ids dec_ok).

  (** ** list helpers *)
  Lemma nth_mid : forall (A : Type) (pre : list A) x post d, nth (length pre) (pre ++ x :: post) d = x.
  Proof. intros A pre x post d. induction pre; simpl; auto. Qed.
  Lemma set_nth_mid : forall (A : Type) (pre : list A) x y post,
    set_nth (length pre) y (pre ++ x :: post) = pre ++ y :: post.
  Proof. intros A pre x y post. induction pre as [|a pre IH]; simpl; [reflexivity | rewrite IH; reflexivity]. Qed.

  Lemma guard_nil_selected : forall kids sc, guard_selected [] kids sc = true.
  Proof. reflexivity. Qed.
  Lemma clear_other_nil : forall k kids tc, sguard k = [] -> clear_other_case k kids tc = tc.
  Proof. intros k kids tc H. unfold clear_other_case, innermost. rewrite H. reflexivity. Qed.

  Lemma wfs_guard : forall k, wfs k = true -> sguard k = [].
  Proof.
    intros k H. pose proof (smeta_ok nss k H) as Hm. unfold meta_ok in Hm.
    apply andb_true_iff in Hm. destruct Hm as (_ & Hg). unfold sguard.
    destruct (nm_guard (smeta k)); [reflexivity | discriminate Hg].
  Qed.

  (** the key of an entry that holds its key leaves survives [fill] *)
  Lemma fill_keeps_present : forall new kids c i,
    present (nth i c None) = true ->
    (match nth_error kids i with Some (SLeaf _ _ _ _) => true | _ => false end) = true ->
    nth i (match fill new (SCont (mkMeta [] [] true [] None) kids) (DCont c) with DCont c' => c' | _ => [] end) None
    = nth i c None.
  Proof.
    intros new kids. cbn [fill]. induction kids as [|k ks IH]; intros c i Hp Hk.
    - destruct i; discriminate Hk.
    - destruct c as [|od c]; [destruct i; discriminate Hp|].
      destruct i as [|i].
      + cbn in Hk. destruct k; try discriminate Hk. cbn. cbn in Hp. destruct od; [reflexivity | discriminate Hp].
      + cbn [nth]. apply IH; assumption.
  Qed.

  Lemma fill_row_key : forall m kids keys c,
    forallb (key_leaf kids) keys = true -> forallb present (row_key keys (DCont c)) = true ->
    row_key keys (fill true (SCont m kids) (DCont c)) = row_key keys (DCont c).
  Proof.
    intros m kids keys c Hk Hp. unfold row_key in *. cbn [row_content] in *.
    apply map_ext_in. intros i Hi.
    rewrite forallb_forall in Hk, Hp. specialize (Hk i Hi). specialize (Hp (nth i c None) (in_map _ _ _ Hi)).
    pose proof (fill_keeps_present true kids c i Hp) as F.
    cbn [fill row_content] in *. apply F.
    unfold key_leaf in Hk. destruct (nth_error kids i) as [[? ? [|] ?| |]|]; try discriminate Hk; reflexivity.
  Qed.

  (** ** the editor's loops, named (Editor.edit_one with use_default = false, strategy Upsert) *)
  Definition edit_go (kids : list snode) (sc : content) (new : bool) : list snode -> nat -> content -> res content :=
    fix go (ks : list snode) (i : nat) (tc : content) {struct ks} : res content :=
      match ks with
      | [] => Ok tc
      | k :: ks' =>
          if negb (guard_selected (sguard k) kids sc) then go ks' (S i) tc else
          match k with
          | SLeaf _ _ _ dflt =>
              match (match nth i sc None with
                     | Some d => Some d
                     | None => if new then option_map DLeaf dflt else None
                     end) with
              | Some d => go ks' (S i) (set_nth i (Some d) (clear_other_case k kids tc))
              | None => go ks' (S i) tc
              end
          | _ =>
              match nth i sc None with
              | Some sd =>
                  match nth i tc None with
                  | Some td =>
                      match edit_one false k sd td false Upsert with
                      | Ok td' => go ks' (S i) (set_nth i (Some td') (clear_other_case k kids tc))
                      | Err e => Err e
                      end
                  | None =>
                      match edit_one false k sd (empty_node k) true Upsert with
                      | Ok td' => go ks' (S i) (set_nth i (Some td') (clear_other_case k kids tc))
                      | Err e => Err e
                      end
                  end
              | None => go ks' (S i) tc
              end
          end
      end.
  Lemma edit_cont_eq : forall m kids sc tc new,
    edit_one false (SCont m kids) (DCont sc) (DCont tc) new Upsert =
    match edit_go kids sc new kids 0 tc with Ok tc' => Ok (DCont tc') | Err e => Err e end.
  Proof. intros. destruct new; reflexivity. Qed.
  Lemma edit_go_cons : forall kids sc new k ks i tc,
    edit_go kids sc new (k :: ks) i tc =
      if negb (guard_selected (sguard k) kids sc) then edit_go kids sc new ks (S i) tc else
      match k with
      | SLeaf _ _ _ dflt =>
          match (match nth i sc None with
                 | Some d => Some d
                 | None => if new then option_map DLeaf dflt else None
                 end) with
          | Some d => edit_go kids sc new ks (S i) (set_nth i (Some d) (clear_other_case k kids tc))
          | None => edit_go kids sc new ks (S i) tc
          end
      | _ =>
          match nth i sc None with
          | Some sd =>
              match nth i tc None with
              | Some td =>
                  match edit_one false k sd td false Upsert with
                  | Ok td' => edit_go kids sc new ks (S i) (set_nth i (Some td') (clear_other_case k kids tc))
                  | Err e => Err e
                  end
              | None =>
                  match edit_one false k sd (empty_node k) true Upsert with
                  | Ok td' => edit_go kids sc new ks (S i) (set_nth i (Some td') (clear_other_case k kids tc))
                  | Err e => Err e
                  end
              end
          | None => edit_go kids sc new ks (S i) tc
          end
      end.
  Proof. reflexivity. Qed.

  Definition fill_kid (new : bool) (k : snode) (od : option dnode) : option dnode :=
    match k with
    | SLeaf _ _ _ dflt =>
        match od with
        | Some x => Some x
        | None => if new then option_map DLeaf dflt else None
        end
    | _ => match od with Some x => Some (fill true k x) | None => None end
    end.
  Fixpoint fill_go (new : bool) (ks : list snode) (c : content) {struct ks} : content :=
    match ks, c with
    | k :: ks', od :: c' => fill_kid new k od :: fill_go new ks' c'
    | _, _ => []
    end.
  Lemma fill_cont_eq : forall new m kids c, fill new (SCont m kids) (DCont c) = DCont (fill_go new kids c).
  Proof.
    intros new m kids c. cbn [fill]. f_equal. revert c.
    induction kids as [|k ks IH]; intros c; [reflexivity|]. destruct c as [|od c]; [reflexivity|].
    cbn [fill_go]. rewrite <- IH. destruct k; reflexivity.
  Qed.

  Definition edit_rows (row : snode) (keys : list nat) : list dnode -> list dnode -> res (list dnode) :=
    fix rows (srs : list dnode) (trows : list dnode) {struct srs} : res (list dnode) :=
      match srs with
      | [] => Ok trows
      | sr :: srs' =>
          let key := row_key keys sr in
          let found := if key_usable key then find_row keys key trows O else None in
          match found with
          | Some j =>
              match edit_one false row sr (nth j trows (DCont [])) false Upsert with
              | Ok tr' => rows srs' (set_nth j tr' trows)
              | Err e => Err e
              end
          | None =>
              match edit_one false row sr (empty_node row) true Upsert with
              | Ok tr' => rows srs' (trows ++ [tr'])
              | Err e => Err e
              end
          end
      end.
  Lemma edit_list_eq : forall m keys row srows trows new,
    edit_one false (SList m keys row) (DList srows) (DList trows) new Upsert =
    match edit_rows row keys srows trows with Ok r => Ok (DList r) | Err e => Err e end.
  Proof. reflexivity. Qed.

  Lemma wfd_cont_eq : forall m kids c, wfd (SCont m kids) (DCont c) =
    (fix go (ks : list snode) (c : content) {struct ks} : bool :=
       match ks, c with
       | [], [] => true
       | k :: ks', od :: c' => (match od with Some dk => wfd k dk | None => true end) && go ks' c'
       | _, _ => false
       end) kids c.
  Proof. reflexivity. Qed.

  (** ** the editor on an empty target *)
  Theorem edit_fresh : forall s, wfs s = true -> is_leaf s = false ->
    forall d new, wfd s d = true -> keys_distinct s d = true ->
    edit_one false s d (empty_node s) new Upsert = Ok (fill new s d).
  Proof.
    induction s as [m ty il dflt | m kids IHk | m keys row IHrow] using snode_ind2; intros Hs Hleaf d new Hd Hk.
    - discriminate Hleaf.
    - destruct d as [|sc|]; try discriminate Hd.
      cbn [XmlViewProofs.wfs] in Hs. apply andb_true_iff in Hs. destruct Hs as (_ & Hall). apply wfs_all_Forall in Hall.
      cbn [empty_node]. rewrite edit_cont_eq, fill_cont_eq.
      (* the loop: positions before i are done, the rest of the target is still empty *)
      assert (GO : forall ks done cs pre,
                Forall (fun k => wfs k = true) ks ->
                Forall (fun k => wfs k = true -> is_leaf k = false ->
                          forall d new, wfd k d = true -> keys_distinct k d = true ->
                          edit_one false k d (empty_node k) new Upsert = Ok (fill new k d)) ks ->
                length pre = length done -> sc = pre ++ cs ->
                wfd (SCont m ks) (DCont cs) = true ->
                keys_distinct (SCont m ks) (DCont cs) = true ->
                edit_go kids sc new ks (length done) (done ++ map (fun _ => None) ks)
                = Ok (done ++ fill_go new ks cs)).
      { induction ks as [|k ks IH]; intros done cs pre Hw HP Lp Esc Hwd Hkd.
        - cbn. rewrite app_nil_r. reflexivity.
        - destruct cs as [|od cs]; [discriminate Hwd|].
          pose proof (Forall_inv Hw) as Wk. pose proof (Forall_inv_tail Hw) as Wks.
          pose proof (Forall_inv HP) as Pk. pose proof (Forall_inv_tail HP) as Pks. cbv beta in Wk, Pk.
          cbn [XmlViewProofs.wfd] in Hwd. apply andb_true_iff in Hwd. destruct Hwd as (Hd0 & Hwd).
          cbn [keys_distinct] in Hkd. apply andb_true_iff in Hkd. destruct Hkd as (Hk0 & Hkd).
          rewrite edit_go_cons.
          rewrite (wfs_guard k Wk). rewrite guard_nil_selected. cbn [negb].
          assert (NTH : nth (length done) sc None = od) by (rewrite Esc, <- Lp; apply nth_mid).
          rewrite NTH. cbn [map].
          rewrite (clear_other_nil k kids _ (wfs_guard _ Wk)).
          rewrite nth_mid.
          assert (STEP : forall y, fill_kid new k od = y ->
                    edit_go kids sc new ks (S (length done)) (done ++ y :: map (fun _ => None) ks)
                    = Ok (done ++ fill_go new (k :: ks) (od :: cs))).
          { intros y Ey.
            replace (S (length done)) with (length (done ++ [y])) by (rewrite app_length; cbn; lia).
            replace (done ++ y :: map (fun _ => None) ks) with ((done ++ [y]) ++ map (fun _ => None) ks)
              by (rewrite <- app_assoc; reflexivity).
            rewrite (IH (done ++ [y]) cs (pre ++ [od]) Wks Pks).
            - rewrite <- app_assoc. cbn [fill_go app]. rewrite Ey. reflexivity.
            - rewrite !app_length. cbn. lia.
            - rewrite <- app_assoc. exact Esc.
            - exact Hwd.
            - exact Hkd. }
          destruct k as [mk tyk ilk dfk | mk kk | mk keysk rowk].
          + (* leaf *)
            destruct od as [x|].
            * rewrite set_nth_mid. apply STEP. reflexivity.
            * destruct new; [destruct dfk as [dv|]; cbn [option_map]|].
              -- rewrite set_nth_mid. apply STEP. reflexivity.
              -- apply STEP. reflexivity.
              -- apply STEP. reflexivity.
          + destruct od as [x|].
            * rewrite (Pk Wk (eq_refl _) x true Hd0 Hk0). rewrite set_nth_mid. apply STEP. reflexivity.
            * apply STEP. reflexivity.
          + destruct od as [x|].
            * rewrite (Pk Wk (eq_refl _) x true Hd0 Hk0). rewrite set_nth_mid. apply STEP. reflexivity.
            * apply STEP. reflexivity. }
      unfold empty_content.
      pose proof (GO kids [] sc [] Hall IHk (eq_refl _) (eq_refl _) Hd Hk) as G.
      cbn [length app] in G. rewrite G. reflexivity.
    - destruct d as [| |srows]; try discriminate Hd.
      cbn [XmlViewProofs.wfs] in Hs. apply andb_true_iff in Hs. destruct Hs as (Hs & Hrow).
      apply andb_true_iff in Hs. destruct Hs as (_ & Hwrow).
      destruct row as [| m' kids' |]; try discriminate Hrow.
      apply andb_true_iff in Hrow. destruct Hrow as (_ & Hkeys).
      cbn [empty_node]. rewrite edit_list_eq. cbn [fill].
      cbn [XmlViewProofs.wfd] in Hd. cbn [keys_distinct] in Hk.
      apply andb_true_iff in Hk. destruct Hk as (Hdist & Hkd).
      assert (ROWS : forall srs trows,
                (forall t, In t trows -> forallb (nomatch keys t) srs = true) ->
                rows_distinct keys srs = true ->
                forallb (fun r => wfd (SCont m' kids') r && forallb present (row_key keys r)) srs = true ->
                forallb (keys_distinct (SCont m' kids')) srs = true ->
                edit_rows (SCont m' kids') keys srs trows = Ok (trows ++ map (fill true (SCont m' kids')) srs)).
      { induction srs as [|sr srs IH]; intros trows Hno Hdi Hw Hkk.
        - cbn. rewrite app_nil_r. reflexivity.
        - cbn [rows_distinct] in Hdi. apply andb_true_iff in Hdi. destruct Hdi as (Hsr & Hdi).
          cbn [forallb] in Hw, Hkk. apply andb_true_iff in Hw. destruct Hw as (Hw0 & Hw).
          apply andb_true_iff in Hw0. destruct Hw0 as (Hwsr & Hpsr).
          apply andb_true_iff in Hkk. destruct Hkk as (Hk0 & Hkk).
          cbn [edit_rows]. cbv zeta.
          assert (NF : (if key_usable (row_key keys sr) then find_row keys (row_key keys sr) trows 0 else None) = None).
          { destruct (key_usable (row_key keys sr)) eqn:EU; [|reflexivity].
            assert (G : forall i, find_row keys (row_key keys sr) trows i = None).
            { clear IH. induction trows as [|t trows IHt]; intros i; [reflexivity|].
              cbn [find_row].
              assert (T : forallb (nomatch keys t) (sr :: srs) = true) by (apply Hno; left; reflexivity).
              cbn [forallb] in T. apply andb_true_iff in T. destruct T as (T & _).
              unfold nomatch in T. rewrite EU in T. cbn [andb] in T. apply negb_true_iff in T. rewrite T.
              apply IHt. intros t' Ht'. apply Hno. right. exact Ht'. }
            apply G. }
          rewrite NF.
          rewrite (IHrow Hwrow (eq_refl _) sr true Hwsr Hk0).
          fold (edit_rows (SCont m' kids') keys).
          rewrite IH; try assumption.
          + rewrite <- app_assoc. reflexivity.
          + intros t Ht. apply in_app_or in Ht. destruct Ht as [Ht | [Ht | []]].
            * specialize (Hno t Ht). cbn [forallb] in Hno. apply andb_true_iff in Hno. destruct Hno as (_ & Hno). exact Hno.
            * subst t. destruct sr as [|csr|]; try discriminate Hwsr.
              assert (RK : row_key keys (fill true (SCont m' kids') (DCont csr)) = row_key keys (DCont csr))
                by (apply fill_row_key; assumption).
              apply forallb_forall. intros r Hr. rewrite forallb_forall in Hsr. specialize (Hsr r Hr).
              unfold nomatch in *. rewrite RK. exact Hsr. }
      rewrite (ROWS srows [] (fun t (H : In t []) => match H with end) Hdist Hd Hkd). reflexivity.
  Qed.

  (** ** [fill] and [prune] stay inside the domain *)
  Definition wfd_go : list snode -> content -> bool :=
    fix go (ks : list snode) (c : content) {struct ks} : bool :=
      match ks, c with
      | [], [] => true
      | k :: ks', od :: c' => (match od with Some dk => wfd k dk | None => true end) && go ks' c'
      | _, _ => false
      end.
  Lemma wfd_go_eq : forall m kids c, wfd (SCont m kids) (DCont c) = wfd_go kids c.
  Proof. reflexivity. Qed.
  Definition kd_go : list snode -> content -> bool :=
    fix go (ks : list snode) (c : content) {struct ks} : bool :=
      match ks, c with
      | k :: ks', od :: c' => (match od with Some dk => keys_distinct k dk | None => true end) && go ks' c'
      | _, _ => true
      end.
  Lemma kd_go_eq : forall m kids c, keys_distinct (SCont m kids) (DCont c) = kd_go kids c.
  Proof. reflexivity. Qed.
  Definition prune_go : list snode -> content -> content :=
    fix go (ks : list snode) (c : content) {struct ks} : content :=
      match ks, c with
      | k :: ks', od :: c' => (match od with Some dk => prune k dk | None => None end) :: go ks' c'
      | _, _ => []
      end.
  Lemma prune_go_eq : forall m kids c, prune (SCont m kids) (DCont c) = Some (DCont (prune_go kids c)).
  Proof. reflexivity. Qed.

  Lemma wfd_list_eq : forall m keys row rows, wfd (SList m keys row) (DList rows) =
    forallb (fun r => wfd row r && forallb present (row_key keys r)) rows.
  Proof. reflexivity. Qed.
  Lemma kd_list_eq : forall m keys row rows, keys_distinct (SList m keys row) (DList rows) =
    rows_distinct keys rows && forallb (keys_distinct row) rows.
  Proof. reflexivity. Qed.
  Lemma fill_list_eq : forall new m keys row rows, fill new (SList m keys row) (DList rows) = DList (map (fill true row) rows).
  Proof. reflexivity. Qed.

  (** the schema's defaults are values of their leaves *)
  Fixpoint dflt_ok (s : snode) : bool :=
    match s with
    | SLeaf m ty il (Some v) => wfd (SLeaf m ty il (Some v)) (DLeaf v)
    | SLeaf _ _ _ None => true
    | SCont _ kids => (fix all (l : list snode) : bool := match l with [] => true | k :: l' => dflt_ok k && all l' end) kids
    | SList _ _ row => dflt_ok row
    end.
  Lemma dflt_all_Forall : forall kids,
    (fix all (l : list snode) : bool := match l with [] => true | k :: l' => dflt_ok k && all l' end) kids = true ->
    Forall (fun k => dflt_ok k = true) kids.
  Proof.
    induction kids as [|k l IH]; intros H; [constructor|].
    apply andb_true_iff in H. destruct H as (A & B). constructor; [exact A | apply IH; exact B].
  Qed.

  Lemma wfd_leaf_indep : forall m ty il d1 d2 v, wfd (SLeaf m ty il d1) (DLeaf v) = wfd (SLeaf m ty il d2) (DLeaf v).
  Proof. reflexivity. Qed.

  Lemma prune_keeps_present : forall kids c i, wfd_go kids c = true ->
    present (nth i c None) = true -> key_leaf kids i = true ->
    nth i (prune_go kids c) None = nth i c None.
  Proof.
    induction kids as [|k ks IH]; intros c i Hw Hp Hk.
    - destruct i; discriminate Hk.
    - destruct c as [|od c]; [discriminate Hw|].
      cbn [wfd_go] in Hw. apply andb_true_iff in Hw. destruct Hw as (Hd0 & Hw).
      destruct i as [|i].
      + unfold key_leaf in Hk. cbn in Hk. destruct k as [m0 ty0 [|] df0| |]; try discriminate Hk.
        cbn. cbn in Hp. destruct od as [[v| |]|]; try discriminate Hp; try discriminate Hd0. reflexivity.
      + cbn [nth prune_go]. apply IH; assumption.
  Qed.
  Lemma prune_row_key : forall m kids keys c,
    wfd (SCont m kids) (DCont c) = true ->
    forallb (key_leaf kids) keys = true -> forallb present (row_key keys (DCont c)) = true ->
    row_key keys (pruned (SCont m kids) (DCont c)) = row_key keys (DCont c).
  Proof.
    intros m kids keys c Hw Hk Hp. unfold pruned. rewrite prune_go_eq. unfold row_key in *. cbn [row_content] in *.
    apply map_ext_in. intros i Hi.
    rewrite forallb_forall in Hk, Hp. specialize (Hk i Hi). specialize (Hp (nth i c None) (in_map _ _ _ Hi)).
    apply prune_keeps_present; assumption.
  Qed.

  Lemma row_is_cont : forall m keys row, wfs (SList m keys row) = true ->
    exists m' kids', row = SCont m' kids' /\ wfs row = true /\ forallb (key_leaf kids') keys = true.
  Proof.
    intros m keys row Hs. cbn [XmlViewProofs.wfs] in Hs. apply andb_true_iff in Hs. destruct Hs as (Hs & Hrow).
    apply andb_true_iff in Hs. destruct Hs as (_ & Hwrow).
    destruct row as [| m' kids' |]; try discriminate Hrow.
    apply andb_true_iff in Hrow. destruct Hrow as (_ & Hkeys).
    exists m', kids'. repeat split; assumption.
  Qed.

  Theorem fill_wfd : forall s, wfs s = true -> dflt_ok s = true -> forall new d, wfd s d = true -> wfd s (fill new s d) = true.
  Proof.
    induction s as [m ty il dflt | m kids IHk | m keys row IHrow] using snode_ind2; intros Hs Hdf new d Hd.
    - destruct d; exact Hd.
    - destruct d as [|c|]; try discriminate Hd.
      cbn [XmlViewProofs.wfs] in Hs. apply andb_true_iff in Hs. destruct Hs as (_ & Hall). apply wfs_all_Forall in Hall.
      cbn [dflt_ok] in Hdf. apply dflt_all_Forall in Hdf.
      rewrite fill_cont_eq, wfd_go_eq in *.
      revert c Hd. induction kids as [|k ks IH]; intros c Hd.
      + destruct c; [reflexivity | discriminate Hd].
      + destruct c as [|od c]; [discriminate Hd|].
        cbn [wfd_go] in Hd. apply andb_true_iff in Hd. destruct Hd as (Hd0 & Hd).
        pose proof (Forall_inv IHk) as Pk. pose proof (Forall_inv Hall) as Wk. pose proof (Forall_inv Hdf) as Dk. cbv beta in Pk, Wk, Dk.
        cbn [fill_go wfd_go]. rewrite (IH (Forall_inv_tail IHk) (Forall_inv_tail Hall) (Forall_inv_tail Hdf) c Hd), andb_true_r.
        destruct k as [mk tyk ilk dfk | mk kk | mk keysk rowk]; cbn [fill_kid].
        * destruct od as [x|]; [exact Hd0|]. destruct new; [|reflexivity].
          destruct dfk as [dv|]; [|reflexivity]. cbn [option_map]. exact Dk.
        * destruct od as [x|]; [|reflexivity]. apply Pk; assumption.
        * destruct od as [x|]; [|reflexivity]. apply Pk; assumption.
    - destruct d as [| |rows]; try discriminate Hd.
      destruct (row_is_cont m keys row Hs) as (m' & kids' & Er & Hwrow & Hkeys). subst row.
      change (dflt_ok (SCont m' kids') = true) in Hdf. rewrite fill_list_eq. rewrite wfd_list_eq in *.
      rewrite forallb_forall in Hd |- *. intros r' Hr'. apply in_map_iff in Hr'. destruct Hr' as (r & Er & Hr). subst r'.
      specialize (Hd r Hr). apply andb_true_iff in Hd. destruct Hd as (Hw & Hp).
      rewrite (IHrow Hwrow Hdf true r Hw). cbn [andb].
      destruct r as [|cr|]; try discriminate Hw.
      rewrite (fill_row_key m' kids' keys cr Hkeys Hp). exact Hp.
  Qed.

  Theorem fill_keys_distinct : forall s, wfs s = true -> forall new d, wfd s d = true ->
    keys_distinct s d = true -> keys_distinct s (fill new s d) = true.
  Proof.
    induction s as [m ty il dflt | m kids IHk | m keys row IHrow] using snode_ind2; intros Hs new d Hd Hk.
    - destruct d; reflexivity.
    - destruct d as [|c|]; try discriminate Hd.
      cbn [XmlViewProofs.wfs] in Hs. apply andb_true_iff in Hs. destruct Hs as (_ & Hall). apply wfs_all_Forall in Hall.
      rewrite fill_cont_eq. rewrite wfd_go_eq in Hd. rewrite kd_go_eq in *.
      revert c Hd Hk. induction kids as [|k ks IH]; intros c Hd Hk; [reflexivity|].
      destruct c as [|od c]; [discriminate Hd|].
      cbn [wfd_go] in Hd. apply andb_true_iff in Hd. destruct Hd as (Hd0 & Hd).
      cbn [kd_go] in Hk. apply andb_true_iff in Hk. destruct Hk as (Hk0 & Hk).
      pose proof (Forall_inv IHk) as Pk. pose proof (Forall_inv Hall) as Wk. cbv beta in Pk, Wk.
      cbn [fill_go kd_go]. rewrite (IH (Forall_inv_tail IHk) (Forall_inv_tail Hall) c Hd Hk), andb_true_r.
      destruct k as [mk tyk ilk dfk | mk kk | mk keysk rowk]; cbn [fill_kid].
      + destruct od as [[v| |]|]; try reflexivity. destruct new; [|reflexivity]. destruct dfk; reflexivity.
      + destruct od as [x|]; [|reflexivity]. apply Pk; assumption.
      + destruct od as [x|]; [|reflexivity]. apply Pk; assumption.
    - destruct d as [| |rows]; try discriminate Hd.
      destruct (row_is_cont m keys row Hs) as (m' & kids' & Er & Hwrow & Hkeys). subst row.
      rewrite fill_list_eq. rewrite kd_list_eq in *. rewrite wfd_list_eq in Hd.
      apply andb_true_iff in Hk. destruct Hk as (Hdist & Hkd).
      assert (RK : forall r, In r rows -> row_key keys (fill true (SCont m' kids') r) = row_key keys r).
      { intros r Hr. rewrite forallb_forall in Hd. specialize (Hd r Hr). apply andb_true_iff in Hd. destruct Hd as (Hw & Hp).
        destruct r as [|cr|]; try discriminate Hw. apply fill_row_key; assumption. }
      apply andb_true_iff. split.
      + clear Hkd Hd. induction rows as [|r rows IH]; [reflexivity|].
        cbn [rows_distinct map] in *. apply andb_true_iff in Hdist. destruct Hdist as (H1 & H2).
        apply andb_true_iff. split.
        * rewrite forallb_forall in *. intros t Ht. apply in_map_iff in Ht. destruct Ht as (t0 & Et & Ht0). subst t.
          specialize (H1 t0 Ht0). unfold nomatch in *.
          rewrite (RK r (or_introl eq_refl)), (RK t0 (or_intror Ht0)). exact H1.
        * apply IH; [exact H2|]. intros r0 Hr0. apply RK. right. exact Hr0.
      + rewrite forallb_forall in *. intros r' Hr'. apply in_map_iff in Hr'. destruct Hr' as (r & Er & Hr). subst r'.
        specialize (Hd r Hr). apply andb_true_iff in Hd. destruct Hd as (Hw & _).
        apply IHrow; [exact Hwrow | exact Hw | apply Hkd; exact Hr].
  Qed.

  Lemma prune_list_eq : forall m keys row r rows, prune (SList m keys row) (DList (r :: rows)) =
    Some (DList (map (fun r => match prune row r with Some r' => r' | None => r end) (r :: rows))).
  Proof. reflexivity. Qed.

  Lemma prune_row_same : forall m kids r, wfd (SCont m kids) r = true ->
    (match prune (SCont m kids) r with Some r' => r' | None => r end) = pruned (SCont m kids) r.
  Proof. intros m kids r H. destruct r; try discriminate H. reflexivity. Qed.

  Theorem prune_wfd : forall s, wfs s = true -> forall d, wfd s d = true ->
    match prune s d with Some p => wfd s p = true | None => True end.
  Proof.
    induction s as [m ty il dflt | m kids IHk | m keys row IHrow] using snode_ind2; intros Hs d Hd.
    - destruct d as [v| |]; try (destruct il; discriminate Hd).
      destruct il; [|exact Hd]. destruct v as [| | |[|v0 items]]; try discriminate Hd; [exact I | exact Hd].
    - destruct d as [|c|]; try discriminate Hd.
      cbn [XmlViewProofs.wfs] in Hs. apply andb_true_iff in Hs. destruct Hs as (_ & Hall). apply wfs_all_Forall in Hall.
      rewrite prune_go_eq. rewrite wfd_go_eq in *.
      revert c Hd. induction kids as [|k ks IH]; intros c Hd.
      + destruct c; [reflexivity | discriminate Hd].
      + destruct c as [|od c]; [discriminate Hd|].
        cbn [wfd_go] in Hd. apply andb_true_iff in Hd. destruct Hd as (Hd0 & Hd).
        pose proof (Forall_inv IHk) as Pk. pose proof (Forall_inv Hall) as Wk. cbv beta in Pk, Wk.
        cbn [prune_go wfd_go]. rewrite (IH (Forall_inv_tail IHk) (Forall_inv_tail Hall) c Hd), andb_true_r.
        destruct od as [dk|]; [|reflexivity].
        specialize (Pk Wk dk Hd0). destruct (prune k dk); [exact Pk | reflexivity].
    - destruct d as [| |rows]; try discriminate Hd.
      destruct rows as [|r0 rows]; [exact I|].
      destruct (row_is_cont m keys row Hs) as (m' & kids' & Er & Hwrow & Hkeys). subst row.
      rewrite prune_list_eq. remember (r0 :: rows) as rs. clear Heqrs.
      rewrite wfd_list_eq in *. rewrite forallb_forall in Hd |- *.
      intros r' Hr'. apply in_map_iff in Hr'. destruct Hr' as (r & Er & Hr). subst r'.
      specialize (Hd r Hr). apply andb_true_iff in Hd. destruct Hd as (Hw & Hp).
      rewrite (prune_row_same m' kids' r Hw).
      destruct r as [|cr|]; try discriminate Hw.
      rewrite (prune_row_key m' kids' keys cr Hw Hkeys Hp), Hp, andb_true_r.
      specialize (IHrow Hwrow (DCont cr) Hw). unfold pruned.
      destruct (prune (SCont m' kids') (DCont cr)) eqn:EP; [exact IHrow | discriminate EP].
  Qed.

  Theorem prune_keys_distinct : forall s, wfs s = true -> forall d, wfd s d = true -> keys_distinct s d = true ->
    match prune s d with Some p => keys_distinct s p = true | None => True end.
  Proof.
    induction s as [m ty il dflt | m kids IHk | m keys row IHrow] using snode_ind2; intros Hs d Hd Hk.
    - destruct (prune (SLeaf m ty il dflt) d) as [[| |]|]; try exact I; reflexivity.
    - destruct d as [|c|]; try discriminate Hd.
      cbn [XmlViewProofs.wfs] in Hs. apply andb_true_iff in Hs. destruct Hs as (_ & Hall). apply wfs_all_Forall in Hall.
      rewrite prune_go_eq. rewrite wfd_go_eq in Hd. rewrite kd_go_eq in *.
      revert c Hd Hk. induction kids as [|k ks IH]; intros c Hd Hk; [reflexivity|].
      destruct c as [|od c]; [discriminate Hd|].
      cbn [wfd_go] in Hd. apply andb_true_iff in Hd. destruct Hd as (Hd0 & Hd).
      cbn [kd_go] in Hk. apply andb_true_iff in Hk. destruct Hk as (Hk0 & Hk).
      pose proof (Forall_inv IHk) as Pk. pose proof (Forall_inv Hall) as Wk. cbv beta in Pk, Wk.
      cbn [prune_go kd_go]. rewrite (IH (Forall_inv_tail IHk) (Forall_inv_tail Hall) c Hd Hk), andb_true_r.
      destruct od as [dk|]; [|reflexivity].
      specialize (Pk Wk dk Hd0 Hk0). destruct (prune k dk); [exact Pk | reflexivity].
    - destruct d as [| |rows]; try discriminate Hd.
      destruct rows as [|r0 rows]; [exact I|].
      destruct (row_is_cont m keys row Hs) as (m' & kids' & Er & Hwrow & Hkeys). subst row.
      rewrite prune_list_eq. remember (r0 :: rows) as rs. clear Heqrs.
      rewrite kd_list_eq in *. rewrite wfd_list_eq in Hd.
      apply andb_true_iff in Hk. destruct Hk as (Hdist & Hkd).
      assert (F : forall r, In r rs ->
                (match prune (SCont m' kids') r with Some r' => r' | None => r end) = pruned (SCont m' kids') r /\
                row_key keys (pruned (SCont m' kids') r) = row_key keys r).
      { intros r Hr. rewrite forallb_forall in Hd. specialize (Hd r Hr). apply andb_true_iff in Hd. destruct Hd as (Hw & Hp).
        split; [apply prune_row_same; exact Hw|].
        destruct r as [|cr|]; try discriminate Hw. apply prune_row_key; assumption. }
      apply andb_true_iff. split.
      + clear Hkd Hd. induction rs as [|r rs IH]; [reflexivity|].
        cbn [rows_distinct map] in *. apply andb_true_iff in Hdist. destruct Hdist as (H1 & H2).
        apply andb_true_iff. split.
        * rewrite forallb_forall in *. intros t Ht. apply in_map_iff in Ht. destruct Ht as (t0 & Et & Ht0). subst t.
          specialize (H1 t0 Ht0). unfold nomatch in *.
          destruct (F r (or_introl eq_refl)) as (E1 & K1). destruct (F t0 (or_intror Ht0)) as (E2 & K2).
          rewrite E1, E2, K1, K2. exact H1.
        * apply IH; [exact H2|]. intros r1 Hr1. apply F. right. exact Hr1.
      + rewrite forallb_forall in *. intros r' Hr'. apply in_map_iff in Hr'. destruct Hr' as (r & Er & Hr). subst r'.
        specialize (Hd r Hr). apply andb_true_iff in Hd. destruct Hd as (Hw & _).
        specialize (IHrow Hwrow r Hw (Hkd r Hr)).
        destruct (prune (SCont m' kids') r); [exact IHrow | apply Hkd; exact Hr].
  Qed.

  Lemma pruned_ok : forall s d, wfs s = true -> is_leaf s = false -> wfd s d = true -> keys_distinct s d = true ->
    wfd s (pruned s d) = true /\ keys_distinct s (pruned s d) = true.
  Proof.
    intros s d Hs Hl Hd Hk. pose proof (prune_wfd s Hs d Hd) as A. pose proof (prune_keys_distinct s Hs d Hd Hk) as B.
    unfold pruned. destruct (prune s d) eqn:EP; [split; assumption|].
    destruct s; [discriminate Hl | |]; destruct d; try discriminate Hd.
    - rewrite prune_go_eq in EP. discriminate EP.
    - split; reflexivity.
  Qed.

  (** ** the two writers write the same element tree *)
  Lemma ns1_eq : forall m, meta_ok nss m = true -> ns1_of nss (nm_mod m) = ns_of nss (nm_mod m).
  Proof.
    intros m Hm. unfold ns1_of. destruct (ns_of nss (nm_mod m)) eqn:E; [|reflexivity].
    unfold meta_ok in Hm. rewrite E in Hm. cbn in Hm. rewrite andb_false_r in Hm. discriminate Hm.
  Qed.
  Lemma nsattr1_eq : forall pns m, meta_ok nss m = true -> nsattr1 nss false pns m = nsattr2 nss pns m.
  Proof. intros pns m Hm. unfold nsattr1, nsattr2. rewrite (ns1_eq m Hm). reflexivity. Qed.

  Theorem writers_agree_node : forall k, wfs k = true -> forall pns d,
    wtr1_node nss enum_ids fmt_dec false pns k d = wtr2_node nss enum_ids fmt_dec pns k d.
  Proof.
    induction k as [m ty il dflt | m kids IHk | m keys row IHrow] using snode_ind2; intros Hs pns d.
    - destruct d; try reflexivity. cbn [wtr1_node wtr2_node]. rewrite (nsattr1_eq pns m Hs). reflexivity.
    - destruct d as [|c|]; try reflexivity.
      pose proof (smeta_ok nss _ Hs) as Hm. cbn [smeta] in Hm.
      cbn [XmlViewProofs.wfs] in Hs. apply andb_true_iff in Hs. destruct Hs as (_ & Hall). apply wfs_all_Forall in Hall.
      cbn [wtr1_node wtr2_node]. rewrite (nsattr1_eq pns m Hm), (ns1_eq m Hm). do 2 f_equal.
      generalize (ns_of nss (nm_mod m)) as ns. intros ns.
      revert c. induction kids as [|k ks IH]; intros c; [reflexivity|].
      destruct c as [|[dk|] c]; [reflexivity | |].
      + rewrite (Forall_inv IHk (Forall_inv Hall)). f_equal. apply IH; [exact (Forall_inv_tail IHk) | exact (Forall_inv_tail Hall)].
      + apply IH; [exact (Forall_inv_tail IHk) | exact (Forall_inv_tail Hall)].
    - destruct d as [| |rows]; try reflexivity.
      cbn [XmlViewProofs.wfs] in Hs. apply andb_true_iff in Hs. destruct Hs as (Hs & _). apply andb_true_iff in Hs. destruct Hs as (_ & Hrow).
      cbn [wtr1_node wtr2_node]. induction rows as [|r rows IH]; [reflexivity|].
      cbn [flat_map]. rewrite IH, (IHrow Hrow). reflexivity.
  Qed.

  Theorem writers_agree : forall s d, wfs s = true ->
    wtr1_doc nss enum_ids fmt_dec false s d = wtr2_doc nss enum_ids fmt_dec s d.
  Proof.
    intros s d Hs. pose proof (smeta_ok nss _ Hs) as Hm.
    destruct s as [| m kids | m keys row]; [reflexivity | |]; cbn [smeta] in Hm;
      unfold wtr1_doc, wtr2_doc; rewrite (writers_agree_node _ Hs), (ns1_eq m Hm);
      unfold root_attr2; destruct (ns_of nss (nm_mod m)) eqn:E; try reflexivity;
      unfold meta_ok in Hm; rewrite E in Hm; cbn in Hm; rewrite andb_false_r in Hm; discriminate Hm.
  Qed.

  (** ** the round trip *)
  Definition norm (s : snode) (d : dnode) : dnode := fill false s (pruned s (fill false s d)).

  Theorem xml_roundtrip : forall stream s d,
    wfs s = true -> dflt_ok s = true -> is_leaf s = false -> wfd s d = true -> keys_distinct s d = true ->
    exists x, write_doc nss enum_ids fmt_dec false stream s d = Some x /\ doc_wf x = true /\
              read_doc nss parse_dec false false s x = Ok (norm s d).
  Proof.
    intros stream s d Hs Hdf Hl Hd Hk.
    pose proof (edit_fresh s Hs Hl d false Hd Hk) as EX.
    pose proof (fill_wfd s Hs Hdf false d Hd) as Wf.
    pose proof (fill_keys_distinct s Hs false d Hd Hk) as Kf.
    destruct (xml_view_inverse nss enum_ids fmt_dec parse_dec dec_ok dec_contract s (fill false s d) Hs Wf Hl)
      as (x & Ew & Hwf & Ev).
    exists x. split; [|split; [exact Hwf|]].
    - unfold write_doc, export. rewrite EX. destruct stream; [rewrite writers_agree by exact Hs|]; exact Ew.
    - unfold read_doc. rewrite Ev.
      destruct (pruned_ok s (fill false s d) Hs Hl Wf Kf) as (Wp & Kp).
      rewrite (edit_fresh s Hs Hl _ false Wp Kp). reflexivity.
  Qed.
End Round.
