(** C08 over every node implementation within the contract of Node.Next (Tree/FindNode.v):
    whatever a node reports as the key of an entry it was asked for BY key - nothing, the key of the
    request, or the key values the entry holds - Selection.Find answers as it does over the
    reference store: the same outcome for every path (well-formed or not) and every start
    selection, the same schema positions, key values equal as val.Equal decides; for nodes that
    report nothing or the request's key, literally the same selection.  The C08 theorems of
    Tree/FindTheorems.v carry over.  Without selectListItem's fallback to the request's key the
    "same key values" clause fails (Examples at the end). *)
From Coq Require Import ZArith List Bool Strings.Byte Lia.
From YV Require Import Val.Model Tree.Schema Tree.Editor Tree.Pct Tree.PctProofs Tree.KeyText Tree.KeyTextProofs
     Tree.KeyEquiv Tree.Find Tree.FindText Tree.FindProofs Tree.FindTheorems Tree.FindNode.
Import ListNotations.
Local Open Scope nat_scope.

(** ** nodes within the contract *)
Definition legal_ans (ans : nodeans) : Prop :=
  forall i req stored,
    ans i req stored = None \/ ans i req stored = Some req \/ ans i req stored = Some (stored_key stored).

(** ... that never report a key of their own for a lookup *)
Definition echo_or_nil (ans : nodeans) : Prop :=
  forall i req stored, ans i req stored = None \/ ans i req stored = Some req.

Lemma echo_or_nil_legal ans : echo_or_nil ans -> legal_ans ans.
Proof. intros H i req stored. destruct (H i req stored); auto. Qed.

Lemma answer_legal a : legal_ans (fun _ => answer a).
Proof. intros i req stored. destruct a; simpl; auto. Qed.

Lemma ans_of_legal p : legal_ans (ans_of p).
Proof.
  intros i req stored. destruct p as [a|]; unfold ans_of.
  - destruct a; simpl; auto.
  - destruct (Nat.modulo i 3) as [|[|n]]; unfold answer; auto.
Qed.

Lemma ans_of_echo_or_nil a : a <> KStored -> echo_or_nil (ans_of (PAll a)).
Proof. intros Ha i req stored. destruct a; simpl; auto. congruence. Qed.

(** ** equivalence of results *)
Definition wres_eqv (a b : wres) : Prop :=
  match a, b with
  | WOk (Some x), WOk (Some y) => loc_eqb x y = true
  | WOk None, WOk None => True
  | WErr e, WErr e' => e = e'
  | _, _ => False
  end.

Definition fres_eqv (a b : fres) : Prop :=
  match a, b with
  | FOk (Some x), FOk (Some y) => loc_eqb x y = true
  | FOk None, FOk None => True
  | FErr e, FErr e' => e = e'
  | FPanic, FPanic | FBadStart, FBadStart | FUnmodelled, FUnmodelled => True
  | _, _ => False
  end.

Lemma lvals_eqb_refl k : lvals_eqb k k = true.
Proof. induction k as [|v k IH]; simpl; [reflexivity|]. rewrite lval_eqb_refl. exact IH. Qed.

Lemma step_eqb_refl s : step_eqb s s = true.
Proof. destruct s as [i|i k]; simpl; rewrite Nat.eqb_refl; [reflexivity|apply lvals_eqb_refl]. Qed.

Lemma loc_eqb_refl l : loc_eqb l l = true.
Proof. induction l as [|s l IH]; simpl; [reflexivity|]. rewrite step_eqb_refl. exact IH. Qed.

Lemma loc_eqb_app a : forall b c d, loc_eqb a b = true -> loc_eqb c d = true -> loc_eqb (a ++ c) (b ++ d) = true.
Proof.
  induction a as [|x a IH]; intros [|y b] c d Hab Hcd; simpl in *; try discriminate; [exact Hcd|].
  apply andb_true_iff in Hab as [H1 H2]. rewrite H1. simpl. apply IH; assumption.
Qed.

Lemma wres_eqv_refl r : wres_eqv r r.
Proof. destruct r as [[l|]|e]; simpl; auto. apply loc_eqb_refl. Qed.

Lemma wres_eqv_wcons s s' a b : step_eqb s s' = true -> wres_eqv a b -> wres_eqv (wcons s a) (wcons s' b).
Proof.
  intros Hs. destruct a as [[x|]|e], b as [[y|]|e']; simpl; intros H; try contradiction; auto.
  rewrite Hs. exact H.
Qed.

(** ** the entry the store matched holds a key equal to the request's *)
Lemma entry_row_at lst rows key : row_at lst rows key = option_map fst (entry_at lst rows key).
Proof.
  unfold row_at, entry_at. destruct (list_parts lst) as [keys r].
  destruct (find_row keys key rows 0) as [j|]; [|reflexivity].
  destruct (nth_error rows j) as [[v|c|rs]|]; reflexivity.
Qed.

Lemma find_row_hit keys key : forall rows i j, find_row keys key rows i = Some j ->
  exists r, nth_error rows (j - i) = Some r /\ key_eqb (row_key keys r) key = true /\ i <= j.
Proof.
  induction rows as [|r rows IH]; intros i j H; simpl in H; [discriminate|].
  destruct (key_eqb (row_key keys r) key) eqn:E.
  - inversion H; subst. exists r. rewrite Nat.sub_diag. auto.
  - destruct (IH _ _ H) as [r' [Hn [Hk Hle]]]. exists r'. split; [|split; [exact Hk|lia]].
    replace (j - i) with (S (j - S i)) by lia. exact Hn.
Qed.

Lemma entry_at_key lst rows key c stored :
  entry_at lst rows key = Some (c, stored) -> key_eqb stored key = true.
Proof.
  unfold entry_at. destruct (list_parts lst) as [keys r].
  destruct (find_row keys key rows 0) as [j|] eqn:F; [|discriminate].
  destruct (find_row_hit keys key rows 0 j F) as [r' [Hn [Hk _]]]. rewrite Nat.sub_0_r in Hn. rewrite Hn.
  destruct r' as [v|c'|rs]; try discriminate. intros H. inversion H; subst. exact Hk.
Qed.

(** a stored key that equals a fully converted request key consists of leaves with equal values *)
Lemma stored_key_eqv : forall stored req vals,
  key_eqb stored (map (option_map DLeaf) req) = true -> all_some req = Some vals ->
  exists vals', all_some (stored_key stored) = Some vals' /\ lvals_eqb vals' vals = true.
Proof.
  induction stored as [|d stored IH]; intros [|r req] vals Hk Ha; simpl in Hk; try discriminate.
  - simpl in Ha. inversion Ha; subst. exists []. split; reflexivity.
  - apply andb_true_iff in Hk as [H1 H2].
    destruct r as [rv|]; [|destruct d as [[?|?|?]|]; discriminate H1].
    simpl in Ha. destruct (all_some req) as [rest|] eqn:Er; [|discriminate]. simpl in Ha. inversion Ha; subst.
    destruct d as [[v|c|rs]|]; try discriminate H1. simpl in H1.
    destruct (IH req rest H2 Er) as [vals' [Hs He]].
    exists (v :: vals'). simpl. rewrite Hs. simpl. split; [reflexivity|]. rewrite H1. exact He.
Qed.

(** ** the walk *)
Section AnyNode.
Variable ans : nodeans.

(** nodes that report nothing or the request's key: the very same walk *)
Lemma walk_n_exact : echo_or_nil ans -> forall segs cur, walk_n ans cur segs = walk cur segs.
Proof.
  intros Hans. induction segs as [|sg tl IH]; intros cur; [reflexivity|].
  unfold walk_n in *. simpl.
  destruct (sg_node sg) as [m ty il d|m kids'|m keys row]; [reflexivity| |].
  - destruct cur as [k data|l rows|s v]; try reflexivity.
    destruct (nth (sg_idx sg) data None) as [[v|c|rows]|]; try reflexivity. rewrite IH. reflexivity.
  - destruct cur as [k data|l rows|s v]; try reflexivity.
    destruct (nth (sg_idx sg) data None) as [[v|c|rows]|]; try reflexivity.
    destruct (sg_key sg) as [key|]; [|reflexivity].
    rewrite entry_row_at.
    destruct (entry_at (SList m keys row) rows (map (option_map DLeaf) key)) as [[c stored]|]; [|reflexivity].
    cbv beta iota delta [option_map fst].
    destruct (Hans (sg_idx sg) key stored) as [E|E]; rewrite E; cbv beta iota delta [sel_key];
      destruct (all_some key); try reflexivity; rewrite IH; reflexivity.
Qed.

(** every node within the contract: the same outcome, positions and (val.Equal) key values *)
Lemma walk_n_eqv : legal_ans ans -> forall segs cur, wres_eqv (walk_n ans cur segs) (walk cur segs).
Proof.
  intros Hans. induction segs as [|sg tl IH]; intros cur; [reflexivity|].
  unfold walk_n in *. simpl.
  destruct (sg_node sg) as [m ty il d|m kids'|m keys row]; [apply wres_eqv_refl| |].
  - destruct cur as [k data|l rows|s v]; try apply wres_eqv_refl.
    destruct (nth (sg_idx sg) data None) as [[v|c|rows]|]; try apply wres_eqv_refl.
    apply wres_eqv_wcons; [apply step_eqb_refl|apply IH].
  - destruct cur as [k data|l rows|s v]; try apply wres_eqv_refl.
    destruct (nth (sg_idx sg) data None) as [[v|c|rows]|]; try apply wres_eqv_refl.
    destruct (sg_key sg) as [key|]; [|apply wres_eqv_refl].
    rewrite entry_row_at.
    destruct (entry_at (SList m keys row) rows (map (option_map DLeaf) key)) as [[c stored]|] eqn:Ent;
      [|exact I].
    cbv beta iota delta [option_map fst].
    destruct (Hans (sg_idx sg) key stored) as [E|[E|E]]; rewrite E; cbv beta iota delta [sel_key].
    + destruct (all_some key); [|reflexivity]. apply wres_eqv_wcons; [apply step_eqb_refl|apply IH].
    + destruct (all_some key); [|reflexivity]. apply wres_eqv_wcons; [apply step_eqb_refl|apply IH].
    + destruct (all_some key) as [vals|] eqn:Ea.
      * destruct (stored_key_eqv stored key vals (entry_at_key _ _ _ _ _ Ent) Ea) as [vals' [Hs He]].
        rewrite Hs. apply wres_eqv_wcons; [|apply IH]. simpl. rewrite Nat.eqb_refl. exact He.
      * (* a request key with a nil value matches no entry *)
        exfalso. pose proof (entry_at_key _ _ _ _ _ Ent) as Hk. clear -Hk Ea.
        revert stored Hk. induction key as [|r key IHk]; intros stored Hk; [discriminate Ea|].
        destruct stored as [|d stored]; [discriminate Hk|]. simpl in Hk. apply andb_true_iff in Hk as [H1 H2].
        destruct r as [rv|]; [|destruct d as [[?|?|?]|]; discriminate H1].
        simpl in Ea. destruct (all_some key); [discriminate Ea|]. exact (IHk eq_refl stored H2).
Qed.

(** ** Selection.Find *)
Theorem find_n_exact : echo_or_nil ans -> forall pfx kids data start path,
  find_n ans pfx kids data start path = find pfx kids data start path.
Proof.
  intros Hans pfx kids data start path. unfold find_n, find_gen, find, find_from_gen, find_from.
  destruct (strip_up (rev start) path) as [[rl p]|]; [|reflexivity].
  destruct (resolve (AtCont kids data) (rev rl)) as [cur|]; [|reflexivity].
  destruct (parse_segs _ _ _ _) as [segs|e| |]; try reflexivity.
  fold (walk_n ans cur segs). rewrite (walk_n_exact Hans). reflexivity.
Qed.

Theorem find_n_eqv : legal_ans ans -> forall pfx kids data start path,
  fres_eqv (find_n ans pfx kids data start path) (find pfx kids data start path).
Proof.
  intros Hans pfx kids data start path. unfold find_n, find_gen, find, find_from_gen, find_from.
  destruct (strip_up (rev start) path) as [[rl p]|]; [|reflexivity].
  destruct (resolve (AtCont kids data) (rev rl)) as [cur|]; [|exact I].
  destruct (parse_segs _ _ _ _) as [segs|e| |]; try reflexivity; try exact I.
  fold (walk_n ans cur segs). pose proof (walk_n_eqv Hans segs cur) as H.
  destruct (walk_n ans cur segs) as [[x|]|e], (walk cur segs) as [[y|]|e']; simpl in H; try contradiction; simpl; auto.
  apply loc_eqb_app; [apply loc_eqb_refl|exact H].
Qed.

(** ** the C08 clauses over any node within the contract *)
Section Enc.
Variable esc : list byte -> list byte.
Hypothesis esc_valid : valid_enc esc.
Hypothesis ans_legal : legal_ans ans.

(** a present location is found, from any start selection, at that location with its key values *)
Theorem find_n_render_from : forall pfx kids data base ext bk bd l quals trailing cur,
  resolve (AtCont kids data) base = Some (AtCont bk bd) ->
  loc_ok bk l -> resolve (AtCont bk bd) l = Some cur ->
  exists l', find_n ans pfx kids data (base ++ ext) (ups (chain_len (rev ext)) ++ render_with esc quals trailing bk l)
             = FOk (Some l') /\ loc_eqb l' (base ++ l) = true.
Proof.
  intros pfx kids data base ext bk bd l quals trailing cur Hb Hok Hres.
  pose proof (find_n_eqv ans_legal pfx kids data (base ++ ext)
                (ups (chain_len (rev ext)) ++ render_with esc quals trailing bk l)) as H.
  rewrite (find_render_from esc esc_valid pfx kids data base ext bk bd l quals trailing Hb Hok), Hres in H.
  destruct (find_n ans pfx kids data (base ++ ext) _) as [[l'|]|e| | |]; simpl in H; try contradiction.
  exists l'. split; [reflexivity|exact H].
Qed.

(** an absent one gives no selection *)
Theorem find_n_absent_none : forall pfx kids data base ext bk bd l quals trailing,
  resolve (AtCont kids data) base = Some (AtCont bk bd) ->
  loc_ok bk l -> resolve (AtCont bk bd) l = None ->
  find_n ans pfx kids data (base ++ ext) (ups (chain_len (rev ext)) ++ render_with esc quals trailing bk l) = FOk None.
Proof.
  intros pfx kids data base ext bk bd l quals trailing Hb Hok Hres.
  pose proof (find_n_eqv ans_legal pfx kids data (base ++ ext)
                (ups (chain_len (rev ext)) ++ render_with esc quals trailing bk l)) as H.
  rewrite (find_render_from esc esc_valid pfx kids data base ext bk bd l quals trailing Hb Hok), Hres in H.
  destruct (find_n ans pfx kids data (base ++ ext) _) as [[l'|]|e| | |]; simpl in H; try contradiction.
  reflexivity.
Qed.

(** a name that is not in the schema: the not-found error *)
Theorem find_n_unknown_notfound : forall pfx kids data pre quals name more sk,
  loc_ok kids pre -> scope_after kids pre = Some sk ->
  ident_ok name = true -> lookup_name sk name O = None ->
  Forall (fun s => free slash s /\ free qmark s) more ->
  find_n ans pfx kids data [] (join slash (render_segs esc quals kids pre ++ name :: more)) = FErr FNotFound.
Proof.
  intros pfx kids data pre quals name more sk H1 H2 H3 H4 H5.
  pose proof (find_n_eqv ans_legal pfx kids data [] (join slash (render_segs esc quals kids pre ++ name :: more))) as H.
  rewrite (find_unknown_notfound_enc esc esc_valid pfx kids data pre quals name more sk H1 H2 H3 H4 H5) in H.
  destruct (find_n ans pfx kids data [] _) as [[l'|]|e| | |]; simpl in H; try contradiction. congruence.
Qed.
End Enc.

(** the path of the found selection identifies the same location: Find from the root with
    Path.StringNoModule() of the selection at [l] leads back to [l] *)
Theorem path_string_identifies_n : legal_ans ans -> forall pfx kids data l cur,
  loc_ok kids l -> resolve (AtCont kids data) l = Some cur ->
  exists l', find_n ans pfx kids data [] (path_string_nomod kids l) = FOk (Some l') /\ loc_eqb l' l = true.
Proof.
  intros Hans pfx kids data l cur Hok Hres.
  pose proof (find_n_eqv Hans pfx kids data [] (path_string_nomod kids l)) as H.
  rewrite (path_string_identifies pfx kids data l cur Hok Hres) in H.
  destruct (find_n ans pfx kids data [] _) as [[l'|]|e| | |]; simpl in H; try contradiction.
  exists l'. split; [reflexivity|exact H].
Qed.

End AnyNode.

(** ** the fallback is needed: over a node that reports no key for a lookup (within the contract),
    selectListItem without [if key == nil { key = r.Key }] - or with the fallback narrowed to
    new entries, which Find never creates - returns a selection that has lost its key ... *)
Example no_fallback_loses_key :
  find_gen false (ans_of (PAll KNil)) [x6d] ex_kids ex_data [] (render [] false ex_kids ex_loc)
  = FOk (Some [SName 0; SName 0; SName 2]).
Proof. vm_compute. reflexivity. Qed.

(** ... whose rendered path ("c/q/n") no longer identifies the entry: Find refuses it *)
Example no_fallback_path_refuted :
  find_n (ans_of (PAll KNil)) [x6d] ex_kids ex_data [] (path_string_nomod ex_kids [SName 0; SName 0; SName 2])
  = FErr FOther.
Proof. vm_compute. reflexivity. Qed.

(** with the fallback (the code) the same node serves the entry under its key *)
Example fallback_keeps_key :
  find_n (ans_of (PAll KNil)) [x6d] ex_kids ex_data [] (render [] false ex_kids ex_loc) = FOk (Some ex_loc).
Proof. vm_compute. reflexivity. Qed.

Example stored_answer_keeps_key :
  find_n (ans_of (PAll KStored)) [x6d] ex_kids ex_data [] (render [true] true ex_kids ex_loc) = FOk (Some ex_loc).
Proof. vm_compute. reflexivity. Qed.
