(** C12: begin/end pairing and error surfacing under faults.

    A run of an edit (or delete) is a sequence of node callbacks.  Its fault-free shape is a tree of
    FRAMES (node/edit.go editor.enter, Selection.Delete): a frame tells a chain of nodes that an
    edit begins (the node itself and, for the edit root only, each ancestor - Selection.beginEdit
    with bubble), runs its body (reads, writes and nested frames) and, through `defer`, tells the
    same chain that the edit ended (Selection.endEdit).  [run t k] is the model of what the code
    does when the k-th callback (0-based, in fault-free order) returns an error:
      - a failing BeginEdit inside a chain: the nodes of the chain already begun are told the edit
        ended (Selection.beginEdit), the frame is abandoned;
      - any failing callback in a body aborts the body; every open frame still runs its deferred
        end chain;
      - a failing EndEdit does not stop the rest of its chain (Selection.endEdit).
    The harness obtains the frame tree from the implementation's own fault-free run and compares
    [run t k] with the callbacks observed when the k-th one is made to fail. *)
From Coq Require Import List Bool Arith Strings.Byte.
Import ListNotations.

Inductive ekind := KBegin | KEnd | KRead | KWrite.
(* KRead: Child/Next lookups, Field reads, Choose;  KWrite: Field write/clear, Child/Next with New or Delete *)

Definition ekind_eqb (a b : ekind) : bool :=
  match a, b with KBegin, KBegin | KEnd, KEnd | KRead, KRead | KWrite, KWrite => true | _, _ => false end.

Definition path := list byte.
Fixpoint path_eqb (a b : path) : bool :=
  match a, b with
  | [], [] => true
  | x :: a', y :: b' => Byte.eqb x y && path_eqb a' b'
  | _, _ => false
  end.

Record event := mkEv { ev_kind : ekind; ev_target : bool; ev_path : path; ev_ok : bool }.

Definition event_eqb (a b : event) : bool :=
  ekind_eqb (ev_kind a) (ev_kind b) && Bool.eqb (ev_target a) (ev_target b)
  && path_eqb (ev_path a) (ev_path b) && Bool.eqb (ev_ok a) (ev_ok b).
Fixpoint events_eqb (a b : list event) : bool :=
  match a, b with
  | [], [] => true
  | x :: a', y :: b' => event_eqb x y && events_eqb a' b'
  | _, _ => false
  end.

Inductive etree :=
| Ev (e : event)
| Frame (chain : list path) (target : bool) (body : list etree).
   (* chain: the node begun first (the frame's own node) and then, when bubbling, its ancestors *)

Definition fail (e : event) : event := mkEv (ev_kind e) (ev_target e) (ev_path e) false.
Definition begin_ev (tg : bool) (p : path) : event := mkEv KBegin tg p true.
Definition end_ev (tg : bool) (p : path) : event := mkEv KEnd tg p true.

(** state of the fault plan: [Some n] = n more callbacks succeed, then one fails; [None] = the
    failure already happened (or no fault is planned any more) *)
Definition plan := option nat.

(** one callback under the plan: the event as observed, the plan afterwards, and whether it failed *)
Definition step (e : event) (pl : plan) : event * plan * bool :=
  match pl with
  | Some O => (fail e, None, true)
  | Some (S n) => (e, Some n, false)
  | None => (e, None, false)
  end.

(** the begin chain: stops at the first failure, having ended the nodes already begun *)
Fixpoint run_begins (tg : bool) (todo : list path) (begun : list path) (pl : plan) : list event * plan * bool :=
  match todo with
  | [] => ([], pl, false)
  | p :: todo' =>
      let '(e, pl', failed) := step (begin_ev tg p) pl in
      if failed then (e :: map (end_ev tg) begun, pl', true)
      else let '(es, pl'', f) := run_begins tg todo' (begun ++ [p]) pl' in (e :: es, pl'', f)
  end.

(** the end chain: every node of the chain is told, whatever happens *)
Fixpoint run_ends (tg : bool) (todo : list path) (pl : plan) : list event * plan * bool :=
  match todo with
  | [] => ([], pl, false)
  | p :: todo' =>
      let '(e, pl', failed) := step (end_ev tg p) pl in
      let '(es, pl'', f) := run_ends tg todo' pl' in
      (e :: es, pl'', failed || f)
  end.

(** [run t pl] = (callbacks observed, plan afterwards, did this subtree fail) *)
Fixpoint run (t : etree) (pl : plan) {struct t} : list event * plan * bool :=
  match t with
  | Ev e => let '(e', pl', failed) := step e pl in ([e'], pl', failed)
  | Frame chain tg body =>
      let '(bs, pl1, bfail) := run_begins tg chain [] pl in
      if bfail then (bs, pl1, true) else
      let '(es, pl2, bodyfail) :=
        (fix go (ts : list etree) (pl : plan) {struct ts} : list event * plan * bool :=
           match ts with
           | [] => ([], pl, false)
           | t' :: ts' =>
               let '(es1, pl', f1) := run t' pl in
               if f1 then (es1, pl', true)
               else let '(es2, pl'', f2) := go ts' pl' in (es1 ++ es2, pl'', f2)
           end) body pl1 in
      let '(ends, pl3, efail) := run_ends tg chain pl2 in
      (bs ++ es ++ ends, pl3, bodyfail || efail)
  end.

Definition run_fault (t : etree) (k : nat) : list event := fst (fst (run t (Some k))).
Definition run_clean (t : etree) : list event := fst (fst (run t None)).

(** * what C12 requires of an observed callback sequence *)

(** per node: told "begins" (successfully) and "ended" alternate, starting with begins and ending
    closed.  A BeginEdit that returned an error does not open; an EndEdit call closes whatever it
    returned. *)
Fixpoint bracket_path (tg : bool) (p : path) (open : bool) (tr : list event) : bool :=
  match tr with
  | [] => negb open
  | e :: tr' =>
      if Bool.eqb (ev_target e) tg && path_eqb (ev_path e) p then
        match ev_kind e with
        | KBegin => if ev_ok e then negb open && bracket_path tg p true tr' else bracket_path tg p open tr'
        | KEnd => open && bracket_path tg p false tr'
        | _ => bracket_path tg p open tr'
        end
      else bracket_path tg p open tr'
  end.

Definition well_bracketed (tr : list event) : bool :=
  forallb (fun e => match ev_kind e with
                    | KBegin | KEnd => bracket_path (ev_target e) (ev_path e) false tr
                    | _ => true end) tr.

(** no write is issued after the failing call *)
Fixpoint no_write_after_failure (failed : bool) (tr : list event) : bool :=
  match tr with
  | [] => true
  | e :: tr' =>
      (if failed then negb (ekind_eqb (ev_kind e) KWrite) && negb (ekind_eqb (ev_kind e) KBegin) else true)
      && no_write_after_failure (failed || negb (ev_ok e)) tr'
  end.

(** begin/end go only to the edited nodes and, for the edit root, its ancestors: every such event
    lies on the path of the edit root or below it ([is_prefix]: byte-wise prefix of path strings) *)
Fixpoint is_prefix (a b : path) : bool :=
  match a, b with
  | [], _ => true
  | x :: a', y :: b' => Byte.eqb x y && is_prefix a' b'
  | _, _ => false
  end.
Definition in_scope (root : path) (tr : list event) : bool :=
  forallb (fun e => match ev_kind e with
                    | KBegin | KEnd => is_prefix (ev_path e) root || is_prefix root (ev_path e)
                    | _ => true end) tr.

Definition any_failed (tr : list event) : bool := existsb (fun e => negb (ev_ok e)) tr.

(** the whole requirement on one run: [errored] = the API call returned a non-nil error,
    [wrapped] = errors.Is(result, injected error).  A call may also fail without any callback
    failing (conflict / not found decided by the editor): nothing is required of [errored] then. *)
Definition c12_ok (root : path) (tr : list event) (errored wrapped : bool) : bool :=
  well_bracketed tr && no_write_after_failure false tr && in_scope root tr
  && (negb (any_failed tr) || (errored && wrapped)).
