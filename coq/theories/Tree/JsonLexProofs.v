(** Byte level: the lexer of Tree/JsonSpec.v reads the rendering of a token stream back (whitespace
    dropped, every string decoded by the reference decoder), provided names are identifiers,
    numbers are number lexemes and no two numbers are adjacent. *)
From Coq Require Import ZArith List Bool Lia Strings.Byte.
From YV Require Import Val.Model Tree.JStr Tree.JStrProofs Tree.JsonSpec Tree.JsonSpecProofs.
Import ListNotations.
Open Scope Z_scope.

(** ** numbers consist of number characters *)
Lemma span_digits_spec : forall s d r, span_digits s = (d, r) -> s = d ++ r /\ forallb is_digit d = true.
Proof.
  induction s as [|b t IH]; intros d r H; cbn in H.
  - injection H as <- <-. auto.
  - destruct (is_digit b) eqn:E.
    + destruct (span_digits t) as [d' r'] eqn:Es. injection H as <- <-.
      destruct (IH d' r' eq_refl) as [-> Hd]. split; [reflexivity|]. cbn. now rewrite E.
    + injection H as <- <-. auto.
Qed.

Lemma digit_numch b : is_digit b = true -> is_numch b = true.
Proof. unfold is_numch. intros ->. reflexivity. Qed.
Lemma digits_numch d : forallb is_digit d = true -> forallb is_numch d = true.
Proof.
  induction d as [|b d IH]; [reflexivity|]. cbn. intros H. apply andb_true_iff in H as [H1 H2].
  now rewrite (digit_numch b H1), IH.
Qed.

Lemma num_parse_numch l x : num_parse l = Some x -> forallb is_numch l = true.
Proof.
  unfold num_parse. intros H.
  (* optional minus *)
  assert (Hneg : exists l1, forallb is_numch l = forallb is_numch l1 /\
            (let (neg, l1') := match l with b :: t => if bz b =? 45 then (true, t) else (false, l) | [] => (false, l) end in l1') = l1).
  { destruct l as [|b t]; [exists []; auto|]. destruct (bz b =? 45) eqn:E.
    - exists t. split; [|reflexivity]. cbn. unfold is_numch at 1. rewrite E. now rewrite !orb_true_r.
    - exists (b :: t). auto. }
  destruct Hneg as (l1 & Hl & Hl1). rewrite Hl. clear Hl.
  destruct (match l with b :: t => if bz b =? 45 then (true, t) else (false, l) | [] => (false, l) end) as [neg l1'].
  cbn in Hl1. subst l1'.
  destruct (span_digits l1) as [ip l2] eqn:E1. destruct (span_digits_spec _ _ _ E1) as [-> Hip].
  destruct ip as [|d0 dt]; [discriminate|].
  destruct ((bz d0 =? 48) && negb match dt with [] => true | _ => false end); [discriminate|].
  rewrite forallb_app, (digits_numch _ Hip). cbn [andb].
  (* fraction *)
  destruct l2 as [|b t].
  - reflexivity.
  - destruct (bz b =? 46) eqn:Edot.
    + destruct (span_digits t) as [fp l3] eqn:E2. destruct (span_digits_spec _ _ _ E2) as [-> Hfp].
      cbn [negb] in H. destruct (negb (negb match fp with [] => true | _ => false end)) eqn:Ef; [discriminate|].
      cbn [forallb]. unfold is_numch at 1. rewrite Edot, !orb_true_r. cbn [andb].
      rewrite forallb_app, (digits_numch _ Hfp). cbn [andb].
      destruct l3 as [|b3 t3]; [reflexivity|].
      destruct ((bz b3 =? 101) || (bz b3 =? 69)) eqn:Ee; [|discriminate].
      cbn [forallb]. assert (Hb3 : is_numch b3 = true).
      { unfold is_numch. apply orb_true_iff in Ee as [Ee|Ee]; rewrite Ee; now rewrite ?orb_true_r. }
      rewrite Hb3. cbn [andb].
      destruct t3 as [|sg t4].
      * cbn in H. discriminate.
      * destruct (bz sg =? 45) eqn:Es1; [|destruct (bz sg =? 43) eqn:Es2].
        -- destruct (span_digits t4) as [ed r] eqn:E3. destruct (span_digits_spec _ _ _ E3) as [-> Hed].
           destruct ed; [discriminate|]. destruct r; [|discriminate]. rewrite app_nil_r.
           cbn [forallb]. unfold is_numch at 1. rewrite Es1, !orb_true_r. cbn [andb]. apply (digits_numch _ Hed).
        -- destruct (span_digits t4) as [ed r] eqn:E3. destruct (span_digits_spec _ _ _ E3) as [-> Hed].
           destruct ed; [discriminate|]. destruct r; [|discriminate]. rewrite app_nil_r.
           cbn [forallb]. unfold is_numch at 1. rewrite Es2, !orb_true_r. cbn [andb]. apply (digits_numch _ Hed).
        -- destruct (span_digits (sg :: t4)) as [ed r] eqn:E3. destruct (span_digits_spec _ _ _ E3) as [Heq Hed].
           destruct ed; [discriminate|]. destruct r; [|discriminate]. rewrite app_nil_r in Heq. rewrite Heq.
           apply (digits_numch _ Hed).
    + cbn [negb] in H.
      destruct ((bz b =? 101) || (bz b =? 69)) eqn:Ee; [|discriminate].
      cbn [forallb]. assert (Hb3 : is_numch b = true).
      { unfold is_numch. apply orb_true_iff in Ee as [Ee|Ee]; rewrite Ee; now rewrite ?orb_true_r. }
      rewrite Hb3. cbn [andb].
      destruct t as [|sg t4].
      * cbn in H. discriminate.
      * destruct (bz sg =? 45) eqn:Es1; [|destruct (bz sg =? 43) eqn:Es2].
        -- destruct (span_digits t4) as [ed r] eqn:E3. destruct (span_digits_spec _ _ _ E3) as [-> Hed].
           destruct ed; [discriminate|]. destruct r; [|discriminate]. rewrite app_nil_r.
           cbn [forallb]. unfold is_numch at 1. rewrite Es1, !orb_true_r. cbn [andb]. apply (digits_numch _ Hed).
        -- destruct (span_digits t4) as [ed r] eqn:E3. destruct (span_digits_spec _ _ _ E3) as [-> Hed].
           destruct ed; [discriminate|]. destruct r; [|discriminate]. rewrite app_nil_r.
           cbn [forallb]. unfold is_numch at 1. rewrite Es2, !orb_true_r. cbn [andb]. apply (digits_numch _ Hed).
        -- destruct (span_digits (sg :: t4)) as [ed r] eqn:E3. destruct (span_digits_spec _ _ _ E3) as [Heq Hed].
           destruct ed; [discriminate|]. destruct r; [|discriminate]. rewrite app_nil_r in Heq. rewrite Heq.
           apply (digits_numch _ Hed).
Qed.

(** ** one step of the lexer per token *)
Definition ocons (t : jtok) (o : option (list jtok)) : option (list jtok) :=
  match o with Some l => Some (t :: l) | None => None end.

Lemma span_num_app : forall l rest, forallb is_numch l = true ->
  (match rest with [] => true | b :: _ => negb (is_numch b) end) = true ->
  span_num (l ++ rest) = (l, rest).
Proof.
  induction l as [|b l IH]; intros rest Hl Hr.
  - cbn. destruct rest as [|b r]; [reflexivity|]. cbn. apply negb_true_iff in Hr. now rewrite Hr.
  - cbn in Hl. apply andb_true_iff in Hl as [Hb Hl]. cbn. rewrite Hb, (IH rest Hl Hr). reflexivity.
Qed.

Lemma lex_num_step f b t : is_numch b = true ->
  lex (S f) (b :: t) =
  (let (l, rest) := span_num (b :: t) in
   if number_lexeme l then ocons (KNum l) (lex f rest) else None).
Proof.
  intros H. destruct b; try (cbn in H; discriminate H);
    cbn [lex]; cbv beta iota delta [is_wsb bz byte_z Byte.to_N Z.of_N Z.eqb Pos.eqb orb is_numch is_digit Z.leb Z.compare Pos.compare Pos.compare_cont andb];
    cbn [span_num]; destruct (span_num t); reflexivity.
Qed.

Lemma lex_num f l rest : number_lexeme l = true ->
  (match rest with [] => true | b :: _ => negb (is_numch b) end) = true ->
  lex (S f) (l ++ rest) = ocons (KNum l) (lex f rest).
Proof.
  intros Hn Hr. assert (Hall : forallb is_numch l = true).
  { unfold number_lexeme in Hn. destruct (num_parse l) eqn:E; [|discriminate]. apply (num_parse_numch l p E). }
  destruct l as [|b l]; [discriminate|]. cbn [app].
  rewrite lex_num_step by (cbn in Hall; apply andb_true_iff in Hall; tauto).
  change (b :: l ++ rest) with ((b :: l) ++ rest). rewrite (span_num_app (b :: l) rest Hall Hr). now rewrite Hn.
Qed.

Lemma lex_str f s rest : lex (S f) (jwrite s ++ rest) = ocons (KStr (sanitize s)) (lex f rest).
Proof.
  unfold jwrite. cbn [app lex]. rewrite <- app_assoc. cbn [app].
  change (is_wsb x22) with false. change (bz x22) with 34. cbn [Z.eqb Pos.eqb].
  rewrite jdec_jwrite. reflexivity.
Qed.

Lemma sanitize_safe : forall s, forallb html_safe s = true -> sanitize s = s.
Proof.
  induction s as [|b s IH]; [reflexivity|]. cbn [forallb sanitize]. intros H. apply andb_true_iff in H as [Hb Hs].
  unfold html_safe in Hb. replace (bz b <? 128) with true by lia. now rewrite IH.
Qed.

Lemma lex_name f s rest : forallb html_safe s = true ->
  lex (S f) ((x22 :: s ++ [x22]) ++ rest) = ocons (KStr s) (lex f rest).
Proof.
  intros H. pose proof (lex_str f s rest) as L. unfold jwrite in L. rewrite (jbody_safe s H), (sanitize_safe s H) in L.
  exact L.
Qed.

Lemma lex_ws_spaces f : forall n rest, lex (n + f) (repeat x20 n ++ rest) = lex f rest.
Proof. induction n as [|n IH]; intros rest; [reflexivity|]. cbn [Nat.add repeat app lex]. apply IH. Qed.

(** fuel a token needs *)
Definition tsteps (t : jtok) : nat := match t with KWs lvl => S (2 * lvl) | _ => 1 end.
(** what the lexer returns for a token *)
Definition lexed (t : jtok) : jtok := match t with KStr s => KStr (sanitize s) | KName s => KStr s | _ => t end.

Definition tok_ok (t : jtok) : bool :=
  match t with
  | KName s => forallb html_safe s
  | KNum l => number_lexeme l
  | _ => true
  end.
Definition is_num (t : jtok) : bool := match t with KNum _ => true | _ => false end.
Fixpoint no_adj_num (ts : list jtok) : bool :=
  match ts with
  | t :: ((t' :: _) as tl) => negb (is_num t && is_num t') && no_adj_num tl
  | _ => true
  end.

Lemma render_head_not_numch t rest : is_num t = false ->
  (match render_tok t ++ rest with [] => true | b :: _ => negb (is_numch b) end) = true \/ render_tok t = [].
Proof.
  destruct t; intros H; try discriminate; try (left; reflexivity).
Qed.

Lemma strip_ws_cons t ts : strip_ws (t :: ts) = if is_ws t then strip_ws ts else t :: strip_ws ts.
Proof. unfold strip_ws. cbn [filter]. destruct (is_ws t); reflexivity. Qed.

Definition tfuel (ts : list jtok) : nat := fold_right (fun t a => (tsteps t + a)%nat) 1%nat ts.

Lemma lex_tokens : forall ts f, forallb tok_ok ts = true -> no_adj_num ts = true ->
  lex (tfuel ts + f) (render ts) = Some (map lexed (strip_ws ts)).
Proof.
  induction ts as [|t ts IH]; intros f Hok Hadj.
  - reflexivity.
  - cbn [forallb] in Hok. apply andb_true_iff in Hok as [Ht Hts].
    assert (Hadj' : no_adj_num ts = true).
    { destruct ts as [|t' ts']; [reflexivity|]. cbn [no_adj_num] in Hadj. apply andb_true_iff in Hadj; tauto. }
    specialize (IH f Hts Hadj').
    unfold tfuel. cbn [fold_right render flat_map]. fold (render ts). fold (tfuel ts).
    rewrite <- Nat.add_assoc. rewrite strip_ws_cons.
    set (g := (tfuel ts + f)%nat) in *.
    destruct t; cbn [tsteps is_ws map lexed render_tok];
      try (change ((1 + g)%nat) with (S g); cbn [app lex]; rewrite IH; reflexivity).
    + (* KStr *) change ((1 + g)%nat) with (S g). rewrite lex_str, IH. reflexivity.
    + (* KName *) change ((1 + g)%nat) with (S g). rewrite lex_name by exact Ht. rewrite IH. reflexivity.
    + (* KNum *) change ((1 + g)%nat) with (S g). rewrite lex_num.
      * rewrite IH. reflexivity.
      * exact Ht.
      * destruct ts as [|t' ts']; [reflexivity|]. cbn [no_adj_num is_num andb negb] in Hadj.
        apply andb_true_iff in Hadj as [Hn _]. apply negb_true_iff in Hn.
        cbn [render flat_map]. destruct t'; try discriminate; reflexivity.
    + (* KWs *) cbn [app]. change ((S (2 * lvl) + g)%nat) with (S ((2 * lvl)%nat + g)).
      cbn [lex]. change (is_wsb x0a) with true. cbv iota.
      rewrite lex_ws_spaces. exact IH.
Qed.

(** ** enough fuel *)
Lemma tfuel_le : forall ts, forallb tok_ok ts = true -> (tfuel ts <= S (length (render ts)))%nat.
Proof.
  induction ts as [|t ts IH]; intros H; [cbn; lia|].
  cbn [forallb] in H. apply andb_true_iff in H as [Ht Hts]. specialize (IH Hts).
  unfold tfuel, render in *. cbn [fold_right flat_map]. rewrite app_length.
  enough (tsteps t <= length (render_tok t))%nat by lia.
  destruct t; cbn [tsteps render_tok length]; try lia.
  - unfold jwrite. cbn [length]. lia.
  - cbn in Ht. destruct lexeme; [discriminate|cbn; lia].
  - rewrite repeat_length. lia.
Qed.

Lemma lex_render ts : forallb tok_ok ts = true -> no_adj_num ts = true ->
  lex (S (length (render ts))) (render ts) = Some (map lexed (strip_ws ts)).
Proof.
  intros Hok Hadj. pose proof (tfuel_le ts Hok) as Hle.
  replace (S (length (render ts))) with (tfuel ts + (S (length (render ts)) - tfuel ts))%nat by lia.
  apply lex_tokens; assumption.
Qed.

(** ** from the whitespace-free stream to the raw one *)
Lemma tok_ok_strip : forall ts, forallb tok_ok (strip_ws ts) = true -> forallb tok_ok ts = true.
Proof.
  induction ts as [|t ts IH]; [reflexivity|]. rewrite strip_ws_cons. destruct t; cbn [is_ws forallb];
    try (intros H; apply andb_true_iff in H as [H1 H2]; rewrite H1; apply IH; exact H2).
  intros H. cbn. apply IH. exact H.
Qed.

Lemma no_adj_tail t ts : no_adj_num (t :: ts) = true -> no_adj_num ts = true.
Proof. destruct ts as [|t' ts']; [reflexivity|]. cbn [no_adj_num]. intros H. apply andb_true_iff in H. tauto. Qed.

Lemma no_adj_strip : forall ts, no_adj_num (strip_ws ts) = true -> no_adj_num ts = true.
Proof.
  induction ts as [|t ts IH]; [reflexivity|]. intros H.
  assert (Hts : no_adj_num ts = true).
  { apply IH. rewrite strip_ws_cons in H. destruct (is_ws t); [exact H|apply (no_adj_tail _ _ H)]. }
  destruct ts as [|t' ts']; [reflexivity|].
  change (no_adj_num (t :: t' :: ts')) with (negb (is_num t && is_num t') && no_adj_num (t' :: ts')).
  rewrite Hts, andb_true_r.
  destruct (is_num t) eqn:E1; [|reflexivity]. destruct (is_num t') eqn:E2; [|reflexivity].
  exfalso. destruct t; try discriminate. destruct t'; discriminate.
Qed.

(** ** the raw canonical serialisation: member names as written by writeIdent *)
Definition rmember (f : jvalue -> list jtok) (kv : list byte * jvalue) : list jtok := KName (fst kv) :: KColon :: f (snd kv).
Fixpoint rtoks_of (v : jvalue) : list jtok :=
  match v with
  | JNull => [KNull]
  | JBool true => [KTrue]
  | JBool false => [KFalse]
  | JNum l => [KNum l]
  | JStr s => [KStr s]
  | JArr l => KLBrack :: join_comma (map rtoks_of l) ++ [KRBrack]
  | JObj ms => KLBrace :: join_comma (map (fun kv => KName (fst kv) :: KColon :: rtoks_of (snd kv)) ms) ++ [KRBrace]
  end.
Definition rmember_toks (kv : list byte * jvalue) : list jtok := KName (fst kv) :: KColon :: rtoks_of (snd kv).
Lemma rtoks_of_obj ms : rtoks_of (JObj ms) = KLBrace :: join_comma (map rmember_toks ms) ++ [KRBrace].
Proof. reflexivity. Qed.
Lemma rtoks_of_arr l : rtoks_of (JArr l) = KLBrack :: join_comma (map rtoks_of l) ++ [KRBrack].
Proof. reflexivity. Qed.

(** strings sanitised the way the decoder sees them *)
Fixpoint san_v (v : jvalue) : jvalue :=
  match v with
  | JStr s => JStr (sanitize s)
  | JArr l => JArr (map san_v l)
  | JObj ms => JObj (map (fun kv => (fst kv, san_v (snd kv))) ms)
  | _ => v
  end.

Lemma map_join_comma (f : jtok -> jtok) : forall l, f KComma = KComma ->
  map f (join_comma l) = join_comma (map (map f) l).
Proof.
  intros l Hc. induction l as [|x tl IH]; [reflexivity|]. destruct tl as [|y tl'].
  - reflexivity.
  - rewrite join_comma_cons2. cbn [map]. rewrite join_comma_cons2. rewrite map_app. cbn [map]. rewrite Hc.
    cbn [map] in IH. rewrite IH. reflexivity.
Qed.

Lemma lexed_rtoks : forall v, map lexed (rtoks_of v) = toks_of (san_v v).
Proof.
  induction v using jvalue_ind2; try reflexivity.
  - destruct b; reflexivity.
  - rewrite rtoks_of_arr. cbn [san_v]. rewrite toks_of_arr. cbn [map]. rewrite map_app. cbn [map lexed].
    f_equal. f_equal. rewrite map_join_comma by reflexivity. f_equal. rewrite !map_map.
    induction l as [|x tl IH]; [reflexivity|]. inversion H; subst. cbn [map]. rewrite H2, IH by assumption. reflexivity.
  - rewrite rtoks_of_obj. cbn [san_v]. rewrite toks_of_obj. cbn [map]. rewrite map_app. cbn [map lexed].
    f_equal. f_equal. rewrite map_join_comma by reflexivity. f_equal. rewrite !map_map.
    induction ms as [|x tl IH]; [reflexivity|]. inversion H; subst. cbn [map]. rewrite IH by assumption.
    f_equal. unfold rmember_toks, member_toks. cbn [map lexed fst snd]. now rewrite H2.
Qed.

Lemma strip_ws_join : forall l, strip_ws (join_comma l) = join_comma (map strip_ws l).
Proof.
  induction l as [|x tl IH]; [reflexivity|]. destruct tl as [|y tl'].
  - reflexivity.
  - rewrite join_comma_cons2. cbn [map]. rewrite join_comma_cons2. unfold strip_ws at 1. rewrite filter_app.
    cbn [filter is_ws negb]. fold (strip_ws x). fold (strip_ws (join_comma (y :: tl'))). cbn [map] in IH. rewrite IH. reflexivity.
Qed.

(** keys are identifiers; numbers are number lexemes *)
Fixpoint keys_safe (v : jvalue) : bool :=
  match v with
  | JArr l => forallb keys_safe l
  | JObj ms => forallb (fun kv => forallb html_safe (fst kv) && keys_safe (snd kv)) ms
  | _ => true
  end.

Lemma forallb_join (p : jtok -> bool) : p KComma = true -> forall l,
  forallb (forallb p) l = true -> forallb p (join_comma l) = true.
Proof.
  intros Hc l. induction l as [|x tl IH]; [reflexivity|]. cbn [forallb]. intros H. apply andb_true_iff in H as [Hx Ht].
  destruct tl as [|y tl'].
  - exact Hx.
  - rewrite join_comma_cons2, forallb_app, Hx. cbn [forallb andb]. rewrite Hc. apply IH. exact Ht.
Qed.

Lemma tok_ok_rtoks : forall v, keys_safe v = true -> nums_ok v = true -> forallb tok_ok (rtoks_of v) = true.
Proof.
  induction v using jvalue_ind2; intros Hk Hn; try reflexivity.
  - destruct b; reflexivity.
  - cbn in *. now rewrite Hn.
  - rewrite rtoks_of_arr. cbn [forallb tok_ok]. rewrite forallb_app. cbn [forallb tok_ok]. rewrite andb_true_r.
    apply forallb_join; [reflexivity|]. cbn [keys_safe nums_ok] in *.
    induction l as [|x tl IH]; [reflexivity|]. inversion H; subst. cbn [forallb map] in *.
    apply andb_true_iff in Hk as [Hk1 Hk2]. apply andb_true_iff in Hn as [Hn1 Hn2].
    rewrite (H2 Hk1 Hn1). apply IH; assumption.
  - rewrite rtoks_of_obj. cbn [forallb tok_ok]. rewrite forallb_app. cbn [forallb tok_ok]. rewrite andb_true_r.
    apply forallb_join; [reflexivity|]. cbn [keys_safe nums_ok] in *.
    induction ms as [|x tl IH]; [reflexivity|]. inversion H; subst. cbn [forallb map] in *.
    apply andb_true_iff in Hk as [Hk1 Hk2]. apply andb_true_iff in Hn as [Hn1 Hn2].
    apply andb_true_iff in Hk1 as [Hks Hkv].
    unfold rmember_toks at 1. cbn [forallb tok_ok]. rewrite Hks, (H2 Hkv Hn1). apply IH; assumption.
Qed.

(** no two numbers are adjacent in a canonical serialisation *)
Definition last_num (ts : list jtok) : bool := match rev ts with t :: _ => is_num t | [] => false end.
Definition head_num (ts : list jtok) : bool := match ts with t :: _ => is_num t | [] => false end.

Lemma no_adj_cons2 t t' tl : no_adj_num (t :: t' :: tl) = negb (is_num t && is_num t') && no_adj_num (t' :: tl).
Proof. reflexivity. Qed.

Lemma last_num_cons t t' a : last_num (t :: t' :: a) = last_num (t' :: a).
Proof.
  unfold last_num. cbn [rev]. destruct (rev a ++ [t']) eqn:E; [destruct (rev a); discriminate|]. reflexivity.
Qed.

Lemma no_adj_app : forall a b, no_adj_num a = true -> no_adj_num b = true ->
  negb (last_num a && head_num b) = true -> no_adj_num (a ++ b) = true.
Proof.
  induction a as [|t a IH]; intros b Ha Hb Hj; [exact Hb|].
  destruct a as [|t' a'].
  - cbn [app]. destruct b as [|t2 b']; [reflexivity|]. rewrite no_adj_cons2, Hb, andb_true_r. exact Hj.
  - change ((t :: t' :: a') ++ b) with (t :: t' :: (a' ++ b)). rewrite no_adj_cons2.
    rewrite no_adj_cons2 in Ha. apply andb_true_iff in Ha as [H1 H2]. rewrite H1. cbn [andb].
    change (t' :: a' ++ b) with ((t' :: a') ++ b). apply IH; [exact H2 | exact Hb |].
    rewrite last_num_cons in Hj. exact Hj.
Qed.

Lemma no_adj_nonnum_cons t ts : is_num t = false -> no_adj_num (t :: ts) = no_adj_num ts.
Proof. intros E. destruct ts as [|t' ts']; [reflexivity|]. rewrite no_adj_cons2, E. reflexivity. Qed.

Lemma no_adj_join : forall l, Forall (fun x => no_adj_num x = true) l -> no_adj_num (join_comma l) = true.
Proof.
  induction l as [|x tl IH]; intros H; [reflexivity|]. inversion H; subst. destruct tl as [|y tl'].
  - exact H2.
  - rewrite join_comma_cons2. apply no_adj_app; [exact H2 | | ].
    + rewrite no_adj_nonnum_cons by reflexivity. apply IH. exact H3.
    + unfold head_num. cbn [is_num]. now rewrite andb_false_r.
Qed.

Lemma no_adj_rtoks : forall v, no_adj_num (rtoks_of v) = true.
Proof.
  induction v using jvalue_ind2; try reflexivity.
  - destruct b; reflexivity.
  - rewrite rtoks_of_arr. rewrite no_adj_nonnum_cons by reflexivity. apply no_adj_app.
    + apply no_adj_join. apply Forall_forall. intros x Hx. apply in_map_iff in Hx as (y & <- & Hy).
      rewrite Forall_forall in H. apply H. exact Hy.
    + reflexivity.
    + unfold head_num. cbn [is_num]. now rewrite andb_false_r.
  - rewrite rtoks_of_obj. rewrite no_adj_nonnum_cons by reflexivity. apply no_adj_app.
    + apply no_adj_join. apply Forall_forall. intros x Hx. apply in_map_iff in Hx as (y & <- & Hy).
      rewrite Forall_forall in H. unfold rmember_toks. rewrite !no_adj_nonnum_cons by reflexivity. apply H. exact Hy.
    + reflexivity.
    + unfold head_num. cbn [is_num]. now rewrite andb_false_r.
Qed.

Lemma nums_ok_san : forall v, nums_ok (san_v v) = nums_ok v.
Proof.
  induction v using jvalue_ind2; try reflexivity.
  - cbn [san_v nums_ok]. induction l as [|x tl IH]; [reflexivity|]. inversion H; subst. cbn [map forallb].
    rewrite H2, IH by assumption. reflexivity.
  - cbn [san_v nums_ok]. induction ms as [|x tl IH]; [reflexivity|]. inversion H; subst. cbn [map forallb snd].
    rewrite H2, IH by assumption. reflexivity.
Qed.

(** THEOREM: a token stream that, whitespace aside, is the raw canonical serialisation of a value
    tree whose keys are identifiers and whose numbers are number lexemes renders to bytes that are
    exactly one JSON value: the tree, with every string as the reference decoder reads it *)
Theorem parse_bytes_render ts v : strip_ws ts = rtoks_of v -> keys_safe v = true -> nums_ok v = true ->
  parse_bytes (render ts) = Some (san_v v).
Proof.
  intros Hs Hk Hn. unfold parse_bytes.
  assert (Hok : forallb tok_ok ts = true) by (apply tok_ok_strip; rewrite Hs; apply tok_ok_rtoks; assumption).
  assert (Hadj : no_adj_num ts = true) by (apply no_adj_strip; rewrite Hs; apply no_adj_rtoks).
  rewrite (lex_render ts Hok Hadj), Hs, lexed_rtoks. apply parse_tokens_toks_of. now rewrite nums_ok_san.
Qed.

(** relation to the key-as-string serialisation used by the grammar *)
Lemma norm_rtoks : forall v, map norm_tok (rtoks_of v) = toks_of v.
Proof.
  induction v using jvalue_ind2; try reflexivity.
  - destruct b; reflexivity.
  - rewrite rtoks_of_arr, toks_of_arr. cbn [map]. rewrite map_app. cbn [map norm_tok].
    f_equal. f_equal. rewrite map_join_comma by reflexivity. f_equal. rewrite map_map.
    induction l as [|x tl IH]; [reflexivity|]. inversion H; subst. cbn [map]. rewrite H2, IH by assumption. reflexivity.
  - rewrite rtoks_of_obj, toks_of_obj. cbn [map]. rewrite map_app. cbn [map norm_tok].
    f_equal. f_equal. rewrite map_join_comma by reflexivity. f_equal. rewrite map_map.
    induction ms as [|x tl IH]; [reflexivity|]. inversion H; subst. cbn [map]. rewrite IH by assumption.
    f_equal. unfold rmember_toks, member_toks. cbn [map norm_tok]. now rewrite H2.
Qed.

Lemma strip_ws_rtoks : forall v, strip_ws (rtoks_of v) = rtoks_of v.
Proof.
  induction v using jvalue_ind2; try reflexivity.
  - destruct b; reflexivity.
  - rewrite rtoks_of_arr. change (KLBrack :: ?x ++ [KRBrack]) with ([KLBrack] ++ x ++ [KRBrack]).
    unfold strip_ws. rewrite !filter_app. fold (strip_ws (join_comma (map rtoks_of l))). rewrite strip_ws_join.
    cbn [filter is_ws negb]. f_equal. f_equal. f_equal. rewrite map_map.
    induction l as [|x tl IH]; [reflexivity|]. inversion H; subst. cbn [map]. rewrite H2, IH by assumption. reflexivity.
  - rewrite rtoks_of_obj. change (KLBrace :: ?x ++ [KRBrace]) with ([KLBrace] ++ x ++ [KRBrace]).
    unfold strip_ws. rewrite !filter_app. fold (strip_ws (join_comma (map rmember_toks ms))). rewrite strip_ws_join.
    cbn [filter is_ws negb]. f_equal. f_equal. f_equal. rewrite map_map.
    induction ms as [|x tl IH]; [reflexivity|]. inversion H; subst. cbn [map]. rewrite IH by assumption.
    f_equal. unfold rmember_toks. unfold strip_ws at 1. cbn [filter is_ws negb]. fold (strip_ws (rtoks_of (snd x))).
    now rewrite H2.
Qed.
