(** C07: the constrained reader (Params.v) delivers exactly the declared projection (Project.v)
    of the full read, for every choice-free... (no: every) schema, every tree shaped like it, every
    parsed parameter record with depth >= 1 and a non-negative container bound, every entry path. *)
From Coq Require Import Strings.String.
From Coq Require Import ZArith List Bool Lia Strings.Byte.
From YV Require Import Val.Model Val.Proofs Tree.Schema Tree.Merge Tree.PathExpr Tree.PathExprProofs Tree.Params Tree.Project.
Import ListNotations.
Open Scope Z_scope.

(** * induction on schemas *)
Fixpoint snode_ind' (Pr : snode -> Prop)
         (Hl : forall m ty il d, Pr (SLeaf m ty il d))
         (Hc : forall m kids, Forall Pr kids -> Pr (SCont m kids))
         (Hs : forall m keys row, Pr row -> Pr (SList m keys row))
         (s : snode) {struct s} : Pr s :=
  match s with
  | SLeaf m ty il d => Hl m ty il d
  | SCont m kids =>
      Hc m kids ((fix go (l : list snode) : Forall Pr l :=
                    match l with
                    | [] => Forall_nil _
                    | x :: tl => Forall_cons x (snode_ind' Pr Hl Hc Hs x) (go tl)
                    end) kids)
  | SList m keys row => Hs m keys row (snode_ind' Pr Hl Hc Hs row)
  end.

(** * shaped, unfolded *)
Fixpoint shaped_kids (ks : list snode) (c : content) : bool :=
  match ks, c with
  | [], [] => true
  | k :: ks', d :: c' => (match d with None => true | Some dn => shaped k dn end) && shaped_kids ks' c'
  | _, _ => false
  end.
Lemma shaped_cont m kids : forall c, shaped (SCont m kids) (DCont c) = shaped_kids kids c.
Proof.
  induction kids as [|k kids IH]; intros [|d c]; try reflexivity.
Qed.

Lemma shaped_kids_in : forall ks dc k dk, shaped_kids ks dc = true -> In (k, dk) (combine ks dc) ->
  match dk with None => True | Some dn => shaped k dn = true end /\ In k ks.
Proof.
  induction ks as [|k0 ks IH]; intros [|d0 dc] k dk Hs Hin; simpl in *; try contradiction.
  apply andb_true_iff in Hs as [Hs1 Hs2]. destruct Hin as [Heq|Hin].
  - inversion Heq; subst. split; [destruct dk; auto|auto].
  - destruct (IH dc k dk Hs2 Hin) as [A B]. split; auto.
Qed.

Definition fill_kid (new : bool) (k : snode) (dk : option dnode) : option dnode :=
  match k with
  | SLeaf _ _ _ dflt =>
      match dk with
      | Some x => Some x
      | None => if new then option_map DLeaf dflt else None
      end
  | _ => option_map (fill true k) dk
  end.
Lemma fill_cont new m kids dc : fill new (SCont m kids) (DCont dc) = DCont (map_kids (fill_kid new) kids dc).
Proof. reflexivity. Qed.

(** * counting *)
Definition weight (od : option dnode) : Z :=
  match od with
  | None | Some (DLeaf _) => 0
  | Some x => 1 + count_d x
  end.
Definition sum_weights (c : content) : Z := fold_right (fun od acc => weight od + acc) 0 c.
Definition sum_counts (rows : list dnode) : Z := fold_right (fun r acc => count_d r + acc) 0 rows.

Lemma count_d_cont c : count_d (DCont c) = sum_weights c.
Proof.
  induction c as [|od c IH]; [reflexivity|].
  change (count_d (DCont (od :: c))) with
    (match od with None | Some (DLeaf _) => count_d (DCont c) | Some x => 1 + count_d x + count_d (DCont c) end).
  rewrite IH. unfold sum_weights; simpl. destruct od as [[v|k|r]|]; simpl; lia.
Qed.
Lemma count_d_list rows : count_d (DList rows) = sum_counts rows.
Proof. reflexivity. Qed.

Definition opt_holds (Pr : dnode -> Prop) (od : option dnode) : Prop :=
  match od with Some x => Pr x | None => True end.

Fixpoint dnode_ind' (Pr : dnode -> Prop)
         (Hl : forall v, Pr (DLeaf v))
         (Hc : forall c, Forall (opt_holds Pr) c -> Pr (DCont c))
         (Hr : forall rows, Forall Pr rows -> Pr (DList rows))
         (d : dnode) {struct d} : Pr d :=
  match d with
  | DLeaf v => Hl v
  | DCont c =>
      Hc c ((fix go (l : list (option dnode)) : Forall (opt_holds Pr) l :=
               match l with
               | [] => Forall_nil _
               | od :: tl =>
                   @Forall_cons _ (opt_holds Pr) od tl
                     (match od return opt_holds Pr od with
                      | Some x => dnode_ind' Pr Hl Hc Hr x
                      | None => I
                      end) (go tl)
               end) c)
  | DList rows =>
      Hr rows ((fix go (l : list dnode) : Forall Pr l :=
                  match l with
                  | [] => Forall_nil _
                  | x :: tl => @Forall_cons _ Pr x tl (dnode_ind' Pr Hl Hc Hr x) (go tl)
                  end) rows)
  end.

Lemma sum_weights_cons od c : sum_weights (od :: c) = weight od + sum_weights c.
Proof. reflexivity. Qed.
Lemma sum_counts_cons r rows : sum_counts (r :: rows) = count_d r + sum_counts rows.
Proof. reflexivity. Qed.

Lemma count_d_nonneg : forall d, 0 <= count_d d.
Proof.
  induction d as [v|c IH|rows IH] using dnode_ind'.
  - simpl; lia.
  - rewrite count_d_cont. induction IH as [|od c Hod _ IHc]; [unfold sum_weights; simpl; lia|].
    rewrite sum_weights_cons. destruct od as [[v|k|r]|]; unfold weight; unfold opt_holds in Hod; lia.
  - rewrite count_d_list. induction IH as [|r rows Hr _ IHr]; [unfold sum_counts; simpl; lia|].
    rewrite sum_counts_cons. lia.
Qed.
Lemma weight_nonneg od : 0 <= weight od.
Proof.
  destruct od as [[v|k|r]|]; unfold weight; try lia.
  - pose proof (count_d_nonneg (DCont k)); lia.
  - pose proof (count_d_nonneg (DList r)); lia.
Qed.
Lemma sum_weights_nonneg c : 0 <= sum_weights c.
Proof. induction c as [|od c IH]; [unfold sum_weights; simpl; lia|]. rewrite sum_weights_cons. pose proof (weight_nonneg od). lia. Qed.
Lemma sum_counts_nonneg rows : 0 <= sum_counts rows.
Proof. induction rows as [|r rows IH]; [unfold sum_counts; simpl; lia|]. rewrite sum_counts_cons. pose proof (count_d_nonneg r). lia. Qed.

(** * map_kids *)
Lemma map_kids_compose f g : forall ks dc,
  map_kids f ks (map_kids g ks dc) = map_kids (fun k dk => f k (g k dk)) ks dc.
Proof. induction ks as [|k ks IH]; intros [|d dc]; simpl; auto. now rewrite IH. Qed.
Lemma map_kids_ext f g : forall ks dc,
  (forall k dk, In (k, dk) (combine ks dc) -> f k dk = g k dk) -> map_kids f ks dc = map_kids g ks dc.
Proof.
  induction ks as [|k ks IH]; intros [|d dc] H; simpl; auto.
  rewrite (H k d) by (left; reflexivity). f_equal. apply IH. intros; apply H. now right.
Qed.

(** * skipz / takez *)
Lemma takez_nonpos {A} (l : list A) n : n <= 0 -> takez l n = [].
Proof. destruct l; simpl; auto. intros. destruct (n <=? 0) eqn:E; auto; lia. Qed.
Lemma In_skipz {A} (x : A) : forall l n, In x (skipz l n) -> In x l.
Proof.
  induction l as [|r l IH]; intros n Hx; simpl in *; [contradiction|].
  destruct (n <=? 0); simpl in *; auto. right. eapply IH; eauto.
Qed.
Lemma In_takez {A} (x : A) : forall l n, In x (takez l n) -> In x l.
Proof.
  induction l as [|r l IH]; intros n Hx; simpl in *; [contradiction|].
  destruct (n <=? 0); simpl in *; [contradiction|]. destruct Hx; auto. right. eapply IH; eauto.
Qed.
Lemma skipz_map {A C} (f : A -> C) : forall l n, skipz (map f l) n = map f (skipz l n).
Proof. induction l as [|x l IH]; intros n; simpl; auto. destruct (n <=? 0); simpl; auto. Qed.
Lemma takez_map {A C} (f : A -> C) : forall l n, takez (map f l) n = map f (takez l n).
Proof. induction l as [|x l IH]; intros n; simpl; auto. destruct (n <=? 0); simpl; auto. now rewrite IH. Qed.
Lemma window_map {A C} (f : A -> C) st en l : window st en (map f l) = map f (window st en l).
Proof. unfold window. destruct (en =? -1); rewrite ?skipz_map, ?takez_map; reflexivity. Qed.

(** * the generic correspondence: a reader whose hooks compute a view *)
Section Generic.
  Variable P : option params.
  Variable V : view.

  Hypothesis H_cont : forall rp m, pre_cont P rp m = Some (vw_node V (rev rp ++ [nm_name m]) m).
  Hypothesis H_field : forall rp m, pre_field P rp m = Some (vw_leaf V (rev rp ++ [nm_name m]) m).
  Hypothesis H_post : forall dflt v,
      post_field P dflt v =
      match v with
      | Some x => if vw_trim V && is_default dflt x then None else v
      | None => None
      end.
  (** the rows the list loop visits *)
  Hypothesis H_window : forall rp,
      exists w, list_window P rp = Some w /\
                forall rows : list dnode,
                  vw_rows V (rev rp) rows = match w with Some (st, en) => window st en rows | None => rows end.
  Hypothesis H_rows_natural : forall (f : dnode -> dnode) fp l, vw_rows V fp (map f l) = map f (vw_rows V fp l).

  Lemma over_mono a b : a <= b -> over P a = true -> over P b = true.
  Proof. unfold over. destruct P as [p|]; [|discriminate]. intros. lia. Qed.

  (** result of a step that may add [w] containers *)
  Definition outcome {A} (cnt w : Z) (a : A) : pres (Z * A) :=
    if over P (cnt + w) then PErr PConflict else POk (cnt + w, a).

  Lemma kids_loop_spec step g : forall ks dc cnt,
    length ks = length dc -> over P cnt = false ->
    (forall k dk, In (k, dk) (combine ks dc) -> forall c, over P c = false ->
                  step k dk c = outcome c (weight (g k dk)) (g k dk)) ->
    kids_loop step ks dc cnt = outcome cnt (sum_weights (map_kids g ks dc)) (map_kids g ks dc).
  Proof.
    induction ks as [|k ks IH]; intros [|d dc] cnt Hlen Hov Hstep; try discriminate.
    - simpl. unfold outcome. simpl. now rewrite Z.add_0_r, Hov.
    - simpl in Hlen. simpl kids_loop. rewrite (Hstep k d) by (try left; auto).
      unfold outcome at 1. pose proof (weight_nonneg (g k d)) as Hw.
      pose proof (sum_weights_nonneg (map_kids g ks dc)) as Hs.
      simpl map_kids. unfold sum_weights; simpl fold_right. fold (sum_weights (map_kids g ks dc)).
      destruct (over P (cnt + weight (g k d))) eqn:E.
      + simpl. unfold outcome. rewrite (over_mono (cnt + weight (g k d))) by (auto; lia). reflexivity.
      + simpl bind. rewrite IH; auto.
        * unfold outcome. rewrite Z.add_assoc.
          destruct (over P (cnt + weight (g k d) + sum_weights (map_kids g ks dc))); reflexivity.
        * intros; apply Hstep; auto. now right.
  Qed.

  Fixpoint rows_all (step : dnode -> Z -> pres (Z * dnode)) (rs : list dnode) (cnt : Z) : pres (Z * list dnode) :=
    match rs with
    | [] => POk (cnt, [])
    | r :: rs' => bind (step r cnt) (fun '(c1, tr) => bind (rows_all step rs' c1) (fun '(c2, out) => POk (c2, tr :: out)))
    end.

  Lemma rows_loop_nostop step stop : (forall i, stop i = false) ->
    forall rs idx first cnt, rows_loop step stop rs idx first cnt = rows_all step rs cnt.
  Proof.
    intros Hs. induction rs as [|r rs IH]; intros idx first cnt; simpl; auto.
    rewrite Hs, andb_false_r. destruct (step r cnt) as [[c1 tr]|e]; simpl; auto. now rewrite IH.
  Qed.

  Lemma rows_loop_window step stop en : (forall i, stop i = (i >=? en)) ->
    forall rs idx first cnt, (first = true -> idx < en) ->
    rows_loop step stop rs idx first cnt = rows_all step (takez rs (en - idx)) cnt.
  Proof.
    intros Hstop. induction rs as [|r rs IH]; intros idx first cnt Hf; simpl; auto.
    rewrite Hstop.
    destruct first; simpl.
    - specialize (Hf eq_refl). destruct (en - idx <=? 0) eqn:F; [lia|].
      simpl. destruct (step r cnt) as [[c1 tr]|e]; simpl; auto.
      rewrite (IH (idx + 1) false c1) by discriminate.
      replace (en - (idx + 1)) with (en - idx - 1) by lia. reflexivity.
    - destruct (idx >=? en) eqn:G.
      + destruct (en - idx <=? 0) eqn:F; [reflexivity|lia].
      + destruct (en - idx <=? 0) eqn:F; [lia|].
        simpl. destruct (step r cnt) as [[c1 tr]|e]; simpl; auto.
        rewrite (IH (idx + 1) false c1) by discriminate.
        replace (en - (idx + 1)) with (en - idx - 1) by lia. reflexivity.
  Qed.

  Lemma rows_all_spec step g : forall rs cnt,
    over P cnt = false ->
    (forall r, In r rs -> forall c, over P c = false -> step r c = outcome c (count_d (g r)) (g r)) ->
    rows_all step rs cnt = outcome cnt (sum_counts (map g rs)) (map g rs).
  Proof.
    induction rs as [|r rs IH]; intros cnt Hov Hstep.
    - simpl. unfold outcome. simpl. now rewrite Z.add_0_r, Hov.
    - simpl rows_all. rewrite (Hstep r) by (try left; auto).
      unfold outcome at 1. pose proof (count_d_nonneg (g r)) as Hw.
      pose proof (sum_counts_nonneg (map g rs)) as Hs.
      simpl map. unfold sum_counts; simpl fold_right. fold (sum_counts (map g rs)).
      destruct (over P (cnt + count_d (g r))) eqn:E.
      + simpl. unfold outcome. rewrite (over_mono (cnt + count_d (g r))) by (auto; lia). reflexivity.
      + simpl bind. rewrite IH; auto.
        * unfold outcome. rewrite Z.add_assoc.
          destruct (over P (cnt + count_d (g r) + sum_counts (map g rs))); reflexivity.
        * intros; apply Hstep; auto. now right.
  Qed.

  (** what the spec computes for one kid of a container at forward path [fp] *)
  Definition spec_kid (fp : list ident) (new : bool) (k : snode) (dk : option dnode) : option dnode :=
    match k with
    | SLeaf m _ _ dflt =>
        match (match dk with Some x => Some x | None => if new then option_map DLeaf dflt else None end) with
        | Some x => if vw_leaf V (fp ++ [nm_name m]) m && negb (vw_trim V && is_default dflt x) then Some x else None
        | None => None
        end
    | SCont m _ | SList m _ _ =>
        match dk with
        | Some sd => if vw_node V (fp ++ [nm_name m]) m
                     then Some (project_view V (fp ++ [nm_name m]) k (fill true k sd)) else None
        | None => None
        end
    end.

  Lemma project_fill_cont fp new m kids dc :
    project_view V fp (SCont m kids) (fill new (SCont m kids) (DCont dc))
    = DCont (map_kids (spec_kid fp new) kids dc).
  Proof.
    simpl. f_equal. rewrite map_kids_compose. apply map_kids_ext. intros k dk _.
    destruct k as [mk ty il dflt|mk kk|mk keys row]; simpl.
    - destruct dk as [x|]; [reflexivity|]. destruct new; [|reflexivity]. destruct dflt; reflexivity.
    - destruct dk; reflexivity.
    - destruct dk; reflexivity.
  Qed.

  Definition nonleaf (s : snode) : Prop := match s with SLeaf _ _ _ _ => False | _ => True end.

  Theorem read_one_spec : forall s d rp new cnt,
    nonleaf s -> wf_schema s = true -> shaped s d = true -> over P cnt = false ->
    read_one P s d rp new cnt
    = let t := project_view V (rev rp) s (fill new s d) in outcome cnt (count_d t) t.
  Proof.
    induction s as [m ty il dflt|m kids IHk|m keys row IHr] using snode_ind';
      intros d rp new cnt Hnl Hwf Hsh Hov.
    - destruct Hnl.
    - (* container *)
      destruct d as [v|dc|rows]; try discriminate.
      rewrite shaped_cont in Hsh.
      cbv zeta. rewrite project_fill_cont. rewrite count_d_cont.
      simpl read_one.
      assert (Hlen : length kids = length dc).
      { clear -Hsh. revert dc Hsh. induction kids as [|k ks IH]; intros [|d dc] H; simpl in *; try discriminate; auto.
        apply andb_true_iff in H as [_ H]. f_equal; auto. }
      erewrite (kids_loop_spec _ (spec_kid (rev rp) new)); eauto.
      + unfold outcome. destruct (over P (cnt + sum_weights (map_kids (spec_kid (rev rp) new) kids dc))); reflexivity.
      + (* every step *)
        intros k dk Hin c Hc.
        assert (Hk : Forall (fun k => forall d rp new cnt, nonleaf k -> wf_schema k = true -> shaped k d = true -> over P cnt = false ->
                     read_one P k d rp new cnt = (let t := project_view V (rev rp) k (fill new k d) in outcome cnt (count_d t) t)) kids) by exact IHk.
        assert (Hsk : match dk with None => True | Some dn => shaped k dn = true end /\ In k kids).
        { clear -Hsh Hin. revert dc Hsh Hin. induction kids as [|k0 ks IH]; intros [|d0 dc] Hs Hin; simpl in *; try contradiction.
          apply andb_true_iff in Hs as [Hs1 Hs2]. destruct Hin as [Heq|Hin].
          - inversion Heq; subst. split; [destruct dk; auto|auto].
          - destruct (IH dc Hs2 Hin) as [A B]. split; auto. }
        destruct Hsk as [Hshk Hink]. rewrite Forall_forall in Hk. specialize (Hk k Hink).
        assert (Hwfk : wf_schema k = true) by (simpl in Hwf; rewrite forallb_forall in Hwf; auto).
        destruct k as [mk ty il dflt|mk kk|mk keys row].
        * (* leaf *)
          rewrite H_field. unfold spec_kid.
          set (v := match dk with Some x => Some x | None => if new then option_map DLeaf dflt else None end).
          assert (Hv : match v with Some (DLeaf _) | None => True | _ => False end).
          { subst v. destruct dk as [dn|].
            - destruct dn; simpl in Hshk; try discriminate; exact I.
            - destruct new; [|exact I]. destruct dflt; exact I. }
          destruct (vw_leaf V (rev rp ++ [nm_name mk]) mk) eqn:E.
          -- rewrite H_post. destruct v as [x|].
             ++ simpl andb. destruct (vw_trim V && is_default dflt x); simpl; unfold outcome; simpl;
                  rewrite ?Z.add_0_r, ?Hc; try reflexivity.
                destruct x; try contradiction. simpl. unfold outcome. simpl. now rewrite Z.add_0_r, Hc.
             ++ unfold outcome. simpl. now rewrite Z.add_0_r, Hc.
          -- destruct v as [x|]; simpl; unfold outcome; simpl; now rewrite Z.add_0_r, Hc.
        * (* container kid *)
          rewrite H_cont. unfold spec_kid.
          destruct (vw_node V (rev rp ++ [nm_name mk]) mk) eqn:E.
          -- destruct dk as [sd|].
             ++ set (t := project_view V (rev rp ++ [nm_name mk]) (SCont mk kk) (fill true (SCont mk kk) sd)).
                assert (Ht : weight (Some t) = 1 + count_d t).
                { subst t. destruct sd as [v|dc'|rows']; try (simpl in Hshk; discriminate). reflexivity. }
                unfold bump. destruct (over P (c + 1)) eqn:F.
                ** unfold bind. unfold outcome. rewrite Ht. pose proof (count_d_nonneg t).
                   rewrite (over_mono (c + 1)) by (auto; lia). reflexivity.
                ** unfold bind at 1. rewrite Hk; [|exact I|exact Hwfk|exact Hshk|exact F].
                   cbv zeta. change (rev (nm_name mk :: rp)) with (rev rp ++ [nm_name mk]). fold t.
                   unfold outcome. rewrite Ht, Z.add_assoc.
                   destruct (over P (c + 1 + count_d t)); reflexivity.
             ++ unfold outcome. simpl. now rewrite Z.add_0_r, Hc.
          -- destruct dk; unfold outcome; simpl; now rewrite Z.add_0_r, Hc.
        * (* list kid *)
          rewrite H_cont. unfold spec_kid.
          destruct (vw_node V (rev rp ++ [nm_name mk]) mk) eqn:E.
          -- destruct dk as [sd|].
             ++ set (t := project_view V (rev rp ++ [nm_name mk]) (SList mk keys row) (fill true (SList mk keys row) sd)).
                assert (Ht : weight (Some t) = 1 + count_d t).
                { subst t. destruct sd as [v|dc'|rows']; try (simpl in Hshk; discriminate). reflexivity. }
                unfold bump. destruct (over P (c + 1)) eqn:F.
                ** unfold bind. unfold outcome. rewrite Ht. pose proof (count_d_nonneg t).
                   rewrite (over_mono (c + 1)) by (auto; lia). reflexivity.
                ** unfold bind at 1. rewrite Hk; [|exact I|exact Hwfk|exact Hshk|exact F].
                   cbv zeta. change (rev (nm_name mk :: rp)) with (rev rp ++ [nm_name mk]). fold t.
                   unfold outcome. rewrite Ht, Z.add_assoc.
                   destruct (over P (c + 1 + count_d t)); reflexivity.
             ++ unfold outcome. simpl. now rewrite Z.add_0_r, Hc.
          -- destruct dk; unfold outcome; simpl; now rewrite Z.add_0_r, Hc.
    - (* list *)
      destruct d as [v|dc|rows]; try discriminate.
      simpl in Hsh.
      assert (Hrow : forall r, In r rows -> shaped row r = true) by (rewrite forallb_forall in Hsh; exact Hsh).
      simpl in Hwf. apply andb_true_iff in Hwf as [Hwf1 Hwf2].
      assert (Hnlr : nonleaf row) by (destruct row; [discriminate|exact I|exact I]).
      cbv zeta. simpl fill. simpl project_view. rewrite count_d_list.
      destruct (H_window rp) as [w [Hw Hrows]].
      rewrite H_rows_natural. rewrite Hrows. rewrite map_map.
      set (g := fun r => project_view V (rev rp) row (fill true row r)).
      assert (Hstep : forall rs, (forall r, In r rs -> In r rows) ->
                forall r, In r rs -> forall c, over P c = false ->
                read_one P row r rp true c = outcome c (count_d (g r)) (g r)).
      { intros rs Hsub r Hin c Hc. rewrite IHr; auto. }
      simpl read_one. rewrite Hw.
      destruct w as [[st en]|].
      + destruct (negb (en =? -1) && (st >=? en)) eqn:Hempty.
        * apply andb_true_iff in Hempty as [H1 H2].
          unfold window. destruct (en =? -1); [discriminate|].
          rewrite takez_nonpos by lia. simpl. unfold outcome. simpl. now rewrite Z.add_0_r, Hov.
        * unfold window. destruct (en =? -1) eqn:Een.
          -- rewrite rows_loop_nostop by (intros; now rewrite andb_false_r).
             rewrite (rows_all_spec _ g); auto.
             ++ unfold outcome. destruct (over P (cnt + sum_counts (map g (skipz rows st)))); reflexivity.
             ++ apply Hstep. intros x Hx. eapply In_skipz; eauto.
          -- rewrite (rows_loop_window _ _ en) by (try (intros i; simpl; now rewrite andb_true_r); intros _; simpl in Hempty; lia).
             rewrite (rows_all_spec _ g); auto.
             ++ unfold outcome. destruct (over P (cnt + sum_counts (map g (takez (skipz rows st) (en - st))))); reflexivity.
             ++ apply Hstep. intros x Hx. eapply In_skipz. eapply In_takez; eauto.
      + rewrite rows_loop_nostop by reflexivity.
        rewrite (rows_all_spec _ g); auto.
        * unfold outcome. destruct (over P (cnt + sum_counts (map g rows))); reflexivity.
        * apply Hstep. auto.
  Qed.
End Generic.

(** * the hooks of a parsed parameter record compute its view *)
Definition valid_params (p : params) : Prop := 1 <= p_depth p /\ 0 <= p_max_node p.

Lemma check_path_len_spec d : forall rp k, k < d -> check_path_len d rp k = (k + lenZ rp <? d).
Proof.
  induction rp as [|x rp IH]; intros k Hk; simpl.
  - unfold lenZ; simpl. symmetry. apply Z.ltb_lt. lia.
  - rewrite lenZ_cons. pose proof (lenZ_nonneg rp). destruct (k + 1 >=? d) eqn:E.
    + symmetry. apply Z.ltb_ge. lia.
    + rewrite IH by lia. f_equal. lia.
Qed.

Lemma fields_visible_include ps rp :
  fields_visible false ps rp = Some (selects ps (rev rp) || leads ps (rev rp)).
Proof.
  unfold fields_visible. rewrite path_matches_spec. destruct (selects ps (rev rp)); simpl; auto.
  apply path_leads_to_spec.
Qed.
Lemma fields_visible_exclude ps rp :
  fields_visible true ps rp = Some (negb (selects ps (rev rp))).
Proof. unfold fields_visible. now rewrite path_matches_spec. Qed.

Lemma lenZ_app1 {A} (l : list A) x : lenZ (l ++ [x]) = lenZ l + 1.
Proof. unfold lenZ. rewrite app_length. simpl. lia. Qed.

Lemma pre_checks_spec p rp m content_ok : 1 <= p_depth p ->
  pre_checks (Some p) rp m content_ok =
  Some ((lenZ (rev rp ++ [nm_name m]) <=? p_depth p)
        && match p_fields p with Some ps => selects ps (rev rp ++ [nm_name m]) || leads ps (rev rp ++ [nm_name m]) | None => true end
        && match p_xfields p with Some ps => negb (selects ps (rev rp ++ [nm_name m])) | None => true end
        && match p_content p with Some c => content_ok c | None => true end).
Proof.
  intros Hd. unfold pre_checks. cbn [first_veto].
  rewrite check_path_len_spec by lia.
  rewrite lenZ_app1, lenZ_rev.
  replace (0 + lenZ rp <? p_depth p) with (lenZ rp + 1 <=? p_depth p)
    by (destruct (lenZ rp + 1 <=? p_depth p) eqn:E; symmetry; [apply Z.ltb_lt|apply Z.ltb_ge]; lia).
  destruct (lenZ rp + 1 <=? p_depth p); [|reflexivity].
  destruct (p_fields p) as [fs|].
  - rewrite fields_visible_include. simpl rev.
    destruct (selects fs (rev rp ++ [nm_name m]) || leads fs (rev rp ++ [nm_name m])); [|reflexivity].
    destruct (p_xfields p) as [xs|].
    + rewrite fields_visible_exclude. simpl rev.
      destruct (negb (selects xs (rev rp ++ [nm_name m]))); [|reflexivity].
      destruct (p_content p) as [c|]; [destruct (content_ok c)|]; reflexivity.
    + destruct (p_content p) as [c|]; [destruct (content_ok c)|]; reflexivity.
  - destruct (p_xfields p) as [xs|].
    + rewrite fields_visible_exclude. simpl rev.
      destruct (negb (selects xs (rev rp ++ [nm_name m]))); [|reflexivity].
      destruct (p_content p) as [c|]; [destruct (content_ok c)|]; reflexivity.
    + destruct (p_content p) as [c|]; [destruct (content_ok c)|]; reflexivity.
Qed.

Lemma vw_node_params p fp m :
  vw_node (params_view p) fp m =
  (lenZ fp <=? p_depth p)
  && match p_fields p with Some ps => selects ps fp || leads ps fp | None => true end
  && match p_xfields p with Some ps => negb (selects ps fp) | None => true end
  && match p_content p with Some c => (match c with CConfig => nm_config m | _ => true end) | None => true end.
Proof.
  unfold params_view. destruct (p_range p) as [[[ps st] en]|], (p_fields p), (p_xfields p), (p_content p) as [[| |]|], (p_trim p);
    simpl; unfold keep_all; rewrite ?andb_true_r, ?andb_true_l, ?andb_assoc; reflexivity.
Qed.
Lemma vw_leaf_params p fp m :
  vw_leaf (params_view p) fp m =
  (lenZ fp <=? p_depth p)
  && match p_fields p with Some ps => selects ps fp || leads ps fp | None => true end
  && match p_xfields p with Some ps => negb (selects ps fp) | None => true end
  && match p_content p with Some c => (match c with CAll => true | CConfig => nm_config m | CNonconfig => negb (nm_config m) end) | None => true end.
Proof.
  unfold params_view. destruct (p_range p) as [[[ps st] en]|], (p_fields p), (p_xfields p), (p_content p) as [[| |]|], (p_trim p);
    simpl; unfold keep_all; rewrite ?andb_true_r, ?andb_true_l, ?andb_assoc; reflexivity.
Qed.
Lemma vw_trim_params p : vw_trim (params_view p) = p_trim p.
Proof.
  unfold params_view. destruct (p_range p) as [[[ps st] en]|], (p_fields p), (p_xfields p), (p_content p) as [[| |]|], (p_trim p); reflexivity.
Qed.
Lemma vw_rows_params p fp rows :
  vw_rows (params_view p) fp rows =
  match p_range p with
  | Some (ps, st, en) => if selects_exactly ps fp then window st en rows else rows
  | None => rows
  end.
Proof.
  unfold params_view. destruct (p_range p) as [[[ps st] en]|], (p_fields p), (p_xfields p), (p_content p) as [[| |]|], (p_trim p); reflexivity.
Qed.

Section Instances.
  Variable p : params.
  Hypothesis Hvalid : valid_params p.

  Lemma H_cont_params rp m : pre_cont (Some p) rp m = Some (vw_node (params_view p) (rev rp ++ [nm_name m]) m).
  Proof. unfold pre_cont. rewrite pre_checks_spec by apply Hvalid. now rewrite vw_node_params. Qed.
  Lemma H_field_params rp m : pre_field (Some p) rp m = Some (vw_leaf (params_view p) (rev rp ++ [nm_name m]) m).
  Proof. unfold pre_field. rewrite pre_checks_spec by apply Hvalid. now rewrite vw_leaf_params. Qed.
  Lemma H_post_params dflt v :
    post_field (Some p) dflt v =
    match v with
    | Some x => if vw_trim (params_view p) && is_default dflt x then None else v
    | None => None
    end.
  Proof.
    unfold post_field. rewrite vw_trim_params. destruct (p_trim p); simpl.
    - destruct v as [x|]; [|destruct dflt; reflexivity]. unfold is_default.
      destruct dflt as [dv|]; [|reflexivity]. destruct x; reflexivity.
    - destruct v; reflexivity.
  Qed.
  Lemma H_window_params rp :
    exists w, list_window (Some p) rp = Some w /\
              forall rows : list dnode,
                vw_rows (params_view p) (rev rp) rows = match w with Some (st, en) => window st en rows | None => rows end.
  Proof.
    unfold list_window. destruct (p_range p) as [[[ps st] en]|] eqn:E.
    - rewrite path_matches_exactly_spec. destruct (selects_exactly ps (rev rp)) eqn:F.
      + exists (Some (st, en)). split; auto. intros rows. rewrite vw_rows_params, E, F. reflexivity.
      + exists None. split; auto. intros rows. rewrite vw_rows_params, E, F. reflexivity.
    - exists None. split; auto. intros rows. now rewrite vw_rows_params, E.
  Qed.
  Lemma H_natural_params (f : dnode -> dnode) fp l :
    vw_rows (params_view p) fp (map f l) = map f (vw_rows (params_view p) fp l).
  Proof.
    rewrite !vw_rows_params. destruct (p_range p) as [[[ps st] en]|]; auto.
    destruct (selects_exactly ps fp); auto. apply window_map.
  Qed.
End Instances.

Lemma project_all_id : forall s d fp new, shaped s d = true ->
  project_view view_all fp s (fill new s d) = fill new s d.
Proof.
  induction s as [m ty il dflt|m kids IHk|m keys row IHr] using snode_ind'; intros d fp new Hsh.
  - destruct d; reflexivity.
  - destruct d as [v|dc|rows]; try discriminate. rewrite shaped_cont in Hsh.
    rewrite project_fill_cont, fill_cont. f_equal.
    rewrite Forall_forall in IHk.
    apply map_kids_ext. intros k dk Hin.
    destruct (shaped_kids_in _ _ _ _ Hsh Hin) as [Hshk Hink].
    destruct k as [mk ty il dflt|mk kk|mk keys row]; unfold spec_kid, fill_kid.
    + destruct (match dk with Some x => Some x | None => if new then option_map DLeaf dflt else None end); reflexivity.
    + destruct dk as [sd|]; [|reflexivity]. simpl vw_node. unfold keep_all. simpl option_map. f_equal. apply IHk; auto.
    + destruct dk as [sd|]; [|reflexivity]. simpl vw_node. unfold keep_all. simpl option_map. f_equal. apply IHk; auto.
  - destruct d as [v|dc|rows]; try discriminate. simpl in Hsh. simpl. unfold all_rows. f_equal.
    rewrite map_map. apply map_ext_in. intros r Hr. apply IHr.
    rewrite forallb_forall in Hsh. auto.
Qed.

(** * C07: the read is the projection *)
Definition valid (P : option params) : Prop := match P with Some p => valid_params p | None => True end.

Theorem read_is_projection : forall P kids data,
  valid P -> forallb wf_schema kids = true -> shaped (SCont root_meta kids) (DCont data) = true ->
  read_content P kids data = spec_read P kids data.
Proof.
  intros P kids data Hv Hwf Hsh. unfold read_content, spec_read.
  destruct P as [p|].
  - rewrite (read_one_spec (Some p) (params_view p)); auto.
    + cbv zeta. unfold project, full_read. simpl rev.
      rewrite project_fill_cont. rewrite !fill_cont. cbv beta iota.
      rewrite <- (fill_cont false root_meta kids data). rewrite project_fill_cont. cbv beta iota.
      unfold outcome, over. rewrite Z.add_0_l. unfold count_c.
      destruct (count_d (DCont (map_kids (spec_kid (params_view p) [] false) kids data)) >? p_max_node p); reflexivity.
    + apply H_cont_params; auto.
    + apply H_field_params; auto.
    + apply H_post_params.
    + apply H_window_params.
    + apply H_natural_params.
    + exact I.
    + unfold over. destruct Hv. lia.
  - rewrite (read_one_spec None view_all); auto.
    + cbv zeta. rewrite project_all_id by auto. unfold full_read. simpl rev.
      unfold outcome, over. rewrite !fill_cont. reflexivity.
    + intros dflt v. destruct v; reflexivity.
    + intros rp. exists None. split; reflexivity.
Qed.

(** * combining parameters = composing the projections (intersection of the views) *)
Definition rows_natural (V : view) : Prop :=
  forall (f : dnode -> dnode) fp l, vw_rows V fp (map f l) = map f (vw_rows V fp l).

Theorem project_compose V W : rows_natural V ->
  forall s fp d, project_view (inter V W) fp s d = project_view V fp s (project_view W fp s d).
Proof.
  intros Hnat. induction s as [m ty il dflt|m kids IHk|m keys row IHr] using snode_ind'; intros fp d.
  - destruct d; reflexivity.
  - destruct d as [v|dc|rows]; try reflexivity.
    simpl. f_equal. rewrite map_kids_compose. rewrite Forall_forall in IHk.
    apply map_kids_ext. intros k dk Hin.
    assert (Hk : In k kids).
    { clear -Hin. revert dc Hin. induction kids as [|k0 ks IH]; intros [|d0 dc] Hin; simpl in *; try contradiction.
      destruct Hin as [H|H]; [inversion H; auto|right; eapply IH; eauto]. }
    destruct k as [mk ty il dflt|mk kk|mk keys row].
    + destruct dk as [x|]; [|reflexivity]. simpl.
      destruct (vw_leaf V (fp ++ [nm_name mk]) mk), (vw_leaf W (fp ++ [nm_name mk]) mk),
        (vw_trim V), (vw_trim W); simpl; try reflexivity;
        destruct (is_default dflt x) eqn:Ed; simpl; rewrite ?Ed; reflexivity.
    + destruct dk as [sd|]; [|reflexivity]. simpl vw_node.
      destruct (vw_node V (fp ++ [nm_name mk]) mk), (vw_node W (fp ++ [nm_name mk]) mk); try reflexivity.
      simpl andb. cbv iota. f_equal. apply IHk; auto.
    + destruct dk as [sd|]; [|reflexivity]. simpl vw_node.
      destruct (vw_node V (fp ++ [nm_name mk]) mk), (vw_node W (fp ++ [nm_name mk]) mk); try reflexivity.
      simpl andb. cbv iota. f_equal. apply IHk; auto.
  - destruct d as [v|dc|rows]; try reflexivity.
    simpl. f_equal. rewrite Hnat. rewrite map_map. apply map_ext. intros r. apply IHr.
Qed.

Lemma rows_natural_all_rows lf nd tr : rows_natural (mkView lf nd all_rows tr).
Proof. intros f fp l. reflexivity. Qed.
Lemma rows_natural_range ps st en : rows_natural (view_range ps st en).
Proof. intros f fp l. simpl. destruct (selects_exactly ps fp); auto. apply window_map. Qed.
Lemma rows_natural_inter V W : rows_natural V -> rows_natural W -> rows_natural (inter V W).
Proof. intros HV HW f fp l. simpl. now rewrite HW, HV. Qed.
Lemma rows_natural_content c : rows_natural (view_content c).
Proof. destruct c; apply rows_natural_all_rows. Qed.

(** * BuildConstraints delivers valid parameter records or an error *)
Lemma bind_ok {A C} (r : pres A) (f : A -> pres C) c : bind r f = POk c -> exists a, r = POk a /\ f a = POk c.
Proof. destruct r; simpl; [eauto|discriminate]. Qed.

Theorem build_valid q P : build_constraints q = POk P -> valid P.
Proof.
  unfold build_constraints. destruct q as [|kv q']; [intros H; inversion H; exact I|].
  set (q := kv :: q'). intros H.
  apply bind_ok in H as [depth [Hd H]].
  apply bind_ok in H as [range [_ H]].
  apply bind_ok in H as [fields [_ H]].
  apply bind_ok in H as [xfields [_ H]].
  apply bind_ok in H as [maxn [Hm H]].
  apply bind_ok in H as [cont [_ H]].
  apply bind_ok in H as [trim [_ H]].
  inversion H; subst P. split; simpl.
  - destruct (lookup (B "depth") q) as [v|]; [|inversion Hd; lia].
    destruct (atoi v) as [n|]; [|discriminate].
    destruct (n =? 0) eqn:E0; [discriminate|]. destruct (n <? 0) eqn:E1; [discriminate|].
    inversion Hd; subst. lia.
  - destruct (lookup (B "fc.max-node-count") q) as [v|]; [|inversion Hm; lia].
    destruct (atoi v) as [n|]; [|discriminate].
    destruct (n <? 0) eqn:E1; [discriminate|]. inversion Hm; subst. lia.
Qed.

Theorem read_query_is_projection q P kids data :
  build_constraints q = POk P ->
  forallb wf_schema kids = true -> shaped (SCont root_meta kids) (DCont data) = true ->
  read_query kids data q = spec_read P kids data.
Proof.
  intros Hb Hwf Hsh. unfold read_query. rewrite Hb. simpl.
  apply read_is_projection; auto. eapply build_valid; eauto.
Qed.

(** * an invalid parameter value is an error *)
Definition is_err {A} (r : pres A) : Prop := exists e, r = PErr e.
Lemma bind_err {A C} (r : pres A) (f : A -> pres C) : is_err r -> is_err (bind r f).
Proof. intros [e ->]. now exists e. Qed.
Lemma bind_err_k {A C} (r : pres A) (f : A -> pres C) : (forall a, is_err (f a)) -> is_err (bind r f).
Proof. intros H. destruct r; simpl; [apply H|now eexists]. Qed.

Definition bad_depth (v : list byte) : Prop := match atoi v with Some n => n < 1 | None => True end.
Definition bad_max_node (v : list byte) : Prop := match atoi v with Some n => n < 0 | None => True end.
Definition bad_content (v : list byte) : Prop := v <> B "config" /\ v <> B "nonconfig" /\ v <> B "all".
Definition bad_with_defaults (v : list byte) : Prop := v <> B "trim" /\ v <> B "report-all".
(** fc.range: no '!', or rows that are not  start [ '-' [ end ] ]  with decimal numbers *)
Definition bad_range (v : list byte) : Prop :=
  match cut_at x21 v [] with
  | None => True
  | Some (_, rows) =>
      match cut_at x2d rows [] with
      | None => atoi rows = None
      | Some (st, en) => atoi st = None \/ (en <> [] /\ atoi en = None)
      end
  end.

Lemma bytes_eqb_eq a b : bytes_eqb a b = true <-> a = b.
Proof. unfold bytes_eqb. rewrite Z.eqb_eq. apply lex_cmp_eq. Qed.
Lemma bytes_eqb_neq a b : a <> b -> bytes_eqb a b = false.
Proof. intros H. destruct (bytes_eqb a b) eqn:E; auto. apply bytes_eqb_eq in E. contradiction. Qed.

Lemma split_on_cut sep : forall s cur,
  split_on sep s cur = match cut_at sep s cur with
                       | None => [rev cur ++ s]
                       | Some (a, b) => a :: split_on sep b []
                       end.
Proof.
  induction s as [|c s IH]; intros cur; simpl.
  - now rewrite app_nil_r.
  - destruct (Byte.eqb c sep); auto. rewrite IH. simpl.
    destruct (cut_at sep s (c :: cur)) as [[a b]|]; auto. now rewrite <- app_assoc.
Qed.

Lemma split_on_nonempty sep : forall s cur, split_on sep s cur <> [].
Proof. induction s as [|c s IH]; intros cur; simpl; [discriminate|]. destruct (Byte.eqb c sep); [discriminate|apply IH]. Qed.

Theorem bad_param_is_error : forall q kids data v,
  (lookup (B "depth") q = Some v /\ bad_depth v) \/
  (lookup (B "fc.max-node-count") q = Some v /\ bad_max_node v) \/
  (lookup (B "content") q = Some v /\ bad_content v) \/
  (lookup (B "with-defaults") q = Some v /\ bad_with_defaults v) \/
  (lookup (B "fc.range") q = Some v /\ bad_range v) ->
  is_err (read_query kids data q).
Proof.
  intros q kids data v H. unfold read_query. apply bind_err.
  unfold build_constraints. destruct q as [|kv q']; [destruct H as [[H _]|[[H _]|[[H _]|[[H _]|[H _]]]]]; discriminate|].
  set (qq := kv :: q') in *.
  destruct H as [[Hl Hb]|[[Hl Hb]|[[Hl Hb]|[[Hl Hb]|[Hl Hb]]]]].
  - apply bind_err. rewrite Hl. unfold bad_depth in Hb. destruct (atoi v) as [n|]; [|now eexists].
    destruct (n =? 0) eqn:E0; [now eexists|]. destruct (n <? 0) eqn:E1; [now eexists|]. lia.
  - apply bind_err_k; intros depth. apply bind_err_k; intros range. apply bind_err_k; intros fields.
    apply bind_err_k; intros xfields. apply bind_err. rewrite Hl. unfold bad_max_node in Hb.
    destruct (atoi v) as [n|]; [|now eexists]. destruct (n <? 0) eqn:E1; [now eexists|]. lia.
  - apply bind_err_k; intros depth. apply bind_err_k; intros range. apply bind_err_k; intros fields.
    apply bind_err_k; intros xfields. apply bind_err_k; intros maxn. apply bind_err.
    unfold opt_param. rewrite Hl. apply bind_err. destruct Hb as [H1 [H2 H3]].
    unfold new_content. rewrite !bytes_eqb_neq by assumption. now eexists.
  - apply bind_err_k; intros depth. apply bind_err_k; intros range. apply bind_err_k; intros fields.
    apply bind_err_k; intros xfields. apply bind_err_k; intros maxn. apply bind_err_k; intros cont. apply bind_err.
    unfold opt_param. rewrite Hl. apply bind_err. destruct Hb as [H1 H2].
    unfold new_with_defaults. rewrite (bytes_eqb_neq v (B "trim")) by assumption.
    rewrite (bytes_eqb_neq v (B "report-all")) by assumption.
    destruct (bytes_eqb v (B "explicit")); [now eexists|].
    destruct (bytes_eqb v (B "report-all-tagged")); now eexists.
  - apply bind_err_k; intros depth. apply bind_err.
    unfold opt_param. rewrite Hl. apply bind_err. unfold new_list_range, bad_range in *.
    destruct (cut_at x21 v []) as [[sel rows]|]; [|now eexists].
    apply bind_err_k; intros ps. rewrite split_on_cut.
    destruct (cut_at x2d rows []) as [[st en]|].
    + rewrite split_on_cut. simpl rev. simpl app.
      destruct (cut_at x2d en []) as [[en1 en2]|] eqn:Ec.
      * (* a third part: error whatever it is *)
        destruct (split_on x2d en2 []) eqn:Es; [|now eexists].
        exfalso. eapply split_on_nonempty; eauto.
      * destruct Hb as [Hb|[Hne Hb]].
        -- rewrite Hb. now eexists.
        -- destruct (atoi st); [|now eexists]. destruct en; [congruence|]. rewrite Hb. now eexists.
    + simpl rev. simpl app. rewrite Hb. now eexists.
Qed.

(** * views that agree pointwise project alike; per-parameter forms *)
Definition view_equiv (V W : view) : Prop :=
  (forall fp m, vw_leaf V fp m = vw_leaf W fp m) /\
  (forall fp m, vw_node V fp m = vw_node W fp m) /\
  (forall fp rows, vw_rows V fp rows = vw_rows W fp rows) /\
  vw_trim V = vw_trim W.

Lemma project_view_ext V W : view_equiv V W ->
  forall s fp d, project_view V fp s d = project_view W fp s d.
Proof.
  intros [Hl [Hn [Hr Ht]]]. induction s as [m ty il dflt|m kids IHk|m keys row IHr] using snode_ind'; intros fp d.
  - destruct d; reflexivity.
  - destruct d as [v|dc|rows]; try reflexivity. simpl. f_equal. rewrite Forall_forall in IHk.
    apply map_kids_ext. intros k dk Hin.
    assert (Hk : In k kids).
    { clear -Hin. revert dc Hin. induction kids as [|k0 ks IH]; intros [|d0 dc] Hin; simpl in *; try contradiction.
      destruct Hin as [H|H]; [inversion H; auto|right; eapply IH; eauto]. }
    destruct k as [mk ty il dflt|mk kk|mk keys row].
    + rewrite Hl, Ht. reflexivity.
    + destruct dk as [sd|]; [|reflexivity]. rewrite Hn. destruct (vw_node W (fp ++ [nm_name mk]) mk); auto.
      f_equal. apply IHk; auto.
    + destruct dk as [sd|]; [|reflexivity]. rewrite Hn. destruct (vw_node W (fp ++ [nm_name mk]) mk); auto.
      f_equal. apply IHk; auto.
  - destruct d as [v|dc|rows]; try reflexivity. simpl. f_equal. rewrite Hr. apply map_ext. intros; apply IHr.
Qed.
Lemma project_ext V W kids c : view_equiv V W -> project V kids c = project W kids c.
Proof. intros H. unfold project. now rewrite (project_view_ext V W H). Qed.

(** the parameter record BuildConstraints makes of a query with one parameter: the others at their
    defaults (depth 64, at most 10000 containers) *)
Definition defaults : params := mkParams 64 None None None 10000 None false.
Definition bounded (n : Z) (t : content) : pres content := if count_c t >? n then PErr PConflict else POk t.

Section PerParameter.
  Variables (kids : list snode) (data : content).
  Hypothesis Hwf : forallb wf_schema kids = true.
  Hypothesis Hsh : shaped (SCont root_meta kids) (DCont data) = true.

  Let read p := read_content (Some p) kids data.
  Let full := full_read kids data.

  Lemma per_param p V : valid_params p -> view_equiv (params_view p) V ->
    read p = bounded (p_max_node p) (project V kids full).
  Proof.
    intros Hv He. unfold read. rewrite read_is_projection by auto. unfold spec_read, bounded.
    now rewrite (project_ext _ _ kids _ He).
  Qed.

  (** depth=n: nodes at most n levels below the target *)
  Theorem read_depth n : 1 <= n ->
    read (mkParams n None None None 10000 None false) = bounded 10000 (project (view_depth n) kids full).
  Proof.
    intros Hn. apply (per_param (mkParams n None None None 10000 None false)); [split; simpl; lia|].
    repeat split; intros; simpl; unfold keep_all; now rewrite ?andb_true_r.
  Qed.
  (** content=c (within the default depth) *)
  Theorem read_content_param c :
    read (mkParams 64 None None None 10000 (Some c) false)
    = bounded 10000 (project (inter (view_depth 64) (view_content c)) kids full).
  Proof.
    apply (per_param (mkParams 64 None None None 10000 (Some c) false)); [split; simpl; lia|].
    repeat split; intros; simpl; unfold keep_all; rewrite ?andb_true_r, ?andb_true_l; try reflexivity.
    destruct c; reflexivity.
  Qed.
  (** fields=ps *)
  Theorem read_fields ps :
    read (mkParams 64 None (Some ps) None 10000 None false)
    = bounded 10000 (project (inter (view_depth 64) (view_fields ps)) kids full).
  Proof.
    apply (per_param (mkParams 64 None (Some ps) None 10000 None false)); [split; simpl; lia|].
    repeat split; intros; simpl; unfold keep_all; now rewrite ?andb_true_r, ?andb_true_l.
  Qed.
  (** fc.xfields=ps *)
  Theorem read_xfields ps :
    read (mkParams 64 None None (Some ps) 10000 None false)
    = bounded 10000 (project (inter (view_depth 64) (view_xfields ps)) kids full).
  Proof.
    apply (per_param (mkParams 64 None None (Some ps) 10000 None false)); [split; simpl; lia|].
    repeat split; intros; simpl; unfold keep_all; now rewrite ?andb_true_r, ?andb_true_l.
  Qed.
  (** with-defaults=trim *)
  Theorem read_trim :
    read (mkParams 64 None None None 10000 None true)
    = bounded 10000 (project (inter (view_depth 64) view_trim) kids full).
  Proof.
    apply (per_param (mkParams 64 None None None 10000 None true)); [split; simpl; lia|].
    repeat split; intros; simpl; unfold keep_all; now rewrite ?andb_true_r, ?andb_true_l.
  Qed.
  (** fc.range=ps!st-en *)
  Theorem read_range ps st en :
    read (mkParams 64 (Some (ps, st, en)) None None 10000 None false)
    = bounded 10000 (project (inter (view_depth 64) (view_range ps st en)) kids full).
  Proof.
    apply (per_param (mkParams 64 (Some (ps, st, en)) None None 10000 None false)); [split; simpl; lia|].
    repeat split; intros; simpl; unfold keep_all; now rewrite ?andb_true_r, ?andb_true_l.
  Qed.
  (** fc.max-node-count=n *)
  Theorem read_max_node n : 0 <= n ->
    read (mkParams 64 None None None n None false) = bounded n (project (view_depth 64) kids full).
  Proof.
    intros Hn. apply (per_param (mkParams 64 None None None n None false)); [split; simpl; lia|].
    repeat split; intros; simpl; unfold keep_all; now rewrite ?andb_true_r.
  Qed.
End PerParameter.

(** the view of a parameter record is the intersection of the views of its parameters, and
    projecting by it is projecting by each of them in turn *)
Theorem params_view_is_composition p s fp d :
  project_view (params_view p) fp s d =
  project_view (view_depth (p_depth p)) fp s
 (project_view (opt_view (p_range p) (fun r => let '(ps, st, en) := r in view_range ps st en)) fp s
 (project_view (opt_view (p_fields p) view_fields) fp s
 (project_view (opt_view (p_xfields p) view_xfields) fp s
 (project_view (opt_view (p_content p) view_content) fp s
 (project_view (if p_trim p then view_trim else view_all) fp s d))))).
Proof.
  unfold params_view.
  rewrite project_compose by apply rows_natural_all_rows. f_equal.
  rewrite project_compose by (destruct (p_range p) as [[[ps st] en]|]; [apply rows_natural_range|apply rows_natural_all_rows]). f_equal.
  rewrite project_compose by (destruct (p_fields p); apply rows_natural_all_rows). f_equal.
  rewrite project_compose by (destruct (p_xfields p); apply rows_natural_all_rows). f_equal.
  rewrite project_compose by (destruct (p_content p) as [c|]; [apply rows_natural_content|apply rows_natural_all_rows]). reflexivity.
Qed.

(** a path expression with unbalanced parentheses (fields, fc.xfields, the selector of fc.range)
    is an error *)
Theorem bad_path_expr_is_error : forall q kids data v,
  (lookup (B "fields") q = Some v /\ balanced v 0 = false) \/
  (lookup (B "fc.xfields") q = Some v /\ balanced v 0 = false) \/
  (lookup (B "fc.range") q = Some v /\
   exists sel rows, cut_at x21 v [] = Some (sel, rows) /\ balanced sel 0 = false) ->
  is_err (read_query kids data q).
Proof.
  intros q kids data v H. unfold read_query. apply bind_err.
  unfold build_constraints. destruct q as [|kv q']; [destruct H as [[H _]|[[H _]|[H _]]]; discriminate|].
  set (qq := kv :: q') in *.
  destruct H as [[Hl Hb]|[[Hl Hb]|[Hl [sel [rows [Hc Hb]]]]]].
  - apply bind_err_k; intros depth. apply bind_err_k; intros range. apply bind_err.
    unfold opt_param. rewrite Hl. apply bind_err. rewrite parse_unbalanced_is_error by assumption. now eexists.
  - apply bind_err_k; intros depth. apply bind_err_k; intros range. apply bind_err_k; intros fields. apply bind_err.
    unfold opt_param. rewrite Hl. apply bind_err. rewrite parse_unbalanced_is_error by assumption. now eexists.
  - apply bind_err_k; intros depth. apply bind_err.
    unfold opt_param. rewrite Hl. apply bind_err. unfold new_list_range. rewrite Hc.
    apply bind_err. rewrite parse_unbalanced_is_error by assumption. now eexists.
Qed.
