(** Proofs about case clearing (C09). *)
From Coq Require Import ZArith List Bool Lia Strings.Byte.
From YV Require Import Val.Model Tree.Schema Tree.Editor Tree.Merge Tree.ChoiceInv.
Import ListNotations.
Open Scope nat_scope.

Lemma clear_case_nth c k kids : forall tgt i s,
  length tgt = length kids -> nth_error kids i = Some s ->
  nth i (clear_case c k kids tgt) None =
    match guard_case c (sguard s), guard_after c (sguard s) with
    | Some k', Some rest => if Nat.eqb k k' && guard_selected rest kids tgt then None else nth i tgt None
    | _, _ => nth i tgt None
    end.
Proof.
  unfold clear_case. intros tgt i s Hlen Hn.
  assert (Hc : nth_error (combine kids tgt) i = Some (s, nth i tgt None)).
  { revert tgt i Hlen Hn. induction kids as [|k0 kids IH]; intros [|d tgt] [|i] Hlen Hn; simpl in *; try discriminate.
    - inversion Hn; reflexivity.
    - apply IH; auto. }
  set (f := fun sd : snode * option dnode => let (s0, d) := sd in
            match guard_case c (sguard s0), guard_after c (sguard s0) with
            | Some k', Some rest => if Nat.eqb k k' && guard_selected rest kids tgt then None else d
            | _, _ => d end).
  change (nth i (map f (combine kids tgt)) None = f (s, nth i tgt None)).
  apply nth_error_nth. rewrite nth_error_map, Hc. reflexivity.
Qed.

Lemma clear_case_removes c k kids tgt i s :
  length tgt = length kids -> nth_error kids i = Some s ->
  guard_case c (sguard s) = Some k -> guard_after c (sguard s) = Some [] ->
  nth i (clear_case c k kids tgt) None = None.
Proof.
  intros Hlen Hn Hg Ha. rewrite (clear_case_nth c k kids tgt i s Hlen Hn), Hg, Ha.
  rewrite Nat.eqb_refl. reflexivity.
Qed.

Lemma clear_case_frame c k kids tgt i s :
  length tgt = length kids -> nth_error kids i = Some s ->
  guard_case c (sguard s) <> Some k ->
  nth i (clear_case c k kids tgt) None = nth i tgt None.
Proof.
  intros Hlen Hn Hg. rewrite (clear_case_nth c k kids tgt i s Hlen Hn).
  destruct (guard_case c (sguard s)) as [k'|]; [|reflexivity].
  destruct (guard_after c (sguard s)); [|reflexivity].
  destruct (Nat.eqb_spec k k'); [subst; congruence|reflexivity].
Qed.
