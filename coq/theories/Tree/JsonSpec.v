(** RFC 8259 JSON: tokens, the value grammar over tokens (inductive predicate and executable
    parser), the canonical token serialisation of a value tree, number lexemes and their exact
    decimal value, and a byte-level lexer.  Nothing in this file knows about YANG or the writer. *)
From Coq Require Import ZArith List Bool Strings.Byte.
From YV Require Import Val.Model Tree.JStr.
Import ListNotations.
Open Scope Z_scope.

Inductive jtok :=
| KLBrace | KRBrace | KLBrack | KRBrack | KComma | KColon
| KStr (s : list byte)         (* a string literal; [s] is the text it denotes (escaped when rendered) *)
| KName (s : list byte)        (* a member name written raw between quotes (JSONWtr.writeIdent) *)
| KNum (lexeme : list byte)    (* a number, as written *)
| KTrue | KFalse | KNull
| KWs (lvl : nat).             (* insignificant whitespace: line feed + 2*lvl spaces *)

Inductive jvalue :=
| JNull
| JBool (b : bool)
| JNum (lexeme : list byte)
| JStr (s : list byte)
| JArr (items : list jvalue)
| JObj (members : list (list byte * jvalue)).

(** ** rendering of tokens *)
Definition render_tok (t : jtok) : list byte :=
  match t with
  | KLBrace => [x7b] | KRBrace => [x7d] | KLBrack => [x5b] | KRBrack => [x5d]
  | KComma => [x2c] | KColon => [x3a]
  | KStr s => jwrite s
  | KName s => x22 :: s ++ [x22]
  | KNum l => l
  | KTrue => [x74; x72; x75; x65]
  | KFalse => [x66; x61; x6c; x73; x65]
  | KNull => [x6e; x75; x6c; x6c]
  | KWs lvl => x0a :: repeat x20 (2 * lvl)
  end.
Definition render (ts : list jtok) : list byte := flat_map render_tok ts.

Definition is_ws (t : jtok) : bool := match t with KWs _ => true | _ => false end.
(** dropping insignificant whitespace; a raw name is a string token for the grammar *)
Definition norm_tok (t : jtok) : jtok := match t with KName s => KStr s | _ => t end.
Definition strip_ws (ts : list jtok) : list jtok := filter (fun t => negb (is_ws t)) ts.
Definition normalize (ts : list jtok) : list jtok := map norm_tok (strip_ws ts).

(** ** canonical serialisation of a value *)
Fixpoint join_comma (l : list (list jtok)) : list jtok :=
  match l with
  | [] => []
  | [x] => x
  | x :: tl => x ++ KComma :: join_comma tl
  end.

Fixpoint toks_of (v : jvalue) : list jtok :=
  match v with
  | JNull => [KNull]
  | JBool true => [KTrue]
  | JBool false => [KFalse]
  | JNum l => [KNum l]
  | JStr s => [KStr s]
  | JArr l => KLBrack :: join_comma (map toks_of l) ++ [KRBrack]
  | JObj ms => KLBrace :: join_comma (map (fun kv => KStr (fst kv) :: KColon :: toks_of (snd kv)) ms) ++ [KRBrace]
  end.

(** ** number lexemes (RFC 8259 section 6): optional minus, integer part without a leading zero,
    optional fraction, optional exponent *)
Definition is_digit (b : byte) : bool := (48 <=? bz b) && (bz b <=? 57).
Fixpoint span_digits (s : list byte) : list byte * list byte :=
  match s with
  | b :: t => if is_digit b then let (d, r) := span_digits t in (b :: d, r) else ([], s)
  | [] => ([], [])
  end.

(** decimal digits to a number *)
Definition digits_z (ds : list byte) : Z := fold_left (fun acc b => acc * 10 + (bz b - 48)) ds 0.

(** [num_parse l]: Some (mantissa, exponent10) when [l] is a well-formed JSON number denoting
    mantissa * 10^exponent10 *)
Definition num_parse (l : list byte) : option (Z * Z) :=
  let (neg, l1) := match l with b :: t => if bz b =? 45 then (true, t) else (false, l) | [] => (false, l) end in
  let (ip, l2) := span_digits l1 in
  match ip with
  | [] => None
  | d0 :: dt =>
      if (bz d0 =? 48) && negb (match dt with [] => true | _ => false end) then None   (* leading zero *)
      else
        let '(fp, l3, okf) :=
          match l2 with
          | b :: t => if bz b =? 46 then let (f, r) := span_digits t in (f, r, negb (match f with [] => true | _ => false end))
                      else ([], l2, true)
          | [] => ([], l2, true)
          end in
        if negb okf then None else
        let mant := digits_z (ip ++ fp) in
        let mant := if neg then - mant else mant in
        let k := - Z.of_nat (length fp) in
        match l3 with
        | [] => Some (mant, k)
        | b :: t =>
            if (bz b =? 101) || (bz b =? 69) then
              let (eneg, t1) := match t with
                                | s :: t' => if bz s =? 45 then (true, t') else if bz s =? 43 then (false, t') else (false, t)
                                | [] => (false, t)
                                end in
              let (ed, r) := span_digits t1 in
              match ed, r with
              | _ :: _, [] => Some (mant, k + (if eneg then - digits_z ed else digits_z ed))
              | _, _ => None
              end
            else None
        end
  end.
Definition number_lexeme (l : list byte) : bool := match num_parse l with Some _ => true | None => false end.

(** ** the value grammar of RFC 8259 over (whitespace-free) tokens *)
Inductive wf_value : list jtok -> Prop :=
| WNull : wf_value [KNull]
| WTrue : wf_value [KTrue]
| WFalse : wf_value [KFalse]
| WNum l : number_lexeme l = true -> wf_value [KNum l]
| WStr s : wf_value [KStr s]
| WArr0 : wf_value [KLBrack; KRBrack]
| WArr ts : wf_elems ts -> wf_value (KLBrack :: ts ++ [KRBrack])
| WObj0 : wf_value [KLBrace; KRBrace]
| WObj ts : wf_members ts -> wf_value (KLBrace :: ts ++ [KRBrace])
with wf_elems : list jtok -> Prop :=
| WE1 v : wf_value v -> wf_elems v
| WEc v r : wf_value v -> wf_elems r -> wf_elems (v ++ KComma :: r)
with wf_members : list jtok -> Prop :=
| WM1 k v : wf_value v -> wf_members (KStr k :: KColon :: v)
| WMc k v r : wf_value v -> wf_members r -> wf_members ((KStr k :: KColon :: v) ++ KComma :: r).

(** ** executable parser over tokens; fuel bounds the recursion depth plus sibling count *)
Fixpoint pval (fuel : nat) (ts : list jtok) : option (jvalue * list jtok) :=
  match fuel with
  | O => None
  | S f =>
      match ts with
      | KNull :: r => Some (JNull, r)
      | KTrue :: r => Some (JBool true, r)
      | KFalse :: r => Some (JBool false, r)
      | KNum l :: r => if number_lexeme l then Some (JNum l, r) else None
      | KStr s :: r => Some (JStr s, r)
      | KLBrack :: KRBrack :: r => Some (JArr [], r)
      | KLBrack :: r => match pelems f r with Some (l, r') => Some (JArr l, r') | None => None end
      | KLBrace :: KRBrace :: r => Some (JObj [], r)
      | KLBrace :: r => match pmems f r with Some (l, r') => Some (JObj l, r') | None => None end
      | _ => None
      end
  end
with pelems (fuel : nat) (ts : list jtok) : option (list jvalue * list jtok) :=
  match fuel with
  | O => None
  | S f =>
      match pval f ts with
      | Some (v, KComma :: r) => match pelems f r with Some (l, r') => Some (v :: l, r') | None => None end
      | Some (v, KRBrack :: r) => Some ([v], r)
      | _ => None
      end
  end
with pmems (fuel : nat) (ts : list jtok) : option (list (list byte * jvalue) * list jtok) :=
  match fuel with
  | O => None
  | S f =>
      match ts with
      | KStr k :: KColon :: r =>
          match pval f r with
          | Some (v, KComma :: r') => match pmems f r' with Some (l, r'') => Some ((k, v) :: l, r'') | None => None end
          | Some (v, KRBrace :: r') => Some ([(k, v)], r')
          | _ => None
          end
      | _ => None
      end
  end.

(** exactly one value and nothing after it *)
Definition parse_tokens (ts : list jtok) : option jvalue :=
  match pval (S (length ts)) ts with Some (v, []) => Some v | _ => None end.

(** ** byte-level lexer (drops whitespace; strings are decoded by the reference decoder) *)
Definition is_wsb (b : byte) : bool := (bz b =? 32) || (bz b =? 10) || (bz b =? 13) || (bz b =? 9).
Definition is_numch (b : byte) : bool :=
  is_digit b || (bz b =? 45) || (bz b =? 43) || (bz b =? 46) || (bz b =? 101) || (bz b =? 69).
Fixpoint span_num (s : list byte) : list byte * list byte :=
  match s with
  | b :: t => if is_numch b then let (d, r) := span_num t in (b :: d, r) else ([], s)
  | [] => ([], [])
  end.

Fixpoint lex (fuel : nat) (s : list byte) : option (list jtok) :=
  match fuel with
  | O => None
  | S f =>
      match s with
      | [] => Some []
      | b :: t =>
          let z := bz b in
          let cons1 (tk : jtok) (rest : list byte) :=
            match lex f rest with Some l => Some (tk :: l) | None => None end in
          if is_wsb b then lex f t
          else if z =? 123 then cons1 KLBrace t
          else if z =? 125 then cons1 KRBrace t
          else if z =? 91 then cons1 KLBrack t
          else if z =? 93 then cons1 KRBrack t
          else if z =? 44 then cons1 KComma t
          else if z =? 58 then cons1 KColon t
          else if z =? 34 then
            match jdec t with Some (r, rest) => cons1 (KStr r) rest | None => None end
          else if z =? 116 then
            match t with
            | c1 :: c2 :: c3 :: rest =>
                if (bz c1 =? 114) && (bz c2 =? 117) && (bz c3 =? 101) then cons1 KTrue rest else None
            | _ => None
            end
          else if z =? 102 then
            match t with
            | c1 :: c2 :: c3 :: c4 :: rest =>
                if (bz c1 =? 97) && (bz c2 =? 108) && (bz c3 =? 115) && (bz c4 =? 101) then cons1 KFalse rest else None
            | _ => None
            end
          else if z =? 110 then
            match t with
            | c1 :: c2 :: c3 :: rest =>
                if (bz c1 =? 117) && (bz c2 =? 108) && (bz c3 =? 108) then cons1 KNull rest else None
            | _ => None
            end
          else if is_numch b then
            let (l, rest) := span_num s in
            if number_lexeme l then cons1 (KNum l) rest else None
          else None
      end
  end.

(** the whole byte stream is exactly one JSON value *)
Definition parse_bytes (s : list byte) : option jvalue :=
  match lex (S (length s)) s with
  | Some ts => parse_tokens ts
  | None => None
  end.

(** ** decimal rendering of integers (strconv.Itoa / FormatInt / FormatUint) *)
Fixpoint uint_bytes (u : Decimal.uint) : list byte :=
  match u with
  | Decimal.Nil => []
  | Decimal.D0 u => x30 :: uint_bytes u | Decimal.D1 u => x31 :: uint_bytes u
  | Decimal.D2 u => x32 :: uint_bytes u | Decimal.D3 u => x33 :: uint_bytes u
  | Decimal.D4 u => x34 :: uint_bytes u | Decimal.D5 u => x35 :: uint_bytes u
  | Decimal.D6 u => x36 :: uint_bytes u | Decimal.D7 u => x37 :: uint_bytes u
  | Decimal.D8 u => x38 :: uint_bytes u | Decimal.D9 u => x39 :: uint_bytes u
  end.
Definition z_dec (z : Z) : list byte :=
  match Z.to_int z with
  | Decimal.Pos u => uint_bytes u
  | Decimal.Neg u => x2d :: uint_bytes u
  end.
