(** RFC 7950 7.8.5 on input: re-ordering sibling elements while same-named ones keep their relative
    order does not change what an XmlNode presents, at any depth.

      xml_interleave : xequiv x x' -> read_doc s x = read_doc s x'      (container-like selections)

    [xequiv]: same name and declaration, same character data, and for every name the sub-lists of
    children of that name correspond one to one, recursively. *)
From Coq Require Import ZArith List Bool Strings.Byte.
From YV Require Import Val.Model Tree.Schema Tree.Editor Tree.XmlEsc Tree.XmlW Tree.XmlR Tree.XmlViewProofs.
Import ListNotations.

Definition name_is (n : ident) (x : xelem) : bool :=
  match x with XE n' _ _ => text_eqb n' n | XText _ => false end.

Inductive xequiv : xelem -> xelem -> Prop :=
| xq_text : forall t, xequiv (XText t) (XText t)
| xq_elem : forall n a k k',
    chardata k = chardata k' ->
    (forall nm, Forall2 xequiv (filter (name_is nm) k) (filter (name_is nm) k')) ->
    xequiv (XE n a k) (XE n a k').

(** siblings: for every name, the same-named elements correspond in order *)
Definition sib_equiv (l l' : list xelem) : Prop :=
  forall nm, Forall2 xequiv (filter (name_is nm) l) (filter (name_is nm) l').

Lemma Forall2_filter : forall (A : Type) (R : A -> A -> Prop) (f : A -> bool),
  (forall x y, R x y -> f x = f y) ->
  forall l l', Forall2 R l l' -> Forall2 R (filter f l) (filter f l').
Proof.
  intros A R f Hf l l' H. induction H as [|x y l l' Hxy _ IH]; [constructor|].
  simpl. rewrite (Hf x y Hxy). destruct (f y); [constructor; assumption | exact IH].
Qed.

Lemma filter_filter : forall (A : Type) (f g : A -> bool) l, filter f (filter g l) = filter (fun x => g x && f x) l.
Proof.
  intros A f g l. induction l as [|a l IH]; [reflexivity|]. simpl.
  destruct (g a); simpl; [destruct (f a); rewrite IH; reflexivity | exact IH].
Qed.

Section Interleave.
  Variable nss : list (ident * text).
  Variable parse_dec : text -> option (Z * Z).
  Variable trim_strings : bool.
  Variable choose_own_only : bool.
  Notation x2d_node := (x2d_node nss parse_dec trim_strings choose_own_only).
  Notation matches := (matches nss).
  Notation candidates := (candidates nss).

  Lemma xequiv_matches : forall inh m x y, xequiv x y -> matches inh m x = matches inh m y.
  Proof. intros inh m x y H. destruct H; reflexivity. Qed.
  Lemma xequiv_is_elem : forall x y, xequiv x y -> is_elem x = is_elem y.
  Proof. intros x y H. destruct H; reflexivity. Qed.
  Lemma xequiv_eff_ns : forall inh x y, xequiv x y -> eff_ns inh x = eff_ns inh y.
  Proof. intros inh x y H. destruct H; reflexivity. Qed.
  Lemma xequiv_leaf_text : forall ty x y, xequiv x y -> leaf_text trim_strings ty x = leaf_text trim_strings ty y.
  Proof. intros ty x y H. destruct H as [|n a k k' Hc _]; [reflexivity|]. unfold leaf_text. cbn [xkids]. rewrite Hc. reflexivity. Qed.
  Lemma xequiv_kids : forall x y, xequiv x y -> sib_equiv (xkids x) (xkids y).
  Proof. intros x y H. destruct H; [intros nm; constructor | assumption]. Qed.

  (** the test of Find = the name test and a test that equivalent elements pass alike *)
  Lemma matches_split : forall inh m l,
    filter (matches inh m) l = filter (matches inh m) (filter (name_is (nm_name m)) l).
  Proof.
    intros inh m l. rewrite filter_filter. apply filter_ext. intros x.
    destruct x as [n a k|t]; [|reflexivity]. unfold XmlR.matches, name_is.
    destruct (text_eqb n (nm_name m)); reflexivity.
  Qed.

  Lemma sib_candidates : forall inh m l l', sib_equiv l l' ->
    Forall2 xequiv (candidates false inh m l) (candidates false inh m l').
  Proof.
    intros inh m l l' H. unfold XmlR.candidates, find_all.
    rewrite (matches_split inh m l), (matches_split inh m l').
    apply Forall2_filter; [intros x y Hxy; apply xequiv_matches; exact Hxy | apply H].
  Qed.

  Theorem interleave_node : forall s any inh sibs sibs',
    Forall2 xequiv (candidates any inh (smeta s) sibs) (candidates any inh (smeta s) sibs') ->
    x2d_node s any inh sibs = x2d_node s any inh sibs'.
  Proof.
    induction s as [m ty il dflt | m kids IHk | m keys row IHrow] using snode_ind2;
      intros any inh sibs sibs' H; cbn [smeta] in H.
    - cbn [XmlR.x2d_node].
      remember (candidates any inh m sibs) as c eqn:Ec. remember (candidates any inh m sibs') as c' eqn:Ec'. clear Ec Ec'.
      destruct il.
      + assert (E : map (leaf_text trim_strings ty) c = map (leaf_text trim_strings ty) c').
        { induction H as [|x y l l' Hxy _ IH]; [reflexivity|]. cbn [map]. rewrite (xequiv_leaf_text ty x y Hxy), IH. reflexivity. }
        destruct H as [|x y l l' Hxy Hl]; [reflexivity|]. cbv iota. rewrite E. reflexivity.
      + destruct H as [|x y l l' Hxy Hl]; [reflexivity|]. cbv iota.
        rewrite (xequiv_leaf_text ty x y Hxy). reflexivity.
    - cbn [XmlR.x2d_node].
      remember (candidates any inh m sibs) as c eqn:Ec. remember (candidates any inh m sibs') as c' eqn:Ec'. clear Ec Ec'.
      destruct H as [|x y l l' Hxy Hl]; [reflexivity|]. cbv iota.
      rewrite (xequiv_eff_ns inh x y Hxy).
      pose proof (xequiv_kids x y Hxy) as HK.
      assert (GO : forall ks, Forall (fun s => forall any inh sibs sibs',
                      Forall2 xequiv (candidates any inh (smeta s) sibs) (candidates any inh (smeta s) sibs') ->
                      x2d_node s any inh sibs = x2d_node s any inh sibs') ks ->
                (fix go (ks : list snode) {struct ks} : res content :=
                   match ks with
                   | [] => Ok []
                   | k :: ks' =>
                       match x2d_node k false (eff_ns inh y) (xkids x) with
                       | Err e => Err e
                       | Ok d => match go ks' with Err e => Err e | Ok c => Ok (d :: c) end
                       end
                   end) ks =
                (fix go (ks : list snode) {struct ks} : res content :=
                   match ks with
                   | [] => Ok []
                   | k :: ks' =>
                       match x2d_node k false (eff_ns inh y) (xkids y) with
                       | Err e => Err e
                       | Ok d => match go ks' with Err e => Err e | Ok c => Ok (d :: c) end
                       end
                   end) ks).
      { induction ks as [|k ks IH]; intros HP; [reflexivity|].
        rewrite (Forall_inv HP false (eff_ns inh y) (xkids x) (xkids y) (sib_candidates _ _ _ _ HK)).
        rewrite (IH (Forall_inv_tail HP)). reflexivity. }
      rewrite (GO kids IHk). reflexivity.
    - cbn [XmlR.x2d_node].
      assert (ROWS : forall l l', Forall2 xequiv l l' ->
                (fix rows (l : list xelem) {struct l} : res (list dnode) :=
                   match l with
                   | [] => Ok []
                   | x :: l' =>
                       match x2d_node row true inh [x] with
                       | Ok (Some r) =>
                           if forallb present (row_key keys r)
                           then match rows l' with Ok rs => Ok (r :: rs) | Err e => Err e end
                           else Err EOther
                       | Ok None => Err EOther
                       | Err e => Err e
                       end
                   end) l =
                (fix rows (l : list xelem) {struct l} : res (list dnode) :=
                   match l with
                   | [] => Ok []
                   | x :: l' =>
                       match x2d_node row true inh [x] with
                       | Ok (Some r) =>
                           if forallb present (row_key keys r)
                           then match rows l' with Ok rs => Ok (r :: rs) | Err e => Err e end
                           else Err EOther
                       | Ok None => Err EOther
                       | Err e => Err e
                       end
                   end) l').
      { intros l l' HF. induction HF as [|x y l l' Hxy _ IH]; [reflexivity|].
        assert (E : x2d_node row true inh [x] = x2d_node row true inh [y]).
        { apply IHrow. unfold XmlR.candidates. cbn [filter]. rewrite (xequiv_is_elem x y Hxy).
          destruct (is_elem y); constructor; [exact Hxy | constructor]. }
        rewrite E, IH. reflexivity. }
      remember (candidates any inh m sibs) as c eqn:Ec. remember (candidates any inh m sibs') as c' eqn:Ec'. clear Ec Ec'.
      destruct H as [|x y l l' Hxy Hl]; [reflexivity|]. cbv iota.
      rewrite (ROWS (x :: l) (y :: l')); [reflexivity|]. constructor; assumption.
  Qed.

  (** documents read into a container-like selection (module, container, list entry) *)
  Theorem xml_interleave : forall m kids x x', xequiv x x' ->
    read_doc nss parse_dec trim_strings choose_own_only (SCont m kids) x = read_doc nss parse_dec trim_strings choose_own_only (SCont m kids) x'.
  Proof.
    intros m kids x x' H. unfold read_doc, x2d_doc.
    destruct H as [t | n a k k' Ht Hk]; [reflexivity|].
    rewrite (interleave_node (SCont m kids) true [] [XE n a k] [XE n a k']); [reflexivity|].
    unfold XmlR.candidates. cbn [filter is_elem]. constructor; [constructor; assumption | constructor].
  Qed.

  (** a list selection takes the document element's children as entries in document order: the
      entries themselves may be interleaved inside *)
  Theorem xml_interleave_list : forall m keys row x x',
    eff_ns [] x = eff_ns [] x' ->
    Forall2 xequiv (filter is_elem (xkids x)) (filter is_elem (xkids x')) ->
    is_elem x = true -> is_elem x' = true ->
    read_doc nss parse_dec trim_strings choose_own_only (SList m keys row) x = read_doc nss parse_dec trim_strings choose_own_only (SList m keys row) x'.
  Proof.
    intros m keys row x x' Hn Hk Hx Hx'. unfold read_doc, x2d_doc.
    destruct x as [n a k|]; [|discriminate Hx]. destruct x' as [n' a' k'|]; [|discriminate Hx'].
    rewrite Hn. cbn [xkids] in *.
    rewrite (interleave_node (SList m keys row) true (eff_ns [] (XE n' a' k')) k k'); [reflexivity|].
    exact Hk.
  Qed.
End Interleave.
