(** Proofs about Tree/JStr.v: the reference decoder inverts writeString on every byte string
    (modulo the U+FFFD replacement of ill-formed bytes, the identity on well-formed UTF-8), and
    the written literal contains no raw control character, quote or backslash. *)
From Coq Require Import ZArith List Bool Lia Strings.Byte.
From YV Require Import Val.Model Tree.JStr.
Import ListNotations.
Open Scope Z_scope.

Lemma bz_range b : 0 <= bz b < 256.
Proof. destruct b; vm_compute; split; congruence. Qed.

Lemma bz_inj a b : bz a = bz b -> a = b.
Proof.
  unfold bz, byte_z. intros H. apply N2Z.inj in H.
  pose proof (Byte.of_to_N a) as Ha. pose proof (Byte.of_to_N b) as Hb.
  rewrite H in Ha. rewrite Ha in Hb. congruence.
Qed.

Definition dec_cons (p : list byte) (o : option (list byte * list byte)) :=
  match o with Some (r, rest) => Some (p ++ r, rest) | None => None end.

(** a byte that is neither quote, backslash nor a control character is copied *)
Lemma jdec_plain b t : bz b <> 34 -> bz b <> 92 -> 32 <= bz b ->
  jdec (b :: t) = dec_cons [b] (jdec t).
Proof.
  intros H1 H2 H3. cbn [jdec].
  destruct (bz b =? 34) eqn:E1; [lia|]. destruct (bz b =? 92) eqn:E2; [lia|].
  destruct (bz b <? 32) eqn:E3; [lia|]. destruct (jdec t) as [[r rest]|]; reflexivity.
Qed.

Lemma jdec_safe b t : html_safe b = true -> jdec (b :: t) = dec_cons [b] (jdec t).
Proof.
  unfold html_safe. intros H. apply jdec_plain; lia.
Qed.

Lemma jdec_high b t : 128 <= bz b -> jdec (b :: t) = dec_cons [b] (jdec t).
Proof. intros H. apply jdec_plain; lia. Qed.

(** the escape of an unsafe ASCII byte decodes to that byte *)
Lemma jdec_esc_ascii b t : bz b <? 128 = true -> html_safe b = false ->
  jdec (esc_ascii b ++ t) = dec_cons [b] (jdec t).
Proof.
  intros H1 H2.
  destruct b; try (vm_compute in H1; discriminate H1); try (vm_compute in H2; discriminate H2);
    cbn; destruct (jdec t) as [[r rest]|]; reflexivity.
Qed.

Lemma jdec_esc_fffd t : jdec (esc_fffd ++ t) = dec_cons fffd (jdec t).
Proof. cbn. destruct (jdec t) as [[r rest]|]; reflexivity. Qed.

Lemma jdec_esc_2028 t : jdec (esc_202x 8232 ++ t) = dec_cons [xe2; x80; xa8] (jdec t).
Proof. cbn. destruct (jdec t) as [[r rest]|]; reflexivity. Qed.
Lemma jdec_esc_2029 t : jdec (esc_202x 8233 ++ t) = dec_cons [xe2; x80; xa9] (jdec t).
Proof. cbn. destruct (jdec t) as [[r rest]|]; reflexivity. Qed.

(** facts carried by a successful utf8_seq *)
Lemma is_cont_high b : is_cont b = true -> 128 <= bz b <= 191.
Proof. unfold is_cont. lia. Qed.

Ltac split_ifs H :=
  repeat match type of H with
         | context [if ?x then _ else _] => let E := fresh "E" in destruct x eqn:E
         end.

Lemma utf8_seq_2 b0 t c : utf8_seq b0 t = Some (c, 2%nat) ->
  exists b1 t1, t = b1 :: t1 /\ 128 <= bz b1.
Proof.
  unfold utf8_seq. intros H.
  destruct ((194 <=? bz b0) && (bz b0 <=? 223)) eqn:E0.
  - destruct t as [|b1 t1]; [discriminate|]. destruct (is_cont b1) eqn:E1; [|discriminate].
    exists b1, t1. apply is_cont_high in E1. split; [reflexivity|lia].
  - destruct ((224 <=? bz b0) && (bz b0 <=? 239)).
    + destruct t as [|b1 [|b2 t2]]; try discriminate.
      match type of H with (if ?x then _ else _) = _ => destruct x end; discriminate.
    + destruct ((240 <=? bz b0) && (bz b0 <=? 244)); [|discriminate].
      destruct t as [|b1 [|b2 [|b3 t3]]]; try discriminate.
      match type of H with (if ?x then _ else _) = _ => destruct x end; discriminate.
Qed.

Lemma utf8_seq_3 b0 t c : utf8_seq b0 t = Some (c, 3%nat) ->
  exists b1 b2 t2, t = b1 :: b2 :: t2 /\ 224 <= bz b0 <= 239 /\ 128 <= bz b1 <= 191 /\ 128 <= bz b2 <= 191 /\
    c = (bz b0 - 224) * 4096 + (bz b1 - 128) * 64 + (bz b2 - 128).
Proof.
  unfold utf8_seq. intros H.
  destruct ((194 <=? bz b0) && (bz b0 <=? 223)) eqn:E0.
  - destruct t as [|b1 t1]; [discriminate|]. destruct (is_cont b1); discriminate.
  - destruct ((224 <=? bz b0) && (bz b0 <=? 239)) eqn:E1.
    + destruct t as [|b1 [|b2 t2]]; try discriminate.
      match type of H with (if ?x then _ else _) = _ => destruct x eqn:E2 end; [|discriminate].
      injection H as Hc. exists b1, b2, t2.
      apply andb_true_iff in E2 as [E2 E3]. apply andb_true_iff in E2 as [E2 E4].
      apply is_cont_high in E3.
      destruct (bz b0 =? 224); destruct (bz b0 =? 237); repeat split; try lia.
    + destruct ((240 <=? bz b0) && (bz b0 <=? 244)); [|discriminate].
      destruct t as [|b1 [|b2 [|b3 t3]]]; try discriminate.
      match type of H with (if ?x then _ else _) = _ => destruct x end; discriminate.
Qed.

Lemma utf8_seq_4 b0 t c : utf8_seq b0 t = Some (c, 4%nat) ->
  exists b1 b2 b3 t3, t = b1 :: b2 :: b3 :: t3 /\ 128 <= bz b1 /\ 128 <= bz b2 /\ 128 <= bz b3.
Proof.
  unfold utf8_seq. intros H.
  destruct ((194 <=? bz b0) && (bz b0 <=? 223)) eqn:E0.
  - destruct t as [|b1 t1]; [discriminate|]. destruct (is_cont b1); discriminate.
  - destruct ((224 <=? bz b0) && (bz b0 <=? 239)) eqn:E1.
    + destruct t as [|b1 [|b2 t2]]; try discriminate.
      match type of H with (if ?x then _ else _) = _ => destruct x end; discriminate.
    + destruct ((240 <=? bz b0) && (bz b0 <=? 244)); [|discriminate].
      destruct t as [|b1 [|b2 [|b3 t3]]]; try discriminate.
      match type of H with (if ?x then _ else _) = _ => destruct x eqn:E2 end; [|discriminate].
      exists b1, b2, b3, t3.
      apply andb_true_iff in E2 as [E2 E3]. apply andb_true_iff in E2 as [E2 E4].
      apply andb_true_iff in E2 as [E2 E5].
      apply is_cont_high in E3. apply is_cont_high in E4.
      destruct (bz b0 =? 240); destruct (bz b0 =? 244); repeat split; try lia.
Qed.

Lemma utf8_seq_size b0 t c n : utf8_seq b0 t = Some (c, n) -> n = 2%nat \/ n = 3%nat \/ n = 4%nat.
Proof.
  unfold utf8_seq. intros H.
  destruct ((194 <=? bz b0) && (bz b0 <=? 223)).
  - destruct t as [|b1 t1]; [discriminate|]. destruct (is_cont b1); [|discriminate]. injection H; auto.
  - destruct ((224 <=? bz b0) && (bz b0 <=? 239)).
    + destruct t as [|b1 [|b2 t2]]; try discriminate.
      match type of H with (if ?x then _ else _) = _ => destruct x end; [|discriminate]. injection H; auto.
    + destruct ((240 <=? bz b0) && (bz b0 <=? 244)); [|discriminate].
      destruct t as [|b1 [|b2 [|b3 t3]]]; try discriminate.
      match type of H with (if ?x then _ else _) = _ => destruct x end; [|discriminate]. injection H; auto.
Qed.

Lemma dec_cons_app p q o : dec_cons p (dec_cons q o) = dec_cons (p ++ q) o.
Proof. destruct o as [[r rest]|]; cbn; [rewrite app_assoc|]; reflexivity. Qed.

(** main lemma: decoding the body followed by the closing quote *)
Lemma jdec_jbody : forall n s, (length s <= n)%nat -> forall rest,
  jdec (jbody s ++ x22 :: rest) = Some (sanitize s, rest).
Proof.
  induction n as [|n IH]; intros s Hn rest.
  - destruct s; [reflexivity | cbn in Hn; lia].
  - destruct s as [|b0 t0]; [reflexivity|]. cbn [length] in Hn.
    cbn [jbody sanitize]. destruct (bz b0 <? 128) eqn:Ea.
    + (* ASCII *)
      rewrite <- app_assoc.
      destruct (html_safe b0) eqn:Es.
      * cbn [app]. rewrite jdec_safe by assumption. rewrite IH by lia. reflexivity.
      * rewrite jdec_esc_ascii by assumption. rewrite IH by lia. reflexivity.
    + assert (Hb0 : 128 <= bz b0) by lia.
      assert (Hbad : jdec ((esc_fffd ++ jbody t0) ++ x22 :: rest) = Some (fffd ++ sanitize t0, rest)).
      { rewrite <- app_assoc, jdec_esc_fffd, IH by lia. reflexivity. }
      destruct (utf8_seq b0 t0) as [[c sz]|] eqn:Hseq; [|exact Hbad].
      destruct (utf8_seq_size _ _ _ _ Hseq) as [-> | [-> | ->]].
      * destruct (utf8_seq_2 _ _ _ Hseq) as (b1 & t1 & -> & H1).
        cbn [app length] in *. rewrite jdec_high by lia. rewrite jdec_high by lia.
        rewrite IH by lia. reflexivity.
      * destruct (utf8_seq_3 _ _ _ Hseq) as (b1 & b2 & t2 & -> & H0 & H1 & H2 & Hc).
        cbn [length] in Hn.
        destruct ((c =? 8232) || (c =? 8233)) eqn:Ec.
        -- rewrite <- app_assoc.
           apply orb_true_iff in Ec as [Ec|Ec]; apply Z.eqb_eq in Ec.
           ++ assert (bz b0 = 226 /\ bz b1 = 128 /\ bz b2 = 168) as (A0 & A1 & A2) by lia.
              apply (bz_inj b0 xe2) in A0. apply (bz_inj b1 x80) in A1. apply (bz_inj b2 xa8) in A2.
              subst b0 b1 b2. rewrite Ec, jdec_esc_2028, IH by lia. reflexivity.
           ++ assert (bz b0 = 226 /\ bz b1 = 128 /\ bz b2 = 169) as (A0 & A1 & A2) by lia.
              apply (bz_inj b0 xe2) in A0. apply (bz_inj b1 x80) in A1. apply (bz_inj b2 xa9) in A2.
              subst b0 b1 b2. rewrite Ec, jdec_esc_2029, IH by lia. reflexivity.
        -- cbn [app]. rewrite jdec_high by lia. rewrite jdec_high by lia. rewrite jdec_high by lia.
           rewrite IH by lia. reflexivity.
      * destruct (utf8_seq_4 _ _ _ Hseq) as (b1 & b2 & b3 & t3 & -> & H1 & H2 & H3).
        cbn [app length] in *.
        rewrite jdec_high by lia. rewrite jdec_high by lia. rewrite jdec_high by lia. rewrite jdec_high by lia.
        rewrite IH by lia. reflexivity.
Qed.

(** every written literal decodes, to the sanitised text; what follows it is left untouched *)
Theorem jdec_jwrite s rest : jdec (jbody s ++ x22 :: rest) = Some (sanitize s, rest).
Proof. apply (jdec_jbody (length s)). lia. Qed.

Theorem jdecode_jwrite s : jdecode (jwrite s) = Some (sanitize s).
Proof.
  unfold jdecode, jwrite. cbn [bz]. replace (bz x22 =? 34) with true by reflexivity.
  change (jbody s ++ [x22]) with (jbody s ++ x22 :: []). rewrite jdec_jwrite. reflexivity.
Qed.

(** well-formed UTF-8 is not altered by the replacement *)
Lemma sanitize_valid : forall n s, (length s <= n)%nat -> valid_utf8 s = true -> sanitize s = s.
Proof.
  induction n as [|n IH]; intros s Hn Hv.
  - destruct s; [reflexivity | cbn in Hn; lia].
  - destruct s as [|b0 t0]; [reflexivity|]. cbn [length] in Hn. cbn [sanitize valid_utf8] in *.
    destruct (bz b0 <? 128).
    + rewrite IH; auto; lia.
    + destruct (utf8_seq b0 t0) as [[c sz]|] eqn:Hseq; [|discriminate].
      destruct (utf8_seq_size _ _ _ _ Hseq) as [-> | [-> | ->]].
      * destruct t0 as [|b1 t1]; [discriminate|]. cbn [length] in Hn. rewrite IH; auto; lia.
      * destruct t0 as [|b1 [|b2 t2]]; try discriminate. cbn [length] in Hn. rewrite IH; auto; lia.
      * destruct t0 as [|b1 [|b2 [|b3 t3]]]; try discriminate. cbn [length] in Hn. rewrite IH; auto; lia.
Qed.

(** THEOREM (C15): for every byte string that is well-formed UTF-8, the reference JSON decoder
    applied to what writeString emits gives the string back *)
Theorem jstr_roundtrip s : valid_utf8 s = true -> jdecode (jwrite s) = Some s.
Proof.
  intros Hv. rewrite jdecode_jwrite. f_equal. apply (sanitize_valid (length s)); auto.
Qed.

(** the literal carries no raw control character (every byte of the body is >= 0x20) *)
Lemma hexd_ok z : 0 <= z < 16 -> 32 <= bz (hexd z).
Proof.
  intros H. assert (z = 0 \/ z = 1 \/ z = 2 \/ z = 3 \/ z = 4 \/ z = 5 \/ z = 6 \/ z = 7 \/ z = 8 \/ z = 9 \/
                    z = 10 \/ z = 11 \/ z = 12 \/ z = 13 \/ z = 14 \/ z = 15) as D by lia.
  repeat (destruct D as [-> | D]; [vm_compute; congruence|]). subst; vm_compute; congruence.
Qed.

Lemma no_ctl_app a b : no_ctl (a ++ b) = no_ctl a && no_ctl b.
Proof. unfold no_ctl. apply forallb_app. Qed.

Lemma no_ctl_esc_ascii b : bz b <? 128 = true -> html_safe b = false -> no_ctl (esc_ascii b) = true.
Proof.
  intros H1 H2.
  destruct b; try (vm_compute in H1; discriminate H1); try (vm_compute in H2; discriminate H2); reflexivity.
Qed.

Lemma jbody_no_ctl : forall n s, (length s <= n)%nat -> no_ctl (jbody s) = true.
Proof.
  induction n as [|n IH]; intros s Hn.
  - destruct s; [reflexivity | cbn in Hn; lia].
  - destruct s as [|b0 t0]; [reflexivity|]. cbn [length] in Hn. cbn [jbody].
    destruct (bz b0 <? 128) eqn:Ea.
    + rewrite no_ctl_app, IH by lia. destruct (html_safe b0) eqn:Es.
      * unfold html_safe in Es. cbn. replace (32 <=? bz b0) with true by lia. reflexivity.
      * rewrite no_ctl_esc_ascii by assumption. reflexivity.
    + assert (Hbad : no_ctl (esc_fffd ++ jbody t0) = true) by (rewrite no_ctl_app, IH by lia; reflexivity).
      destruct (utf8_seq b0 t0) as [[c sz]|] eqn:Hseq; [|exact Hbad].
      destruct (utf8_seq_size _ _ _ _ Hseq) as [-> | [-> | ->]].
      * destruct (utf8_seq_2 _ _ _ Hseq) as (b1 & t1 & -> & H1). cbn [length] in Hn.
        cbn [no_ctl forallb]. fold (no_ctl (jbody t1)). rewrite IH by lia.
        replace (32 <=? bz b0) with true by lia. replace (32 <=? bz b1) with true by lia. reflexivity.
      * destruct (utf8_seq_3 _ _ _ Hseq) as (b1 & b2 & t2 & -> & H0 & H1 & H2 & Hc). cbn [length] in Hn.
        rewrite no_ctl_app, IH by lia. destruct ((c =? 8232) || (c =? 8233)) eqn:Ec.
        -- apply orb_true_iff in Ec as [Ec|Ec]; apply Z.eqb_eq in Ec; rewrite Ec; reflexivity.
        -- cbn. replace (32 <=? bz b0) with true by lia. replace (32 <=? bz b1) with true by lia.
           replace (32 <=? bz b2) with true by lia. reflexivity.
      * destruct (utf8_seq_4 _ _ _ Hseq) as (b1 & b2 & b3 & t3 & -> & H1 & H2 & H3). cbn [length] in Hn.
        cbn [no_ctl forallb]. fold (no_ctl (jbody t3)). rewrite IH by lia.
        replace (32 <=? bz b0) with true by lia. replace (32 <=? bz b1) with true by lia.
        replace (32 <=? bz b2) with true by lia. replace (32 <=? bz b3) with true by lia. reflexivity.
Qed.

Theorem jwrite_no_ctl s : no_ctl (jwrite s) = true.
Proof.
  unfold jwrite. change (x22 :: jbody s ++ [x22]) with ([x22] ++ jbody s ++ [x22]).
  rewrite !no_ctl_app, (jbody_no_ctl (length s)) by lia. reflexivity.
Qed.

(** a string made of htmlSafeSet bytes only (YANG identifiers are) is written verbatim *)
Lemma jbody_safe s : forallb html_safe s = true -> jbody s = s.
Proof.
  induction s as [|b t IH]; [reflexivity|]. cbn [forallb jbody]. intros H.
  apply andb_true_iff in H as [Hb Ht]. rewrite Hb. unfold html_safe in Hb.
  replace (bz b <? 128) with true by lia. cbn. rewrite IH; auto.
Qed.
