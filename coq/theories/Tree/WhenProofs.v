(** Proofs about Tree/When.v against Tree/WhenSpec.v (C16). *)
From Coq Require Import ZArith List Bool Lia Strings.Byte.
From YV Require Import Base.Wrap Val.Model Val.Proofs Tree.Schema Tree.Editor Tree.XPathLex Tree.When Tree.WhenSpec.
Import ListNotations.
Open Scope Z_scope.

(** * 1. the comparison itself *)

Lemma sgn_ltb c : (Z.sgn c <? 0) = (c <? 0).
Proof. destruct c; reflexivity. Qed.
Lemma sgn_gtb c : (0 <? Z.sgn c) = (0 <? c).
Proof. destruct c; reflexivity. Qed.
Lemma sgn_leb c : (Z.sgn c <=? 0) = (c <=? 0).
Proof. destruct c; reflexivity. Qed.
Lemma sgn_geb c : (0 <=? Z.sgn c) = (0 <=? c).
Proof. destruct c; reflexivity. Qed.
Lemma sgn_eqb c : (Z.sgn c =? 0) = (c =? 0).
Proof. destruct c; reflexivity. Qed.

(** every operator of resolveOperator answers with the truth of the mathematical comparison *)
Theorem cmp_holds_truth o a b :
  wf_value a -> wf_value b -> format_of a = format_of b ->
  exists s, spec_sgn a b = Some s /\ cmp_holds o a b = XOk (op_holds o s).
Proof.
  intros Ha Hb Hf.
  destruct (cmp_impl_sign a b Ha Hb Hf) as [c [Hc Hs]].
  exists (Z.sgn c). split; [now symmetry|].
  unfold cmp_holds, equal_impl. rewrite Hf, fmt_eqb_refl, Hc.
  destruct o; simpl; rewrite ?sgn_eqb, ?sgn_ltb, ?sgn_gtb, ?sgn_leb, ?sgn_geb; reflexivity.
Qed.

Lemma spec_sgn_format a b s : spec_sgn a b = Some s -> format_of a = format_of b.
Proof.
  destruct a, b; simpl; try discriminate; auto.
  destruct (fmt_eqb f f0) eqn:E; [|discriminate]. apply fmt_eqb_eq in E. now subst.
Qed.

Lemma wf_valb_spec v : wf_valb v = true -> wf_value v.
Proof.
  destruct v; simpl; auto.
  - rewrite andb_true_iff, orb_true_iff. intros [Hs Hr]. split; [exact Hs|].
    unfold in_rangeb in Hr. unfold in_range.
    destruct (is_signed f); [apply in_sb_spec|apply in_ub_spec]; exact Hr.
  - apply in_sb_spec.
Qed.

(** what the operators mean on the denotations, type by type *)
Definition zop (o : xop) (a b : Z) : bool :=
  match o with
  | OEq => a =? b | ONe => negb (a =? b) | OLt => a <? b | OLe => a <=? b | OGt => b <? a | OGe => b <=? a
  end.

Lemma op_holds_sgn_diff o a b : op_holds o (Z.sgn (a - b)) = zop o a b.
Proof.
  destruct o; simpl; rewrite ?sgn_eqb, ?sgn_ltb, ?sgn_gtb, ?sgn_leb, ?sgn_geb;
    repeat match goal with
           | |- context [?x =? ?y] => destruct (Z.eqb_spec x y)
           | |- context [?x <? ?y] => destruct (Z.ltb_spec x y)
           | |- context [?x <=? ?y] => destruct (Z.leb_spec x y)
           end; simpl; try reflexivity; lia.
Qed.

(** numerically for every integer type *)
Theorem int_comparison_is_numeric o f a b :
  exists s, spec_sgn (VInt f a) (VInt f b) = Some s /\ op_holds o s = zop o a b.
Proof.
  simpl. rewrite fmt_eqb_refl. eexists; split; [reflexivity|]. apply op_holds_sgn_diff.
Qed.

(** booleans by truth value (false < true) *)
Theorem bool_comparison_is_truth o a b :
  exists s, spec_sgn (VBool a) (VBool b) = Some s /\ op_holds o s = zop o (Z.b2z a) (Z.b2z b).
Proof. simpl. eexists; split; [reflexivity|]. apply op_holds_sgn_diff. Qed.

(** strings byte-wise, lexicographically *)
Theorem string_comparison_is_bytewise a b :
  exists s, spec_sgn (VStr a) (VStr b) = Some s /\ s = lex_cmp a b /\
            (op_holds OEq s = true <-> a = b).
Proof.
  simpl. eexists; split; [reflexivity|]. split; [reflexivity|].
  simpl. rewrite Z.eqb_eq. apply lex_cmp_eq.
Qed.

(** enumerations: equality of values = equality of names, within a well-formed enumeration type *)
Definition wf_enum (labels : list (ident * Z)) : Prop :=
  NoDup (map fst labels) /\ NoDup (map snd labels).

Theorem enum_equal_by_name labels la ia lb ib o :
  wf_enum labels -> In (la, ia) labels -> In (lb, ib) labels ->
  exists s, spec_sgn (VEnum ia la) (VEnum ib lb) = Some s /\ op_holds o s = zop o ia ib /\
            (op_holds OEq s = true <-> la = lb).
Proof.
  intros [Hl Hi] Ha Hb. exists (Z.sgn (ia - ib)). split; [reflexivity|]. split; [apply op_holds_sgn_diff|].
  rewrite (op_holds_sgn_diff OEq). unfold zop. rewrite Z.eqb_eq.
  assert (Hinj1 : forall (l : list (ident * Z)) x y z, NoDup (map fst l) -> In (x, y) l -> In (x, z) l -> y = z).
  { induction l as [|[p q] l IH]; simpl; intros x y z Hnd H1 H2; [contradiction|].
    inversion Hnd; subst.
    destruct H1 as [H1|H1], H2 as [H2|H2].
    - congruence.
    - inversion H1; subst. exfalso. apply H3. apply in_map_iff. exists (x, z). auto.
    - inversion H2; subst. exfalso. apply H3. apply in_map_iff. exists (x, y). auto.
    - eapply IH; eauto. }
  assert (Hinj2 : forall (l : list (ident * Z)) x y z, NoDup (map snd l) -> In (y, x) l -> In (z, x) l -> y = z).
  { induction l as [|[p q] l IH]; simpl; intros x y z Hnd H1 H2; [contradiction|].
    inversion Hnd; subst.
    destruct H1 as [H1|H1], H2 as [H2|H2].
    - congruence.
    - inversion H1; subst. exfalso. apply H3. apply in_map_iff. exists (z, x). auto.
    - inversion H2; subst. exfalso. apply H3. apply in_map_iff. exists (y, x). auto.
    - eapply IH; eauto. }
  split; intro H.
  - subst. eapply Hinj2; eauto.
  - subst. eapply Hinj1; eauto.
Qed.

(** * 2. a literal of the leaf's type converts to the value it denotes *)
Lemma bytes_eqb_eq a b : bytes_eqb a b = true <-> a = b.
Proof. unfold bytes_eqb. rewrite Z.eqb_eq. apply lex_cmp_eq. Qed.

Lemma int_text_parse_sint s z : int_text s = Some z -> parse_sint s = Some z.
Proof.
  unfold int_text, parse_sint. destruct s as [|b t]; [discriminate|].
  destruct (bz b =? 45) eqn:E45.
  - assert (bz b =? 43 = false) as ->. { apply Z.eqb_eq in E45. rewrite E45. reflexivity. }
    auto.
  - destruct (bz b =? 43) eqn:E43; [|auto].
    unfold nonempty_digits. simpl. unfold is_digit. apply Z.eqb_eq in E43. rewrite E43. simpl. discriminate.
Qed.

Lemma by_label_filter s : forall labels x rest,
  filter (fun li : ident * Z => bytes_eqb (fst li) s) labels = x :: rest -> by_label labels s = Some x.
Proof.
  induction labels as [|[l i] tl IH]; simpl; intros x rest H; [discriminate|].
  destruct (bytes_eqb l s); [inversion H; reflexivity|eauto].
Qed.

Ltac range_crush :=
  unfold in_rangeb, in_sb, in_ub in *; simpl in *;
  repeat match goal with
         | H : _ && _ = true |- _ => apply andb_true_iff in H; destruct H
         | H : (_ <=? _) = true |- _ => apply Z.leb_le in H
         | H : (_ <? _) = true |- _ => apply Z.ltb_lt in H
         end.

Lemma if_in_sb64 (z : Z) A (x y : A) : - 2 ^ 63 <= z < 2 ^ 63 -> (if in_sb 64 z then x else y) = x.
Proof.
  intros H. assert (in_sb 64 z = true) as ->; [|reflexivity].
  apply in_sb_spec. unfold in_s. simpl. simpl in H. lia.
Qed.
Lemma if_in_ub64 (z : Z) A (x y : A) : 0 <= z < 2 ^ 64 -> (if in_ub 64 z then x else y) = x.
Proof.
  intros H. assert (in_ub 64 z = true) as ->; [|reflexivity].
  apply in_ub_spec. unfold in_u. simpl. simpl in H. lia.
Qed.

Theorem conv_lit_denote ty l b : lit_denote ty l = Some b -> conv_lit ty l = XOk b /\ wf_value b.
Proof.
  destruct ty; simpl; try discriminate.
  - (* integers *)
    destruct l as [z|n k|s]; try discriminate.
    + destruct ((is_signed f || is_unsigned f) && in_rangeb f z) eqn:H; [|discriminate].
      intros Hb; inversion Hb; subst b; clear Hb.
      apply andb_true_iff in H. destruct H as [Hsu Hr].
      split.
      * destruct f; simpl in Hsu; try discriminate Hsu; unfold conv_int, to_int64, to_uint64, xbind; rewrite ?Hr; try reflexivity.
        assert (z <? 2 ^ 31 = true) as ->; [|reflexivity].
        range_crush. apply Z.ltb_lt. lia.
      * simpl. split; [now apply orb_true_iff|].
        unfold in_range. unfold in_rangeb in Hr. destruct (is_signed f); [apply in_sb_spec|apply in_ub_spec]; exact Hr.
    + destruct (if is_signed f then int_text s else nonempty_digits s) as [z|] eqn:Ht; [|discriminate].
      destruct ((is_signed f || is_unsigned f) && in_rangeb f z) eqn:H; [|discriminate].
      intros Hb; inversion Hb; subst b; clear Hb.
      apply andb_true_iff in H. destruct H as [Hsu Hr].
      split.
      * destruct f; simpl in Hsu; try discriminate Hsu; simpl in Ht;
          try (apply int_text_parse_sint in Ht);
          unfold conv_int, to_int64, to_uint64, parse_uint, xbind; rewrite Ht.
        all: try (rewrite if_in_sb64 by (range_crush; lia)).
        all: try (rewrite if_in_ub64 by (range_crush; lia)).
        all: rewrite ?Hr; try reflexivity.
        (* int32 *)
        unfold in_rangeb in Hr. simpl in Hr. rewrite Hr. reflexivity.
      * simpl. split; [now apply orb_true_iff|].
        unfold in_range. unfold in_rangeb in Hr. destruct (is_signed f); [apply in_sb_spec|apply in_ub_spec]; exact Hr.
  - (* decimal64 *)
    destruct (conv_dec l) eqn:E; try discriminate.
    intros Hb; inversion Hb; subst. split; [reflexivity|].
    destruct l as [z|n k|s]; simpl in E.
    + destruct (f64_round z 1) as [[m e]|]; inversion E; exact I.
    + destruct (lit_float n k) as [[m e]|]; inversion E; exact I.
    + destruct (parse_decimal_text s) as [[[neg n] k]| | |]; simpl in E; try discriminate.
      destruct (f64_round n (10 ^ k)) as [[m e]|]; inversion E; exact I.
  - (* string *)
    destruct l; try discriminate. intros Hb; inversion Hb. split; [reflexivity|exact I].
  - (* boolean *)
    destruct l as [z|n k|s]; try discriminate.
    destruct (bytes_eqb s s_true) eqn:Et.
    + intros Hb; inversion Hb. apply bytes_eqb_eq in Et. subst s. split; [reflexivity|exact I].
    + destruct (bytes_eqb s s_false) eqn:Ef; [|discriminate].
      intros Hb; inversion Hb. apply bytes_eqb_eq in Ef. subst s. split; [reflexivity|exact I].
  - (* enumeration *)
    destruct l as [z|n k|s]; try discriminate.
    destruct (parse_sint s) eqn:Ps; [discriminate|].
    destruct (parse_uint s) eqn:Pu; [discriminate|].
    destruct (labelled labels s) as [|[lb i] [|]] eqn:El; try discriminate.
    destruct (in_sb 32 i) eqn:Hi; [|discriminate].
    intros Hb; inversion Hb; subst b.
    unfold conv_enum. rewrite Ps.
    unfold labelled in El. rewrite (by_label_filter _ _ _ _ El). simpl.
    split; [reflexivity|]. apply in_sb_spec. exact Hi.
Qed.

(** * 3. the evaluator computes what the specification says, on every path *)
Lemma named_find n : forall kids c j k d,
  named n kids c = [(k, d)] ->
  exists i, find_kid n kids j = Some ((j + i)%nat, k) /\ nth i c None = d.
Proof.
  unfold named. induction kids as [|k0 kids IH]; intros c j k d H; [discriminate|].
  destruct c as [|d0 c]; [discriminate|]. simpl in H. simpl.
  destruct (ident_eqb (sname k0) n) eqn:E.
  - inversion H; subst. exists O. split; [f_equal; f_equal; lia|reflexivity].
  - destruct (IH c (S j) k d H) as [i [Hf Hn]]. exists (S i). split; [rewrite Hf; f_equal; f_equal; lia|exact Hn].
Qed.

Lemma named_in_filter n kids c k d k0 :
  named n kids c = [(k, d)] -> filter (fun x => ident_eqb (sname x) n) kids = [k0] -> k0 = k.
Proof.
  intros Hn Hf.
  assert (Hin : In (k, d) (named n kids c)) by (rewrite Hn; left; reflexivity).
  unfold named in Hin. apply filter_In in Hin. destruct Hin as [Hc Hname]. simpl in Hname.
  apply in_combine_l in Hc.
  assert (In k (filter (fun x => ident_eqb (sname x) n) kids)) by (apply filter_In; auto).
  rewrite Hf in H. destruct H as [H|[]]. exact H.
Qed.

Lemma fold_none lf o b l : fold_right (reading_holds lf o b) None l = None.
Proof.
  induction l as [|cx l IH]; simpl; [reflexivity|]. rewrite IH. unfold reading_holds.
  destruct (reading lf cx) as [[? [?|]]|]; reflexivity.
Qed.

Lemma fold_acc lf o b : forall l a r,
  fold_right (reading_holds lf o b) (Some a) l = Some r ->
  exists r1, fold_right (reading_holds lf o b) (Some false) l = Some r1 /\ r = r1 || a.
Proof.
  induction l as [|cx l IH]; simpl; intros a r H.
  - inversion H. exists false. auto.
  - destruct (fold_right (reading_holds lf o b) (Some a) l) as [ra|] eqn:Ea.
    + destruct (IH a ra Ea) as [r1 [H1 Hr]]. rewrite H1.
      unfold reading_holds in *. destruct (reading lf cx) as [[ty [v|]]|]; try discriminate.
      * destruct (wf_valb v); [|discriminate]. destruct (spec_sgn v b) as [s|]; [|discriminate].
        inversion H. eexists; split; [reflexivity|]. subst ra. now rewrite orb_assoc.
      * inversion H. eexists; split; [reflexivity|]. congruence.
    + unfold reading_holds in H. destruct (reading lf cx) as [[? [?|]]|]; discriminate.
Qed.

Lemma xeval_sound lf o l b : forall p kids c ty ctxs r,
  path_type kids p lf = Some ty -> lit_denote ty l = Some b ->
  reach kids c p = Some ctxs ->
  fold_right (reading_holds lf o b) (Some false) ctxs = Some r ->
  xeval kids c p lf o l = XOk r.
Proof.
  induction p as [|n p' IH]; intros kids c ty ctxs r Hty Hlit Hreach Hfold.
  - (* the leaf segment *)
    simpl in Hreach. inversion Hreach; subst ctxs; clear Hreach.
    simpl in Hfold. unfold reading_holds, reading in Hfold. simpl in Hfold.
    destruct (named lf kids c) as [|[k d] [|]] eqn:Hn; try discriminate.
    2: { destruct k as [? ? [] ?| |]; simpl in Hfold; discriminate. }
    destruct k as [m ty' il dflt| |]; try discriminate.
    destruct il; try discriminate.
    destruct (nm_when m) eqn:Hw; try discriminate.
    all: try (simpl in Hfold; discriminate).
    simpl in Hty. unfold leaf_type in Hty.
    destruct (filter (fun k => ident_eqb (sname k) lf) kids) as [|k0 [|]] eqn:Hf; try discriminate.
    2: { destruct k0 as [? ? [] ?| |]; discriminate. }
    pose proof (named_in_filter _ _ _ _ _ _ Hn Hf) as Hk. subst k0.
    rewrite Hw in Hty. inversion Hty; subst ty'; clear Hty.
    destruct (named_find _ _ _ O _ _ Hn) as [i [Hfk Hnth]]. simpl in Hfk.
    destruct (conv_lit_denote _ _ _ Hlit) as [Hconv Hwfb].
    simpl. unfold resolve_operator. rewrite Hfk, Hconv. simpl. rewrite Hw, Hnth.
    assert (Hval : forall v, wf_valb v = true ->
              (match spec_sgn v b with Some s => Some (op_holds o s || false) | None => None end) = Some r ->
              cmp_holds o v b = XOk r).
    { intros v Hwf Hs. destruct (spec_sgn v b) as [s|] eqn:Es; [|discriminate].
      inversion Hs. rewrite orb_false_r.
      destruct (cmp_holds_truth o v b (wf_valb_spec _ Hwf) Hwfb (spec_sgn_format _ _ _ Es)) as [s' [Hs' Hc]].
      rewrite Es in Hs'. inversion Hs'; subst. exact Hc. }
    destruct d as [[[v| | |]| |]|]; try discriminate.
    + simpl. destruct (wf_valb v) eqn:Hwf; [|discriminate]. now apply Hval.
    + destruct dflt as [[v| | |]|]; try discriminate.
      * simpl. destruct (wf_valb v) eqn:Hwf; [|discriminate]. now apply Hval.
      * simpl. inversion Hfold. reflexivity.
  - (* a container or list segment *)
    simpl in Hty, Hreach.
    destruct (named n kids c) as [|[k d] [|]] eqn:Hn; try discriminate.
    destruct (named_find _ _ _ O _ _ Hn) as [i [Hfk Hnth]]. simpl in Hfk.
    2: { destruct k; discriminate. }
    destruct (filter (fun k => ident_eqb (sname k) n) kids) as [|k0 [|]] eqn:Hf; try discriminate.
    2: { destruct k0; discriminate. }
    pose proof (named_in_filter _ _ _ _ _ _ Hn Hf) as Hk. subst k0.
    destruct k as [|m kids'|m keys row]; try discriminate.
    + destruct (has_when (SCont m [])) eqn:Hw; [discriminate|].
      simpl. rewrite Hfk, Hw, Hnth.
      destruct d as [[|c'|]|]; try discriminate.
      * eapply IH; eauto.
      * inversion Hreach; subst. simpl in Hfold. inversion Hfold. reflexivity.
    + destruct (has_when (SCont m [])) eqn:Hw; [discriminate|].
      simpl. rewrite Hfk, Hw, Hnth.
      destruct d as [[| |rows]|]; try discriminate.
      * clear Hn Hnth Hfk Hf.
        revert ctxs r Hreach Hfold.
        induction rows as [|r0 rs IHr]; intros ctxs r Hreach Hfold.
        -- simpl in Hreach. inversion Hreach; subst. simpl in Hfold. inversion Hfold. reflexivity.
        -- unfold reach_rows in Hreach. simpl in Hreach.
           fold (reach_rows (fun rc => reach (skids row) rc p') rs) in Hreach.
           destruct r0 as [|rc|]; try discriminate.
           destruct (reach_rows (fun rc => reach (skids row) rc p') rs) as [lrest|] eqn:Hrest; [|discriminate].
           destruct (reach (skids row) rc p') as [l'|] eqn:Hrow; [|discriminate].
           inversion Hreach; subst ctxs; clear Hreach.
           rewrite fold_right_app in Hfold.
           destruct (fold_right (reading_holds lf o b) (Some false) lrest) as [r2|] eqn:E2;
             [|rewrite fold_none in Hfold; discriminate].
           destruct (fold_acc _ _ _ _ _ _ Hfold) as [r1 [H1 Hr]].
           rewrite (IH _ _ _ _ _ Hty Hlit Hrow H1).
           destruct r1; simpl in Hr; subst r; [reflexivity|].
           apply (IHr lrest r2); [reflexivity|exact E2].
      * inversion Hreach; subst. simpl in Hfold. inversion Hfold. reflexivity.
Qed.

(** the evaluator agrees with the specification wherever the specification speaks *)
Theorem cmp_sound kids c e r : spec_cmp kids c e = Some r -> eval_cmp kids c e = XOk r.
Proof.
  unfold spec_cmp, eval_cmp. intros H.
  destruct (path_type kids (ce_path e) (ce_leaf e)) as [ty|] eqn:Hty; [|discriminate].
  destruct (reach kids c (ce_path e)) as [ctxs|] eqn:Hr; [|discriminate].
  destruct (lit_denote ty (ce_lit e)) as [b|] eqn:Hl; [|discriminate].
  eapply xeval_sound; eauto.
Qed.

(** readable special cases of [cmp_sound]: the path leads to one place *)
Theorem cmp_truth kids c e ty cx ty' v b s :
  path_type kids (ce_path e) (ce_leaf e) = Some ty ->
  reach kids c (ce_path e) = Some [cx] ->
  reading (ce_leaf e) cx = Some (ty', Some v) -> wf_valb v = true ->
  lit_denote ty (ce_lit e) = Some b -> spec_sgn v b = Some s ->
  eval_cmp kids c e = XOk (op_holds (ce_op e) s).
Proof.
  intros Hty Hr Hrd Hwf Hl Hs. apply cmp_sound. unfold spec_cmp. rewrite Hty, Hr, Hl. simpl.
  unfold reading_holds. rewrite Hrd, Hwf, Hs. now rewrite orb_false_r.
Qed.

(** a leaf without a value (and without a default) satisfies no comparison, whatever the operator;
    through lists: when every entry reached lacks the value *)
Lemma fold_all_unset lf o b ctxs :
  Forall (fun cx => exists ty', reading lf cx = Some (ty', None)) ctxs ->
  fold_right (reading_holds lf o b) (Some false) ctxs = Some false.
Proof.
  induction 1 as [|cx l [ty' Hrd] _ IH]; simpl; [reflexivity|].
  rewrite IH. unfold reading_holds. now rewrite Hrd.
Qed.

Theorem unset_false kids c e ty ctxs b :
  path_type kids (ce_path e) (ce_leaf e) = Some ty ->
  reach kids c (ce_path e) = Some ctxs ->
  Forall (fun cx => exists ty', reading (ce_leaf e) cx = Some (ty', None)) ctxs ->
  lit_denote ty (ce_lit e) = Some b ->
  eval_cmp kids c e = XOk false.
Proof.
  intros Hty Hr Hall Hl. apply cmp_sound. unfold spec_cmp. rewrite Hty, Hr, Hl.
  now apply fold_all_unset.
Qed.

(** * 4. the reader: conditions that hold are transparent, a condition that fails hides the node *)
Section Loops.
  Context {A B : Type}.
  Variable f : nat -> A -> xres B.
  Fixpoint kid_loop (ks : list A) (i : nat) : xres (list B) :=
    match ks with
    | [] => XOk []
    | k :: ks' => xcons (f i k) (kid_loop ks' (S i))
    end.
  Variable g : A -> xres B.
  Fixpoint row_loop (rs : list A) : xres (list B) :=
    match rs with
    | [] => XOk []
    | r :: rs' => xcons (g r) (row_loop rs')
    end.
  Variable h : nat -> A -> bool.
  Fixpoint bool_loop (ks : list A) (i : nat) : bool :=
    match ks with
    | [] => true
    | k :: ks' => h i k && bool_loop ks' (S i)
    end.
End Loops.

Lemma wexp_cont wf wc wl pth u m kids sc :
  wexp wf wc wl pth u (SCont m kids) (DCont sc) =
  xbind (kid_loop (wexp_kid wf wc wl (fun p k' sd => wexp wf wc wl p true k' sd) pth u kids sc) kids O)
        (fun c' => XOk (DCont c')).
Proof. reflexivity. Qed.


Lemma wexp_list wf wc wl pth u m keys row rows :
  wexp wf wc wl pth u (SList m keys row) (DList rows) =
  xbind (row_loop (wexp wf wc wl pth true row) rows) (fun rows' => XOk (DList rows')).
Proof. reflexivity. Qed.


Lemma whens_true_cont m kids sc :
  whens_true (SCont m kids) (DCont sc) =
  bool_loop (whens_true_kid (fun k' sd => whens_true k' sd) kids sc) kids O.
Proof. reflexivity. Qed.

Lemma whens_true_list m keys row rows :
  whens_true (SList m keys row) (DList rows) = forallb (whens_true row) rows.
Proof. simpl. induction rows as [|r rs IH]; simpl; [reflexivity|]. now rewrite IH. Qed.

Section SnodeInd.
  Variable P : snode -> Prop.
  Hypothesis Hleaf : forall m ty il d, P (SLeaf m ty il d).
  Hypothesis Hcont : forall m kids, Forall P kids -> P (SCont m kids).
  Hypothesis Hlist : forall m keys row, P row -> P (SList m keys row).
  Fixpoint snode_ind_w (s : snode) : P s :=
    match s with
    | SLeaf m ty il d => Hleaf m ty il d
    | SCont m kids =>
        Hcont m kids ((fix go (l : list snode) : Forall P l :=
                         match l with
                         | [] => Forall_nil P
                         | k :: l' => Forall_cons k (snode_ind_w k) (go l')
                         end) kids)
    | SList m keys row => Hlist m keys row (snode_ind_w row)
    end.
End SnodeInd.

Definition transparent_at (k : snode) : Prop :=
  forall pth u d, whens_true k d = true ->
    wexp (when_field true) (when_cont true) (when_list true) pth u k d =
    wexp (when_field false) (when_cont false) (when_list false) pth u k d.

Lemma kid_loop_transparent kids sc pth u : forall ks, Forall transparent_at ks -> forall i,
  bool_loop (whens_true_kid (fun k' sd => whens_true k' sd) kids sc) ks i = true ->
  kid_loop (wexp_kid (when_field true) (when_cont true) (when_list true)
              (fun p k' sd => wexp (when_field true) (when_cont true) (when_list true) p true k' sd) pth u kids sc) ks i =
  kid_loop (wexp_kid (when_field false) (when_cont false) (when_list false)
              (fun p k' sd => wexp (when_field false) (when_cont false) (when_list false) p true k' sd) pth u kids sc) ks i.
Proof.
  induction 1 as [|k ks Hk _ IHks]; intros i Hw; [reflexivity|].
  simpl in Hw. apply andb_true_iff in Hw. destruct Hw as [Hk1 Hrest].
  simpl. rewrite (IHks _ Hrest). f_equal.
  unfold transparent_at in Hk. unfold wexp_kid. unfold whens_true_kid in Hk1.
  destruct (negb (guard_selected (sguard k) kids sc)); [reflexivity|].
  destruct k as [mk tyk ilk dk|mk kk|mk keysk rowk].
  - unfold when_field, when_of in Hk1 |- *. cbn [smeta nm_when skids] in Hk1 |- *.
    destruct (nm_when mk) as [w|]; [|reflexivity].
    destruct (xpredicate kids sc w) as [[|]| | |]; try discriminate. reflexivity.
  - destruct (nth i sc None) as [[|cc|]|]; try reflexivity.
    unfold when_cont, when_of in Hk1 |- *. cbn [smeta nm_when skids] in Hk1 |- *.
    destruct (nm_when mk) as [w|].
    + destruct (xpredicate kk cc w) as [[|]| | |]; try discriminate.
      cbn [xbind]. rewrite (Hk _ _ _ Hk1). reflexivity.
    + cbn [xbind]. rewrite (Hk _ _ _ Hk1). reflexivity.
  - destruct (nth i sc None) as [sd|]; try reflexivity.
    unfold when_list, when_of in Hk1 |- *. cbn [smeta nm_when skids] in Hk1 |- *.
    destruct (nm_when mk) as [w|]; [discriminate|].
    cbn [xbind]. rewrite (Hk _ _ _ Hk1). reflexivity.
Qed.

Theorem when_true_transparent : forall s pth u d,
  whens_true s d = true -> wexp_m true pth u s d = wexp_m false pth u s d.
Proof.
  unfold wexp_m.
  induction s as [m ty il dflt|m kids IH|m keys row IH] using snode_ind_w; intros pth u d Hw.
  - destruct d; reflexivity.
  - destruct d as [|sc|]; try reflexivity.
    rewrite whens_true_cont in Hw. rewrite !wexp_cont. f_equal.
    apply kid_loop_transparent; [exact IH|exact Hw].
  - destruct d as [| |rows]; try reflexivity.
    rewrite whens_true_list in Hw. rewrite !wexp_list. f_equal.
    induction rows as [|r rs IHr]; [reflexivity|].
    simpl in Hw. apply andb_true_iff in Hw. destruct Hw as [H1 H2].
    simpl. rewrite (IH _ _ _ H1), (IHr H2). reflexivity.
Qed.

(** ** a condition that fails hides the node: the export is that of the tree without it *)
Lemma find_kid_nth n : forall kids s j k,
  find_kid n kids s = Some (j, k) -> (s <= j)%nat /\ nth_error kids (j - s) = Some k.
Proof.
  induction kids as [|k0 kids IH]; simpl; intros s j k H; [discriminate|].
  destruct (ident_eqb (sname k0) n).
  - inversion H; subst. split; [lia|]. now rewrite Nat.sub_diag.
  - apply IH in H. destruct H as [Hle Hn]. split; [lia|].
    replace (j - s)%nat with (S (j - S s)) by lia. exact Hn.
Qed.

Lemma nth_set_nth_neq {A} (d x : A) : forall l i j, i <> j -> nth j (set_nth i x l) d = nth j l d.
Proof.
  induction l as [|h t IH]; intros i j Hne; [destruct i; reflexivity|].
  destruct i, j; simpl; try reflexivity; try congruence. apply IH. congruence.
Qed.

Lemma nth_set_nth_none {A} (l : list (option A)) : forall i, nth i (set_nth i None l) None = None.
Proof.
  induction l as [|h t IH]; intros i; [destruct i; reflexivity|].
  destruct i; simpl; [reflexivity|apply IH].
Qed.

Lemma has_when_meta m a b : has_when (SCont m a) = has_when (SCont m b).
Proof. reflexivity. Qed.

(** nobody reads a node that carries a condition: evaluation does not depend on its data *)
Lemma xeval_inv i k kids c p lf o l :
  nth_error kids i = Some k -> has_when k = true ->
  xeval kids c p lf o l = xeval kids (set_nth i None c) p lf o l.
Proof.
  intros Hk Hw.
  destruct p as [|n p'].
  - simpl. unfold resolve_operator.
    destruct (find_kid lf kids 0) as [[j kj]|] eqn:Hf; [|reflexivity].
    destruct (find_kid_nth _ _ _ _ _ Hf) as [_ Hn]. rewrite Nat.sub_0_r in Hn.
    destruct (Nat.eq_dec i j) as [->|Hne].
    + rewrite Hk in Hn. inversion Hn; subst kj.
      destruct k as [m ty il d|m kk|m keys row]; unfold has_when in Hw; simpl in Hw.
      * destruct il; [reflexivity|]. destruct (conv_lit ty l); try reflexivity. simpl.
        destruct (nm_when m); [reflexivity|discriminate].
      * unfold has_when. simpl. destruct (nm_when m); [reflexivity|discriminate].
      * unfold has_when. simpl. destruct (nm_when m); [reflexivity|discriminate].
    + rewrite (nth_set_nth_neq None None c i j Hne). reflexivity.
  - simpl.
    destruct (find_kid n kids 0) as [[j kj]|] eqn:Hf; [|reflexivity].
    destruct (find_kid_nth _ _ _ _ _ Hf) as [_ Hn]. rewrite Nat.sub_0_r in Hn.
    destruct (Nat.eq_dec i j) as [->|Hne].
    + rewrite Hk in Hn. inversion Hn; subst kj.
      destruct k as [m ty il d|m kk|m keys row]; unfold has_when in Hw |- *; simpl in Hw |- *;
        try reflexivity; destruct (nm_when m); try reflexivity; discriminate.
    + rewrite (nth_set_nth_neq None None c i j Hne). reflexivity.
Qed.

Lemma xpredicate_inv i k kids c w :
  nth_error kids i = Some k -> has_when k = true ->
  xpredicate kids c w = xpredicate kids (set_nth i None c) w.
Proof.
  intros Hk Hw. unfold xpredicate. destruct (xparse w); try reflexivity.
  destruct (as_cmp p); [|reflexivity]. unfold eval_cmp. now apply xeval_inv with (k := k).
Qed.

Lemma kid_loop_ext {A B} (f f' : nat -> A -> xres B) : forall ks j,
  (forall off k, nth_error ks off = Some k -> f (j + off)%nat k = f' (j + off)%nat k) ->
  kid_loop f ks j = kid_loop f' ks j.
Proof.
  induction ks as [|k ks IH]; intros j H; [reflexivity|]. simpl.
  rewrite (IH (S j)).
  - f_equal. specialize (H O k eq_refl). now rewrite Nat.add_0_r in H.
  - intros off k' Hn. specialize (H (S off) k' Hn). now replace (S j + off)%nat with (j + S off)%nat by lia.
Qed.

Theorem when_hides kids c i k :
  nth_error kids i = Some k -> has_when k = true ->
  Forall (fun k' => sguard k' = []) kids ->
  kid_when kids c i k = XOk false ->
  wexport true kids c = wexport true kids (set_nth i None c).
Proof.
  intros Hk Hw Hg Hfalse.
  unfold wexport, wexport_at, root_cont. rewrite !wexp_cont.
  match goal with |- match xbind ?a _ with _ => _ end = match xbind ?b _ with _ => _ end => assert (Heq : a = b) end;
    [|now rewrite Heq].
  apply kid_loop_ext. intros idx k' Hn. simpl.
  unfold wexp_kid.
  assert (Hg' : sguard k' = []).
  { rewrite Forall_forall in Hg. apply Hg. eapply nth_error_In; eauto. }
  rewrite Hg'. simpl.
  destruct (Nat.eq_dec i idx) as [<-|Hne].
  - rewrite Hk in Hn. inversion Hn; subst k'. rewrite nth_set_nth_none.
    destruct k as [m ty il d|m kk|m keys row]; simpl in Hfalse.
    + unfold when_field in *. destruct (when_of true (SLeaf m ty il d)) as [w|]; [|discriminate].
      rewrite <- (xpredicate_inv i _ kids c w Hk Hw). rewrite Hfalse. reflexivity.
    + destruct (nth i c None) as [[|cc|]|]; try discriminate.
      unfold when_cont in *. destruct (when_of true (SCont m kk)) as [w|]; [|discriminate].
      now rewrite Hfalse.
    + discriminate.
  - rewrite (nth_set_nth_neq None None c i idx Hne).
    destruct k' as [m ty il d|m kk|m keys row]; try reflexivity.
    unfold when_field. destruct (when_of true (SLeaf m ty il d)) as [w|]; [|reflexivity].
    now rewrite <- (xpredicate_inv i _ kids c w Hk Hw).
Qed.

(** * 5. where and filter *)
Definition keep_row (rkids : list snode) (e : list byte) (r : dnode) : bool :=
  match r with
  | DCont rc => match xpredicate rkids rc e with XOk true => true | _ => false end
  | _ => false
  end.
Definition row_decided (rkids : list snode) (e : list byte) (r : dnode) : bool :=
  match r with
  | DCont rc => match xpredicate rkids rc e with XOk _ => true | _ => false end
  | _ => false
  end.

(** ?where= delivers exactly the entries for which the predicate holds, in their order *)
Theorem where_keeps rkids e rows :
  forallb (row_decided rkids e) rows = true ->
  where_rows rkids e rows =
  row_loop (wexp_m true [] true (root_cont rkids)) (filter (keep_row rkids e) rows).
Proof.
  induction rows as [|r rs IH]; intros H; [reflexivity|].
  cbn [forallb] in H. apply andb_true_iff in H. destruct H as [Hr Hrs].
  cbn [where_rows filter]. rewrite (IH Hrs).
  set (R := row_loop (wexp_m true [] true (root_cont rkids)) (filter (keep_row rkids e) rs)).
  unfold row_decided in Hr.
  destruct r as [|rc|]; try discriminate.
  change (keep_row rkids e (DCont rc)) with
    (match xpredicate rkids rc e with XOk true => true | _ => false end).
  destruct (xpredicate rkids rc e) as [[|]| | |]; try discriminate; cbn [xbind].
  - cbn [row_loop]. fold R. unfold xcons.
    destruct (wexp_m true [] true (root_cont rkids) (DCont rc)); cbn [xbind]; try reflexivity;
      destruct R; reflexivity.
  - fold R. destruct R; reflexivity.
Qed.

Theorem where_keeps_spec rkids text p e rows :
  xparse text = POk p -> as_cmp p = Some e ->
  Forall (fun r => exists rc b, r = DCont rc /\ spec_cmp rkids rc e = Some b) rows ->
  where_rows rkids text rows =
  row_loop (wexp_m true [] true (root_cont rkids))
           (filter (fun r => match r with DCont rc => match spec_cmp rkids rc e with Some true => true | _ => false end | _ => false end) rows).
Proof.
  intros Hp He Hall.
  assert (Hpred : forall rc b, spec_cmp rkids rc e = Some b -> xpredicate rkids rc text = XOk b).
  { intros rc b Hs. unfold xpredicate. rewrite Hp, He. now apply cmp_sound. }
  rewrite where_keeps.
  - f_equal. induction Hall as [|r rs [rc [b [-> Hs]]] _ IH]; [reflexivity|].
    simpl. rewrite (Hpred _ _ Hs), Hs, IH. destruct b; reflexivity.
  - induction Hall as [|r rs [rc [b [-> Hs]]] _ IH]; [reflexivity|].
    simpl. now rewrite (Hpred _ _ Hs), IH.
Qed.

(** a notification filter delivers exactly the events for which the expression holds *)
Theorem filter_keeps kids ev text p e b :
  xparse text = POk p -> as_cmp p = Some e -> spec_cmp kids ev e = Some b ->
  filter_event kids text ev = if b then FKeep else FDrop.
Proof.
  intros Hp He Hs. unfold filter_event, xpredicate. rewrite Hp, He, (cmp_sound _ _ _ _ Hs).
  destruct b; reflexivity.
Qed.

(** * 6. from the text of an expression to its truth *)
From YV Require Import Tree.XPathLexProofs.

Theorem xpredicate_render kids c p lf o w l :
  Forall name_ok p -> name_ok lf -> lit_ok w l -> (length p < stack_size)%nat ->
  xpredicate kids c (render p lf o w) = eval_cmp kids c (mkCmp p lf o l).
Proof.
  intros Hp Hlf Hw Hlen. unfold xpredicate.
  rewrite (xparse_render p lf o w l Hp Hlf Hw Hlen), as_cmp_path. reflexivity.
Qed.

Theorem text_truth kids c p lf o w l r :
  Forall name_ok p -> name_ok lf -> lit_ok w l -> (length p < stack_size)%nat ->
  spec_cmp kids c (mkCmp p lf o l) = Some r ->
  xpredicate kids c (render p lf o w) = XOk r.
Proof.
  intros Hp Hlf Hw Hlen Hs. rewrite (xpredicate_render kids c p lf o w l Hp Hlf Hw Hlen).
  now apply cmp_sound.
Qed.
