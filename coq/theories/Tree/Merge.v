(** The declarative side of C03: keyed deep merge of a source tree over a target tree, written by
    plain positional recursion (no node protocol, no strategies, no new/lookup bookkeeping), and the
    conditions under which insert / update are defined.  Domain: choice-free schemas (choices are
    C09's subject). *)
From Coq Require Import ZArith List Bool Strings.Byte.
From YV Require Import Val.Model Tree.Schema Tree.Editor.
Import ListNotations.

(** the kids of a container-like node, position by position *)
Definition merge_kids (rec : snode -> dnode -> dnode -> bool -> dnode) (created : bool)
  : list snode -> content -> content -> content :=
  fix go (ks : list snode) (sc tc : content) {struct ks} : content :=
    match ks, sc, tc with
    | k :: ks', sd :: sc', td :: tc' =>
        (match k with
         | SLeaf _ _ _ dflt =>
             match sd with
             | Some d => Some d                                   (* leaves in S overwrite *)
             | None => if created then match dflt with Some v => Some (DLeaf v) | None => td end else td
             end
         | _ =>
             match sd with
             | None => td                                        (* not mentioned: unchanged *)
             | Some sdn =>
                 Some (rec k sdn (match td with Some t => t | None => empty_node k end) (negb (present td)))
             end
         end) :: go ks' sc' tc'
    | _, _, _ => []
    end.

Definition lookup_row (keys : list nat) (sr : dnode) (rows : list dnode) : option nat :=
  if key_usable (row_key keys sr) then find_row keys (row_key keys sr) rows O else None.

Definition merge_rows (rec : snode -> dnode -> dnode -> bool -> dnode) (keys : list nat) (row : snode)
  (srows trows : list dnode) : list dnode :=
  fold_left
    (fun acc sr =>
       match lookup_row keys sr acc with
       | Some j => set_nth j (rec row sr (nth j acc (DCont [])) false) acc   (* matched by key *)
       | None => acc ++ [rec row sr (empty_node row) true]                   (* otherwise appended *)
       end)
    srows trows.

(** [merge_one s src tgt created]: [created] = the target node did not exist before (it gets the
    schema defaults of the leaves the source leaves unset). *)
Fixpoint merge_one (s : snode) (src tgt : dnode) (created : bool) {struct s} : dnode :=
  match s, src, tgt with
  | SCont _ kids, DCont sc, DCont tc => DCont (merge_kids merge_one created kids sc tc)
  | SList _ keys row, DList srows, DList trows => DList (merge_rows merge_one keys row srows trows)
  | _, _, _ => tgt
  end.

Definition merge_content (kids : list snode) (src tgt : content) : content :=
  merge_kids merge_one false kids src tgt.

(** Insert is defined iff no container or list the source mentions at this level already exists
    in the target (recursively nothing can then conflict: everything below is created empty);
    when entered at a list: no source row's key is present. *)
Fixpoint insert_conflicts (ks : list snode) (sc tc : content) : bool :=
  match ks, sc, tc with
  | k :: ks', sd :: sc', td :: tc' =>
      (negb (is_leaf k) && present sd && present td) || insert_conflicts ks' sc' tc'
  | _, _, _ => false
  end.

(** Update is defined iff every container and list entry the source addresses exists *)
Definition missing_kids (rec : snode -> dnode -> dnode -> bool) : list snode -> content -> content -> bool :=
  fix go (ks : list snode) (sc tc : content) {struct ks} : bool :=
    match ks, sc, tc with
    | k :: ks', sd :: sc', td :: tc' =>
        (match k, sd, td with
         | SLeaf _ _ _ _, _, _ => false
         | _, Some _, None => true
         | _, Some sdn, Some tdn => rec k sdn tdn
         | _, None, _ => false
         end) || go ks' sc' tc'
    | _, _, _ => false
    end.
Fixpoint update_missing (s : snode) (src tgt : dnode) {struct s} : bool :=
  match s, src, tgt with
  | SCont _ kids, DCont sc, DCont tc => missing_kids update_missing kids sc tc
  | SList _ keys row, DList srows, DList trows =>
      existsb (fun sr => match lookup_row keys sr trows with
                         | None => true
                         | Some j => update_missing row sr (nth j trows (DCont []))
                         end) srows
  | _, _, _ => false
  end.

(** data shaped like the schema (the domain of the theorems; the harness only produces such data) *)
Definition shaped_kids (rec : snode -> dnode -> bool) : list snode -> content -> bool :=
  fix go (ks : list snode) (c : content) {struct ks} : bool :=
    match ks, c with
    | [], [] => true
    | k :: ks', d :: c' => (match d with None => true | Some dn => rec k dn end) && go ks' c'
    | _, _ => false
    end.
Fixpoint shaped (s : snode) (d : dnode) {struct s} : bool :=
  match s, d with
  | SLeaf _ _ _ _, DLeaf _ => true
  | SCont _ kids, DCont c => shaped_kids shaped kids c
  | SList _ _ row, DList rows => forallb (shaped row) rows
  | _, _ => false
  end.

Fixpoint choice_free (s : snode) : bool :=
  match s with
  | SLeaf m _ _ _ => match nm_guard m with [] => true | _ => false end
  | SCont m kids => (match nm_guard m with [] => true | _ => false end) && forallb choice_free kids
  | SList m _ row => (match nm_guard m with [] => true | _ => false end) && choice_free row
  end.
