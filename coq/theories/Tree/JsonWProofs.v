(** Proofs about the JSON writer model (Tree/JsonW.v):
    - [writer_canonical]: whatever the schema, data, configuration and start selection, when the
      writer returns without error its token stream, whitespace dropped, is the canonical
      serialisation of the value tree the expectation [estart] prescribes (and it returns without
      error whenever such an expectation exists);
    - [writer_wellformed]: hence it parses, by the RFC 8259 grammar, as exactly one value;
    - [pretty_ws_only]: Pretty changes whitespace tokens only;
    - [stream_error_returned]: with a bufio.Writer's sticky error, an output stream that accepts
      only n bytes makes the call return an error exactly when the document is longer than n. *)
From Coq Require Import ZArith List Bool Lia Strings.Byte.
From YV Require Import Val.Model Tree.Schema Tree.Export Tree.JStr Tree.JsonSpec Tree.JsonSpecProofs Tree.JsonNumProofs
  Tree.JsonLexProofs Tree.JsonExp Tree.JsonW.
Import ListNotations.
Local Open Scope nat_scope.

(** induction principle for the nested schema type *)
Section SnodeInd.
  Variable P : snode -> Prop.
  Hypothesis Hleaf : forall m ty il d, P (SLeaf m ty il d).
  Hypothesis Hcont : forall m kids, Forall P kids -> P (SCont m kids).
  Hypothesis Hlist : forall m keys row, P row -> P (SList m keys row).
  Fixpoint snode_ind2 (s : snode) : P s :=
    match s with
    | SLeaf m ty il d => Hleaf m ty il d
    | SCont m kids => Hcont m kids ((fix go (l : list snode) : Forall P l :=
                                       match l with
                                       | [] => Forall_nil P
                                       | k :: tl => Forall_cons k (snode_ind2 k) (go tl)
                                       end) kids)
    | SList m keys row => Hlist m keys row (snode_ind2 row)
    end.
End SnodeInd.

(** ** token-list helpers *)
Lemma strip_ws_app a b : strip_ws (a ++ b) = strip_ws a ++ strip_ws b.
Proof. unfold strip_ws. apply filter_app. Qed.
Lemma normalize_app a b : normalize (a ++ b) = normalize a ++ normalize b.
Proof. unfold normalize. rewrite strip_ws_app, map_app. reflexivity. Qed.

(** separator-first form of join_comma, matching the writer's [first] flag *)
Fixpoint join_from (first : bool) (l : list (list jtok)) : list jtok :=
  match l with
  | [] => []
  | x :: tl => (if first then [] else [KComma]) ++ x ++ join_from false tl
  end.
Lemma join_from_true l : join_from true l = join_comma l.
Proof.
  destruct l as [|x tl]; [reflexivity|]. cbn [join_from app].
  revert x. induction tl as [|y tl IH]; intros x.
  - cbn. now rewrite app_nil_r.
  - rewrite join_comma_cons2. cbn [join_from app]. rewrite IH. reflexivity.
Qed.

Lemma oapp_some {A} (a b : option (list A)) t :
  a +++ b = Some t -> exists x y, a = Some x /\ b = Some y /\ t = x ++ y.
Proof. destruct a, b; cbn; intros H; try discriminate. injection H as <-. eauto. Qed.

Section Proofs.
  Variable fmt_float : Z -> Z -> list byte.
  Variable idmod : ident -> option ident.

  (** the value tree an expectation denotes, numbers in the writer's rendering *)
  Fixpoint conc (e : jexp) : jvalue :=
    match e with
    | EStr s => JStr s
    | EInt z => JNum (z_dec z)
    | EDec m x => JNum (fmt_float m x)
    | EBool b => JBool b
    | EEmpty => JArr [JNull]
    | EArr l => JArr (map conc l)
    | EObj ms => JObj (map (fun kv => (fst kv, conc (snd kv))) ms)
    end.
  Definition conc_m (kv : list byte * jexp) : list byte * jvalue := (fst kv, conc (snd kv)).

  Section Cfg.
    Variable cfg : wcfg.
    Notation witem := (witem cfg fmt_float idmod).
    Notation witems := (witems cfg fmt_float idmod).
    Notation wvalue := (wvalue cfg fmt_float idmod).
    Notation wleaf := (wleaf cfg fmt_float idmod).
    Notation wnode := (wnode cfg fmt_float idmod).
    Notation wstart := (wstart cfg fmt_float idmod).
    Notation eitem := (eitem cfg idmod).
    Notation eitems := (eitems cfg idmod).
    Notation evalue := (evalue cfg idmod).
    Notation enode := (enode cfg idmod).
    Notation estart := (estart cfg idmod).

    (** *** scalar values *)
    Lemma witem_spec lmod v e : eitem lmod v = Some e -> witem lmod v = Some (rtoks_of (conc e)).
    Proof.
      destruct v as [[f z|m x|s|s|b|id l|l]| |names|items]; cbn; intros H; try discriminate;
        try (injection H as <-; reflexivity).
      - injection H as <-. destruct b; reflexivity.
      - injection H as <-. destruct (c_enum_ids cfg); reflexivity.
      - destruct (idmod l); [|discriminate]. injection H as <-. reflexivity.
    Qed.

    Lemma witems_spec lmod : forall items es first, eitems lmod items = Some es ->
      witems lmod items first = Some (join_from first (map rtoks_of (map conc es))).
    Proof.
      induction items as [|v tl IH]; intros es first H.
      - cbn in H. injection H as <-. reflexivity.
      - cbn [JsonExp.eitems] in H. destruct (eitem lmod v) as [e|] eqn:He; [|discriminate].
        destruct (eitems lmod tl) as [es'|] eqn:Hes; [|discriminate]. injection H as <-.
        cbn [JsonW.witems map join_from]. rewrite (witem_spec _ _ _ He), (IH es' false eq_refl).
        reflexivity.
    Qed.

    Lemma wvalue_spec lmod v e : evalue lmod v = Some e -> wvalue lmod v = Some (rtoks_of (conc e)).
    Proof.
      destruct v as [sv| |names|items]; try (apply witem_spec).
      cbn [JsonExp.evalue JsonW.wvalue]. destruct (eitems lmod items) as [es|] eqn:Hes; [|discriminate].
      cbn. intros H. injection H as <-. rewrite (witems_spec _ _ _ true Hes), join_from_true.
      cbn [conc]. rewrite rtoks_of_arr. reflexivity.
    Qed.

    Lemma strip_ws_delim lvl first : strip_ws (delim cfg lvl first) = if first then [] else [KComma].
    Proof. unfold delim. destruct first, (c_pretty cfg); reflexivity. Qed.

    (** *** members of a container-like node *)
    Definition kid_rel (top : bool) (pmod : ident)
      (wkid : snode -> dnode -> option (list jtok)) (ekid : snode -> dnode -> option jexp) (k : snode) : Prop :=
      forall dk e, ekid k dk = Some e ->
        exists ts, wkid k dk = Some ts /\
                   strip_ws ts = rmember_toks (member_name (c_qualify cfg) top pmod (smeta k), conc e).

    Lemma wkids_spec top pmod wkid ekid lvl : forall ks cs first ms,
      Forall (kid_rel top pmod wkid ekid) ks ->
      ekids cfg ekid top pmod ks cs = Some ms ->
      exists ts, wkids cfg wkid lvl ks cs first = Some ts /\
                 strip_ws ts = join_from first (map rmember_toks (map conc_m ms)).
    Proof.
      induction ks as [|k ks IH]; intros cs first ms HF H.
      - destruct cs; [|discriminate]. injection H as <-. exists []. split; reflexivity.
      - destruct cs as [|[dk|] cs]; [discriminate| |].
        + cbn [ekids] in H. destruct (ekid k dk) as [e|] eqn:He; [|discriminate].
          destruct (ekids cfg ekid top pmod ks cs) as [ms'|] eqn:Hms; [|discriminate]. injection H as <-.
          inversion HF; subst. destruct (H1 dk e He) as (tk & Hwk & Hnk).
          destruct (IH cs false ms' H2 Hms) as (tr & Hwr & Hnr).
          exists (delim cfg lvl first ++ tk ++ tr). split.
          * cbn [wkids]. rewrite Hwk, Hwr. reflexivity.
          * rewrite !strip_ws_app, strip_ws_delim, Hnk, Hnr. reflexivity.
        + cbn [ekids] in H. inversion HF; subst. apply (IH cs first ms H3 H).
    Qed.

    (** *** rows of a list *)
    Lemma wrows_spec wrow erow lvl : forall rs first es,
      Forall (fun r => forall e, erow r = Some e ->
                exists ts, wrow r = Some ts /\ KLBrace :: strip_ws ts ++ [KRBrace] = rtoks_of (conc e)) rs ->
      erows erow rs = Some es ->
      exists ts, wrows cfg wrow lvl rs first = Some ts /\
                 strip_ws ts = join_from first (map rtoks_of (map conc es)).
    Proof.
      induction rs as [|r rs IH]; intros first es HF H.
      - injection H as <-. exists []. split; reflexivity.
      - cbn [erows] in H. destruct (erow r) as [e|] eqn:He; [|discriminate].
        destruct (erows erow rs) as [es'|] eqn:Hes; [|discriminate]. injection H as <-.
        inversion HF; subst. destruct (H1 e He) as (tk & Hwk & Hnk).
        destruct (IH false es' H2 eq_refl) as (tr & Hwr & Hnr).
        exists ((delim cfg lvl first ++ [KLBrace]) ++ tk ++ [KRBrace] ++ tr). split.
        + cbn [wrows]. rewrite Hwk, Hwr. reflexivity.
        + rewrite !strip_ws_app, strip_ws_delim, Hnr. cbn [map join_from]. rewrite <- Hnk.
          change (strip_ws [KLBrace]) with [KLBrace]. change (strip_ws [KRBrace]) with [KRBrace].
          rewrite <- app_assoc. apply f_equal. cbn [app]. apply f_equal. rewrite <- app_assoc. reflexivity.
    Qed.

    (** *** a node: what is written between its brackets *)
    Definition node_ok (s : snode) : Prop :=
      forall lvl top d e, enode top s d = Some e ->
        match s with
        | SLeaf _ _ _ _ => True
        | SCont _ _ => exists ts, wnode lvl top s d = Some ts /\ KLBrace :: strip_ws ts ++ [KRBrace] = rtoks_of (conc e)
        | SList _ _ _ => exists ts, wnode lvl top s d = Some ts /\ KLBrack :: strip_ws ts ++ [KRBrack] = rtoks_of (conc e)
        end.

    Lemma wnode_spec : forall s, node_ok s.
    Proof.
      apply snode_ind2; [intros m ty il dflt | intros m kids H | intros m keys row IHs]; intros lvl top dd e He.
      - exact I.
      - destruct dd as [v|c|rows]; try discriminate. cbn [JsonExp.enode] in He.
        destruct (ekids cfg (fun k dk => enode false k dk) top (nm_mod m) kids c) as [ms|] eqn:Hms; [|discriminate].
        injection He as <-. cbn [JsonW.wnode].
        match goal with |- context [wkids cfg ?f lvl kids c true] => set (wkid := f) end.
        assert (HF : Forall (kid_rel top (nm_mod m) wkid (fun k dk => enode false k dk)) kids).
        { rewrite Forall_forall in H. apply Forall_forall. intros k Hk dk e He.
          specialize (H k Hk (S lvl) false dk e He). subst wkid. cbv beta.
          destruct k as [km ty il dflt|km kk|km keys row].
          - destruct dk as [v| |]; try discriminate. cbn [JsonExp.enode] in He.
            unfold JsonW.wleaf. rewrite (wvalue_spec _ _ _ He). eexists. split; [reflexivity|].
            unfold rmember_toks. cbn [fst snd smeta].
            change ([KName ?n; KColon] ++ ?t) with ([KName n; KColon] ++ t). rewrite strip_ws_app, strip_ws_rtoks.
            reflexivity.
          - destruct dk as [|c'|]; try discriminate. destruct H as (ts & Hw & Hn). rewrite Hw.
            eexists. split; [reflexivity|]. unfold rmember_toks. cbn [fst snd smeta]. rewrite <- Hn.
            rewrite !strip_ws_app. reflexivity.
          - destruct dk as [| |rows']; try discriminate. destruct H as (ts & Hw & Hn). rewrite Hw.
            eexists. split; [reflexivity|]. unfold rmember_toks. cbn [fst snd smeta]. rewrite <- Hn.
            rewrite !strip_ws_app. reflexivity. }
        destruct (wkids_spec top (nm_mod m) wkid _ lvl kids c true ms HF Hms) as (ts & Hw & Hn).
        exists ts. split; [exact Hw|]. rewrite Hn, join_from_true. cbn [conc]. rewrite rtoks_of_obj.
        reflexivity.
      - destruct dd as [v|c|rows]; try discriminate. cbn [JsonExp.enode] in He.
        destruct row as [|rm rkids|]; try discriminate.
        destruct (erows (fun r => enode false (SCont rm rkids) r) rows) as [es|] eqn:Hes; [|discriminate].
        injection He as <-. cbn [JsonW.wnode].
        assert (HF : Forall (fun r => forall e, enode false (SCont rm rkids) r = Some e ->
                        exists ts, wnode (S lvl) false (SCont rm rkids) r = Some ts /\
                                   KLBrace :: strip_ws ts ++ [KRBrace] = rtoks_of (conc e)) rows).
        { apply Forall_forall. intros r _ e He. exact (IHs (S lvl) false r e He). }
        destruct (wrows_spec (fun r => wnode (S lvl) false (SCont rm rkids) r) (fun r => enode false (SCont rm rkids) r) lvl rows true es HF Hes)
          as (ts & Hw & Hn).
        exists ts. split; [exact Hw|]. rewrite Hn, join_from_true. cbn [conc]. rewrite rtoks_of_arr. reflexivity.
    Qed.

    (** *** the whole document *)
    Theorem writer_raw st e : estart st = Some e ->
      exists ts, wstart st = Some ts /\ strip_ws ts = rtoks_of (conc e).
    Proof.
      destruct st as [top s d | top pmod s d | m v]; cbn [JsonExp.estart JsonW.wstart].
      - destruct s as [|m kids|]; try discriminate. intros He.
        destruct (wnode_spec (SCont m kids) 0 top (visit false (SCont m kids) d) e He) as (ts & Hw & Hn).
        rewrite Hw. eexists. split; [reflexivity|]. rewrite <- Hn. rewrite !strip_ws_app. reflexivity.
      - destruct s as [| |m keys row]; try discriminate.
        destruct (enode false (SList m keys row) (visit true (SList m keys row) d)) as [e'|] eqn:He'; [|discriminate].
        cbn [option_map]. intros H. injection H as <-.
        destruct (wnode_spec (SList m keys row) 0 false _ e' He') as (ts & Hw & Hn).
        rewrite Hw. eexists. split; [reflexivity|].
        cbn [conc map fst snd]. rewrite rtoks_of_obj. cbn [map join_comma]. unfold rmember_toks. cbn [fst snd].
        rewrite <- Hn. cbn [oapp]. rewrite !strip_ws_app. cbn [smeta].
        change (strip_ws [KLBrace; KName (wname cfg top pmod m); KColon; KLBrack])
          with [KLBrace; KName (wname cfg top pmod m); KColon; KLBrack].
        change (strip_ws [KRBrack; KRBrace]) with [KRBrack; KRBrace].
        unfold wname. cbn [app]. rewrite <- app_assoc. reflexivity.
      - destruct v as [v|].
        + destruct (evalue (nm_mod m) v) as [e'|] eqn:He'; [|discriminate]. cbn [option_map]. intros H. injection H as <-.
          unfold JsonW.wleaf. rewrite (wvalue_spec _ _ _ He'). eexists. split; [reflexivity|].
          cbn [oapp]. change (KLBrace :: ?x) with ([KLBrace] ++ x).
          rewrite !strip_ws_app, strip_ws_delim, strip_ws_rtoks.
          cbn [conc map fst snd]. rewrite rtoks_of_obj. reflexivity.
        + intros H. injection H as <-. eexists. split; reflexivity.
    Qed.

    (** with member names read as strings: the canonical serialisation the grammar is stated on *)
    Corollary writer_canonical st e : estart st = Some e ->
      exists ts, wstart st = Some ts /\ normalize ts = toks_of (conc e).
    Proof.
      intros He. destruct (writer_raw st e He) as (ts & Hw & Hs). exists ts. split; [exact Hw|].
      unfold normalize. rewrite Hs. apply norm_rtoks.
    Qed.
  End Cfg.

  (** ** Pretty changes whitespace only *)
  Definition compact_of (cfg : wcfg) : wcfg := mkCfg false (c_enum_ids cfg) (c_qualify cfg).

  Lemma omap_oapp (a b : option (list jtok)) :
    option_map strip_ws (a +++ b) = option_map strip_ws a +++ option_map strip_ws b.
  Proof. destruct a, b; cbn; try reflexivity. now rewrite strip_ws_app. Qed.

  Section Pretty.
    Variable cfg : wcfg.
    Let cfgc := compact_of cfg.

    Lemma witem_pretty lmod v :
      witem cfgc fmt_float idmod lmod v = option_map strip_ws (witem cfg fmt_float idmod lmod v).
    Proof.
      destruct v as [[f z|m x|s|s|b|id l|l]| |names|items]; cbn; try reflexivity.
      - destruct b; reflexivity.
      - destruct (c_enum_ids cfg); reflexivity.
      - destruct (idmod l); reflexivity.
    Qed.

    Lemma witems_pretty lmod : forall items first,
      witems cfgc fmt_float idmod lmod items first = option_map strip_ws (witems cfg fmt_float idmod lmod items first).
    Proof.
      induction items as [|v tl IH]; intros first; [reflexivity|].
      cbn [JsonW.witems]. rewrite !omap_oapp, witem_pretty, IH. destruct first; reflexivity.
    Qed.

    Lemma wvalue_pretty lmod v :
      wvalue cfgc fmt_float idmod lmod v = option_map strip_ws (wvalue cfg fmt_float idmod lmod v).
    Proof.
      destruct v as [sv| |names|items]; try apply witem_pretty.
      cbn [JsonW.wvalue]. rewrite !omap_oapp, witems_pretty. reflexivity.
    Qed.

    Lemma wleaf_pretty top pmod m v :
      wleaf cfgc fmt_float idmod top pmod m v = option_map strip_ws (wleaf cfg fmt_float idmod top pmod m v).
    Proof. unfold JsonW.wleaf. rewrite omap_oapp, wvalue_pretty. reflexivity. Qed.

    Lemma delim_pretty lvl first : delim cfgc lvl first = strip_ws (delim cfg lvl first).
    Proof. unfold delim. destruct first, (c_pretty cfg); reflexivity. Qed.

    Lemma wkids_pretty wc wp lvl : forall ks cs first,
      Forall (fun k => forall dk, wc k dk = option_map strip_ws (wp k dk)) ks ->
      wkids cfgc wc lvl ks cs first = option_map strip_ws (wkids cfg wp lvl ks cs first).
    Proof.
      induction ks as [|k ks IH]; intros cs first HF.
      - destruct cs; reflexivity.
      - inversion HF; subst. destruct cs as [|[dk|] cs]; [reflexivity| |].
        + cbn [wkids]. rewrite !omap_oapp, H1, IH by assumption. cbn [option_map]. rewrite delim_pretty. reflexivity.
        + cbn [wkids]. apply IH; assumption.
    Qed.

    Lemma wrows_pretty wc wp lvl : forall rs first,
      Forall (fun r => wc r = option_map strip_ws (wp r)) rs ->
      wrows cfgc wc lvl rs first = option_map strip_ws (wrows cfg wp lvl rs first).
    Proof.
      induction rs as [|r rs IH]; intros first HF; [reflexivity|].
      inversion HF; subst. cbn [wrows]. rewrite !omap_oapp, H1, IH by assumption. cbn [option_map].
      rewrite strip_ws_app, delim_pretty. reflexivity.
    Qed.

    Lemma wnode_pretty : forall s lvl top d,
      wnode cfgc fmt_float idmod lvl top s d = option_map strip_ws (wnode cfg fmt_float idmod lvl top s d).
    Proof.
      apply (snode_ind2 (fun s => forall lvl top d,
               wnode cfgc fmt_float idmod lvl top s d = option_map strip_ws (wnode cfg fmt_float idmod lvl top s d)));
        [intros m ty il dflt | intros m kids H | intros m keys row IHs]; intros lvl top dd.
      - destruct dd; reflexivity.
      - destruct dd as [v|c|rows]; try reflexivity. cbn [JsonW.wnode]. apply wkids_pretty.
        rewrite Forall_forall in H. apply Forall_forall. intros k Hk dk. specialize (H k Hk (S lvl) false dk).
        destruct k as [km ty il dflt|km kk|km keys row]; destruct dk as [v|c'|rows']; try reflexivity.
        + apply wleaf_pretty.
        + rewrite !omap_oapp, H. reflexivity.
        + rewrite !omap_oapp, H. reflexivity.
      - destruct dd as [v|c|rows]; try reflexivity. cbn [JsonW.wnode]. apply wrows_pretty.
        apply Forall_forall. intros r _. apply IHs.
    Qed.

    (** THEOREM: the compact output is the pretty output with the whitespace tokens removed *)
    Theorem pretty_ws_only st :
      wstart cfgc fmt_float idmod st = option_map strip_ws (wstart cfg fmt_float idmod st).
    Proof.
      destruct st as [top s d | top pmod s d | m v]; cbn [JsonW.wstart].
      - destruct s; try reflexivity. rewrite !omap_oapp, wnode_pretty. reflexivity.
      - destruct s; try reflexivity. rewrite !omap_oapp, wnode_pretty. reflexivity.
      - destruct v as [v|]; [|reflexivity]. rewrite !omap_oapp, wleaf_pretty. cbn [option_map].
        change (KLBrace :: ?x) with ([KLBrace] ++ x). rewrite strip_ws_app, delim_pretty. reflexivity.
    Qed.
  End Pretty.
End Proofs.

(** ** the output stream *)
Definition ops_total (ops : list wop) : nat := fold_right (fun o a => length (fst o) + a) 0 ops.

Lemma run_ops_result n : forall ops st,
  b_err (buf_flush (Some n) (run_ops (Some n) st ops)) =
  b_err st || Nat.ltb n (b_sent st + length (b_buf st) + ops_total ops).
Proof.
  induction ops as [|[p chk] tl IH]; intros st.
  - cbn [run_ops ops_total fold_right]. unfold buf_flush, sink_write. destruct (b_err st) eqn:E; [rewrite E; reflexivity|].
    cbn [b_err b_sent]. rewrite Nat.add_0_r.
    destruct (Nat.ltb n (b_sent st + length (b_buf st))); reflexivity.
  - cbn [run_ops ops_total fold_right fst]. destruct (b_err st) eqn:E.
    + assert (Hb : buf_write (Some n) st p = st) by (unfold buf_write; rewrite E; reflexivity).
      rewrite Hb, E. cbn [orb]. destruct chk; cbn [andb].
      * unfold buf_flush. rewrite E. exact E.
      * rewrite IH, E. reflexivity.
    + cbn [orb]. unfold buf_write. rewrite E. destruct (Nat.ltb bufsize (length (b_buf st ++ p))) eqn:Eb.
      * unfold sink_write. cbn [b_err b_sent]. rewrite app_length.
        destruct (Nat.ltb n (b_sent st + (length (b_buf st) + length p))) eqn:En.
        -- cbn [b_err]. apply Nat.ltb_lt in En.
           assert (Hr : Nat.ltb n (b_sent st + length (b_buf st) + (length p + ops_total tl)) = true) by (apply Nat.ltb_lt; lia).
           unfold ops_total in Hr. rewrite Hr. destruct chk; cbn [andb]; [reflexivity|]. rewrite IH. reflexivity.
        -- cbn [b_err]. rewrite andb_false_r. rewrite IH. cbn [b_err b_sent b_buf length orb].
           f_equal. unfold ops_total. lia.
      * cbn [b_err]. rewrite andb_false_r. rewrite IH. cbn [b_err b_sent b_buf orb]. rewrite app_length.
        f_equal. unfold ops_total. lia.
Qed.

Lemma ops_total_render ts : ops_total (ops_of ts) = length (render ts).
Proof.
  induction ts as [|t tl IH]; [reflexivity|].
  cbn [ops_of map ops_total fold_right fst render flat_map]. rewrite app_length. unfold ops_of, ops_total, render in IH.
  rewrite IH. reflexivity.
Qed.

(** THEOREM: an output stream that accepts n bytes and then fails makes the write return an error
    exactly when the document does not fit, whichever individual write results the code ignores *)
Theorem stream_error_returned ts n :
  stream_result (Some n) (ops_of ts) = Nat.ltb n (length (render ts)).
Proof.
  unfold stream_result. rewrite run_ops_result. cbn [b_err b_sent b_buf length orb]. rewrite ops_total_render.
  reflexivity.
Qed.

Theorem stream_no_fault ts : stream_result None (ops_of ts) = false.
Proof.
  unfold stream_result.
  assert (H : forall ops st, b_err st = false -> b_err (buf_flush None (run_ops None st ops)) = false).
  { induction ops as [|[p chk] tl IH]; intros st E.
    - cbn. unfold buf_flush, sink_write. rewrite E. reflexivity.
    - cbn [run_ops].
      assert (Hb : b_err (buf_write None st p) = false).
      { unfold buf_write. rewrite E. destruct (Nat.ltb bufsize (length (b_buf st ++ p))); reflexivity. }
      rewrite Hb, andb_false_r. apply IH. exact Hb. }
  apply H. reflexivity.
Qed.

(** ** the written values decode to the stored values *)
Section Values.
  Variable fmt_float : Z -> Z -> list byte.

  (** induction principle for expectations *)
  Section JexpInd.
    Variable P : jexp -> Prop.
    Hypothesis Hs : forall s, P (EStr s).
    Hypothesis Hi : forall z, P (EInt z).
    Hypothesis Hd : forall m e, P (EDec m e).
    Hypothesis Hb : forall b, P (EBool b).
    Hypothesis He : P EEmpty.
    Hypothesis Ha : forall l, Forall P l -> P (EArr l).
    Hypothesis Ho : forall ms, Forall (fun kv => P (snd kv)) ms -> P (EObj ms).
    Fixpoint jexp_ind2 (e : jexp) : P e :=
      match e with
      | EStr s => Hs s | EInt z => Hi z | EDec m x => Hd m x | EBool b => Hb b | EEmpty => He
      | EArr l => Ha l ((fix go (l : list jexp) : Forall P l :=
                           match l with [] => Forall_nil P | x :: tl => Forall_cons x (jexp_ind2 x) (go tl) end) l)
      | EObj ms => Ho ms ((fix go (l : list (list byte * jexp)) : Forall (fun kv => P (snd kv)) l :=
                             match l with [] => Forall_nil _ | x :: tl => Forall_cons x (jexp_ind2 (snd x)) (go tl) end) ms)
      end.
  End JexpInd.

  (** what the theorem needs of the data: the strconv.FormatFloat oracle answered with a decimal
      that rounds to the stored binary64 (checked per case by the correspondence run), and
      sibling member names are pairwise distinct (YANG: sibling identifiers are unique) *)
  Fixpoint exp_ok (e : jexp) : bool :=
    match e with
    | EDec m x => num_is_dec (fmt_float m x) m x
    | EArr l => forallb exp_ok l
    | EObj ms => keys_nodup (map fst ms) && forallb (fun kv => exp_ok (snd kv)) ms
    | _ => true
    end.

  Lemma lex_cmp_refl a : lex_cmp a a = 0%Z.
  Proof.
    induction a as [|x a IH]; [reflexivity|]. cbn [lex_cmp]. rewrite Z.ltb_irrefl. exact IH.
  Qed.
  Lemma bytes_eqb_refl a : bytes_eqb a a = true.
  Proof. unfold bytes_eqb. rewrite lex_cmp_refl. reflexivity. Qed.

  Lemma num_is_int_z_dec z : num_is_int (z_dec z) z = true.
  Proof.
    unfold num_is_int. rewrite JsonNumProofs.num_parse_z_dec. cbn. rewrite Z.mul_1_r. apply Z.eqb_refl.
  Qed.

  Lemma find_member_conc (f : jexp -> jvalue) : forall ms k e,
    keys_nodup (map fst ms) = true -> In (k, e) ms ->
    find_member k (map (fun kv => (fst kv, f (snd kv))) ms) = Some (f e).
  Proof.
    induction ms as [|[k0 e0] tl IH]; intros k e Hnd Hin; [contradiction|].
    cbn [map fst keys_nodup] in Hnd. apply andb_true_iff in Hnd as [Hh Ht].
    unfold find_member. cbn [map find fst snd]. destruct Hin as [Heq|Hin].
    - injection Heq as -> ->. rewrite bytes_eqb_refl. reflexivity.
    - destruct (bytes_eqb k0 k) eqn:Ek.
      + exfalso. apply negb_true_iff in Hh. assert (existsb (bytes_eqb k0) (map fst tl) = true); [|congruence].
        apply existsb_exists. exists k. split; [|exact Ek]. apply in_map_iff. exists (k, e). split; [reflexivity|assumption].
      + apply (IH k e Ht Hin).
  Qed.

  Lemma number_ok_of_dec l m x : num_is_dec l m x = true -> number_lexeme l = true.
  Proof. unfold num_is_dec, number_lexeme. destruct (num_parse l); [reflexivity|discriminate]. Qed.

  (** THEOREM: every value the writer emits decodes to the stored value *)
  Theorem matches_conc : forall e, exp_ok e = true -> matches e (conc fmt_float e) = true.
  Proof.
    apply (jexp_ind2 (fun e => exp_ok e = true -> matches e (conc fmt_float e) = true)).
    - intros s _. apply bytes_eqb_refl.
    - intros z _. apply num_is_int_z_dec.
    - intros m x H. exact H.
    - intros b _. destruct b; reflexivity.
    - intros _. reflexivity.
    - intros l HF H. cbn [exp_ok] in H. cbn [conc matches].
      revert HF H. induction l as [|x tl IH]; intros HF H; [reflexivity|].
      apply Forall_cons_iff in HF as [Hp HF']. cbn [forallb] in H.
      apply andb_true_iff in H as [Hx Ht]. cbn [map all2]. rewrite (Hp Hx). cbn [andb]. apply IH; assumption.
    - intros ms HF H. cbn [exp_ok] in H. apply andb_true_iff in H as [Hnd Hok]. cbn [conc matches].
      rewrite map_length, Nat.eqb_refl, Hnd. cbn [andb].
      assert (Hall : forall sub, incl sub ms ->
                all_members matches (map (fun kv => (fst kv, conc fmt_float (snd kv))) ms) sub = true).
      { induction sub as [|[k e] sub IH]; intros Hincl; [reflexivity|].
        cbn [all_members]. rewrite (find_member_conc (conc fmt_float) ms k e Hnd (Hincl _ (or_introl eq_refl))).
        rewrite Forall_forall in HF. rewrite forallb_forall in Hok.
        pose proof (HF (k, e) (Hincl _ (or_introl eq_refl)) (Hok (k, e) (Hincl _ (or_introl eq_refl)))) as Hm.
        cbn [snd] in Hm. rewrite Hm. cbn [andb]. apply IH. intros y Hy. apply Hincl. right. exact Hy. }
      apply Hall. apply incl_refl.
  Qed.

  (** ... and every number in it is a well-formed JSON number *)
  Lemma nums_ok_conc : forall e, exp_ok e = true -> nums_ok (conc fmt_float e) = true.
  Proof.
    apply (jexp_ind2 (fun e => exp_ok e = true -> nums_ok (conc fmt_float e) = true)); try (intros; reflexivity).
    - intros z _. apply JsonNumProofs.number_lexeme_z_dec.
    - intros m x H. cbn in *. eapply number_ok_of_dec; eassumption.
    - intros l HF H. cbn [exp_ok] in H. cbn [conc nums_ok].
      revert HF H. induction l as [|x tl IH]; intros HF H; [reflexivity|].
      apply Forall_cons_iff in HF as [Hp HF']. cbn [forallb] in H.
      apply andb_true_iff in H as [Hx Ht]. cbn [map forallb]. rewrite (Hp Hx). apply IH; assumption.
    - intros ms HF H. cbn [exp_ok] in H. apply andb_true_iff in H as [_ Hok]. cbn [conc nums_ok].
      revert HF Hok. induction ms as [|x tl IH]; intros HF Hok; [reflexivity|].
      apply Forall_cons_iff in HF as [Hp HF']. cbn [forallb] in Hok.
      apply andb_true_iff in Hok as [Hx Ht]. cbn [map forallb snd]. rewrite (Hp Hx). apply IH; assumption.
  Qed.

  (** THEOREM (writer_wellformed): for every configuration and start selection for which a JSON
      value stands for the data, the writer succeeds and its token stream, whitespace aside, is
      derivable in the RFC 8259 grammar, parses as exactly one value, and that value meets the
      expectation (names, structure, every leaf value) *)
  Theorem writer_wellformed cfg idmod st e :
    estart cfg idmod st = Some e -> exp_ok e = true ->
    exists ts v, wstart cfg fmt_float idmod st = Some ts /\
                 wf_value (normalize ts) /\
                 parse_tokens (normalize ts) = Some v /\
                 matches e v = true.
  Proof.
    intros He Hok. destruct (writer_canonical fmt_float idmod cfg st e He) as (ts & Hw & Hn).
    exists ts, (conc fmt_float e). rewrite Hn. pose proof (nums_ok_conc e Hok) as Hnum.
    repeat split.
    - exact Hw.
    - apply wf_toks_of. exact Hnum.
    - apply parse_tokens_toks_of. exact Hnum.
    - apply matches_conc. exact Hok.
  Qed.

  (** ** down to the bytes *)
  Fixpoint ekeys_safe (e : jexp) : bool :=
    match e with
    | EArr l => forallb ekeys_safe l
    | EObj ms => forallb (fun kv => forallb html_safe (fst kv) && ekeys_safe (snd kv)) ms
    | _ => true
    end.

  Lemma keys_safe_conc : forall e, ekeys_safe e = true -> keys_safe (conc fmt_float e) = true.
  Proof.
    apply (jexp_ind2 (fun e => ekeys_safe e = true -> keys_safe (conc fmt_float e) = true)); try (intros; reflexivity).
    - intros l HF H. cbn [ekeys_safe] in H. cbn [conc keys_safe].
      revert HF H. induction l as [|x tl IH]; intros HF H; [reflexivity|].
      apply Forall_cons_iff in HF as [Hp HF']. cbn [forallb] in H. apply andb_true_iff in H as [Hx Ht].
      cbn [map forallb]. rewrite (Hp Hx). apply IH; assumption.
    - intros ms HF H. cbn [ekeys_safe] in H. cbn [conc keys_safe].
      revert HF H. induction ms as [|x tl IH]; intros HF H; [reflexivity|].
      apply Forall_cons_iff in HF as [Hp HF']. cbn [forallb] in H. apply andb_true_iff in H as [Hx Ht].
      apply andb_true_iff in Hx as [Hk Hv]. cbn [map forallb fst snd]. rewrite Hk, (Hp Hv). apply IH; assumption.
  Qed.

  Lemma san_conc : forall e, exp_utf8 e = true -> san_v (conc fmt_float e) = conc fmt_float e.
  Proof.
    apply (jexp_ind2 (fun e => exp_utf8 e = true -> san_v (conc fmt_float e) = conc fmt_float e)); try (intros; reflexivity).
    - intros s H. cbn in *. f_equal. apply (JStrProofs.sanitize_valid (length s)); auto.
    - intros l HF H. cbn [exp_utf8] in H. cbn [conc san_v]. f_equal.
      revert HF H. induction l as [|x tl IH]; intros HF H; [reflexivity|].
      apply Forall_cons_iff in HF as [Hp HF']. cbn [forallb] in H. apply andb_true_iff in H as [Hx Ht].
      cbn [map]. rewrite (Hp Hx). f_equal. apply IH; assumption.
    - intros ms HF H. cbn [exp_utf8] in H. cbn [conc san_v]. f_equal.
      revert HF H. induction ms as [|x tl IH]; intros HF H; [reflexivity|].
      apply Forall_cons_iff in HF as [Hp HF']. cbn [forallb] in H. apply andb_true_iff in H as [Hx Ht].
      apply andb_true_iff in Hx as [_ Hv]. cbn [map fst snd]. rewrite (Hp Hv). f_equal. apply IH; assumption.
  Qed.

  (** THEOREM (bytes): the bytes handed to Out are exactly one RFC 8259 value - they lex (every
      string literal decoded by the reference decoder, whitespace skipped) and parse to the value
      tree of the expectation, strings as the decoder reads them; when every string is
      well-formed UTF-8 that is the tree itself, and it meets the expectation *)
  Theorem writer_bytes cfg idmod st e :
    estart cfg idmod st = Some e -> exp_ok e = true -> ekeys_safe e = true ->
    exists bytes, write_bytes cfg fmt_float idmod st = Some bytes /\
                  parse_bytes bytes = Some (san_v (conc fmt_float e)) /\
                  (exp_utf8 e = true -> parse_bytes bytes = Some (conc fmt_float e) /\ matches e (conc fmt_float e) = true).
  Proof.
    intros He Hok Hk. destruct (writer_raw fmt_float idmod cfg st e He) as (ts & Hw & Hs).
    exists (render ts). unfold write_bytes. rewrite Hw. split; [reflexivity|].
    assert (Hp : parse_bytes (render ts) = Some (san_v (conc fmt_float e))).
    { apply parse_bytes_render; [exact Hs | apply keys_safe_conc; exact Hk | apply nums_ok_conc; exact Hok]. }
    split; [exact Hp|]. intros Hu. rewrite Hp, (san_conc e Hu). split; [reflexivity | apply matches_conc; exact Hok].
  Qed.
End Values.
