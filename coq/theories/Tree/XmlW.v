(** Model of the two XML writers as functions from (schema node, data delivered by the editor) to
    an element tree.

      nodeutil/xml_wtr2.go  XMLWtr2 (element tree built while being upserted into; WriteXMLDoc)
                            -> [wtr2_node], [wtr2_doc]
      nodeutil/xml_wtr.go   XMLWtr  (streaming writer; WriteXML / XMLWtr.XML) -> [wtr1_node], [wtr1_doc]
      val/types.go          String() forms; strconv.Itoa / FormatUint / FormatFloat -> [render]

    The element tree is the document AS A TOKENIZER SEES IT (harness: encoding/xml is the oracle that
    turns the written bytes into this term): [XE name xmlns children] with [xmlns] the literal
    default-namespace declaration on that start tag, [XText] the unescaped character data.  Escaping
    and unescaping are modelled at the byte level in XmlEsc.v; what survives them is [sanitize t]
    (theorem XmlEscProofs.unescape_escape), which is [t] itself for text XML can carry.

    What the writers receive is the editor's delivery: [Editor.edit_one] into an empty target
    (schema order, defaults of unset leaves in containers created by the edit). *)
From Coq Require Import ZArith NArith List Bool Strings.Byte Decimal DecimalPos.
From YV Require Import Val.Model Tree.Schema Tree.Editor Tree.XmlEsc.
Import ListNotations.
Open Scope Z_scope.

Inductive xelem :=
| XE (name : ident) (ns : option text) (children : list xelem)
| XText (t : text).

Definition xkids (x : xelem) : list xelem := match x with XE _ _ k => k | XText _ => [] end.

(** ** lexical forms *)
Fixpoint uint_bytes (u : Decimal.uint) : text :=
  match u with
  | Nil => []
  | D0 u => x30 :: uint_bytes u | D1 u => x31 :: uint_bytes u | D2 u => x32 :: uint_bytes u
  | D3 u => x33 :: uint_bytes u | D4 u => x34 :: uint_bytes u | D5 u => x35 :: uint_bytes u
  | D6 u => x36 :: uint_bytes u | D7 u => x37 :: uint_bytes u | D8 u => x38 :: uint_bytes u
  | D9 u => x39 :: uint_bytes u
  end.
(** strconv.Itoa / FormatInt / FormatUint, base 10 *)
Definition z_text (z : Z) : text :=
  match z with
  | Z0 => [x30]
  | Zpos p => uint_bytes (Pos.to_uint p)
  | Zneg p => x2d :: uint_bytes (Pos.to_uint p)
  end.

(** strconv.FormatFloat(f, 'f', -1, 64) for f = m * 2^e: executable representative, exact decimal
    expansion.  It is the shortest round-tripping form whenever the expansion has at most 15
    significant digits (two decimals of <= 15 digits never share a float64), which is the domain
    the harness generates; the theorems only use the contract stated in XmlProofs.v. *)
Fixpoint strip2 (p : positive) (e : Z) : positive * Z :=
  match p with xO p' => strip2 p' (e + 1) | _ => (p, e) end.
Definition norm_dec (m e : Z) : Z * Z :=
  match m with
  | Z0 => (0, 0)
  | Zpos p => let (q, e') := strip2 p e in (Zpos q, e')
  | Zneg p => let (q, e') := strip2 p e in (Zneg q, e')
  end.
Fixpoint pad_zeros (n : nat) (t : text) : text :=     (* left-pad with '0' up to length n *)
  match n with
  | O => t
  | S n' => if Nat.ltb (length t) (S n') then pad_zeros n' (x30 :: t) else t
  end.
Definition dec_text (m0 e0 : Z) : text :=
  let (m, e) := norm_dec m0 e0 in
  if m =? 0 then [x30] else
  let sign := if m <? 0 then [x2d] else [] in
  let a := Z.abs m in
  if 0 <=? e then sign ++ z_text (a * 2 ^ e)
  else
    let k := - e in
    let n := a * 5 ^ k in
    sign ++ z_text (n / 10 ^ k) ++ [x2e] ++ pad_zeros (Z.to_nat k) (z_text (n mod 10 ^ k)).

Fixpoint join_sp (l : list ident) : text :=
  match l with [] => [] | [a] => a | a :: tl => a ++ x20 :: join_sp tl end.

Section Writers.
  Variable nss : list (ident * text).      (* module name -> namespace (Module.Namespace()) *)
  Variable enum_ids : bool.                (* XMLWtr.EnumAsIds / XMLWtr2.EnumAsIds *)
  Variable fmt_dec : Z -> Z -> text.       (* strconv.FormatFloat 'f' -1 on m*2^e *)

  Fixpoint lookup_ns (l : list (ident * text)) (m : ident) : text :=
    match l with
    | [] => []
    | (k, v) :: tl => if ident_eqb k m then v else lookup_ns tl m
    end.
  Definition ns_of (m : ident) : text := lookup_ns nss m.

  (** getStringValue / writeFieldElement on one scalar (the value's own format decides) *)
  Definition render_scalar (v : lval) : text :=
    match v with
    | LV (VInt _ z) => z_text z
    | LV (VDec m e) => fmt_dec m e
    | LV (VStr s) => s
    | LV (VBin s) => s
    | LV (VBool b) => if b then [x74; x72; x75; x65] else [x66; x61; x6c; x73; x65]
    | LV (VEnum id label) => if enum_ids then z_text id else label
    | LV (VIdRef label) => label            (* identity of the leaf's own module (no prefix) *)
    | LEmpty => [x3c; x6e; x6f; x74; x20; x65; x6d; x70; x74; x79; x3e]    (* val.NotEmpty: <not empty> *)
    | LBits names => join_sp names
    | LList _ => []                          (* not a scalar *)
    end.
  (** one text per element written for the leaf: a leaf-list writes one element per item *)
  Definition render (v : lval) : list text :=
    match v with
    | LList items => map render_scalar items
    | _ => [render_scalar v]
    end.

  (** character data of an element as the tokenizer returns it: nothing for the empty string *)
  Definition text_kids (t : text) : list xelem :=
    match sanitize t with [] => [] | t' => [XText t'] end.

  (** XMLWtr2.new: the name carries the namespace iff it differs from the parent element's; the
      marshaller declares a namespace only when it is non-empty *)
  Definition nsattr2 (pns : text) (m : nmeta) : option text :=
    let ns := ns_of (nm_mod m) in
    if text_eqb ns pns then None else match ns with [] => None | _ => Some ns end.

  Fixpoint wtr2_node (pns : text) (s : snode) (d : dnode) {struct s} : list xelem :=
    match s, d with
    | SLeaf m _ _ _, DLeaf v =>
        map (fun t => XE (nm_name m) (nsattr2 pns m) (text_kids t)) (render v)
    | SCont m kids, DCont c =>
        let ns := ns_of (nm_mod m) in
        [XE (nm_name m) (nsattr2 pns m)
            ((fix go (ks : list snode) (c : content) {struct ks} : list xelem :=
                match ks, c with
                | k :: ks', Some dk :: c' => wtr2_node ns k dk ++ go ks' c'
                | _ :: ks', None :: c' => go ks' c'
                | _, _ => []
                end) kids c)]
    | SList m _ row, DList rows =>
        (* Child(list) returns the parent element itself; every Next(New) appends an element
           named after the list *)
        flat_map (fun r => wtr2_node pns row r) rows
    | _, _ => []
    end.

  (** WriteXMLDoc(sel): the root element is named after the selection's node and always carries
      its namespace; a list selection gets its entries as children *)
  Definition root_attr2 (m : nmeta) : option text :=
    match ns_of (nm_mod m) with [] => None | ns => Some ns end.
  Definition wtr2_doc (s : snode) (d : dnode) : option xelem :=
    match s with
    | SLeaf _ _ _ _ => None
    | SCont m _ =>
        match wtr2_node (ns_of (nm_mod m)) s d with
        | [XE n _ k] => Some (XE n (root_attr2 m) k)
        | _ => None
        end
    | SList m _ _ => Some (XE (nm_name m) (root_attr2 m) (wtr2_node (ns_of (nm_mod m)) s d))
    end.

  (** XMLWtr.getXmlns: the namespace, or the module name when the module has none *)
  Definition ns1_of (m : ident) : text := match ns_of m with [] => m | ns => ns end.
  (** XMLWtr.changedXmlns (after "fix: streaming XML writer declares the namespace of nodes defined
      by another module"); [wtr1_old] = true is the pinned behaviour: never on inner elements *)
  Variable wtr1_old : bool.
  Definition nsattr1 (pns : text) (m : nmeta) : option text :=
    if wtr1_old then None else
    let ns := ns1_of (nm_mod m) in
    if text_eqb ns pns then None else match ns with [] => None | _ => Some ns end.

  Fixpoint wtr1_node (pns : text) (s : snode) (d : dnode) {struct s} : list xelem :=
    match s, d with
    | SLeaf m _ _ _, DLeaf v =>
        map (fun t => XE (nm_name m) (nsattr1 pns m) (text_kids t)) (render v)
    | SCont m kids, DCont c =>
        let ns := ns1_of (nm_mod m) in
        [XE (nm_name m) (nsattr1 pns m)
            ((fix go (ks : list snode) (c : content) {struct ks} : list xelem :=
                match ks, c with
                | k :: ks', Some dk :: c' => wtr1_node ns k dk ++ go ks' c'
                | _ :: ks', None :: c' => go ks' c'
                | _, _ => []
                end) kids c)]
    | SList m _ row, DList rows => flat_map (fun r => wtr1_node pns row r) rows
    | _, _ => []
    end.
  Definition wtr1_doc (s : snode) (d : dnode) : option xelem :=
    match s with
    | SLeaf _ _ _ _ => None
    | SCont m _ =>
        match wtr1_node (ns1_of (nm_mod m)) s d with
        | [XE n _ k] => Some (XE n (Some (ns1_of (nm_mod m))) k)
        | _ => None
        end
    | SList m _ _ => Some (XE (nm_name m) (Some (ns1_of (nm_mod m))) (wtr1_node (ns1_of (nm_mod m)) s d))
    end.

  (** what Selection.UpsertInto / InsertInto deliver to a writer: the edit into nothing *)
  Definition export (s : snode) (d : dnode) : res dnode :=
    edit_one false s d (empty_node s) false Upsert.

  Definition write_doc (stream : bool) (s : snode) (d : dnode) : option xelem :=
    match export s d with
    | Ok e => if stream then wtr1_doc s e else wtr2_doc s e
    | Err _ => None
    end.
End Writers.

(** ** well-formedness of an element tree as a document: one root element, element names are
    non-empty, no character data beside child elements except in leaves (the writers never mix) *)
Fixpoint xelem_wf (x : xelem) : bool :=
  match x with
  | XText _ => true
  | XE n _ k =>
      negb (Nat.eqb (length n) 0) &&
      (fix all (l : list xelem) : bool := match l with [] => true | y :: l' => xelem_wf y && all l' end) k
  end.
Definition is_elem (x : xelem) : bool := match x with XE _ _ _ => true | XText _ => false end.
Definition doc_wf (x : xelem) : bool := is_elem x && xelem_wf x.

(** equality of element trees *)
Definition otext_eqb (a b : option text) : bool :=
  match a, b with None, None => true | Some x, Some y => text_eqb x y | _, _ => false end.
Fixpoint xelem_eqb (a b : xelem) {struct a} : bool :=
  match a, b with
  | XText s, XText t => text_eqb s t
  | XE n ns k, XE n' ns' k' =>
      text_eqb n n' && otext_eqb ns ns' &&
      (fix all (p q : list xelem) : bool :=
         match p, q with
         | [], [] => true
         | x :: p', y :: q' => xelem_eqb x y && all p' q'
         | _, _ => false
         end) k k'
  | _, _ => false
  end.
