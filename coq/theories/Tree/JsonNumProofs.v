(** Numbers: the decimal rendering of an integer (strconv.Itoa/FormatInt/FormatUint, [z_dec]) is a
    well-formed JSON number lexeme that denotes exactly that integer. *)
From Coq Require Import ZArith List Bool Lia Strings.Byte DecimalPos DecimalFacts.
From YV Require Import Val.Model Tree.JStr Tree.JsonSpec.
Import ListNotations.
Open Scope Z_scope.

Definition dstep (acc : Z) (b : byte) : Z := acc * 10 + (bz b - 48).

Lemma digits_acc : forall d acc,
  fold_left dstep (uint_bytes d) (Zpos acc) = Zpos (Pos.of_uint_acc d acc).
Proof.
  induction d; intros acc; cbn [uint_bytes fold_left Pos.of_uint_acc]; try reflexivity;
    unfold dstep at 2; match goal with |- context [bz ?b] => change (bz b - 48) with (bz b - 48) end;
    rewrite <- IHd; f_equal; vm_compute (bz _); lia.
Qed.

Lemma digits_of_uint : forall d, fold_left dstep (uint_bytes d) 0 = Z.of_N (Pos.of_uint d).
Proof.
  induction d; cbn [uint_bytes fold_left Pos.of_uint]; try reflexivity;
    match goal with |- context [dstep 0 ?b] => let v := eval vm_compute in (dstep 0 b) in change (dstep 0 b) with v end;
    try exact IHd; rewrite digits_acc; reflexivity.
Qed.

Lemma digits_z_uint d : digits_z (uint_bytes d) = Z.of_N (Pos.of_uint d).
Proof. unfold digits_z. apply digits_of_uint. Qed.

Lemma uint_all_digits d : forallb is_digit (uint_bytes d) = true.
Proof. induction d; cbn [uint_bytes forallb]; try reflexivity; rewrite IHd; reflexivity. Qed.

Lemma span_digits_all l : forallb is_digit l = true -> span_digits l = (l, []).
Proof.
  induction l as [|b t IH]; [reflexivity|]. cbn [forallb span_digits]. intros H.
  apply andb_true_iff in H as [Hb Ht]. rewrite Hb, (IH Ht). reflexivity.
Qed.

(** the decimal form of a positive number does not start with 0 *)
Lemma nzhead_head d : match Decimal.nzhead d with Decimal.D0 _ => False | _ => True end.
Proof. induction d; cbn; auto. Qed.

Lemma to_uint_head p : match Pos.to_uint p with Decimal.D0 _ | Decimal.Nil => False | _ => True end.
Proof.
  pose proof (Unsigned.to_of (Pos.to_uint p)) as H. rewrite Unsigned.of_to in H. cbn [N.to_uint] in H.
  pose proof (Unsigned.to_uint_nonzero p) as Hz. pose proof (Unsigned.to_uint_nonnil p) as Hn.
  unfold Decimal.unorm in H. pose proof (nzhead_head (Pos.to_uint p)) as Hh.
  destruct (Decimal.nzhead (Pos.to_uint p)) eqn:E; rewrite H in *; try exact I; try contradiction.
Qed.

Lemma is_digit_not_minus b : is_digit b = true -> (bz b =? 45) = false.
Proof. unfold is_digit. lia. Qed.

(** parsing the digits of a positive number *)
Lemma num_parse_pos p : num_parse (uint_bytes (Pos.to_uint p)) = Some (Zpos p, 0).
Proof.
  pose proof (to_uint_head p) as Hh. pose proof (uint_all_digits (Pos.to_uint p)) as Hd.
  pose proof (digits_z_uint (Pos.to_uint p)) as Hv. rewrite Unsigned.of_to in Hv.
  destruct (uint_bytes (Pos.to_uint p)) as [|b0 t] eqn:E.
  - destruct (Pos.to_uint p); try contradiction; discriminate.
  - assert (Hb0 : is_digit b0 = true) by (cbn in Hd; apply andb_true_iff in Hd; tauto).
    assert (Hnz : (bz b0 =? 48) = false).
    { destruct (Pos.to_uint p); try contradiction; cbn in E; injection E as <- _; reflexivity. }
    unfold num_parse. rewrite (is_digit_not_minus _ Hb0). rewrite (span_digits_all _ Hd).
    rewrite Hnz. cbn [andb]. cbn [length Z.of_nat Z.opp]. rewrite List.app_nil_r, Hv. reflexivity.
Qed.

Lemma num_parse_neg p : num_parse (x2d :: uint_bytes (Pos.to_uint p)) = Some (Zneg p, 0).
Proof.
  pose proof (to_uint_head p) as Hh. pose proof (uint_all_digits (Pos.to_uint p)) as Hd.
  pose proof (digits_z_uint (Pos.to_uint p)) as Hv. rewrite Unsigned.of_to in Hv.
  destruct (uint_bytes (Pos.to_uint p)) as [|b0 t] eqn:E.
  - destruct (Pos.to_uint p); try contradiction; discriminate.
  - assert (Hnz : (bz b0 =? 48) = false).
    { destruct (Pos.to_uint p); try contradiction; cbn in E; injection E as <- _; reflexivity. }
    unfold num_parse. replace (bz x2d =? 45) with true by reflexivity. rewrite (span_digits_all _ Hd).
    rewrite Hnz. cbn [andb]. cbn [length Z.of_nat Z.opp]. rewrite List.app_nil_r, Hv. reflexivity.
Qed.

(** THEOREM: the rendering of an integer is a JSON number denoting exactly that integer *)
Theorem num_parse_z_dec z : num_parse (z_dec z) = Some (z, 0).
Proof.
  destruct z as [|p|p]; unfold z_dec; cbn [Z.to_int].
  - reflexivity.
  - apply num_parse_pos.
  - apply num_parse_neg.
Qed.

Corollary number_lexeme_z_dec z : number_lexeme (z_dec z) = true.
Proof. unfold number_lexeme. rewrite num_parse_z_dec. reflexivity. Qed.
