(** C07 bridge: the Params reader without constraints IS the shared Editor export.

    Params.read_content None (the constrained reader with no constraint object) and
    Editor.edit_content false .. (empty_content kids) Upsert (the export of TREE.md: edit into an
    empty target) deliver the same tree - Project.full_read - for every choice-free schema whose
    list rows are containers and every well-formed tree (shaped like the schema, list keys
    unique: ExportProofs.wfd).  C07Check.classify compares the two by evaluation on every case
    ([bridge]); this file makes it a theorem.

    Key uniqueness cannot be dropped: the reader appends every exported entry, the editor looks
    the entry up by key in the target and merges a second entry with the same key into the first
    ([bridge_needs_unique_keys]). *)
From Coq Require Import ZArith List Bool Lia Strings.Byte.
From YV Require Import Val.Model Tree.Schema Tree.Editor Tree.Merge Tree.Export Tree.ExportProofs
  Tree.PathExpr Tree.Params Tree.Project Tree.ParamsProofs.
Import ListNotations.

(** * positional lemmas on [map_kids] *)
Lemma map_kids_length f : forall ks dc, length ks = length dc -> length (map_kids f ks dc) = length ks.
Proof. induction ks as [|k ks IH]; intros [|d dc] H; cbn in *; try discriminate; auto. Qed.

Lemma map_kids_nth f : forall ks dc j k, length ks = length dc -> nth_error ks j = Some k ->
  nth j (map_kids f ks dc) None = f k (nth j dc None).
Proof.
  induction ks as [|k0 ks IH]; intros [|d dc] j k Hl Hk; cbn in *; try discriminate.
  - destruct j; discriminate.
  - destruct j as [|j]; cbn in *.
    + injection Hk as ->. reflexivity.
    + apply IH; [lia|exact Hk].
Qed.

Lemma shaped_kids_length : forall ks dc, ParamsProofs.shaped_kids ks dc = true -> length ks = length dc.
Proof.
  induction ks as [|k ks IH]; intros [|d dc] H; cbn in *; try discriminate; auto.
  apply andb_true_iff in H as [_ H]. f_equal. auto.
Qed.

Lemma shaped_kids_nth : forall ks dc j k sd, ParamsProofs.shaped_kids ks dc = true ->
  nth_error ks j = Some k -> nth j dc None = Some sd -> shaped k sd = true.
Proof.
  induction ks as [|k0 ks IH]; intros [|d dc] j k sd H Hk Hd; cbn in *; try discriminate.
  - destruct j; discriminate.
  - apply andb_true_iff in H as [H1 H2]. destruct j as [|j]; cbn in *.
    + injection Hk as ->. subst d. exact H1.
    + eapply IH; eauto.
Qed.

(** * the export tree of ExportProofs ([visit]) is the full read of Project ([fill]) *)
Theorem visit_is_fill : forall s, cfree s = true -> forall d new, shaped s d = true ->
  visit new s d = fill new s d.
Proof.
  apply (snode_ind3 (fun s => cfree s = true -> forall d new, shaped s d = true -> visit new s d = fill new s d));
    [intros m ty il dflt | intros m kids IHk | intros m keys row IHr]; intros Hc d new Hsh.
  - destruct d; reflexivity.
  - destruct d as [v|sc|rows]; try discriminate.
    rewrite shaped_cont in Hsh. pose proof (shaped_kids_length _ _ Hsh) as Hlen.
    cbn [visit]. rewrite fill_cont. f_equal.
    apply (nth_ext _ _ None None).
    + rewrite visit_kids_length, map_kids_length; auto.
    + intros j Hj. rewrite visit_kids_length in Hj.
      destruct (nth_error kids j) as [k|] eqn:Ek; [|apply nth_error_None in Ek; lia].
      rewrite visit_kids_nth, Ek. rewrite (map_kids_nth _ kids sc j k Hlen Ek).
      cbn [cfree] in Hc. rewrite forallb_forall in Hc. pose proof (Hc k (nth_error_In _ _ Ek)) as Hk.
      destruct (sguard k) eqn:Eg; [|discriminate].
      cbn [guard_selected negb Nat.add].
      rewrite Forall_forall in IHk. pose proof (IHk k (nth_error_In _ _ Ek) Hk) as IH.
      destruct k as [km ty il dflt|km kk|km keys row]; unfold fill_kid.
      * reflexivity.
      * destruct (nth j sc None) as [sd|] eqn:Ed; [|reflexivity]. cbn [option_map]. f_equal.
        apply IH. eapply shaped_kids_nth; eauto.
      * destruct (nth j sc None) as [sd|] eqn:Ed; [|reflexivity]. cbn [option_map]. f_equal.
        apply IH. eapply shaped_kids_nth; eauto.
  - destruct d as [v|sc|rows]; try discriminate. cbn [shaped] in Hsh. cbn [visit fill]. f_equal.
    apply map_ext_in. intros r Hr. apply IHr; [exact Hc|]. rewrite forallb_forall in Hsh. auto.
Qed.

(** * well-formed data is shaped *)
Lemma wfd_shaped : forall s d, wfd s d = true -> shaped s d = true.
Proof.
  apply (snode_ind3 (fun s => forall d, wfd s d = true -> shaped s d = true));
    [intros m ty il dflt | intros m kids IHk | intros m keys row IHr]; intros d Hw.
  - destruct d; try discriminate. reflexivity.
  - destruct d as [v|sc|rows]; try discriminate. rewrite shaped_cont. cbn [wfd] in Hw.
    revert sc Hw. induction IHk as [|k ks Hk _ IH]; intros [|d sc] Hw; cbn in *; try discriminate; auto.
    apply andb_true_iff in Hw as [H1 H2]. rewrite (IH sc H2), andb_true_r.
    destruct d as [dn|]; auto.
  - destruct d as [v|sc|rows]; try discriminate. cbn [wfd] in Hw. cbn [shaped].
    destruct row as [|rm rk|] eqn:Er; try discriminate. rewrite <- Er in *.
    apply andb_true_iff in Hw as [Hall _]. rewrite forallb_forall in Hall. apply forallb_forall.
    intros r Hr. apply IHr. auto.
Qed.

(** the two choice-freeness predicates of the development (Merge.choice_free: what
    C07Check.classify's domain uses; ExportProofs.cfree) *)
Lemma choice_free_cfree : forall s, choice_free s = true -> cfree s = true.
Proof.
  apply (snode_ind3 (fun s => choice_free s = true -> cfree s = true));
    [intros m ty il dflt | intros m kids IHk | intros m keys row IHr]; intros H.
  - exact H.
  - cbn [choice_free] in H. apply andb_true_iff in H as [_ H]. cbn [cfree].
    rewrite forallb_forall in *. rewrite Forall_forall in IHk. intros k Hk.
    pose proof (H k Hk) as Hcf. pose proof (IHk k Hk Hcf) as Hc.
    assert (Hg : sguard k = []).
    { unfold sguard. destruct k as [km ? ? ?|km ?|km ? ?]; cbn in *;
        destruct (nm_guard km); try reflexivity; discriminate. }
    rewrite Hg. exact Hc.
  - cbn [choice_free] in H. apply andb_true_iff in H as [_ H]. cbn [cfree]. auto.
Qed.
Lemma choice_free_kids_cfree kids : forallb choice_free kids = true -> cfree (SCont root_meta kids) = true.
Proof. intros H. apply choice_free_cfree. cbn [choice_free]. exact H. Qed.

(** * THEOREM: the reader without constraints = the export into an empty target = the full read *)
Theorem unconstrained_read_is_export : forall kids data st,
  st <> Update ->
  forallb wf_schema kids = true -> cfree (SCont root_meta kids) = true ->
  wfd (SCont root_meta kids) (DCont data) = true ->
  read_content None kids data = POk (full_read kids data) /\
  edit_content false kids data (empty_content kids) st = Ok (full_read kids data).
Proof.
  intros kids data st Hst Hwf Hc Hw. pose proof (wfd_shaped _ _ Hw) as Hsh. split.
  - rewrite (read_is_projection None kids data I Hwf Hsh). reflexivity.
  - rewrite (export_content_exact kids data st Hst Hw). f_equal.
    pose proof (visit_is_fill _ Hc (DCont data) false Hsh) as H.
    unfold full_read. rewrite <- H. reflexivity.
Qed.

(** the form asked for: both sides return the same content *)
Definition same_result (r : pres content) (e : res content) : Prop :=
  match r, e with POk c, Ok c' => c = c' | _, _ => False end.

Corollary unconstrained_read_same_result : forall kids data,
  forallb wf_schema kids = true -> forallb choice_free kids = true ->
  wfd (SCont root_meta kids) (DCont data) = true ->
  same_result (read_content None kids data) (edit_content false kids data (empty_content kids) Upsert).
Proof.
  intros kids data Hwf Hcf Hw.
  destruct (unconstrained_read_is_export kids data Upsert ltac:(discriminate) Hwf (choice_free_kids_cfree _ Hcf) Hw) as [H1 H2].
  unfold same_result. rewrite H1, H2. reflexivity.
Qed.

(** * key uniqueness is necessary *)
(** list l { key k; leaf k; leaf v } with two entries carrying the key "1": choice-free,
    well-formed schema, shaped data - the reader delivers both entries, the editor merges the
    second into the first *)
Definition dup_kids : list snode :=
  [SList (mkMeta [x6c] [x6d] true [] None) [0%nat]
     (SCont (mkMeta [x6c] [x6d] true [] None)
        [SLeaf (mkMeta [x6b] [x6d] true [] None) TStr false None;
         SLeaf (mkMeta [x76] [x6d] true [] None) TStr false None])].
Definition dup_data : content :=
  [Some (DList [DCont [Some (DLeaf (LV (VStr [x31]))); Some (DLeaf (LV (VStr [x61])))];
                DCont [Some (DLeaf (LV (VStr [x31]))); Some (DLeaf (LV (VStr [x62])))]])].

Example bridge_needs_unique_keys :
  forallb wf_schema dup_kids = true /\ forallb choice_free dup_kids = true /\
  shaped (SCont root_meta dup_kids) (DCont dup_data) = true /\
  read_content None dup_kids dup_data = POk dup_data /\
  edit_content false dup_kids dup_data (empty_content dup_kids) Upsert =
    Ok [Some (DList [DCont [Some (DLeaf (LV (VStr [x31]))); Some (DLeaf (LV (VStr [x62])))]])].
Proof. repeat split; vm_compute; reflexivity. Qed.

Definition unconstrained_read_is_export_full_statement : Prop :=
  forall kids data,
    forallb wf_schema kids = true -> forallb choice_free kids = true ->
    shaped (SCont root_meta kids) (DCont data) = true ->
    same_result (read_content None kids data) (edit_content false kids data (empty_content kids) Upsert).

Theorem unconstrained_read_is_export_full_refuted : ~ unconstrained_read_is_export_full_statement.
Proof.
  intros H. destruct bridge_needs_unique_keys as (A & B & C & D & E).
  specialize (H dup_kids dup_data A B C). unfold same_result in H. rewrite D, E in H. discriminate H.
Qed.

(** the hypotheses are satisfiable: the same schema with two distinct keys, and a nested container *)
Definition ok_kids : list snode :=
  dup_kids ++
  [SCont (mkMeta [x61] [x6d] true [] None)
     [SLeaf (mkMeta [x78] [x6d] true [] None) TStr false (Some (LV (VStr [x64])));
      SCont (mkMeta [x62] [x6d] true [] None) [SLeaf (mkMeta [x79] [x6d] true [] None) TStr false (Some (LV (VStr [x65])))]]].
Definition ok_data : content :=
  [Some (DList [DCont [Some (DLeaf (LV (VStr [x31]))); Some (DLeaf (LV (VStr [x61])))];
                DCont [Some (DLeaf (LV (VStr [x32]))); None]]);
   Some (DCont [None; Some (DCont [None])])].

Example bridge_hypotheses_satisfiable :
  forallb wf_schema ok_kids = true /\ forallb choice_free ok_kids = true /\
  cfree (SCont root_meta ok_kids) = true /\
  wfd (SCont root_meta ok_kids) (DCont ok_data) = true /\
  read_content None ok_kids ok_data =
    POk [Some (DList [DCont [Some (DLeaf (LV (VStr [x31]))); Some (DLeaf (LV (VStr [x61])))];
                      DCont [Some (DLeaf (LV (VStr [x32]))); None]]);
         Some (DCont [Some (DLeaf (LV (VStr [x64]))); Some (DCont [Some (DLeaf (LV (VStr [x65])))])])].
Proof. repeat split; vm_compute; reflexivity. Qed.
