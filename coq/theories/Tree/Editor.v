(** Executable model of node/edit.go (editor.enter / leaf / node / list /
    clearOnDifferentChoiceCase / clearChoiceCase) and node/container_meta_list.go (iteration over
    the source's definitions, descending into the chosen case only), with source and target being
    reference stores (harness/tree/store.go).  Node callbacks are inlined as operations on the
    positional data of Tree/Schema.v:
      Child{New=false}  = read position i        Child{New=true} = put an empty container/list at i
      Child{Delete}     = put None at i          Field read/write/clear = read / Some (DLeaf v) / None
      Next{Key}         = first row with that key; Next{New} = append an empty row
      Choose            = Schema.choose (first case with data)
    BeginEdit/EndEdit have no effect on data (their pairing is C12's instrumented model). *)
From Coq Require Import ZArith List Bool Strings.Byte.
From YV Require Import Val.Model Tree.Schema.
Import ListNotations.

Inductive strategy := Upsert | Insert | Update.
Inductive eerr := EConflict | ENotFound | EOther.
Inductive res (A : Type) := Ok (a : A) | Err (e : eerr).
Arguments Ok {A} a.
Arguments Err {A} e.

Definition strategy_eqb (a b : strategy) : bool :=
  match a, b with Upsert, Upsert | Insert, Insert | Update, Update => true | _, _ => false end.

Fixpoint set_nth {A} (i : nat) (x : A) (l : list A) : list A :=
  match l, i with
  | [], _ => []
  | _ :: tl, O => x :: tl
  | h :: tl, S i' => h :: set_nth i' x tl
  end.

(** last entry of a guard: the immediate case the definition sits in (want.Parent()) *)
Definition innermost (g : guard) : option (nat * nat) := last (map Some g) None.

(** suffix of [g] after its entry for choice [c] *)
Fixpoint guard_after (c : nat) (g : guard) : option guard :=
  match g with
  | [] => None
  | (c', _) :: tl => if Nat.eqb c c' then Some tl else guard_after c tl
  end.

(** clearChoiceCase(sel, existingCase): iterate the case's definitions the way containerMetaList
    does on the TARGET (descending only into the case Choose reports for each nested choice);
    leaves are cleared, containers and lists deleted: position := None. *)
Definition clear_case (c k : nat) (kids : list snode) (tgt : content) : content :=
  map (fun sd : snode * option dnode =>
         let (s, d) := sd in
         match guard_case c (sguard s), guard_after c (sguard s) with
         | Some k', Some rest =>
             if Nat.eqb k k' && guard_selected rest kids tgt then None else d
         | _, _ => d
         end)
      (combine kids tgt).

(** clearOnDifferentChoiceCase(existing, want): for every enclosing (choice, case) of [want], from
    the innermost outwards, if the target has another case of that choice selected, clear it *)
Definition clear_other_case (want : snode) (kids : list snode) (tgt : content) : content :=
  fold_left
    (fun (t : content) (ck : nat * nat) =>
       let (c, k) := ck in
       match choose c kids t with
       | None => t
       | Some k' => if Nat.eqb k k' then t else clear_case c k' kids t
       end)
    (rev (sguard want)) tgt.

(** first row of [rows] whose key equals [key] (List.find in the reference store) *)
Fixpoint find_row (keys : list nat) (key : list (option dnode)) (rows : list dnode) (i : nat) : option nat :=
  match rows with
  | [] => None
  | r :: tl => if key_eqb (row_key keys r) key then Some i else find_row keys key tl (S i)
  end.

(** a key is usable when every key leaf is set (the store returns key=nil otherwise) *)
Definition key_usable (key : list (option dnode)) : bool :=
  negb (Nat.eqb (length key) 0) && forallb present key.

(** what Child{New=true} / Next{New=true} creates *)
Definition empty_node (s : snode) : dnode :=
  match s with
  | SList _ _ _ => DList []
  | SCont _ kids => DCont (empty_content kids)
  | SLeaf _ _ _ _ => DCont []
  end.

Section Edit.
  Variable use_default : bool.     (* editor.useDefault (the ...SetDefaults entry points) *)

  Definition recfun := snode -> dnode -> dnode -> bool -> strategy -> res dnode.

  (** the containerMetaList loop of editor.enter over the flat kids [kids] of a container-like
      node: source content [sc], [new]/[st] of the enclosing enter; [ks] the kids still to visit,
      [i] the position of the first of them, [tc] the target content so far.  [rec] is editor.enter
      on a child (the recursive call). *)
  Definition kid_loop (rec : recfun) (kids : list snode) (sc : content) (new : bool) (st : strategy)
    : list snode -> nat -> content -> res content :=
    fix go (ks : list snode) (i : nat) (tc : content) {struct ks} : res content :=
      match ks with
      | [] => Ok tc
      | k :: ks' =>
          if negb (guard_selected (sguard k) kids sc) then go ks' (S i) tc else
          match k with
          | SLeaf _ _ _ dflt =>
              (* editor.leaf *)
              let usedflt := (negb (strategy_eqb st Update) && new) || use_default in
              let v := match nth i sc None with
                       | Some d => Some d
                       | None => if usedflt then option_map DLeaf dflt else None
                       end in
              match v with
              | None => go ks' (S i) tc
              | Some d =>
                  let tc1 := if strategy_eqb st Upsert then clear_other_case k kids tc else tc in
                  go ks' (S i) (set_nth i (Some d) tc1)
              end
          | _ =>
              (* editor.node *)
              match nth i sc None with
              | None => go ks' (S i) tc
              | Some sd =>
                  let old := nth i tc None in
                  let step (tc1 : content) (td : dnode) (newc : bool) :=
                    match rec k sd td newc st with
                    | Ok td' => go ks' (S i) (set_nth i (Some td') tc1)
                    | Err e => Err e
                    end in
                  match st with
                  | Insert => match old with Some _ => Err EConflict | None => step tc (empty_node k) true end
                  | Upsert =>
                      let tc1 := clear_other_case k kids tc in
                      match old with Some td => step tc1 td false | None => step tc1 (empty_node k) true end
                  | Update => match old with Some td => step tc td false | None => Err ENotFound end
                  end
              end
          end
      end.

  (** editor.list: one enter per source row *)
  Definition row_loop (rec : recfun) (keys : list nat) (row : snode) (st : strategy)
    : list dnode -> list dnode -> res (list dnode) :=
    fix rows (srs : list dnode) (trows : list dnode) {struct srs} : res (list dnode) :=
      match srs with
      | [] => Ok trows
      | sr :: srs' =>
          let key := row_key keys sr in
          let found := if key_usable key then find_row keys key trows O else None in
          match st, found with
          | Update, None => Err ENotFound
          | Insert, Some _ => Err EConflict
          | _, Some j =>
              match rec row sr (nth j trows (DCont [])) false (match st with Update => Update | _ => Upsert end) with
              | Ok tr' => rows srs' (set_nth j tr' trows)
              | Err e => Err e
              end
          | _, None =>
              match rec row sr (empty_node row) true Upsert with
              | Ok tr' => rows srs' (trows ++ [tr'])
              | Err e => Err e
              end
          end
      end.

  (** editor.enter on the node with schema [s]: [src] the source's data for it, [tgt] the target's
      (already created if it had to be), [new] whether the target node was created by this edit.
      SCont: the containerMetaList loop (editor.leaf / editor.node per definition);
      SList: editor.list (below a matched entry editUpdate stays editUpdate, everything else
      continues as editUpsert). *)
  Fixpoint edit_one (s : snode) (src : dnode) (tgt : dnode) (new : bool) (st : strategy) {struct s} : res dnode :=
    match s, src, tgt with
    | SCont _ kids, DCont sc, DCont tc =>
        match kid_loop edit_one kids sc new st kids O tc with Ok tc' => Ok (DCont tc') | Err e => Err e end
    | SList _ keys row, DList srows, DList trows =>
        match row_loop edit_one keys row st srows trows with Ok trows' => Ok (DList trows') | Err e => Err e end
    | _, _, _ => Err EOther     (* data not shaped like the schema: outside the domain *)
    end.

  (** entry point on a container-like selection (module root, container, list entry) *)
  Definition edit_content (kids : list snode) (src tgt : content) (st : strategy) : res content :=
    let m := mkMeta [] [] true [] None in
    match edit_one (SCont m kids) (DCont src) (DCont tgt) false st with
    | Ok (DCont c) => Ok c
    | Ok _ => Err EOther
    | Err e => Err e
    end.
End Edit.
