(** C03: the editor model (Tree/Editor.v) computes the keyed deep merge (Tree/Merge.v) on
    choice-free schemas, for every schema, every shaped source and target, unboundedly. *)
From Coq Require Import ZArith List Bool Lia Strings.Byte.
From YV Require Import Val.Model Tree.Schema Tree.Editor Tree.Merge.
Import ListNotations.
Open Scope nat_scope.

(** * induction principle for the nested schema type *)
Section SnodeInd.
  Variable P : snode -> Prop.
  Hypothesis Hleaf : forall m ty il d, P (SLeaf m ty il d).
  Hypothesis Hcont : forall m kids, Forall P kids -> P (SCont m kids).
  Hypothesis Hlist : forall m keys row, P row -> P (SList m keys row).
  Fixpoint snode_ind' (s : snode) : P s :=
    match s with
    | SLeaf m ty il d => Hleaf m ty il d
    | SCont m kids =>
        Hcont m kids ((fix go (l : list snode) : Forall P l :=
                         match l with
                         | [] => Forall_nil P
                         | k :: l' => Forall_cons k (snode_ind' k) (go l')
                         end) kids)
    | SList m keys row => Hlist m keys row (snode_ind' row)
    end.
End SnodeInd.

(** * list plumbing *)
Lemma set_nth_middle {A} (pre : list A) x y rest :
  set_nth (length pre) y (pre ++ x :: rest) = pre ++ y :: rest.
Proof. induction pre as [|a pre IH]; simpl; [reflexivity|]. now rewrite IH. Qed.

Lemma nth_middle' {A} (pre : list A) x rest d : nth (length pre) (pre ++ x :: rest) d = x.
Proof. induction pre as [|a pre IH]; simpl; auto. Qed.

Lemma set_nth_length {A} i (x : A) l : length (set_nth i x l) = length l.
Proof. revert i; induction l as [|a l IH]; intros [|i]; simpl; auto. Qed.

Lemma forallb_set_nth {A} (p : A -> bool) i x l :
  forallb p l = true -> p x = true -> forallb p (set_nth i x l) = true.
Proof.
  revert i; induction l as [|a l IH]; intros [|i] Hl Hx; simpl in *; auto;
  apply andb_true_iff in Hl as [Ha Hl]; apply andb_true_iff; split; auto.
Qed.

Lemma forallb_nth {A} (p : A -> bool) l i d : forallb p l = true -> i < length l -> p (nth i l d) = true.
Proof.
  revert i; induction l as [|a l IH]; intros [|i] Hl Hi; simpl in *; try lia;
  apply andb_true_iff in Hl as [Ha Hl]; auto. apply IH; auto; lia.
Qed.

Lemma find_row_bound keys key rows i j : find_row keys key rows i = Some j -> i <= j < i + length rows.
Proof.
  revert i; induction rows as [|r rows IH]; intros i H; simpl in H; [discriminate|].
  destruct (key_eqb (row_key keys r) key).
  - inversion H; subst; simpl; lia.
  - apply IH in H. simpl. lia.
Qed.

Lemma lookup_row_bound keys sr rows j : lookup_row keys sr rows = Some j -> j < length rows.
Proof.
  unfold lookup_row. destruct (key_usable (row_key keys sr)); [|discriminate].
  intros H. apply find_row_bound in H. lia.
Qed.

(** * shapes *)
Lemma shaped_kids_empty rec kids : shaped_kids rec kids (empty_content kids) = true.
Proof. induction kids as [|k kids IH]; simpl; auto. Qed.

Lemma shaped_empty_node k : is_leaf k = false -> shaped k (empty_node k) = true.
Proof. destruct k; simpl; intros H; try discriminate; auto. apply shaped_kids_empty. Qed.

Lemma shaped_kids_length rec ks c : shaped_kids rec ks c = true -> length c = length ks.
Proof.
  revert c; induction ks as [|k ks IH]; intros [|d c] H; simpl in *; try discriminate; auto.
  apply andb_true_iff in H as [_ H]. f_equal. auto.
Qed.

Lemma choice_free_guard s : choice_free s = true -> sguard s = [].
Proof.
  destruct s; unfold sguard; simpl; intros H.
  - destruct (nm_guard m); [reflexivity|discriminate].
  - apply andb_true_iff in H as [H _]. destruct (nm_guard m); [reflexivity|discriminate].
  - apply andb_true_iff in H as [H _]. destruct (nm_guard m); [reflexivity|discriminate].
Qed.

Lemma clear_other_case_free k kids tc : sguard k = [] -> clear_other_case k kids tc = tc.
Proof. intros H. unfold clear_other_case. rewrite H. reflexivity. Qed.

(** merge preserves shapes *)
Lemma merge_kids_shaped mrec created ks :
  Forall (fun k => forall sd td c, shaped k sd = true -> shaped k td = true -> shaped k (mrec k sd td c) = true) ks ->
  forall sc tc, shaped_kids shaped ks sc = true -> shaped_kids shaped ks tc = true ->
  shaped_kids shaped ks (merge_kids mrec created ks sc tc) = true.
Proof.
  induction 1 as [|k ks Hk _ IH]; intros [|sd sc] [|td tc] Hs Ht; simpl in *; try discriminate; auto.
  apply andb_true_iff in Hs as [Hsd Hs]. apply andb_true_iff in Ht as [Htd Ht].
  apply andb_true_iff; split; [|apply IH; assumption].
  destruct k as [m ty il dflt|m kk|m keys row].
  - destruct sd as [d|]; [assumption|]. destruct created; [|assumption].
    destruct dflt; [reflexivity|assumption].
  - destruct sd as [sdn|]; [|assumption]. apply Hk; [assumption|].
    destruct td as [t|]; [assumption|]. apply shaped_empty_node; reflexivity.
  - destruct sd as [sdn|]; [|assumption]. apply Hk; [assumption|].
    destruct td as [t|]; [assumption|]. apply shaped_empty_node; reflexivity.
Qed.

Lemma forallb_app' {A} (p : A -> bool) l1 l2 : forallb p l1 = true -> forallb p l2 = true -> forallb p (l1 ++ l2) = true.
Proof. intros. rewrite forallb_app. now apply andb_true_iff. Qed.

Lemma merge_rows_shaped mrec keys row :
  (forall sd td c, shaped row sd = true -> shaped row td = true -> shaped row (mrec row sd td c) = true) ->
  is_leaf row = false ->
  forall srows trows, forallb (shaped row) srows = true -> forallb (shaped row) trows = true ->
  forallb (shaped row) (merge_rows mrec keys row srows trows) = true.
Proof.
  intros Hrow Hnl. unfold merge_rows.
  induction srows as [|sr srows IH]; intros trows Hs Ht; simpl in *; [assumption|].
  apply andb_true_iff in Hs as [Hsr Hs]. apply IH; [assumption|].
  destruct (lookup_row keys sr trows) as [j|] eqn:E.
  - apply forallb_set_nth; [assumption|]. apply Hrow; [assumption|].
    apply forallb_nth; [assumption|]. eapply lookup_row_bound; eauto.
  - apply forallb_app'; [assumption|]. simpl. rewrite andb_true_r.
    apply Hrow; [assumption|]. apply shaped_empty_node; assumption.
Qed.

(** rows of a well-formed list schema are containers *)
Fixpoint wf_schema (s : snode) : bool :=
  match s with
  | SLeaf _ _ _ _ => true
  | SCont _ kids => forallb wf_schema kids
  | SList _ _ row => negb (is_leaf row) && wf_schema row
  end.

Theorem merge_shaped s : wf_schema s = true ->
  forall src tgt c, shaped s src = true -> shaped s tgt = true -> shaped s (merge_one s src tgt c) = true.
Proof.
  induction s as [m ty il d|m kids IH|m keys row IH] using snode_ind'; intros Hwf src tgt c Hs Ht.
  - destruct src, tgt; simpl in *; auto.
  - destruct src as [|sc|], tgt as [|tc|]; simpl in *; try discriminate.
    apply merge_kids_shaped; try assumption.
    simpl in Hwf. rewrite forallb_forall in Hwf. rewrite Forall_forall in *.
    intros k Hk sd td c'. apply IH; auto.
  - destruct src as [| |srows], tgt as [| |trows]; simpl in *; try discriminate.
    apply andb_true_iff in Hwf as [Hnl Hwf]. apply negb_true_iff in Hnl.
    apply merge_rows_shaped; auto.
Qed.

(** * Upsert computes the merge *)
Section Upsert.
  Variable rec : recfun.
  Variable mrec : snode -> dnode -> dnode -> bool -> dnode.

  Lemma kid_loop_upsert kids sc new ks :
    Forall (fun k => sguard k = [] /\
                     (is_leaf k = false ->
                      forall sd td newc, shaped k sd = true -> shaped k td = true ->
                                         rec k sd td newc Upsert = Ok (mrec k sd td newc))) ks ->
    forall spre srest pre rest,
      sc = spre ++ srest -> length spre = length pre ->
      shaped_kids shaped ks srest = true -> shaped_kids shaped ks rest = true ->
      kid_loop false rec kids sc new Upsert ks (length pre) (pre ++ rest)
      = Ok (pre ++ merge_kids mrec new ks srest rest).
  Proof.
    induction 1 as [|k ks [Hg Hk] _ IH]; intros spre srest pre rest Hsc Hlen Hs Ht.
    - destruct srest, rest; simpl in *; try discriminate. reflexivity.
    - destruct srest as [|sd srest], rest as [|td rest]; simpl in Hs, Ht; try discriminate.
      apply andb_true_iff in Hs as [Hsd Hs]. apply andb_true_iff in Ht as [Htd Ht].
      assert (Hnext : forall x,
                 kid_loop false rec kids sc new Upsert ks (S (length pre)) (pre ++ x :: rest)
                 = Ok (pre ++ x :: merge_kids mrec new ks srest rest)).
      { intros x.
        specialize (IH (spre ++ [sd]) srest (pre ++ [x]) rest).
        rewrite !app_length in IH. simpl in IH. rewrite !Nat.add_1_r in IH.
        rewrite <- !app_assoc in IH. simpl in IH.
        apply IH; auto. }
      assert (Hsrc : nth (length pre) sc None = sd).
      { subst sc. rewrite <- Hlen. apply nth_middle'. }
      cbn [kid_loop]. rewrite Hg. cbn [guard_selected negb].
      rewrite Hsrc, nth_middle'.
      destruct k as [m ty il dflt|m kk|m keys row]; cbn [merge_kids].
      + (* leaf *)
        cbn [strategy_eqb negb andb orb].
        rewrite (clear_other_case_free _ kids (pre ++ td :: rest) Hg).
        destruct sd as [d|].
        * rewrite set_nth_middle. apply Hnext.
        * destruct new; cbn [andb orb].
          -- destruct dflt as [v|]; cbn [option_map].
             ++ rewrite set_nth_middle. apply Hnext.
             ++ apply Hnext.
          -- apply Hnext.
      + (* container *)
        specialize (Hk eq_refl).
        destruct sd as [sdn|]; [|apply Hnext].
        rewrite (clear_other_case_free _ kids (pre ++ td :: rest) Hg).
        destruct td as [tdn|]; cbn [present negb].
        * rewrite Hk by assumption. rewrite set_nth_middle. apply Hnext.
        * rewrite Hk; [|assumption|apply shaped_empty_node; reflexivity].
          rewrite set_nth_middle. apply Hnext.
      + (* list *)
        specialize (Hk eq_refl).
        destruct sd as [sdn|]; [|apply Hnext].
        rewrite (clear_other_case_free _ kids (pre ++ td :: rest) Hg).
        destruct td as [tdn|]; cbn [present negb].
        * rewrite Hk by assumption. rewrite set_nth_middle. apply Hnext.
        * rewrite Hk; [|assumption|apply shaped_empty_node; reflexivity].
          rewrite set_nth_middle. apply Hnext.
  Qed.

  Lemma row_loop_upsert keys row :
    (forall sr tr newc, shaped row sr = true -> shaped row tr = true ->
                        rec row sr tr newc Upsert = Ok (mrec row sr tr newc)) ->
    (forall sd td c, shaped row sd = true -> shaped row td = true -> shaped row (mrec row sd td c) = true) ->
    is_leaf row = false ->
    forall srows trows, forallb (shaped row) srows = true -> forallb (shaped row) trows = true ->
    row_loop rec keys row Upsert srows trows = Ok (merge_rows mrec keys row srows trows).
  Proof.
    intros Hrec Hsh Hnl. unfold merge_rows.
    induction srows as [|sr srows IH]; intros trows Hs Ht; [reflexivity|].
    simpl in Hs. apply andb_true_iff in Hs as [Hsr Hs].
    cbn [row_loop fold_left]. fold (lookup_row keys sr trows).
    destruct (lookup_row keys sr trows) as [j|] eqn:E.
    - assert (Hj : shaped row (nth j trows (DCont [])) = true).
      { apply forallb_nth; [assumption|]. eapply lookup_row_bound; eauto. }
      rewrite Hrec by assumption. apply IH; [assumption|].
      apply forallb_set_nth; [assumption|]. apply Hsh; assumption.
    - rewrite Hrec; [|assumption|apply shaped_empty_node; assumption].
      apply IH; [assumption|]. apply forallb_app'; [assumption|]. simpl. rewrite andb_true_r.
      apply Hsh; [assumption|apply shaped_empty_node; assumption].
  Qed.
End Upsert.

Theorem upsert_is_merge s : wf_schema s = true -> choice_free s = true -> is_leaf s = false ->
  forall src tgt new, shaped s src = true -> shaped s tgt = true ->
  edit_one false s src tgt new Upsert = Ok (merge_one s src tgt new).
Proof.
  induction s as [m ty il d|m kids IH|m keys row IH] using snode_ind'; intros Hwf Hcf Hnl src tgt new Hs Ht.
  - discriminate Hnl.
  - destruct src as [|sc|], tgt as [|tc|]; simpl in Hs, Ht; try discriminate.
    cbn [edit_one merge_one].
    simpl in Hwf, Hcf. apply andb_true_iff in Hcf as [_ Hcf].
    rewrite forallb_forall in Hwf, Hcf.
    assert (HF : Forall (fun k => sguard k = [] /\
                     (is_leaf k = false ->
                      forall sd td newc, shaped k sd = true -> shaped k td = true ->
                                         edit_one false k sd td newc Upsert = Ok (merge_one k sd td newc))) kids).
    { rewrite Forall_forall in *. intros k Hk. split.
      - apply choice_free_guard. auto.
      - intros Hkl sd td newc Hsd Htd. apply IH; auto. }
    pose proof (kid_loop_upsert (edit_one false) merge_one kids sc new kids HF [] sc [] tc eq_refl eq_refl Hs Ht) as H.
    simpl in H. rewrite H. reflexivity.
  - destruct src as [| |srows], tgt as [| |trows]; simpl in Hs, Ht; try discriminate.
    cbn [edit_one merge_one]. clear Hnl.
    simpl in Hwf, Hcf. apply andb_true_iff in Hwf as [Hnl Hwf]. apply negb_true_iff in Hnl.
    apply andb_true_iff in Hcf as [_ Hcf].
    rewrite (row_loop_upsert (edit_one false) merge_one keys row); auto.
    intros. apply merge_shaped; auto.
Qed.

Corollary upsert_content_is_merge kids src tgt :
  forallb wf_schema kids = true -> forallb choice_free kids = true ->
  shaped_kids shaped kids src = true -> shaped_kids shaped kids tgt = true ->
  edit_content false kids src tgt Upsert = Ok (merge_content kids src tgt).
Proof.
  intros Hwf Hcf Hs Ht. unfold edit_content, merge_content.
  rewrite (upsert_is_merge (SCont (mkMeta [] [] true [] None) kids)); simpl; auto.
Qed.

(** * Laws of the merge, by data position (the declarative reading of C03's first sentence) *)

(** leaves in S overwrite; an unset leaf keeps T's value, or gets the schema default when the
    enclosing node had to be created *)
Lemma merge_leaf_law mrec created ks : forall sc tc i m ty il dflt,
  length sc = length ks -> length tc = length ks ->
  nth_error ks i = Some (SLeaf m ty il dflt) ->
  nth i (merge_kids mrec created ks sc tc) None =
    match nth i sc None with
    | Some d => Some d
    | None => if created then match dflt with Some v => Some (DLeaf v) | None => nth i tc None end
              else nth i tc None
    end.
Proof.
  induction ks as [|k ks IH]; intros sc tc i m ty il dflt Hs Ht Hn.
  - destruct i; discriminate.
  - destruct sc as [|sd sc], tc as [|td tc]; simpl in Hs, Ht; try discriminate.
    destruct i as [|i]; simpl in Hn.
    + inversion Hn; subst. reflexivity.
    + simpl. apply (IH sc tc i m ty il dflt); auto.
Qed.

(** nothing at a position S does not mention changes (frame) *)
Lemma merge_frame mrec ks : forall sc tc i,
  length sc = length ks -> length tc = length ks ->
  nth i sc None = None -> nth i (merge_kids mrec false ks sc tc) None = nth i tc None.
Proof.
  induction ks as [|k ks IH]; intros sc tc i Hs Ht Hn.
  - destruct sc, tc; simpl in *; try discriminate. destruct i; reflexivity.
  - destruct sc as [|sd sc], tc as [|td tc]; simpl in Hs, Ht; try discriminate.
    destruct i as [|i]; simpl in *.
    + subst sd. destruct k; reflexivity.
    + apply IH; auto.
Qed.

(** containers merge: a mentioned container or list exists afterwards and holds the merge of the
    two sides (created from empty when T had none) *)
Lemma merge_node_law mrec created ks : forall sc tc i k sdn,
  length sc = length ks -> length tc = length ks ->
  nth_error ks i = Some k -> is_leaf k = false -> nth i sc None = Some sdn ->
  nth i (merge_kids mrec created ks sc tc) None =
    Some (mrec k sdn (match nth i tc None with Some t => t | None => empty_node k end)
               (negb (present (nth i tc None)))).
Proof.
  induction ks as [|k0 ks IH]; intros sc tc i k sdn Hs Ht Hn Hl Hsd.
  - destruct i; discriminate.
  - destruct sc as [|sd sc], tc as [|td tc]; simpl in Hs, Ht; try discriminate.
    destruct i as [|i]; simpl in Hn, Hsd.
    + inversion Hn; subst. simpl. destruct k; try discriminate; reflexivity.
    + simpl. apply IH; auto.
Qed.

(** list entries are matched by key, otherwise appended in source order; no target entry is lost
    or reordered *)
Lemma merge_rows_length_ge mrec keys row srows : forall trows,
  length trows <= length (merge_rows mrec keys row srows trows).
Proof.
  unfold merge_rows. induction srows as [|sr srows IH]; intros trows; simpl; [lia|].
  destruct (lookup_row keys sr trows) as [j|].
  - etransitivity; [|apply IH]. rewrite set_nth_length. lia.
  - etransitivity; [|apply IH]. rewrite app_length. simpl. lia.
Qed.

(** * Insert and Update: whenever they succeed, the result is the merge; they fail only with their
      own error class; a conflict / missing node at the level being edited is reported. *)
Definition st_ok (st : strategy) (new : bool) : Prop :=
  match st with Upsert => True | Insert => True | Update => new = false end.

Section OkIsMerge.
  Variable rec : recfun.
  Variable mrec : snode -> dnode -> dnode -> bool -> dnode.

  Lemma kid_loop_ok kids sc new st ks : st <> Upsert -> st_ok st new ->
    Forall (fun k => sguard k = [] /\
                     (is_leaf k = false ->
                      forall sd td newc r, shaped k sd = true -> shaped k td = true -> st_ok st newc ->
                                           rec k sd td newc st = Ok r -> r = mrec k sd td newc)) ks ->
    forall spre srest pre rest r,
      sc = spre ++ srest -> length spre = length pre ->
      shaped_kids shaped ks srest = true -> shaped_kids shaped ks rest = true ->
      kid_loop false rec kids sc new st ks (length pre) (pre ++ rest) = Ok r ->
      r = pre ++ merge_kids mrec new ks srest rest.
  Proof.
    intros Hst Hok. induction 1 as [|k ks [Hg Hk] _ IH]; intros spre srest pre rest r Hsc Hlen Hs Ht Hrun.
    - destruct srest, rest; simpl in *; try discriminate. inversion Hrun. reflexivity.
    - destruct srest as [|sd srest], rest as [|td rest]; simpl in Hs, Ht; try discriminate.
      apply andb_true_iff in Hs as [Hsd Hs]. apply andb_true_iff in Ht as [Htd Ht].
      assert (Hnext : forall x,
                 kid_loop false rec kids sc new st ks (S (length pre)) (pre ++ x :: rest) = Ok r ->
                 r = pre ++ x :: merge_kids mrec new ks srest rest).
      { intros x Hx.
        specialize (IH (spre ++ [sd]) srest (pre ++ [x]) rest r).
        rewrite !app_length in IH. simpl in IH. rewrite !Nat.add_1_r in IH.
        rewrite <- !app_assoc in IH. simpl in IH.
        apply IH; auto. }
      assert (Hsrc : nth (length pre) sc None = sd).
      { subst sc. rewrite <- Hlen. apply nth_middle'. }
      cbn [kid_loop] in Hrun. rewrite Hg in Hrun. cbn [guard_selected negb] in Hrun.
      rewrite Hsrc, nth_middle' in Hrun.
      destruct k as [m ty il dflt|m kk|m keys row]; cbn [merge_kids].
      + (* leaf: no clearing for Insert/Update *)
        assert (Hclr : (if strategy_eqb st Upsert then clear_other_case (SLeaf m ty il dflt) kids (pre ++ td :: rest)
                        else pre ++ td :: rest) = pre ++ td :: rest).
        { destruct st; try reflexivity. congruence. }
        rewrite Hclr in Hrun.
        destruct sd as [d|].
        * rewrite set_nth_middle in Hrun. apply Hnext. exact Hrun.
        * destruct st; [congruence| |].
          -- (* Insert: usedflt = new *)
             cbn [strategy_eqb negb andb orb] in Hrun. destruct new; cbn [andb orb] in Hrun.
             ++ destruct dflt as [v|]; cbn [option_map] in Hrun.
                ** rewrite set_nth_middle in Hrun. apply Hnext. exact Hrun.
                ** apply Hnext. exact Hrun.
             ++ apply Hnext. exact Hrun.
          -- (* Update: never defaults; new = false *)
             cbn [strategy_eqb negb andb orb] in Hrun. simpl in Hok. subst new. apply Hnext. exact Hrun.
      + specialize (Hk eq_refl).
        destruct sd as [sdn|]; [|apply Hnext; exact Hrun].
        destruct st; [congruence| |].
        * destruct td as [tdn|]; [discriminate Hrun|]. cbn [present negb].
          destruct (rec (SCont m kk) sdn (empty_node (SCont m kk)) true Insert) as [td'|e] eqn:E; [|discriminate Hrun].
          apply Hk in E; [|assumption|apply shaped_empty_node; reflexivity|exact I]. subst td'.
          rewrite set_nth_middle in Hrun. apply Hnext. exact Hrun.
        * destruct td as [tdn|]; [|discriminate Hrun]. cbn [present negb].
          destruct (rec (SCont m kk) sdn tdn false Update) as [td'|e] eqn:E; [|discriminate Hrun].
          apply Hk in E; [|assumption|assumption|reflexivity]. subst td'.
          rewrite set_nth_middle in Hrun. apply Hnext. exact Hrun.
      + specialize (Hk eq_refl).
        destruct sd as [sdn|]; [|apply Hnext; exact Hrun].
        destruct st; [congruence| |].
        * destruct td as [tdn|]; [discriminate Hrun|]. cbn [present negb].
          destruct (rec (SList m keys row) sdn (empty_node (SList m keys row)) true Insert) as [td'|e] eqn:E; [|discriminate Hrun].
          apply Hk in E; [|assumption|apply shaped_empty_node; reflexivity|exact I]. subst td'.
          rewrite set_nth_middle in Hrun. apply Hnext. exact Hrun.
        * destruct td as [tdn|]; [|discriminate Hrun]. cbn [present negb].
          destruct (rec (SList m keys row) sdn tdn false Update) as [td'|e] eqn:E; [|discriminate Hrun].
          apply Hk in E; [|assumption|assumption|reflexivity]. subst td'.
          rewrite set_nth_middle in Hrun. apply Hnext. exact Hrun.
  Qed.

  Lemma row_loop_ok keys row st :
    (forall sr tr newc st' r, shaped row sr = true -> shaped row tr = true -> st_ok st' newc ->
                              rec row sr tr newc st' = Ok r -> r = mrec row sr tr newc) ->
    (forall sd td c, shaped row sd = true -> shaped row td = true -> shaped row (mrec row sd td c) = true) ->
    is_leaf row = false ->
    forall srows trows r, forallb (shaped row) srows = true -> forallb (shaped row) trows = true ->
    row_loop rec keys row st srows trows = Ok r -> r = merge_rows mrec keys row srows trows.
  Proof.
    intros Hrec Hsh Hnl. unfold merge_rows.
    induction srows as [|sr srows IH]; intros trows r Hs Ht Hrun.
    - simpl in Hrun. inversion Hrun. reflexivity.
    - simpl in Hs. apply andb_true_iff in Hs as [Hsr Hs].
      cbn [row_loop] in Hrun. cbn [fold_left]. fold (lookup_row keys sr trows) in Hrun.
      destruct (lookup_row keys sr trows) as [j|] eqn:E.
      + assert (Hj : shaped row (nth j trows (DCont [])) = true).
        { apply forallb_nth; [assumption|]. eapply lookup_row_bound; eauto. }
        destruct st; try discriminate Hrun.
        * destruct (rec row sr (nth j trows (DCont [])) false Upsert) as [tr'|e] eqn:R; [|discriminate Hrun].
          apply Hrec in R; [|assumption|assumption|exact I]. subst tr'.
          apply IH in Hrun; auto. apply forallb_set_nth; [assumption|]. apply Hsh; assumption.
        * destruct (rec row sr (nth j trows (DCont [])) false Update) as [tr'|e] eqn:R; [|discriminate Hrun].
          apply Hrec in R; [|assumption|assumption|reflexivity]. subst tr'.
          apply IH in Hrun; auto. apply forallb_set_nth; [assumption|]. apply Hsh; assumption.
      + assert (He : shaped row (empty_node row) = true) by (apply shaped_empty_node; assumption).
        destruct st; try discriminate Hrun.
        * destruct (rec row sr (empty_node row) true Upsert) as [tr'|e] eqn:R; [|discriminate Hrun].
          apply Hrec in R; [|assumption|assumption|exact I]. subst tr'.
          apply IH in Hrun; auto. apply forallb_app'; [assumption|]. simpl. rewrite andb_true_r. apply Hsh; assumption.
        * destruct (rec row sr (empty_node row) true Upsert) as [tr'|e] eqn:R; [|discriminate Hrun].
          apply Hrec in R; [|assumption|assumption|exact I]. subst tr'.
          apply IH in Hrun; auto. apply forallb_app'; [assumption|]. simpl. rewrite andb_true_r. apply Hsh; assumption.
  Qed.
End OkIsMerge.

Theorem edit_ok_is_merge s : wf_schema s = true -> choice_free s = true -> is_leaf s = false ->
  forall src tgt new st r, shaped s src = true -> shaped s tgt = true -> st_ok st new ->
  edit_one false s src tgt new st = Ok r -> r = merge_one s src tgt new.
Proof.
  induction s as [m ty il d|m kids IH|m keys row IH] using snode_ind'; intros Hwf Hcf Hnl src tgt new st r Hs Ht Hok Hrun.
  - discriminate Hnl.
  - destruct (strategy_eqb st Upsert) eqn:Est.
    { destruct st; try discriminate Est.
      rewrite upsert_is_merge in Hrun by assumption. inversion Hrun. reflexivity. }
    destruct src as [|sc|], tgt as [|tc|]; simpl in Hs, Ht; try discriminate.
    cbn [edit_one] in Hrun. cbn [merge_one].
    destruct (kid_loop false (edit_one false) kids sc new st kids 0 tc) as [tc'|e] eqn:E; [|discriminate Hrun].
    inversion Hrun; subst r. f_equal.
    simpl in Hwf, Hcf. apply andb_true_iff in Hcf as [_ Hcf].
    rewrite forallb_forall in Hwf, Hcf.
    assert (HF : Forall (fun k => sguard k = [] /\
                     (is_leaf k = false ->
                      forall sd td newc r, shaped k sd = true -> shaped k td = true -> st_ok st newc ->
                                           edit_one false k sd td newc st = Ok r -> r = merge_one k sd td newc)) kids).
    { rewrite Forall_forall in *. intros k Hk. split.
      - apply choice_free_guard. auto.
      - intros Hkl sd td newc r0 Hsd Htd Hok0 Hr. eapply IH; eauto. }
    assert (Hne : st <> Upsert) by (destruct st; try discriminate; congruence).
    exact (kid_loop_ok (edit_one false) merge_one kids sc new st kids Hne Hok HF [] sc [] tc tc' eq_refl eq_refl Hs Ht E).
  - destruct src as [| |srows], tgt as [| |trows]; simpl in Hs, Ht; try discriminate.
    cbn [edit_one] in Hrun. cbn [merge_one]. clear Hnl.
    destruct (row_loop (edit_one false) keys row st srows trows) as [tr'|e] eqn:E; [|discriminate Hrun].
    inversion Hrun; subst r. f_equal.
    simpl in Hwf, Hcf. apply andb_true_iff in Hwf as [Hnl Hwf]. apply negb_true_iff in Hnl.
    apply andb_true_iff in Hcf as [_ Hcf].
    assert (Hrec : forall sr tr newc st' r0, shaped row sr = true -> shaped row tr = true -> st_ok st' newc ->
                   edit_one false row sr tr newc st' = Ok r0 -> r0 = merge_one row sr tr newc).
    { intros sr tr newc st' r0 Hsr Htr Hok0 Hr. eapply IH; eauto. }
    assert (Hsh : forall sd td c, shaped row sd = true -> shaped row td = true -> shaped row (merge_one row sd td c) = true).
    { intros. apply merge_shaped; auto. }
    exact (row_loop_ok (edit_one false) merge_one keys row st Hrec Hsh Hnl srows trows tr' Hs Ht E).
Qed.

(** errors carry the class of the strategy: Insert fails only with Conflict, Update only with
    NotFound, Upsert never fails (on shaped data over a choice-free schema) *)
Definition err_ok (st : strategy) (e : eerr) : Prop :=
  match st with Upsert => False | Insert => e = EConflict | Update => e = ENotFound end.

Lemma kid_loop_err rec kids sc new st :
  forall ks,
  Forall (fun k => forall sd td newc e, rec k sd td newc st = Err e -> err_ok st e \/ e = EOther) ks ->
  forall i tc e, kid_loop false rec kids sc new st ks i tc = Err e -> err_ok st e \/ e = EOther.
Proof.
  induction 1 as [|k ks Hk _ IH]; intros i tc e Hrun; [discriminate Hrun|].
  cbn [kid_loop] in Hrun.
  destruct (negb (guard_selected (sguard k) kids sc)); [eapply IH; eauto|].
  destruct k as [m ty il dflt|m kk|m keys row].
  - match type of Hrun with context [match ?v with Some _ => _ | None => _ end] =>
      destruct v; eapply IH; eauto end.
  - destruct (nth i sc None) as [sd|]; [|eapply IH; eauto].
    destruct st; destruct (nth i tc None) as [td|];
      try (inversion Hrun; left; reflexivity);
      match type of Hrun with context [rec ?a ?b ?c ?d ?f] =>
        destruct (rec a b c d f) as [x|e'] eqn:R; [eapply IH; eauto|inversion Hrun; subst; eapply Hk; eauto] end.
  - destruct (nth i sc None) as [sd|]; [|eapply IH; eauto].
    destruct st; destruct (nth i tc None) as [td|];
      try (inversion Hrun; left; reflexivity);
      match type of Hrun with context [rec ?a ?b ?c ?d ?f] =>
        destruct (rec a b c d f) as [x|e'] eqn:R; [eapply IH; eauto|inversion Hrun; subst; eapply Hk; eauto] end.
Qed.

(** a container or list that S mentions and T already has makes Insert fail; one that T lacks
    makes Update fail (at the level being edited) *)
Fixpoint update_missing_top (ks : list snode) (sc tc : content) : bool :=
  match ks, sc, tc with
  | k :: ks', sd :: sc', td :: tc' =>
      (negb (is_leaf k) && present sd && negb (present td)) || update_missing_top ks' sc' tc'
  | _, _, _ => false
  end.

Lemma kid_loop_insert_conflict rec kids sc new ks :
  Forall (fun k => sguard k = []) ks ->
  forall spre srest pre rest,
    sc = spre ++ srest -> length spre = length pre -> length srest = length ks -> length rest = length ks ->
    insert_conflicts ks srest rest = true ->
    exists e, kid_loop false rec kids sc new Insert ks (length pre) (pre ++ rest) = Err e.
Proof.
  induction 1 as [|k ks Hg _ IH]; intros spre srest pre rest Hsc Hlen Hls Hlr Hc.
  - destruct srest, rest; simpl in *; discriminate.
  - destruct srest as [|sd srest], rest as [|td rest]; simpl in Hls, Hlr; try discriminate.
    assert (Hnext : forall x, insert_conflicts ks srest rest = true ->
               exists e, kid_loop false rec kids sc new Insert ks (S (length pre)) (pre ++ x :: rest) = Err e).
    { intros x Hx.
      specialize (IH (spre ++ [sd]) srest (pre ++ [x]) rest).
      rewrite !app_length in IH. simpl in IH. rewrite !Nat.add_1_r in IH.
      rewrite <- !app_assoc in IH. simpl in IH. apply IH; auto. }
    assert (Hsrc : nth (length pre) sc None = sd).
    { subst sc. rewrite <- Hlen. apply nth_middle'. }
    cbn [kid_loop]. rewrite Hg. cbn [guard_selected negb]. rewrite Hsrc, nth_middle'.
    simpl in Hc.
    destruct k as [m ty il dflt|m kk|m keys row]; simpl in Hc.
    + cbn [strategy_eqb].
      match goal with |- context [match ?v with Some _ => _ | None => _ end] => destruct v end;
        [rewrite set_nth_middle|]; apply Hnext; assumption.
    + destruct sd as [sdn|]; [|apply Hnext; assumption].
      destruct td as [tdn|]; [eexists; reflexivity|]. simpl in Hc.
      destruct (rec (SCont m kk) sdn (empty_node (SCont m kk)) true Insert); [|eexists; reflexivity].
      rewrite set_nth_middle. apply Hnext; assumption.
    + destruct sd as [sdn|]; [|apply Hnext; assumption].
      destruct td as [tdn|]; [eexists; reflexivity|]. simpl in Hc.
      destruct (rec (SList m keys row) sdn (empty_node (SList m keys row)) true Insert); [|eexists; reflexivity].
      rewrite set_nth_middle. apply Hnext; assumption.
Qed.

Lemma kid_loop_update_missing rec kids sc new ks :
  Forall (fun k => sguard k = []) ks ->
  forall spre srest pre rest,
    sc = spre ++ srest -> length spre = length pre -> length srest = length ks -> length rest = length ks ->
    update_missing_top ks srest rest = true ->
    exists e, kid_loop false rec kids sc new Update ks (length pre) (pre ++ rest) = Err e.
Proof.
  induction 1 as [|k ks Hg _ IH]; intros spre srest pre rest Hsc Hlen Hls Hlr Hc.
  - destruct srest, rest; simpl in *; discriminate.
  - destruct srest as [|sd srest], rest as [|td rest]; simpl in Hls, Hlr; try discriminate.
    assert (Hnext : forall x, update_missing_top ks srest rest = true ->
               exists e, kid_loop false rec kids sc new Update ks (S (length pre)) (pre ++ x :: rest) = Err e).
    { intros x Hx.
      specialize (IH (spre ++ [sd]) srest (pre ++ [x]) rest).
      rewrite !app_length in IH. simpl in IH. rewrite !Nat.add_1_r in IH.
      rewrite <- !app_assoc in IH. simpl in IH. apply IH; auto. }
    assert (Hsrc : nth (length pre) sc None = sd).
    { subst sc. rewrite <- Hlen. apply nth_middle'. }
    cbn [kid_loop]. rewrite Hg. cbn [guard_selected negb]. rewrite Hsrc, nth_middle'.
    simpl in Hc.
    destruct k as [m ty il dflt|m kk|m keys row]; simpl in Hc.
    + cbn [strategy_eqb].
      match goal with |- context [match ?v with Some _ => _ | None => _ end] => destruct v end;
        [rewrite set_nth_middle|]; apply Hnext; assumption.
    + destruct sd as [sdn|]; [|apply Hnext; assumption].
      destruct td as [tdn|]; [|eexists; reflexivity]. simpl in Hc.
      destruct (rec (SCont m kk) sdn tdn false Update); [|eexists; reflexivity].
      rewrite set_nth_middle. apply Hnext; assumption.
    + destruct sd as [sdn|]; [|apply Hnext; assumption].
      destruct td as [tdn|]; [|eexists; reflexivity]. simpl in Hc.
      destruct (rec (SList m keys row) sdn tdn false Update); [|eexists; reflexivity].
      rewrite set_nth_middle. apply Hnext; assumption.
Qed.

Theorem insert_conflict_fails kids src tgt :
  forallb choice_free kids = true -> length src = length kids -> length tgt = length kids ->
  insert_conflicts kids src tgt = true ->
  exists e, edit_content false kids src tgt Insert = Err e.
Proof.
  intros Hcf Hls Hlt Hc. unfold edit_content. cbn [edit_one].
  assert (HF : Forall (fun k => sguard k = []) kids).
  { rewrite Forall_forall. rewrite forallb_forall in Hcf. intros k Hk. apply choice_free_guard; auto. }
  destruct (kid_loop_insert_conflict (edit_one false) kids src false kids HF [] src [] tgt eq_refl eq_refl Hls Hlt Hc) as [e He].
  simpl in He. rewrite He. eexists; reflexivity.
Qed.

Theorem update_missing_fails kids src tgt :
  forallb choice_free kids = true -> length src = length kids -> length tgt = length kids ->
  update_missing_top kids src tgt = true ->
  exists e, edit_content false kids src tgt Update = Err e.
Proof.
  intros Hcf Hls Hlt Hc. unfold edit_content. cbn [edit_one].
  assert (HF : Forall (fun k => sguard k = []) kids).
  { rewrite Forall_forall. rewrite forallb_forall in Hcf. intros k Hk. apply choice_free_guard; auto. }
  destruct (kid_loop_update_missing (edit_one false) kids src false kids HF [] src [] tgt eq_refl eq_refl Hls Hlt Hc) as [e He].
  simpl in He. rewrite He. eexists; reflexivity.
Qed.

Corollary edit_content_ok_is_merge kids src tgt st r :
  forallb wf_schema kids = true -> forallb choice_free kids = true ->
  shaped_kids shaped kids src = true -> shaped_kids shaped kids tgt = true ->
  edit_content false kids src tgt st = Ok r -> r = merge_content kids src tgt.
Proof.
  intros Hwf Hcf Hs Ht Hrun. unfold edit_content in Hrun. unfold merge_content.
  destruct (edit_one false (SCont (mkMeta [] [] true [] None) kids) (DCont src) (DCont tgt) false st) as [d|e] eqn:E; [|discriminate].
  apply edit_ok_is_merge in E; simpl; auto.
  - subst d. simpl in Hrun. inversion Hrun. reflexivity.
  - destruct st; simpl; auto.
Qed.
