(** Specification side of C16: what a comparison, a 'when', a 'where' and a filter MEAN,
    written without the control structure of node/xpath_impl.go:
      - a literal denotes a value of the operand leaf's type ([lit_denote]);
      - a path reaches a set of readings of the operand leaf (lists fan out: [readings]);
      - a comparison holds iff SOME reading has a value v with  v op literal  mathematically
        (sign of the mathematical comparison, Val.Proofs.spec_sgn; an unset reading satisfies nothing);
      - the intended conditions of a node are given by the SOURCE text of the schema (own 'when', the
        'when' of the uses / augment that placed it), not by what the compiler kept. *)
From Coq Require Import ZArith List Bool Lia Strings.Byte.
From YV Require Import Base.Wrap Val.Model Val.Proofs Tree.Schema Tree.XPathLex Tree.When.
Import ListNotations.
Open Scope Z_scope.

(** truth of  v op b  given the sign of the mathematical comparison of v with b *)
Definition op_holds (o : xop) (s : Z) : bool :=
  match o with
  | OEq => s =? 0 | ONe => negb (s =? 0)
  | OLt => s <? 0 | OLe => s <=? 0 | OGt => 0 <? s | OGe => 0 <=? s
  end.

(** canonical integer text: -? digit+ *)
Definition int_text (s : list byte) : option Z :=
  match s with
  | b :: t => if bz b =? 45 then option_map Z.opp (nonempty_digits t) else nonempty_digits s
  | [] => None
  end.

Definition labelled (labels : list (ident * Z)) (s : ident) : list (ident * Z) :=
  filter (fun li => bytes_eqb (fst li) s) labels.

(** The value of type [ty] a literal denotes; None: not a literal of that type (no claim is made).
    decimal64: the binary64 nearest to the written number - this is the conversion itself
    (XPathLex.f64_round), there is no second definition of rounding. *)
Definition lit_denote (ty : ltype) (l : literal) : option value :=
  match ty, l with
  | TInt f, LInt z => if (is_signed f || is_unsigned f) && in_rangeb f z then Some (VInt f z) else None
  | TInt f, LStr s =>
      match (if is_signed f then int_text s else nonempty_digits s) with
      | Some z => if (is_signed f || is_unsigned f) && in_rangeb f z then Some (VInt f z) else None
      | None => None
      end
  | TDec _, _ => match conv_dec l with XOk v => Some v | _ => None end
  | TStr, LStr s => Some (VStr s)
  | TBool, LStr s =>
      if bytes_eqb s s_true then Some (VBool true)
      else if bytes_eqb s s_false then Some (VBool false) else None
  | TEnum labels, LStr s =>
      match parse_sint s, parse_uint s, labelled labels s with
      | None, None, [(lb, i)] => if in_sb 32 i then Some (VEnum i lb) else None
                                                 (* by name; the name does not look like a number *)
      | _, _, _ => None
      end
  | _, _ => None
  end.

(** the nodes named [n] among the definitions, with their data *)
Definition named (n : ident) (kids : list snode) (c : content) : list (snode * option dnode) :=
  filter (fun kd => ident_eqb (sname (fst kd)) n) (combine kids c).

Definition ctx := (list snode * content)%type.

(** the contexts reached through every entry of a list *)
Definition reach_rows (f : content -> option (list ctx)) (rows : list dnode) : option (list ctx) :=
  fold_right (fun r acc =>
                match r, acc with
                | DCont rc, Some l => match f rc with Some l' => Some (l' ++ l) | None => None end
                | _, _ => None
                end) (Some []) rows.

(** contexts (definitions + content) a container path leads to; None: not a path of when-free
    containers and lists of this schema, or data not shaped like the schema *)
Fixpoint reach (kids : list snode) (c : content) (p : list ident) {struct p} : option (list ctx) :=
  match p with
  | [] => Some [(kids, c)]
  | n :: p' =>
      match named n kids c with
      | [(SCont m kids', d)] =>
          if has_when (SCont m []) then None else
          match d with
          | None => Some []
          | Some (DCont c') => reach kids' c' p'
          | Some _ => None
          end
      | [(SList m _ row, d)] =>
          if has_when (SCont m []) then None else
          match d with
          | None => Some []
          | Some (DList rows) => reach_rows (fun rc => reach (skids row) rc p') rows
          | Some _ => None
          end
      | _ => None
      end
  end.

(** the reading of leaf [lf] in one context: its type and the value Get() must deliver (stored, else default) *)
Definition reading (lf : ident) (cx : ctx) : option (ltype * option value) :=
  match named lf (fst cx) (snd cx) with
  | [(SLeaf m ty false dflt, d)] =>
      match nm_when m with
      | Some _ => None
      | None =>
          match d, dflt with
          | Some (DLeaf (LV v)), _ => Some (ty, Some v)
          | None, Some (LV v) => Some (ty, Some v)
          | None, None => Some (ty, None)
          | _, _ => None
          end
      end
  | _ => None
  end.

Definition leaf_type (lf : ident) (kids : list snode) : option ltype :=
  match filter (fun k => ident_eqb (sname k) lf) kids with
  | [SLeaf m ty false _] => match nm_when m with None => Some ty | Some _ => None end
  | _ => None
  end.

Fixpoint path_type (kids : list snode) (p : list ident) (lf : ident) : option ltype :=
  match p with
  | [] => leaf_type lf kids
  | n :: p' =>
      match filter (fun k => ident_eqb (sname k) n) kids with
      | [SCont m kids'] => if has_when (SCont m []) then None else path_type kids' p' lf
      | [SList m _ row] => if has_when (SCont m []) then None else path_type (skids row) p' lf
      | _ => None
      end
  end.

Definition wf_valb (v : value) : bool :=
  match v with
  | VInt f z => (is_signed f || is_unsigned f) && in_rangeb f z
  | VEnum id _ => in_sb 32 id
  | _ => true
  end.

(** one reading against the literal's value [b], accumulated as "some reading satisfies it" *)
Definition reading_holds (lf : ident) (o : xop) (b : value) (cx : ctx) (acc : option bool) : option bool :=
  match reading lf cx, acc with
  | Some (_, None), Some r => Some r                     (* unset: satisfies nothing *)
  | Some (_, Some v), Some r =>
      if wf_valb v then
        match spec_sgn v b with
        | Some s => Some (op_holds o s || r)
        | None => None
        end
      else None
  | _, _ => None
  end.

(** does the comparison hold?  None: the specification makes no claim (literal not of the leaf's type,
    path not in the schema, ...) *)
Definition spec_cmp (kids : list snode) (c : content) (e : cmp_expr) : option bool :=
  match path_type kids (ce_path e) (ce_leaf e), reach kids c (ce_path e) with
  | Some ty, Some ctxs =>
      match lit_denote ty (ce_lit e) with
      | None => None
      | Some b => fold_right (reading_holds (ce_leaf e) (ce_op e) b) (Some false) ctxs
      end
  | _, _ => None
  end.

(** ** intended conditions of the nodes of a schema.
    [(path, origin, conditions)]: origin 0 = the node's own 'when', 1 = inherited from an augment,
    2 = inherited from a uses; a condition is (evaluated in the parent's context?, expression). *)
Definition cond := (bool * cmp_expr)%type.
Definition intent := list (list nat * nat * list cond).

Fixpoint path_eqb (a b : list nat) : bool :=
  match a, b with
  | [], [] => true
  | x :: a', y :: b' => Nat.eqb x y && path_eqb a' b'
  | _, _ => false
  end.

Definition conds_at (it : intent) (pth : list nat) : list cond :=
  flat_map (fun e => if path_eqb (fst (fst e)) pth then snd e else []) it.

(** all conditions hold / one fails; XUnsup = no claim *)
Fixpoint all_hold (pk : list snode) (pc : content) (ok : list snode) (oc : content) (cs : list cond) : xres bool :=
  match cs with
  | [] => XOk true
  | (in_parent, e) :: tl =>
      match spec_cmp (if in_parent then pk else ok) (if in_parent then pc else oc) e with
      | None => XUnsup
      | Some false => xbind (all_hold pk pc ok oc tl) (fun _ => XOk false)
      | Some true => all_hold pk pc ok oc tl
      end
  end.

Section SpecExport.
  Variable it : intent.
  Definition s_field (pth : list nat) (kids : list snode) (c : content) (k : snode) : xres bool :=
    all_hold kids c kids c (conds_at it pth).
  Definition s_cont (pth : list nat) (kids : list snode) (c : content) (k : snode) (cc : content) : xres bool :=
    all_hold kids c (skids k) cc (conds_at it pth).
  (** a list entry is conditional on its own content; the oracle decides per entry in [s_rows] *)
  Definition s_list (pth : list nat) (kids : list snode) (c : content) (k : snode) : xres bool :=
    match conds_at it pth with [] => XOk true | _ => XUnsup end.
  Definition spec_export (kids : list snode) (c : content) : xres content :=
    wexport_at s_field s_cont s_list [] false kids c.
  Definition spec_export_row (rkids : list snode) (r : dnode) : xres dnode :=
    wexp s_field s_cont s_list [] true (root_cont rkids) r.
End SpecExport.
