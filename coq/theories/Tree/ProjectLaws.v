(** C07: order-theoretic laws of the projection (Project.project_view).

    project_idempotent : projecting twice by one view = projecting once, for every view whose row
                         selection is natural (commutes with mapping the rows) and idempotent;
                         every parameter view without fc.range or with a range starting at row 0 is
                         one.  For a range starting later the statement is FALSE
                         ([project_idempotent_full_refuted]: rows 1- of rows 1- are rows 2-).
    project_monotone   : a view that keeps at most what another keeps (same row selection) yields
                         a sub-tree ([sub_d]: positionally, every node kept by the smaller view is
                         kept, with the same leaf values, by the larger); so a larger depth keeps
                         every node a smaller depth keeps, and adding a parameter only removes.
    project_absorb     : projecting by the smaller view after the larger = projecting by the smaller. *)
From Coq Require Import Strings.String.
From Coq Require Import ZArith List Bool Lia Strings.Byte.
From YV Require Import Val.Model Tree.Schema Tree.Merge Tree.PathExpr Tree.PathExprProofs Tree.Params Tree.Project Tree.ParamsProofs.
Import ListNotations.
Open Scope Z_scope.

(** * idempotence *)
Definition rows_idem (V : view) : Prop :=
  forall fp (rows : list dnode), vw_rows V fp (vw_rows V fp rows) = vw_rows V fp rows.

Theorem project_idempotent V : rows_natural V -> rows_idem V ->
  forall s fp d, project_view V fp s (project_view V fp s d) = project_view V fp s d.
Proof.
  intros Hn Hi s fp d. rewrite <- (project_compose V V Hn).
  apply project_view_ext. repeat split; intros; cbn.
  - apply andb_diag.
  - apply andb_diag.
  - apply Hi.
  - apply orb_diag.
Qed.

Lemma skipz_nonpos {A} (l : list A) n : n <= 0 -> skipz l n = l.
Proof. intros H. destruct l; cbn; auto. destruct (n <=? 0) eqn:E; auto; lia. Qed.
Lemma takez_idem {A} : forall (l : list A) n, takez (takez l n) n = takez l n.
Proof.
  induction l as [|x l IH]; intros n; cbn; auto. destruct (n <=? 0) eqn:E; cbn; auto.
  rewrite E. f_equal. apply IH.
Qed.
Lemma window_idem {A} st en (l : list A) : st <= 0 -> window st en (window st en l) = window st en l.
Proof.
  intros H. unfold window. destruct (en =? -1).
  - now rewrite !skipz_nonpos.
  - rewrite !skipz_nonpos by lia. apply takez_idem.
Qed.

(** the range of a parameter record starts at the first row (or there is none) *)
Definition range_from_start (p : params) : Prop :=
  match p_range p with Some (_, st, _) => st <= 0 | None => True end.

Lemma params_view_natural p : rows_natural (params_view p).
Proof. intros f fp l. apply H_natural_params. Qed.
Lemma params_view_rows_idem p : range_from_start p -> rows_idem (params_view p).
Proof.
  intros H fp rows. rewrite !vw_rows_params. unfold range_from_start in H.
  destruct (p_range p) as [[[ps st] en]|]; auto. destruct (selects_exactly ps fp); auto.
  now apply window_idem.
Qed.

Theorem params_project_idempotent p : range_from_start p ->
  forall s fp d, project_view (params_view p) fp s (project_view (params_view p) fp s d)
                 = project_view (params_view p) fp s d.
Proof. intros H. apply project_idempotent; [apply params_view_natural|now apply params_view_rows_idem]. Qed.

Theorem depth_project_idempotent n :
  forall s fp d, project_view (view_depth n) fp s (project_view (view_depth n) fp s d)
                 = project_view (view_depth n) fp s d.
Proof. apply project_idempotent; [apply rows_natural_all_rows|intros fp rows; reflexivity]. Qed.

(** the statement for every (natural) view is false: list l { leaf k } with entries 1, 2, 3 and
    the view of fc.range=!1- on the list itself *)
Definition project_idempotent_full_statement : Prop :=
  forall V, rows_natural V ->
  forall s fp d, project_view V fp s (project_view V fp s d) = project_view V fp s d.

Definition idem_cex_schema : snode :=
  SList (mkMeta [x6c] [x6d] true [] None) [0%nat]
    (SCont (mkMeta [x6c] [x6d] true [] None) [SLeaf (mkMeta [x6b] [x6d] true [] None) TStr false None]).
Definition idem_cex_data : dnode :=
  DList [DCont [Some (DLeaf (LV (VStr [x31])))]; DCont [Some (DLeaf (LV (VStr [x32])))];
         DCont [Some (DLeaf (LV (VStr [x33])))]].
Definition idem_cex_view : view := view_range [[]] 1 (-1).

Example project_idempotent_counterexample :
  project_view idem_cex_view [] idem_cex_schema idem_cex_data
    = DList [DCont [Some (DLeaf (LV (VStr [x32])))]; DCont [Some (DLeaf (LV (VStr [x33])))]] /\
  project_view idem_cex_view [] idem_cex_schema (project_view idem_cex_view [] idem_cex_schema idem_cex_data)
    = DList [DCont [Some (DLeaf (LV (VStr [x33])))]].
Proof. split; vm_compute; reflexivity. Qed.

Theorem project_idempotent_full_refuted : ~ project_idempotent_full_statement.
Proof.
  intros H. specialize (H idem_cex_view (rows_natural_range _ _ _) idem_cex_schema [] idem_cex_data).
  destruct project_idempotent_counterexample as [A B]. rewrite B, A in H. discriminate H.
Qed.

(** * monotonicity *)
(** [sub_d a b]: a is b with some nodes removed (positions are aligned with the schema, so this
    is: every node present in a is present in b, leaves with the same value) *)
Fixpoint sub_d (a b : dnode) {struct a} : Prop :=
  match a, b with
  | DLeaf x, DLeaf y => x = y
  | DCont c, DCont c' =>
      (fix go (p q : list (option dnode)) : Prop :=
         match p, q with
         | [], [] => True
         | None :: p', _ :: q' => go p' q'
         | Some i :: p', Some j :: q' => sub_d i j /\ go p' q'
         | _, _ => False
         end) c c'
  | DList r, DList r' =>
      (fix rows (p q : list dnode) : Prop :=
         match p, q with
         | [], [] => True
         | x :: p', y :: q' => sub_d x y /\ rows p' q'
         | _, _ => False
         end) r r'
  | _, _ => False
  end.
Fixpoint sub_c (p q : content) : Prop :=
  match p, q with
  | [], [] => True
  | None :: p', _ :: q' => sub_c p' q'
  | Some i :: p', Some j :: q' => sub_d i j /\ sub_c p' q'
  | _, _ => False
  end.
Fixpoint sub_rows (p q : list dnode) : Prop :=
  match p, q with
  | [], [] => True
  | x :: p', y :: q' => sub_d x y /\ sub_rows p' q'
  | _, _ => False
  end.
Lemma sub_d_cont c : forall c', sub_d (DCont c) (DCont c') = sub_c c c'.
Proof.
  induction c as [|od c IH]; intros [|od' c']; try reflexivity; destruct od; reflexivity.
Qed.
Lemma sub_d_list r : forall r', sub_d (DList r) (DList r') = sub_rows r r'.
Proof. induction r as [|x r IH]; intros [|y r']; reflexivity. Qed.

Lemma sub_d_refl : forall d, sub_d d d.
Proof.
  induction d as [v|c IH|rows IH] using dnode_ind'.
  - reflexivity.
  - rewrite sub_d_cont. induction IH as [|od c Hod _ IHc]; [exact I|].
    destruct od as [x|]; cbn; auto.
  - rewrite sub_d_list. induction IH as [|r rows Hr _ IHr]; [exact I|]. cbn. auto.
Qed.

(** [view_le W V]: W keeps at most what V keeps (and selects the same rows) *)
Definition view_le (W V : view) : Prop :=
  (forall fp m, vw_leaf W fp m = true -> vw_leaf V fp m = true) /\
  (forall fp m, vw_node W fp m = true -> vw_node V fp m = true) /\
  (forall fp rows, vw_rows W fp rows = vw_rows V fp rows) /\
  (vw_trim V = true -> vw_trim W = true).

Theorem project_monotone W V : view_le W V ->
  forall s fp d, sub_d (project_view W fp s d) (project_view V fp s d).
Proof.
  intros [Hl [Hn [Hr Ht]]].
  assert (Htrim : forall dflt x, negb (vw_trim W && is_default dflt x) = true ->
                                 negb (vw_trim V && is_default dflt x) = true).
  { intros dflt x H. destruct (vw_trim V); [|reflexivity]. rewrite (Ht eq_refl) in H. exact H. }
  induction s as [m ty il dflt|m kids IHk|m keys row IHr] using snode_ind'; intros fp d.
  - destruct d; apply sub_d_refl.
  - destruct d as [v|dc|rows]; try apply sub_d_refl.
    cbn [project_view]. rewrite sub_d_cont. revert dc.
    induction IHk as [|k ks Hk _ IH]; intros [|dk dc]; cbn [map_kids sub_c]; try exact I.
    specialize (IH dc).
    destruct k as [mk ty il dflt|mk kk|mk keys row].
    + destruct dk as [x|]; [|exact IH].
      destruct (vw_leaf W (fp ++ [nm_name mk]) mk) eqn:EW; [|exact IH].
      rewrite (Hl _ _ EW). cbn [andb].
      destruct (negb (vw_trim W && is_default dflt x)) eqn:EN; [|exact IH].
      rewrite (Htrim _ _ EN). split; [apply sub_d_refl|exact IH].
    + destruct dk as [sd|]; [|exact IH].
      destruct (vw_node W (fp ++ [nm_name mk]) mk) eqn:EW; [|exact IH].
      rewrite (Hn _ _ EW). split; [apply Hk|exact IH].
    + destruct dk as [sd|]; [|exact IH].
      destruct (vw_node W (fp ++ [nm_name mk]) mk) eqn:EW; [|exact IH].
      rewrite (Hn _ _ EW). split; [apply Hk|exact IH].
  - destruct d as [v|dc|rows]; try apply sub_d_refl.
    cbn [project_view]. rewrite sub_d_list, Hr.
    induction (vw_rows V fp rows) as [|r rs IH]; [exact I|]. cbn. split; [apply IHr|exact IH].
Qed.

(** a larger depth keeps every node a smaller depth keeps *)
Lemma view_depth_le n n' : n <= n' -> view_le (view_depth n) (view_depth n').
Proof.
  intros H. repeat split; cbn; intros; try discriminate; auto;
    match goal with E : (_ <=? _) = true |- _ => apply Z.leb_le in E; apply Z.leb_le; lia end.
Qed.
Theorem project_depth_monotone n n' : n <= n' ->
  forall s fp d, sub_d (project_view (view_depth n) fp s d) (project_view (view_depth n') fp s d).
Proof. intros H. apply project_monotone. now apply view_depth_le. Qed.

(** adding a parameter (that selects no rows) only removes nodes *)
Lemma inter_le V W : (forall fp rows, vw_rows W fp rows = rows) -> view_le (inter V W) V.
Proof.
  intros HW. repeat split; cbn; intros.
  - apply andb_true_iff in H as [H _]. exact H.
  - apply andb_true_iff in H as [H _]. exact H.
  - now rewrite HW.
  - rewrite H. reflexivity.
Qed.
Theorem project_inter_monotone V W : (forall fp rows, vw_rows W fp rows = rows) ->
  forall s fp d, sub_d (project_view (inter V W) fp s d) (project_view V fp s d).
Proof. intros H. apply project_monotone. now apply inter_le. Qed.

(** the per-parameter order of parameter records: deeper, fewer exclusions ... is expressed on the
    views; for records that differ in depth only: *)
Theorem params_depth_monotone p n' : p_depth p <= n' ->
  forall s fp d,
    sub_d (project_view (params_view p) fp s d)
          (project_view (params_view (mkParams n' (p_range p) (p_fields p) (p_xfields p) (p_max_node p) (p_content p) (p_trim p))) fp s d).
Proof.
  intros H. apply project_monotone. split; [|split; [|split]]; intros.
  - rewrite vw_leaf_params in *. cbn [p_depth p_fields p_xfields p_content].
    apply andb_true_iff in H0 as [H0 H3]. apply andb_true_iff in H0 as [H0 H2]. apply andb_true_iff in H0 as [H0 H1].
    rewrite H1, H2, H3. apply Z.leb_le in H0. replace (lenZ fp <=? n') with true by (symmetry; apply Z.leb_le; lia).
    reflexivity.
  - rewrite vw_node_params in *. cbn [p_depth p_fields p_xfields p_content].
    apply andb_true_iff in H0 as [H0 H3]. apply andb_true_iff in H0 as [H0 H2]. apply andb_true_iff in H0 as [H0 H1].
    rewrite H1, H2, H3. apply Z.leb_le in H0. replace (lenZ fp <=? n') with true by (symmetry; apply Z.leb_le; lia).
    reflexivity.
  - rewrite !vw_rows_params. reflexivity.
  - rewrite vw_trim_params in *. exact H0.
Qed.

(** projecting by the smaller view after the larger one is projecting by the smaller *)
Theorem project_absorb W V : rows_natural W -> rows_idem W -> view_le W V ->
  forall s fp d, project_view W fp s (project_view V fp s d) = project_view W fp s d.
Proof.
  intros Hnat Hi [Hl [Hn [Hr Ht]]] s fp d. rewrite <- (project_compose W V Hnat).
  apply project_view_ext. repeat split; intros; cbn.
  - destruct (vw_leaf W fp0 m) eqn:E; [now rewrite (Hl _ _ E)|reflexivity].
  - destruct (vw_node W fp0 m) eqn:E; [now rewrite (Hn _ _ E)|reflexivity].
  - rewrite <- Hr. apply Hi.
  - destruct (vw_trim W) eqn:E; [reflexivity|]. cbn. destruct (vw_trim V); [specialize (Ht eq_refl); discriminate|reflexivity].
Qed.

(** * the hypotheses are satisfiable and the statements are not vacuous *)
Definition law_schema : snode :=
  SCont root_meta
    [SCont (mkMeta [x61] [x6d] true [] None)
       [SLeaf (mkMeta [x78] [x6d] true [] None) TStr false None;
        SCont (mkMeta [x62] [x6d] true [] None) [SLeaf (mkMeta [x79] [x6d] true [] None) TStr false None]]].
Definition law_data : dnode :=
  DCont [Some (DCont [Some (DLeaf (LV (VStr [x31]))); Some (DCont [Some (DLeaf (LV (VStr [x32])))])])].

Example project_laws_example :
  (* the views the theorems are instantiated with exist *)
  rows_natural (view_depth 2) /\ rows_idem (view_depth 2) /\ view_le (view_depth 2) (view_depth 3) /\
  range_from_start (mkParams 2 (Some ([[]], 0, 5)) None None 10000 None true) /\
  (* depth 2 removes a/b/y, depth 3 does not; depth 1 leaves an empty a *)
  project_view (view_depth 2) [] law_schema law_data
    = DCont [Some (DCont [Some (DLeaf (LV (VStr [x31]))); Some (DCont [None])])] /\
  project_view (view_depth 3) [] law_schema law_data = law_data /\
  project_view (view_depth 1) [] law_schema law_data = DCont [Some (DCont [None; None])] /\
  sub_d (project_view (view_depth 2) [] law_schema law_data) (project_view (view_depth 3) [] law_schema law_data) /\
  ~ sub_d (project_view (view_depth 3) [] law_schema law_data) (project_view (view_depth 2) [] law_schema law_data).
Proof.
  split; [apply rows_natural_all_rows|]. split; [intros fp rows; reflexivity|].
  split; [apply view_depth_le; lia|]. split; [cbn; lia|].
  split; [vm_compute; reflexivity|]. split; [vm_compute; reflexivity|]. split; [vm_compute; reflexivity|].
  split.
  - apply project_depth_monotone. lia.
  - vm_compute. intros [[_ [[] _]] _].
Qed.
