(** Proofs about XmlEsc.v: the decoder undoes the escaper.

      unescape_escape      : forall t, unescape (escape t) = Some (sanitize t)          (every byte string)
      sanitize_id          : xml_okb t = true -> sanitize t = t
      xml_text_roundtrip   : xml_okb t = true -> unescape (escape t) = Some t
      escape_no_lt         : escaped text never contains '<'
    All by induction over the byte list (strong induction on its length: one step of the rune
    walk consumes one to four bytes). *)
From Coq Require Import NArith List Bool Lia Strings.Byte.
From YV Require Import Tree.XmlEsc.
Import ListNotations.
Open Scope N_scope.

Definition finish (out : text) : option text :=
  let data := rev out in if xml_okb data then Some data else None.

(** bytes the decoder copies in plain-text state whatever came before *)
Definition plain (b : byte) : bool :=
  negb (byte_eqb b x3e) && negb (byte_eqb b x3c) && negb (byte_eqb b x26)
  && negb (byte_eqb b x0d) && negb (byte_eqb b x0a).

Lemma plain_step : forall b, plain b = true -> forall p q r out,
  urun (STxt p q) (b :: r) out = urun (STxt q b) r (b :: out).
Proof.
  intros b H p q r out. unfold plain in H.
  repeat rewrite andb_true_iff in H. destruct H as ((((H1 & H2) & H3) & H4) & H5).
  rewrite negb_true_iff in *. simpl. rewrite H1, H2, H3, H4, H5. reflexivity.
Qed.

Lemma plain_run : forall c, forallb plain c = true -> forall p q r out,
  exists p' q', urun (STxt p q) (c ++ r) out = urun (STxt p' q') r (rev c ++ out).
Proof.
  induction c as [|b c IH]; intros H p q r out.
  - exists p, q. reflexivity.
  - simpl in H. apply andb_true_iff in H. destruct H as (Hb & Hc).
    destruct (IH Hc q b r (b :: out)) as (p' & q' & E).
    exists p', q'. simpl app. rewrite plain_step by exact Hb. rewrite E.
    simpl rev. rewrite <- app_assoc. reflexivity.
Qed.

Lemma byte_eqb_true : forall a b, byte_eqb a b = true -> a = b.
Proof. intros a b H. apply Byte.byte_dec_bl. exact H. Qed.

Lemma high_plain : forall b, 128 <= bN b -> plain b = true.
Proof.
  intros b H. unfold plain.
  assert (A : forall c, bN c < 128 -> byte_eqb b c = false).
  { intros c Hc. destruct (byte_eqb b c) eqn:E; [|reflexivity].
    apply byte_eqb_true in E. subst. lia. }
  rewrite !A; [reflexivity | | | | |]; cbv; reflexivity.
Qed.

Lemma fffd_plain : forallb plain fffd = true.
Proof. reflexivity. Qed.

(** one-byte runes: what the escaper writes decodes to what [sanitize] keeps *)
Lemma esc_ascii_run : forall b, bN b < 128 -> forall p q r out,
  exists p' q', urun (STxt p q) (esc_ascii b ++ r) out = urun (STxt p' q') r (rev (san_ascii b) ++ out).
Proof.
  intros b Hb p q r out.
  destruct b; try (exfalso; cbv in Hb; discriminate Hb); do 2 eexists; reflexivity.
Qed.

Lemma lead_info_spec : forall n sz lo hi, lead_info n = Some (sz, lo, hi) ->
  (sz = 2%nat \/ sz = 3%nat \/ sz = 4%nat) /\ 128 <= lo.
Proof.
  intros n sz lo hi H. unfold lead_info in H.
  repeat match type of H with
  | (if ?c then _ else _) = _ => destruct c
  end; inversion H; subst; split; try lia; auto.
Qed.

Lemma in_rng_high : forall lo hi b, 128 <= lo -> in_rng lo hi b = true -> 128 <= bN b.
Proof.
  intros lo hi b Hlo H. unfold in_rng in H. apply andb_true_iff in H. destruct H as (H & _).
  apply N.leb_le in H. lia.
Qed.
Lemma is_cont_high : forall b, is_cont b = true -> 128 <= bN b.
Proof.
  intros b H. unfold is_cont in H. apply andb_true_iff in H. destruct H as (H & _).
  apply N.leb_le in H. exact H.
Qed.

Lemma emit_plain : forall r bs, forallb plain bs = true -> forallb plain (emit_rune r bs) = true.
Proof. intros r bs H. unfold emit_rune. destruct (in_char_range r); [exact H | reflexivity]. Qed.

Lemma rev_chunk : forall (c s out : text), rev (c ++ s) ++ out = rev s ++ (rev c ++ out).
Proof. intros. rewrite rev_app_distr, <- app_assoc. reflexivity. Qed.

(** one step of the rune walk, with the chunks kept folded *)
Lemma map_runes_cons : forall f1 b0 t0,
  map_runes f1 (b0 :: t0) =
      if bN b0 <? 128 then f1 b0 ++ map_runes f1 t0
      else match lead_info (bN b0) with
      | None => fffd ++ map_runes f1 t0
      | Some (sz, lo, hi) =>
          match t0 with
          | [] => fffd ++ map_runes f1 t0
          | b1 :: t1 =>
              if negb (in_rng lo hi b1) then fffd ++ map_runes f1 t0
              else match sz with
              | 2%nat => emit_rune (rune2 b0 b1) [b0; b1] ++ map_runes f1 t1
              | _ =>
                  match t1 with
                  | [] => fffd ++ map_runes f1 t0
                  | b2 :: t2 =>
                      if negb (is_cont b2) then fffd ++ map_runes f1 t0
                      else match sz with
                      | 3%nat => emit_rune (rune3 b0 b1 b2) [b0; b1; b2] ++ map_runes f1 t2
                      | _ =>
                          match t2 with
                          | [] => fffd ++ map_runes f1 t0
                          | b3 :: t3 =>
                              if negb (is_cont b3) then fffd ++ map_runes f1 t0
                              else emit_rune (rune4 b0 b1 b2 b3) [b0; b1; b2; b3] ++ map_runes f1 t3
                          end
                      end
                  end
              end
          end
      end.
Proof. reflexivity. Qed.

(** the main induction: in plain-text state, whatever the two remembered bytes are *)
Lemma urun_escape : forall n t, (length t <= n)%nat -> forall p q out,
  urun (STxt p q) (map_runes esc_ascii t) out = finish (rev (map_runes san_ascii t) ++ out).
Proof.
  induction n as [|n IH]; intros t Hlen p q out.
  - destruct t; [reflexivity | simpl in Hlen; lia].
  - destruct t as [|b0 t0]; [reflexivity|].
    simpl in Hlen.
    (* a chunk of plain bytes common to both walks, followed by a shorter tail *)
    assert (CH : forall c t', forallb plain c = true -> (length t' <= n)%nat ->
              urun (STxt p q) (c ++ map_runes esc_ascii t') out
              = finish (rev (c ++ map_runes san_ascii t') ++ out)).
    { intros c t' Hc Ht'. destruct (plain_run c Hc p q (map_runes esc_ascii t') out) as (p' & q' & E).
      rewrite E, IH by exact Ht'. rewrite rev_chunk. reflexivity. }
    assert (L0 : (length t0 <= n)%nat) by lia.
    rewrite (map_runes_cons esc_ascii), (map_runes_cons san_ascii).
    destruct (bN b0 <? 128) eqn:E0.
    + apply N.ltb_lt in E0.
      destruct (esc_ascii_run b0 E0 p q (map_runes esc_ascii t0) out) as (p' & q' & E).
      rewrite E, IH by exact L0. rewrite rev_chunk. reflexivity.
    + apply N.ltb_ge in E0.
      destruct (lead_info (bN b0)) as [[[sz lo] hi]|] eqn:EL; [|apply CH; [reflexivity | exact L0]].
      destruct (lead_info_spec _ _ _ _ EL) as (Hsz & Hlo).
      destruct t0 as [|b1 t1]; [apply CH; [reflexivity | exact L0]|].
      destruct (in_rng lo hi b1) eqn:E1; simpl negb; cbv iota; [|apply CH; [reflexivity | exact L0]].
      pose proof (high_plain b0 E0) as P0.
      pose proof (high_plain b1 (in_rng_high _ _ _ Hlo E1)) as P1.
      simpl in L0.
      destruct Hsz as [-> | [-> | ->]].
      * apply CH; [apply emit_plain; simpl; rewrite P0, P1; reflexivity | lia].
      * destruct t1 as [|b2 t2]; [apply CH; [reflexivity | simpl in L0 |- *; lia]|].
        destruct (is_cont b2) eqn:E2; simpl negb; cbv iota; [|apply CH; [reflexivity | simpl in L0 |- *; lia]].
        pose proof (high_plain b2 (is_cont_high _ E2)) as P2. simpl in L0.
        apply CH; [apply emit_plain; simpl; rewrite P0, P1, P2; reflexivity | lia].
      * destruct t1 as [|b2 t2]; [apply CH; [reflexivity | simpl in L0 |- *; lia]|].
        destruct (is_cont b2) eqn:E2; simpl negb; cbv iota; [|apply CH; [reflexivity | simpl in L0 |- *; lia]].
        pose proof (high_plain b2 (is_cont_high _ E2)) as P2. simpl in L0.
        destruct t2 as [|b3 t3]; [apply CH; [reflexivity | simpl in L0 |- *; lia]|].
        destruct (is_cont b3) eqn:E3; simpl negb; cbv iota; [|apply CH; [reflexivity | simpl in L0 |- *; lia]].
        pose proof (high_plain b3 (is_cont_high _ E3)) as P3. simpl in L0.
        apply CH; [apply emit_plain; simpl; rewrite P0, P1, P2, P3; reflexivity | lia].
Qed.

(** ** what [sanitize] returns is always text XML can carry *)
Lemma okb_fffd : forall s, xml_okb (fffd ++ s) = xml_okb s.
Proof. intros. reflexivity. Qed.

Lemma okb_san_ascii : forall b s, bN b < 128 -> xml_okb (san_ascii b ++ s) = xml_okb s.
Proof.
  intros b s Hb. unfold san_ascii. destruct (in_char_range (bN b)) eqn:E.
  - simpl. apply N.ltb_lt in Hb. rewrite Hb, E. reflexivity.
  - apply okb_fffd.
Qed.

Lemma sanitize_okb : forall n t, (length t <= n)%nat -> xml_okb (map_runes san_ascii t) = true.
Proof.
  induction n as [|n IH]; intros t Hlen.
  - destruct t; [reflexivity | simpl in Hlen; lia].
  - destruct t as [|b0 t0]; [reflexivity|].
    simpl in Hlen. assert (L0 : (length t0 <= n)%nat) by lia.
    assert (F : forall t', (length t' <= n)%nat -> xml_okb (fffd ++ map_runes san_ascii t') = true).
    { intros t' H. rewrite okb_fffd. apply IH. exact H. }
    rewrite map_runes_cons.
    destruct (bN b0 <? 128) eqn:E0.
    + apply N.ltb_lt in E0. rewrite okb_san_ascii by exact E0. apply IH. exact L0.
    + destruct (lead_info (bN b0)) as [[[sz lo] hi]|] eqn:EL; [|apply F; exact L0].
      destruct (lead_info_spec _ _ _ _ EL) as (Hsz & Hlo).
      destruct t0 as [|b1 t1]; [apply F; exact L0|].
      destruct (in_rng lo hi b1) eqn:E1; simpl negb; cbv iota; [|apply F; exact L0].
      simpl in L0.
      destruct Hsz as [-> | [-> | ->]].
      * unfold emit_rune. destruct (in_char_range (rune2 b0 b1)) eqn:ER; [|apply F; lia].
        simpl. rewrite E0, EL, E1, ER. simpl. apply IH. lia.
      * destruct t1 as [|b2 t2]; [apply F; simpl in L0 |- *; lia|].
        destruct (is_cont b2) eqn:E2; simpl negb; cbv iota; [|apply F; simpl in L0 |- *; lia].
        simpl in L0.
        unfold emit_rune. destruct (in_char_range (rune3 b0 b1 b2)) eqn:ER; [|apply F; lia].
        simpl. rewrite E0, EL, E1, E2, ER. simpl. apply IH. lia.
      * destruct t1 as [|b2 t2]; [apply F; simpl in L0 |- *; lia|].
        destruct (is_cont b2) eqn:E2; simpl negb; cbv iota; [|apply F; simpl in L0 |- *; lia].
        simpl in L0.
        destruct t2 as [|b3 t3]; [apply F; simpl in L0 |- *; lia|].
        destruct (is_cont b3) eqn:E3; simpl negb; cbv iota; [|apply F; simpl in L0 |- *; lia].
        simpl in L0.
        unfold emit_rune. destruct (in_char_range (rune4 b0 b1 b2 b3)) eqn:ER; [|apply F; lia].
        simpl. rewrite E0, EL, E1, E2, E3, ER. simpl. apply IH. lia.
Qed.

Theorem unescape_escape : forall t, unescape (escape t) = Some (sanitize t).
Proof.
  intros t. unfold unescape, escape, sanitize.
  rewrite (urun_escape (length t) t (le_n _)). unfold finish.
  rewrite app_nil_r, rev_involutive.
  rewrite (sanitize_okb (length t) t (le_n _)). reflexivity.
Qed.

(** ** text XML can carry is left alone *)
Opaque in_rng is_cont in_char_range rune2 rune3 rune4.
Lemma sanitize_id_n : forall n t, (length t <= n)%nat -> xml_okb t = true -> map_runes san_ascii t = t.
Proof.
  induction n as [|n IH]; intros t Hlen Hok.
  - destruct t; [reflexivity | simpl in Hlen; lia].
  - destruct t as [|b0 t0]; [reflexivity|].
    simpl in Hlen. simpl in Hok. rewrite map_runes_cons.
    destruct (bN b0 <? 128) eqn:E0.
    + apply andb_true_iff in Hok. destruct Hok as (Hr & Hok).
      unfold san_ascii. rewrite Hr. simpl. f_equal. apply IH; [lia | exact Hok].
    + destruct (lead_info (bN b0)) as [[[sz lo] hi]|] eqn:EL; [|discriminate Hok].
      destruct (lead_info_spec _ _ _ _ EL) as (Hsz & _).
      destruct Hsz as [-> | [-> | ->]].
      * destruct t0 as [|b1 t1]; [discriminate Hok|].
        repeat (apply andb_true_iff in Hok; destruct Hok as (Hok & ?)).
        rewrite Hok. simpl. unfold emit_rune. rewrite H0. simpl. do 2 f_equal.
        apply IH; [simpl in Hlen; lia | assumption].
      * destruct t0 as [|b1 [|b2 t2]]; try discriminate Hok.
        repeat (apply andb_true_iff in Hok; destruct Hok as (Hok & ?)).
        rewrite Hok. simpl. rewrite H1. simpl. unfold emit_rune. rewrite H0. simpl. do 3 f_equal.
        apply IH; [simpl in Hlen; lia | assumption].
      * destruct t0 as [|b1 [|b2 [|b3 t3]]]; try discriminate Hok.
        repeat (apply andb_true_iff in Hok; destruct Hok as (Hok & ?)).
        rewrite Hok. simpl. rewrite H2. simpl. rewrite H1. simpl. unfold emit_rune. rewrite H0. simpl.
        do 4 f_equal. apply IH; [simpl in Hlen; lia | assumption].
Qed.

Transparent in_rng is_cont in_char_range rune2 rune3 rune4.

Theorem sanitize_id : forall t, xml_okb t = true -> sanitize t = t.
Proof. intros t H. exact (sanitize_id_n (length t) t (le_n _) H). Qed.

Theorem xml_text_roundtrip : forall t, xml_okb t = true -> unescape (escape t) = Some t.
Proof. intros t H. rewrite unescape_escape, sanitize_id by exact H. reflexivity. Qed.

Theorem sanitize_ok : forall t, xml_okb (sanitize t) = true.
Proof. intros t. exact (sanitize_okb (length t) t (le_n _)). Qed.

Theorem sanitize_idem : forall t, sanitize (sanitize t) = sanitize t.
Proof. intros t. apply sanitize_id. apply sanitize_ok. Qed.

(** ** escaped text carries no markup: no '<' and no '&' that does not start a reference the
    decoder accepts (the second half is [unescape_escape]: decoding never fails) *)
Definition no_lt (s : text) : bool := negb (existsb (fun b => byte_eqb b x3c) s).

Lemma no_lt_app : forall a b, no_lt (a ++ b) = no_lt a && no_lt b.
Proof. intros. unfold no_lt. rewrite existsb_app, negb_orb. reflexivity. Qed.

Lemma plain_no_lt : forall c, forallb plain c = true -> no_lt c = true.
Proof.
  induction c as [|b c IH]; intros H; [reflexivity|].
  simpl in H. apply andb_true_iff in H. destruct H as (Hb & Hc).
  unfold no_lt in *. simpl. rewrite negb_orb, (IH Hc), andb_true_r.
  unfold plain in Hb. repeat (apply andb_true_iff in Hb; destruct Hb as (Hb & ?)). assumption.
Qed.

Lemma esc_ascii_no_lt : forall b, no_lt (esc_ascii b) = true.
Proof. intros b. destruct b; reflexivity. Qed.

Lemma escape_no_lt_n : forall n t, (length t <= n)%nat -> no_lt (map_runes esc_ascii t) = true.
Proof.
  induction n as [|n IH]; intros t Hlen.
  - destruct t; [reflexivity | simpl in Hlen; lia].
  - destruct t as [|b0 t0]; [reflexivity|].
    simpl in Hlen. assert (L0 : (length t0 <= n)%nat) by lia.
    assert (CH : forall c t', forallb plain c = true -> (length t' <= n)%nat ->
              no_lt (c ++ map_runes esc_ascii t') = true).
    { intros c t' Hc Ht'. rewrite no_lt_app, (plain_no_lt c Hc), (IH t' Ht'). reflexivity. }
    rewrite map_runes_cons.
    destruct (bN b0 <? 128) eqn:E0.
    + rewrite no_lt_app, esc_ascii_no_lt, (IH t0 L0). reflexivity.
    + apply N.ltb_ge in E0.
      destruct (lead_info (bN b0)) as [[[sz lo] hi]|] eqn:EL; [|apply CH; [reflexivity | exact L0]].
      destruct (lead_info_spec _ _ _ _ EL) as (Hsz & Hlo).
      destruct t0 as [|b1 t1]; [apply CH; [reflexivity | exact L0]|].
      destruct (in_rng lo hi b1) eqn:E1; simpl negb; cbv iota; [|apply CH; [reflexivity | exact L0]].
      pose proof (high_plain b0 E0) as P0.
      pose proof (high_plain b1 (in_rng_high _ _ _ Hlo E1)) as P1.
      simpl in L0.
      destruct Hsz as [-> | [-> | ->]].
      * apply CH; [apply emit_plain; simpl; rewrite P0, P1; reflexivity | lia].
      * destruct t1 as [|b2 t2]; [apply CH; [reflexivity | simpl in L0 |- *; lia]|].
        destruct (is_cont b2) eqn:E2; simpl negb; cbv iota; [|apply CH; [reflexivity | simpl in L0 |- *; lia]].
        pose proof (high_plain b2 (is_cont_high _ E2)) as P2. simpl in L0.
        apply CH; [apply emit_plain; simpl; rewrite P0, P1, P2; reflexivity | lia].
      * destruct t1 as [|b2 t2]; [apply CH; [reflexivity | simpl in L0 |- *; lia]|].
        destruct (is_cont b2) eqn:E2; simpl negb; cbv iota; [|apply CH; [reflexivity | simpl in L0 |- *; lia]].
        pose proof (high_plain b2 (is_cont_high _ E2)) as P2. simpl in L0.
        destruct t2 as [|b3 t3]; [apply CH; [reflexivity | simpl in L0 |- *; lia]|].
        destruct (is_cont b3) eqn:E3; simpl negb; cbv iota; [|apply CH; [reflexivity | simpl in L0 |- *; lia]].
        pose proof (high_plain b3 (is_cont_high _ E3)) as P3. simpl in L0.
        apply CH; [apply emit_plain; simpl; rewrite P0, P1, P2, P3; reflexivity | lia].
Qed.

Theorem escape_no_lt : forall t, no_lt (escape t) = true.
Proof. intros t. exact (escape_no_lt_n (length t) t (le_n _)). Qed.
