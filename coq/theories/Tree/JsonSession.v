(** A JSONWtr value used for MORE THAN ONE export (nodeutil/json_wtr.go: the struct has a public
    [Out] field, public configuration fields, the entry points Node() and JSON(sel), and the private
    field [_out *bufio.Writer]).

    Tree/JsonW.v models ONE export of a fresh writer.  Here the writer is an object with state that
    lives through a history of operations:
      [SOut k]     wtr.Out = stream k
      [SCfg c]     wtr.Pretty / EnumAsIds / QualifyNamespace = c
      [SExport i]  sel_i.InsertInto(wtr.Node())  (or UpsertInto: the same callbacks)
      [SJSON i]    wtr.JSON(sel_i)               (value receiver: works on a copy of the struct)
    and the streams are objects too: each holds the bytes it has received and accepts [sk_cap]
    bytes in total before every further Write fails (None = never fails).

    Mirrored from the code:
      Node():   wtr._out = bufio.NewWriter(wtr.Out)     - [jw_node]: a NEW buffer bound to the
                current Out (a bufio.Writer stays bound to the stream it was created for and keeps
                its first error: [bw_target], [bw_err]);
      every callback writes through wtr._out ([bw_write], 4096-byte buffer as in JsonW.v), the
      outermost OnEndEdit flushes and returns the flush error ([bw_flush]);
      JSON(sel): the receiver is a COPY of the struct (same _out pointer, which Node() on the copy
                replaces), its Out is a new bytes.Buffer; the text is what that buffer received.
    [jw_node_keep] is the variant "keep the bufio.Writer once there is one" (what an allocation
    optimisation would do); it is here only to show that the theorems of JsonSessionProofs.v
    distinguish the two ([keep_buffer_refuted]).

    Not modelled: two Node() results of one writer used interleaved (the closures read wtr._out
    when they are called), concurrent use. *)
From Coq Require Import ZArith List Bool Arith Strings.Byte.
From YV Require Import Val.Model Tree.Schema Tree.Editor Tree.Export Tree.JStr Tree.JsonSpec Tree.JsonExp Tree.JsonW.
Import ListNotations.
Open Scope nat_scope.

(** * streams *)
Record sink := mkSink { sk_data : list byte; sk_cap : option nat }.

(** one io.Writer.Write(chunk): the stream after it, and whether the call failed.  A stream that
    accepts [n] bytes in total takes what still fits and then reports an error. *)
Definition sink_write1 (s : sink) (chunk : list byte) : sink * bool :=
  match sk_cap s with
  | None => (mkSink (sk_data s ++ chunk) None, false)
  | Some n =>
      let room := n - length (sk_data s) in
      if Nat.leb (length chunk) room then (mkSink (sk_data s ++ chunk) (Some n), false)
      else (mkSink (sk_data s ++ firstn room chunk) (Some n), true)
  end.

(** * bufio.Writer: bound to one stream, sticky first error *)
Record bufw := mkBW { bw_target : nat; bw_pend : list byte; bw_err : bool }.
Definition new_bufw (k : nat) : bufw := mkBW k [] false.

Definition streams := list sink.

(** hand [chunk] to the stream the buffer is bound to *)
Definition to_sink (ss : streams) (b : bufw) (chunk : list byte) : streams * bufw :=
  match nth_error ss (bw_target b) with
  | None => (ss, mkBW (bw_target b) [] true)
  | Some s => let (s', failed) := sink_write1 s chunk in
              (set_nth (bw_target b) s' ss, mkBW (bw_target b) [] failed)
  end.

(** Write / WriteString / WriteRune: nothing happens once an error is recorded; pending bytes are
    handed on when the buffer is full (granularity as in JsonW.buf_write) *)
Definition bw_write (ss : streams) (b : bufw) (p : list byte) : streams * bufw :=
  if bw_err b then (ss, b) else
  let pend := bw_pend b ++ p in
  if Nat.ltb bufsize (length pend) then to_sink ss b pend
  else (ss, mkBW (bw_target b) pend false).
Definition bw_flush (ss : streams) (b : bufw) : streams * bufw :=
  if bw_err b then (ss, b) else to_sink ss b (bw_pend b).

(** the write operations of one export (JsonW.ops_of): a checked failing write unwinds the editor *)
Fixpoint run_wops (ss : streams) (b : bufw) (ops : list wop) : streams * bufw :=
  match ops with
  | [] => (ss, b)
  | (p, checked) :: tl =>
      let (ss', b') := bw_write ss b p in
      if checked && bw_err b' then (ss', b') else run_wops ss' b' tl
  end.

(** * the writer object *)
Record jwtr := mkJW { jw_out : nat; jw_cfg : wcfg; jw_buf : option bufw }.

(** JSONWtr.Node() *)
Definition jw_node (w : jwtr) : jwtr := mkJW (jw_out w) (jw_cfg w) (Some (new_bufw (jw_out w))).
(** the variant that allocates the buffer only once *)
Definition jw_node_keep (w : jwtr) : jwtr := match jw_buf w with Some _ => w | None => jw_node w end.

Inductive sop :=
| SOut (k : nat)
| SCfg (c : wcfg)
| SExport (i : nat)
| SJSON (i : nat).

Inductive sres :=
| RSet                                   (* an assignment: nothing to observe *)
| RExp (err : bool)                      (* InsertInto/UpsertInto returned an error? *)
| RJson (err : bool) (text : list byte). (* JSON(sel): error?, the returned string *)

Section Session.
  Variable node : jwtr -> jwtr.              (* Node(): [jw_node] *)
  Variable fmt_float : Z -> Z -> list byte.  (* oracles of JsonW.v *)
  Variable idmod : ident -> option ident.
  Variable starts : list start.              (* the selections the history exports *)

  (** sel.InsertInto(wtr.Node()): None = the data has no JSON form (JsonW.wstart = None: the writer
      reports an error in the middle of the document; the session model stops there) *)
  Definition jw_export (ss : streams) (w : jwtr) (i : nat) : option (streams * jwtr * bool) :=
    let w1 := node w in
    match jw_buf w1, nth_error starts i with
    | Some b, Some st =>
        match wstart (jw_cfg w1) fmt_float idmod st with
        | Some ts =>
            let (ss1, b1) := run_wops ss b (ops_of ts) in
            let (ss2, b2) := bw_flush ss1 b1 in
            Some (ss2, mkJW (jw_out w1) (jw_cfg w1) (Some b2), bw_err b2)
        | None => None
        end
    | _, _ => None
    end.

  (** wtr.JSON(sel): buff := new(bytes.Buffer); wtr.Out = buff (on the copy); InsertInto(wtr.Node());
      return buff.String(), err.  The caller's streams and the caller's struct are untouched (a
      buffer shared through the copied pointer could be: not with [jw_node]). *)
  Definition jw_json (ss : streams) (w : jwtr) (i : nat) : option (streams * bool * list byte) :=
    let k := length ss in
    match jw_export (ss ++ [mkSink [] None]) (mkJW k (jw_cfg w) (jw_buf w)) i with
    | Some (ss', _, e) => Some (firstn k ss', e, sk_data (nth k ss' (mkSink [] None)))
    | None => None
    end.

  Fixpoint run_session (ss : streams) (w : jwtr) (ops : list sop) : option (streams * list sres) :=
    match ops with
    | [] => Some (ss, [])
    | op :: tl =>
        let continue (ss' : streams) (w' : jwtr) (r : sres) :=
          match run_session ss' w' tl with
          | Some (ssf, rs) => Some (ssf, r :: rs)
          | None => None
          end in
        match op with
        | SOut k => continue ss (mkJW k (jw_cfg w) (jw_buf w)) RSet
        | SCfg c => continue ss (mkJW (jw_out w) c (jw_buf w)) RSet
        | SExport i =>
            match jw_export ss w i with
            | Some (ss', w', e) => continue ss' w' (RExp e)
            | None => None
            end
        | SJSON i =>
            match jw_json ss w i with
            | Some (ss', e, text) => continue ss' w (RJson e text)
            | None => None
            end
        end
    end.

  (** * what a history must do, said without the writer object
      Every export is the document of a FRESH writer with the configuration of that moment
      ([write_bytes]), offered as a whole to the stream that is Out at that moment; JSON(sel)
      returns that document and touches no stream. *)
  Definition doc_of (cfg : wcfg) (i : nat) : option (list byte) :=
    match nth_error starts i with
    | Some st => write_bytes cfg fmt_float idmod st
    | None => None
    end.

  Fixpoint spec_session (ss : streams) (out : nat) (cfg : wcfg) (ops : list sop) : option (streams * list sres) :=
    match ops with
    | [] => Some (ss, [])
    | op :: tl =>
        let continue (ss' : streams) (out' : nat) (cfg' : wcfg) (r : sres) :=
          match spec_session ss' out' cfg' tl with
          | Some (ssf, rs) => Some (ssf, r :: rs)
          | None => None
          end in
        match op with
        | SOut k => continue ss k cfg RSet
        | SCfg c => continue ss out c RSet
        | SExport i =>
            match doc_of cfg i, nth_error ss out with
            | Some d, Some s => let (s', failed) := sink_write1 s d in continue (set_nth out s' ss) out cfg (RExp failed)
            | Some d, None => continue ss out cfg (RExp true)
            | None, _ => None
            end
        | SJSON i =>
            match doc_of cfg i with
            | Some d => continue ss out cfg (RJson false d)
            | None => None
            end
        end
    end.

  (** the documents a history directs at stream [k], in order *)
  Fixpoint directed (k : nat) (out : nat) (cfg : wcfg) (ops : list sop) : list (list byte) :=
    match ops with
    | [] => []
    | SOut k' :: tl => directed k k' cfg tl
    | SCfg c :: tl => directed k out c tl
    | SExport i :: tl =>
        match doc_of cfg i with
        | Some d => if Nat.eqb out k then d :: directed k out cfg tl else directed k out cfg tl
        | None => []
        end
    | SJSON _ :: tl => directed k out cfg tl
    end.
End Session.

(** what a stream holds after being offered documents [ds] one after the other: all of them, or as
    much of their concatenation as it accepts *)
Definition filled (s : sink) (ds : list (list byte)) : sink := fst (sink_write1 s (concat ds)).
