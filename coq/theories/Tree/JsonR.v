(** Executable model of nodeutil/json_rdr.go (JsonContainerReader / JsonListReader) and of the part
    of node/value.go (node.NewValue) + val/conv.go that turns a decoded JSON scalar into a typed
    value, AFTER the fixes "64-bit integers stay exact", "case found through a nested choice",
    "leaf-list of identityref / bits from a JSON array".

    encoding/json's decoding is an oracle: the harness decodes the text the way the reader does and
    passes the value tree [rjv]; a number carries the integer its literal spells (when it is an
    integer literal within [-2^63, 2^64): what the repaired reader hands on exactly, as float64
    when that is exact, else as int64/uint64) and the binary64 m*2^e the literal rounds to.

    [jsrc]: the data tree the reader node presents for a schema node (member lookup by plain, then
    module-qualified name; node.NewValue per leaf type).  Importing = Editor.v's [edit_one] from
    that tree into an empty reference store ([jimport]); the reader's OnChoose (first case, in the
    order of case names, one of whose definitions - through nested choices - is in the document)
    is Schema.choose on that tree.
    Outcomes: a Go error, or [RBad] = outside the modelled domain (JSON shapes the writer never
    produces for that type: the correspondence check does not generate them; theorems exclude it). *)
From Coq Require Import ZArith List Bool Strings.Byte.
From YV Require Import Val.Model Tree.Schema Tree.Editor Tree.JStr Tree.JsonSpec Tree.JsonExp.
Import ListNotations.
Open Scope Z_scope.

Inductive rjv :=
| RNull
| RBool (b : bool)
| RNum (zi : option Z) (m e : Z)
| RStr (s : list byte)
| RArr (items : list rjv)
| RObj (members : list (list byte * rjv)).

Inductive rres (A : Type) := ROk (a : A) | RErr | RBad.
Arguments ROk {A} a.
Arguments RErr {A}.
Arguments RBad {A}.

Definition rbind {A B} (x : rres A) (f : A -> rres B) : rres B :=
  match x with ROk a => f a | RErr => RErr | RBad => RBad end.

(** fqkGet: container[ident], else container["module:ident"] *)
Definition rfind (k : list byte) (ms : list (list byte * rjv)) : option rjv :=
  match find (fun kv => bytes_eqb (fst kv) k) ms with Some kv => Some (snd kv) | None => None end.
Definition rlookup (m : nmeta) (ms : list (list byte * rjv)) : option rjv :=
  match rfind (nm_name m) ms with
  | Some v => Some v
  | None => rfind (nm_mod m ++ x3a :: nm_name m) ms
  end.

(** strconv.ParseInt(s, 10, _) before the range check: optional sign, one or more digits *)
Definition atoi (s : list byte) : option Z :=
  let (neg, ds) := match s with
                   | b :: t => if bz b =? 45 then (true, t) else if bz b =? 43 then (false, t) else (false, s)
                   | [] => (false, s)
                   end in
  match ds with
  | [] => None
  | _ => if forallb is_digit ds then Some (if neg then - digits_z ds else digits_z ds) else None
  end.

(** strings.Split(x, " ") *)
Fixpoint split_sp (s : list byte) (cur : list byte) : list (list byte) :=
  match s with
  | [] => [rev cur]
  | b :: t => if bz b =? 32 then rev cur :: split_sp t [] else split_sp t (b :: cur)
  end.

(** colon := strings.IndexRune(x, ':'); if colon > 0 { x = x[colon+1:] } *)
Fixpoint split_colon (s : list byte) : option (list byte) :=
  match s with
  | [] => None
  | b :: t => if bz b =? 58 then Some t else split_colon t
  end.
Definition strip_prefix (s : list byte) : list byte :=
  match s with
  | [] => s
  | b :: t => if bz b =? 58 then s else match split_colon t with Some r => r | None => s end
  end.

Definition enum_by_id (labels : list (ident * Z)) (id : Z) : option lval :=
  match find (fun p => snd p =? id) labels with Some (l, i) => Some (LV (VEnum i l)) | None => None end.
Definition enum_by_label (labels : list (ident * Z)) (l : ident) : option lval :=
  match find (fun p => ident_eqb (fst p) l) labels with Some (l', i) => Some (LV (VEnum i l')) | None => None end.

Definition of_opt {A} (o : option A) : rres A := match o with Some a => ROk a | None => RErr end.

(** an integer member of a union: val.Conv to an integer format accepts numbers and numeric strings;
    a string that does not parse (or is out of range) is an error, so the next member is tried *)
Definition conv_int (f : fmt) (v : rjv) : rres lval :=
  match v with
  | RNum (Some z) _ _ => if in_rangeb f z then ROk (LV (VInt f z)) else RBad
  | RStr s => match atoi s with
              | Some z => if in_rangeb f z then ROk (LV (VInt f z)) else RErr
              | None => RErr
              end
  | _ => RBad
  end.

(** node.NewValue on one decoded scalar, by the leaf's (single) type *)
Fixpoint rscalar (ty : ltype) (v : rjv) {struct ty} : rres lval :=
  match ty with
  | TInt f =>
      match v with
      | RNum (Some z) _ _ => if in_rangeb f z then ROk (LV (VInt f z)) else RBad   (* conv.go range handling: C10 *)
      | _ => RBad
      end
  | TDec _ =>
      match v with
      | RNum _ m e => ROk (LV (VDec m e))          (* toDecimal64: float64, or float64(int64) = the same rounding *)
      | _ => RBad
      end
  | TStr => match v with RStr s => ROk (LV (VStr s)) | _ => RBad end
  | TBool => match v with RBool b => ROk (LV (VBool b)) | _ => RBad end
  | TBin => match v with RStr s => ROk (LV (VBin s)) | _ => RBad end
  | TEmpty => ROk LEmpty                               (* anything but null *)
  | TEnum labels =>
      (* toEnum: a number, or a string that parses as one, selects by id; else by label *)
      match v with
      | RNum (Some z) _ _ => of_opt (enum_by_id labels z)
      | RStr s =>
          match atoi s with
          | Some z => if (- 2147483648 <=? z) && (z <? 4294967296) then of_opt (enum_by_id labels z)
                      else of_opt (enum_by_label labels s)
          | None => of_opt (enum_by_label labels s)
          end
      | _ => RBad
      end
  | TBits defs =>
      match v with
      | RStr s =>
          ROk (LBits (flat_map (fun piece => map fst (filter (fun d => ident_eqb piece (fst d)) defs)) (split_sp s [])))
      | _ => RBad
      end
  | TIdRef accepted =>
      match v with
      | RStr s =>
          let x := strip_prefix s in
          match find (ident_eqb x) accepted with Some l => ROk (LV (VIdRef l)) | None => RErr end
      | _ => RBad
      end
  | TUnion members =>
      (* val.ConvOneOf over the member FORMATS: first val.Conv that succeeds; numbers and strings only *)
      (fix first (ms : list ltype) : rres lval :=
         match ms with
         | [] => RErr
         | TInt f :: ms' =>
             match conv_int f v with
             | ROk x => ROk x
             | RErr => first ms'
             | RBad => RBad
             end
         | TStr :: _ => match v with RStr s => ROk (LV (VStr s)) | _ => RBad end
         | _ :: _ => RBad
         end) members
  | TLeafRef t => rscalar t v
  end.

Fixpoint rscalars (ty : ltype) (items : list rjv) : rres (list lval) :=
  match items with
  | [] => ROk []
  | v :: tl => rbind (match v with RNull => RBad | _ => rscalar ty v end)
                     (fun x => rbind (rscalars ty tl) (fun xs => ROk (x :: xs)))
  end.

(** node.NewValue for a leaf ([is_list] = false) or leaf-list: None = nil (JSON null: no value) *)
Definition rvalue (ty : ltype) (is_list : bool) (v : rjv) : rres (option lval) :=
  match v with
  | RNull => ROk None
  | _ =>
      if is_list then
        match ty, v with
        | TEmpty, _ => ROk (Some LEmpty)                          (* FmtEmptyList: NotEmpty *)
        | TUnion members, RArr items =>
            (* toUnionList: an empty array is nil; otherwise the first member whose list conversion takes every item *)
            match items with
            | [] => ROk None
            | _ =>
                (fix first (ms : list ltype) : rres (option lval) :=
                   match ms with
                   | [] => RErr
                   | TInt f :: ms' =>
                       match (fix all (l : list rjv) : rres (list lval) :=
                                match l with
                                | [] => ROk []
                                | x :: tl => rbind (conv_int f x) (fun y => rbind (all tl) (fun ys => ROk (y :: ys)))
                                end) items with
                       | ROk xs => ROk (Some (LList xs))
                       | RErr => first ms'
                       | RBad => RBad
                       end
                   | TStr :: _ =>
                       match (fix all (l : list rjv) : rres (list lval) :=
                                match l with
                                | [] => ROk []
                                | RStr x :: tl => rbind (all tl) (fun ys => ROk (LV (VStr x) :: ys))
                                | _ :: _ => RBad
                                end) items with
                       | ROk xs => ROk (Some (LList xs))
                       | r => match r with ROk _ => RBad | RErr => RErr | RBad => RBad end
                       end
                   | _ :: _ => RBad
                   end) members
            end
        | TUnion _, _ => RBad
        | TBin, RArr items => rbind (rscalars TStr items) (fun xs => ROk (Some (LList xs)))
                                                                  (* FmtBinaryList: toStringList, a val.StringList *)
        | _, RArr items => rbind (rscalars ty items) (fun xs => ROk (Some (LList xs)))
        | _, _ => RBad
        end
      else rbind (rscalar ty v) (fun x => ROk (Some x))
  end.

(** the data tree the reader presents *)
Definition rkids (rkid : snode -> rjv -> rres (option dnode)) (ms : list (list byte * rjv))
  : list snode -> rres content :=
  fix go ks :=
    match ks with
    | [] => ROk []
    | k :: ks' =>
        rbind (match rlookup (smeta k) ms with
               | None => ROk None
               | Some v => rkid k v
               end)
              (fun d => rbind (go ks') (fun c => ROk (d :: c)))
    end.

Definition rrows (rrow : rjv -> rres dnode) : list rjv -> rres (list dnode) :=
  fix go rs :=
    match rs with
    | [] => ROk []
    | r :: rs' => rbind (rrow r) (fun d => rbind (go rs') (fun ds => ROk (d :: ds)))
    end.

Fixpoint jsrc (s : snode) (v : rjv) {struct s} : rres dnode :=
  match s, v with
  | SCont _ kids, RObj ms =>
      rbind (rkids (fun k jv =>
                      match k with
                      | SLeaf _ ty il _ => rbind (rvalue ty il jv) (fun o => ROk (option_map DLeaf o))
                      | _ => rbind (jsrc k jv) (fun d => ROk (Some d))
                      end) ms kids)
            (fun c => ROk (DCont c))
  | SList _ _ row, RArr rows => rbind (rrows (fun r => jsrc row r) rows) (fun ds => ROk (DList ds))
  | _, _ => RBad      (* value.(map[string]interface{}) / value.([]interface{}): a failed type assertion (C13) *)
  end.

(** Selection.UpsertFrom(ReadJSON(text)) on the root of a fresh reference store *)
Definition jimport (s : snode) (v : rjv) : rres (res dnode) :=
  rbind (jsrc s v) (fun src => ROk (edit_one false s src (empty_node s) false Upsert)).
