(** C07, parameters given in several steps / a list as the target: the reader over a constraint
    table built step by step (Chain.v) delivers exactly the projection by the INTERSECTION of the
    steps' views (ProjectChain.v) of the full read - for every schema whose list rows are
    containers, every tree shaped like it, every sequence of parsed parameter records (depth >= 1,
    bound >= 0, start row >= 0: all BuildConstraints produces) in which at most one step carries
    fc.range.  Two windows in separate steps: see [chain_two_windows_refuted]. *)
From Coq Require Import Strings.String.
From Coq Require Import ZArith List Bool Lia Strings.Byte.
From YV Require Import Val.Model Val.Proofs Tree.Schema Tree.Merge Tree.PathExpr Tree.PathExprProofs
  Tree.Params Tree.Project Tree.ParamsProofs Tree.Reading Tree.ReadingProofs Tree.Chain Tree.ProjectChain.
Import ListNotations.
Open Scope Z_scope.

(** * the generic correspondence over abstract hooks (ParamsProofs.Generic with the hooks of
      [Chain.read_one_h]) *)
Definition win_rows (w : lwin) (rows : list dnode) : list dnode :=
  match w with
  | WAll => rows
  | WEmpty => []
  | WFrom st [] => skipz rows st
  | WFrom st (en :: _) => takez (skipz rows st) (en - st)
  end.
(** the windows the theorem covers: at most one end row, and then a non-empty window *)
Definition win_ok (w : lwin) : Prop :=
  match w with
  | WFrom st [] => True
  | WFrom st [en] => st < en
  | WFrom _ _ => False
  | _ => True
  end.

Section GenericH.
  Variable h_pre_cont h_pre_field : list ident -> nmeta -> option bool.
  Variable h_post : option lval -> option dnode -> option dnode.
  Variable h_over : Z -> bool.
  Variable h_window : list ident -> option lwin.
  Variable V : view.

  Hypothesis H_cont : forall rp m, h_pre_cont rp m = Some (vw_node V (rev rp ++ [nm_name m]) m).
  Hypothesis H_field : forall rp m, h_pre_field rp m = Some (vw_leaf V (rev rp ++ [nm_name m]) m).
  Hypothesis H_post : forall dflt v,
      h_post dflt v =
      match v with
      | Some x => if vw_trim V && is_default dflt x then None else v
      | None => None
      end.
  Hypothesis H_over_mono : forall a b, a <= b -> h_over a = true -> h_over b = true.
  Hypothesis H_window : forall rp,
      exists w, h_window rp = Some w /\ win_ok w /\
                forall rows : list dnode, vw_rows V (rev rp) rows = win_rows w rows.
  Hypothesis H_rows_natural : forall (f : dnode -> dnode) fp l, vw_rows V fp (map f l) = map f (vw_rows V fp l).

  Notation rd := (read_one_h h_pre_cont h_pre_field h_post h_over h_window).

  Definition outcome_h {A} (cnt w : Z) (a : A) : pres (Z * A) :=
    if h_over (cnt + w) then PErr PConflict else POk (cnt + w, a).

  Lemma kids_loop_spec_h step g : forall ks dc cnt,
    length ks = length dc -> h_over cnt = false ->
    (forall k dk, In (k, dk) (combine ks dc) -> forall c, h_over c = false ->
                  step k dk c = outcome_h c (weight (g k dk)) (g k dk)) ->
    kids_loop step ks dc cnt = outcome_h cnt (sum_weights (map_kids g ks dc)) (map_kids g ks dc).
  Proof.
    induction ks as [|k ks IH]; intros [|d dc] cnt Hlen Hov Hstep; try discriminate.
    - simpl. unfold outcome_h. simpl. now rewrite Z.add_0_r, Hov.
    - simpl in Hlen. simpl kids_loop. rewrite (Hstep k d) by (try left; auto).
      unfold outcome_h at 1. pose proof (weight_nonneg (g k d)) as Hw.
      pose proof (sum_weights_nonneg (map_kids g ks dc)) as Hs.
      simpl map_kids. unfold sum_weights; simpl fold_right. fold (sum_weights (map_kids g ks dc)).
      destruct (h_over (cnt + weight (g k d))) eqn:E.
      + simpl. unfold outcome_h. rewrite (H_over_mono (cnt + weight (g k d))) by (auto; lia). reflexivity.
      + simpl bind. rewrite IH; auto.
        * unfold outcome_h. rewrite Z.add_assoc.
          destruct (h_over (cnt + weight (g k d) + sum_weights (map_kids g ks dc))); reflexivity.
        * intros; apply Hstep; auto. now right.
  Qed.

  Lemma rows_all_spec_h step g : forall rs cnt,
    h_over cnt = false ->
    (forall r, In r rs -> forall c, h_over c = false -> step r c = outcome_h c (count_d (g r)) (g r)) ->
    rows_all step rs cnt = outcome_h cnt (sum_counts (map g rs)) (map g rs).
  Proof.
    induction rs as [|r rs IH]; intros cnt Hov Hstep.
    - simpl. unfold outcome_h. simpl. now rewrite Z.add_0_r, Hov.
    - simpl rows_all. rewrite (Hstep r) by (try left; auto).
      unfold outcome_h at 1. pose proof (count_d_nonneg (g r)) as Hw.
      pose proof (sum_counts_nonneg (map g rs)) as Hs.
      simpl map. unfold sum_counts; simpl fold_right. fold (sum_counts (map g rs)).
      destruct (h_over (cnt + count_d (g r))) eqn:E.
      + simpl. unfold outcome_h. rewrite (H_over_mono (cnt + count_d (g r))) by (auto; lia). reflexivity.
      + simpl bind. rewrite IH; auto.
        * unfold outcome_h. rewrite Z.add_assoc.
          destruct (h_over (cnt + count_d (g r) + sum_counts (map g rs))); reflexivity.
        * intros; apply Hstep; auto. now right.
  Qed.

  Theorem read_one_h_spec : forall s d rp new cnt,
    nonleaf s -> wf_schema s = true -> shaped s d = true -> h_over cnt = false ->
    rd s d rp new cnt
    = let t := project_view V (rev rp) s (fill new s d) in outcome_h cnt (count_d t) t.
  Proof.
    induction s as [m ty il dflt|m kids IHk|m keys row IHr] using snode_ind';
      intros d rp new cnt Hnl Hwf Hsh Hov.
    - destruct Hnl.
    - (* container *)
      destruct d as [v|dc|rows]; try discriminate.
      rewrite shaped_cont in Hsh.
      cbv zeta. rewrite project_fill_cont. rewrite count_d_cont.
      simpl read_one_h.
      assert (Hlen : length kids = length dc).
      { clear -Hsh. revert dc Hsh. induction kids as [|k ks IH]; intros [|d dc] H; simpl in *; try discriminate; auto.
        apply andb_true_iff in H as [_ H]. f_equal; auto. }
      erewrite (kids_loop_spec_h _ (spec_kid V (rev rp) new)); eauto.
      + unfold outcome_h. destruct (h_over (cnt + sum_weights (map_kids (spec_kid V (rev rp) new) kids dc))); reflexivity.
      + (* every step *)
        intros k dk Hin c Hc.
        assert (Hk : Forall (fun k => forall d rp new cnt, nonleaf k -> wf_schema k = true -> shaped k d = true -> h_over cnt = false ->
                     rd k d rp new cnt = (let t := project_view V (rev rp) k (fill new k d) in outcome_h cnt (count_d t) t)) kids) by exact IHk.
        assert (Hsk : match dk with None => True | Some dn => shaped k dn = true end /\ In k kids).
        { clear -Hsh Hin. revert dc Hsh Hin. induction kids as [|k0 ks IH]; intros [|d0 dc] Hs Hin; simpl in *; try contradiction.
          apply andb_true_iff in Hs as [Hs1 Hs2]. destruct Hin as [Heq|Hin].
          - inversion Heq; subst. split; [destruct dk; auto|auto].
          - destruct (IH dc Hs2 Hin) as [A B]. split; auto. }
        destruct Hsk as [Hshk Hink]. rewrite Forall_forall in Hk. specialize (Hk k Hink).
        assert (Hwfk : wf_schema k = true) by (simpl in Hwf; rewrite forallb_forall in Hwf; auto).
        destruct k as [mk ty il dflt|mk kk|mk keys row].
        * (* leaf *)
          rewrite H_field. unfold spec_kid.
          set (v := match dk with Some x => Some x | None => if new then option_map DLeaf dflt else None end).
          assert (Hv : match v with Some (DLeaf _) | None => True | _ => False end).
          { subst v. destruct dk as [dn|].
            - destruct dn; simpl in Hshk; try discriminate; exact I.
            - destruct new; [|exact I]. destruct dflt; exact I. }
          destruct (vw_leaf V (rev rp ++ [nm_name mk]) mk) eqn:E.
          -- rewrite H_post. destruct v as [x|].
             ++ simpl andb. destruct (vw_trim V && is_default dflt x); simpl; unfold outcome_h; simpl;
                  rewrite ?Z.add_0_r, ?Hc; try reflexivity.
                destruct x; try contradiction. simpl. unfold outcome_h. simpl. now rewrite Z.add_0_r, Hc.
             ++ unfold outcome_h. simpl. now rewrite Z.add_0_r, Hc.
          -- destruct v as [x|]; simpl; unfold outcome_h; simpl; now rewrite Z.add_0_r, Hc.
        * (* container kid *)
          rewrite H_cont. unfold spec_kid.
          destruct (vw_node V (rev rp ++ [nm_name mk]) mk) eqn:E.
          -- destruct dk as [sd|].
             ++ set (t := project_view V (rev rp ++ [nm_name mk]) (SCont mk kk) (fill true (SCont mk kk) sd)).
                assert (Ht : weight (Some t) = 1 + count_d t).
                { subst t. destruct sd as [v|dc'|rows']; try (simpl in Hshk; discriminate). reflexivity. }
                unfold bump_h. destruct (h_over (c + 1)) eqn:F.
                ** unfold bind. unfold outcome_h. rewrite Ht. pose proof (count_d_nonneg t).
                   rewrite (H_over_mono (c + 1)) by (auto; lia). reflexivity.
                ** unfold bind at 1. rewrite Hk; [|exact I|exact Hwfk|exact Hshk|exact F].
                   cbv zeta. change (rev (nm_name mk :: rp)) with (rev rp ++ [nm_name mk]). fold t.
                   unfold outcome_h. rewrite Ht, Z.add_assoc.
                   destruct (h_over (c + 1 + count_d t)); reflexivity.
             ++ unfold outcome_h. simpl. now rewrite Z.add_0_r, Hc.
          -- destruct dk; unfold outcome_h; simpl; now rewrite Z.add_0_r, Hc.
        * (* list kid *)
          rewrite H_cont. unfold spec_kid.
          destruct (vw_node V (rev rp ++ [nm_name mk]) mk) eqn:E.
          -- destruct dk as [sd|].
             ++ set (t := project_view V (rev rp ++ [nm_name mk]) (SList mk keys row) (fill true (SList mk keys row) sd)).
                assert (Ht : weight (Some t) = 1 + count_d t).
                { subst t. destruct sd as [v|dc'|rows']; try (simpl in Hshk; discriminate). reflexivity. }
                unfold bump_h. destruct (h_over (c + 1)) eqn:F.
                ** unfold bind. unfold outcome_h. rewrite Ht. pose proof (count_d_nonneg t).
                   rewrite (H_over_mono (c + 1)) by (auto; lia). reflexivity.
                ** unfold bind at 1. rewrite Hk; [|exact I|exact Hwfk|exact Hshk|exact F].
                   cbv zeta. change (rev (nm_name mk :: rp)) with (rev rp ++ [nm_name mk]). fold t.
                   unfold outcome_h. rewrite Ht, Z.add_assoc.
                   destruct (h_over (c + 1 + count_d t)); reflexivity.
             ++ unfold outcome_h. simpl. now rewrite Z.add_0_r, Hc.
          -- destruct dk; unfold outcome_h; simpl; now rewrite Z.add_0_r, Hc.
    - (* list *)
      destruct d as [v|dc|rows]; try discriminate.
      simpl in Hsh.
      assert (Hrow : forall r, In r rows -> shaped row r = true) by (rewrite forallb_forall in Hsh; exact Hsh).
      simpl in Hwf. apply andb_true_iff in Hwf as [Hwf1 Hwf2].
      assert (Hnlr : nonleaf row) by (destruct row; [discriminate|exact I|exact I]).
      cbv zeta. simpl fill. simpl project_view. rewrite count_d_list.
      destruct (H_window rp) as [w [Hw [Hok Hrows]]].
      rewrite H_rows_natural. rewrite Hrows. rewrite map_map.
      set (g := fun r => project_view V (rev rp) row (fill true row r)).
      assert (Hstep : forall rs, (forall r, In r rs -> In r rows) ->
                forall r, In r rs -> forall c, h_over c = false ->
                rd row r rp true c = outcome_h c (count_d (g r)) (g r)).
      { intros rs Hsub r Hin c Hc. rewrite IHr; auto. }
      simpl read_one_h. rewrite Hw.
      destruct w as [| |st ends].
      + (* no window *)
        simpl win_rows. rewrite rows_loop_nostop by reflexivity.
        rewrite (rows_all_spec_h _ g); auto.
        * unfold outcome_h. destruct (h_over (cnt + sum_counts (map g rows))); reflexivity.
        * apply Hstep. auto.
      + (* vetoed *)
        simpl. unfold outcome_h. simpl. now rewrite Z.add_0_r, Hov.
      + destruct ends as [|en [|en2 ends]]; simpl in Hok; try contradiction.
        * simpl win_rows. rewrite rows_loop_nostop by reflexivity.
          rewrite (rows_all_spec_h _ g); auto.
          -- unfold outcome_h. destruct (h_over (cnt + sum_counts (map g (skipz rows st)))); reflexivity.
          -- apply Hstep. intros x Hx. eapply In_skipz; eauto.
        * simpl win_rows.
          rewrite (rows_loop_window _ _ en) by (try (intros i; simpl; now rewrite orb_false_r); intros _; lia).
          rewrite (rows_all_spec_h _ g); auto.
          -- unfold outcome_h. destruct (h_over (cnt + sum_counts (map g (takez (skipz rows st) (en - st))))); reflexivity.
          -- apply Hstep. intros x Hx. eapply In_skipz. eapply In_takez; eauto.
  Qed.
End GenericH.

(** * the hooks of a constraint table built in steps compute the intersection view *)
Lemma first_veto_app a b :
  first_veto (a ++ b) = match first_veto a with Some true => first_veto b | x => x end.
Proof. induction a as [|c a IH]; simpl; auto. destruct (c tt) as [[|]|]; auto. Qed.

Lemma first_veto_flat {A} (f : A -> list (unit -> option bool)) (g : A -> bool) : forall l,
  (forall p, In p l -> first_veto (f p) = Some (g p)) -> first_veto (flat_map f l) = Some (forallb g l).
Proof.
  induction l as [|a l IH]; intros H; simpl; auto.
  rewrite first_veto_app, (H a) by now left. destruct (g a); simpl; auto. apply IH. intros; apply H; now right.
Qed.
Lemma first_veto_map {A} (f : A -> unit -> option bool) (g : A -> bool) : forall l,
  (forall p, f p tt = Some (g p)) -> first_veto (map f l) = Some (forallb g l).
Proof. induction l as [|a l IH]; intros H; simpl; auto. rewrite H. destruct (g a); simpl; auto. Qed.
Lemma forallb_andb {A} (f g : A -> bool) l : forallb f l && forallb g l = forallb (fun x => f x && g x) l.
Proof.
  induction l as [|a l IH]; simpl; auto. rewrite <- IH.
  destruct (f a), (g a), (forallb f l), (forallb g l); reflexivity.
Qed.
Lemma forallb_ext_in {A} (f g : A -> bool) l : (forall x, In x l -> f x = g x) -> forallb f l = forallb g l.
Proof. induction l as [|a l IH]; intros H; simpl; auto. rewrite H by now left. f_equal. apply IH. intros; apply H; now right. Qed.

Definition g3 (rp : list ident) (m : nmeta) (p : params) : bool :=
  (lenZ (rev rp ++ [nm_name m]) <=? p_depth p)
  && match p_fields p with Some ps => selects ps (rev rp ++ [nm_name m]) || leads ps (rev rp ++ [nm_name m]) | None => true end
  && match p_xfields p with Some ps => negb (selects ps (rev rp ++ [nm_name m])) | None => true end.

Lemma step3_spec p rp m : 1 <= p_depth p ->
  first_veto [ (fun _ : unit => Some (check_path_len (p_depth p) rp 0));
               (fun _ => match p_fields p with Some ps => fields_visible false ps (nm_name m :: rp) | None => Some true end);
               (fun _ => match p_xfields p with Some ps => fields_visible true ps (nm_name m :: rp) | None => Some true end) ]
  = Some (g3 rp m p).
Proof.
  intros Hd. unfold g3. cbn [first_veto].
  rewrite check_path_len_spec by lia.
  rewrite lenZ_app1, lenZ_rev.
  replace (0 + lenZ rp <? p_depth p) with (lenZ rp + 1 <=? p_depth p)
    by (destruct (lenZ rp + 1 <=? p_depth p) eqn:E; symmetry; [apply Z.ltb_lt|apply Z.ltb_ge]; lia).
  destruct (lenZ rp + 1 <=? p_depth p); [|reflexivity].
  destruct (p_fields p) as [fs|].
  - rewrite fields_visible_include. simpl rev.
    destruct (selects fs (rev rp ++ [nm_name m]) || leads fs (rev rp ++ [nm_name m])); [|reflexivity].
    destruct (p_xfields p) as [xs|]; [|reflexivity].
    rewrite fields_visible_exclude. simpl rev.
    destruct (negb (selects xs (rev rp ++ [nm_name m]))); reflexivity.
  - destruct (p_xfields p) as [xs|]; [|reflexivity].
    rewrite fields_visible_exclude. simpl rev.
    destruct (negb (selects xs (rev rp ++ [nm_name m]))); reflexivity.
Qed.

Lemma pre_checks_c_spec Ps rp m content_ok : Forall valid_params Ps ->
  pre_checks_c Ps rp m content_ok =
  Some (forallb (fun p => g3 rp m p && match p_content p with Some c => content_ok c | None => true end) Ps).
Proof.
  intros Hv. unfold pre_checks_c. rewrite first_veto_app.
  rewrite (first_veto_flat _ (g3 rp m)).
  2:{ intros p Hin. apply step3_spec. rewrite Forall_forall in Hv. apply (Hv p Hin). }
  rewrite (first_veto_map _ (fun p => match p_content p with Some c => content_ok c | None => true end)).
  2:{ intros p. destruct (p_content p); reflexivity. }
  rewrite <- forallb_andb. destruct (forallb (g3 rp m) Ps); reflexivity.
Qed.

Lemma H_cont_chain Ps : Forall valid_params Ps -> forall rp m,
  pre_cont_c Ps rp m = Some (vw_node (chain_view Ps) (rev rp ++ [nm_name m]) m).
Proof.
  intros Hv rp m. unfold pre_cont_c. rewrite pre_checks_c_spec by auto. f_equal.
  unfold chain_view. cbn [vw_node]. apply forallb_ext_in. intros p _. rewrite vw_node_params. unfold g3. reflexivity.
Qed.
Lemma H_field_chain Ps : Forall valid_params Ps -> forall rp m,
  pre_field_c Ps rp m = Some (vw_leaf (chain_view Ps) (rev rp ++ [nm_name m]) m).
Proof.
  intros Hv rp m. unfold pre_field_c. rewrite pre_checks_c_spec by auto. f_equal.
  unfold chain_view. cbn [vw_leaf]. apply forallb_ext_in. intros p _. rewrite vw_leaf_params. unfold g3. reflexivity.
Qed.

Lemma post_field_some p dflt x :
  post_field (Some p) dflt (Some x) = if p_trim p && is_default dflt x then None else Some x.
Proof.
  unfold post_field, is_default. destruct (p_trim p); simpl; [|reflexivity].
  destruct dflt as [d|]; [|reflexivity]. destruct x; try reflexivity.
Qed.
Lemma post_field_none p dflt : post_field (Some p) dflt None = None.
Proof. unfold post_field. destruct (p_trim p); [destruct dflt|]; reflexivity. Qed.
Lemma post_field_c_none Ps dflt : post_field_c Ps dflt None = None.
Proof.
  unfold post_field_c. induction Ps as [|p Ps IH]; cbn [fold_left]; auto. rewrite post_field_none. exact IH.
Qed.
Lemma H_post_chain Ps dflt v :
  post_field_c Ps dflt v =
  match v with
  | Some x => if vw_trim (chain_view Ps) && is_default dflt x then None else v
  | None => None
  end.
Proof.
  destruct v as [x|]; [|apply post_field_c_none]. unfold chain_view. cbn [vw_trim].
  induction Ps as [|p Ps IH]; [reflexivity|].
  unfold post_field_c in *. cbn [fold_left existsb]. rewrite post_field_some.
  destruct (p_trim p); cbn [andb orb].
  - destruct (is_default dflt x) eqn:D.
    + apply (post_field_c_none Ps).
    + rewrite IH. rewrite !andb_false_r. reflexivity.
  - exact IH.
Qed.

Lemma over_c_mono Ps a b : a <= b -> over_c Ps a = true -> over_c Ps b = true.
Proof.
  intros Hab. unfold over_c. induction Ps as [|p Ps IH]; simpl; auto.
  intros H. apply orb_true_iff in H as [H|H]; apply orb_true_iff; [left|right; auto].
  apply Z.gtb_lt in H. apply Z.gtb_lt. lia.
Qed.
Lemma over_c_zero Ps : Forall valid_params Ps -> over_c Ps 0 = false.
Proof.
  unfold over_c. induction 1 as [|p Ps [_ Hp] _ IH]; simpl; auto. rewrite IH, orb_false_r.
  destruct (0 >? p_max_node p) eqn:E; auto. apply Z.gtb_lt in E. lia.
Qed.

(** ** rows: the index-set reading of a window is the window *)
Lemma keep_idx_ext_ge {A} (f g : Z -> bool) : forall (l : list A) i,
  (forall j, i <= j -> f j = g j) -> keep_idx f i l = keep_idx g i l.
Proof.
  induction l as [|x l IH]; intros i H; simpl; auto.
  rewrite (H i) by lia. rewrite (IH (i + 1)) by (intros; apply H; lia). reflexivity.
Qed.
Lemma keep_idx_true {A} (f : Z -> bool) : forall (l : list A) i, (forall j, i <= j -> f j = true) -> keep_idx f i l = l.
Proof. induction l as [|x l IH]; intros i H; simpl; auto. rewrite H by lia. f_equal. apply IH. intros; apply H; lia. Qed.
Lemma keep_idx_false {A} (f : Z -> bool) : forall (l : list A) i, (forall j, i <= j -> f j = false) -> keep_idx f i l = [].
Proof. induction l as [|x l IH]; intros i H; simpl; auto. rewrite H by lia. apply IH. intros; apply H; lia. Qed.
Lemma keep_idx_map {A C} (h : A -> C) (f : Z -> bool) : forall l i, keep_idx f i (map h l) = map h (keep_idx f i l).
Proof. induction l as [|x l IH]; intros i; simpl; auto. destruct (f i); simpl; now rewrite IH. Qed.

Lemma keep_from {A} (g : Z -> bool) st : forall (l : list A) i,
  keep_idx (fun j => (st <=? j) && g j) i l = keep_idx g (Z.max i st) (skipz l (st - i)).
Proof.
  induction l as [|x l IH]; intros i; [reflexivity|].
  destruct (st <=? i) eqn:E.
  - apply Z.leb_le in E. replace (Z.max i st) with i by lia.
    replace (skipz (x :: l) (st - i)) with (x :: l) by (simpl; destruct (st - i <=? 0) eqn:F; [reflexivity|lia]).
    apply keep_idx_ext_ge. intros j Hj. replace (st <=? j) with true by (symmetry; apply Z.leb_le; lia). reflexivity.
  - apply Z.leb_gt in E. simpl keep_idx. replace (st <=? i) with false by (symmetry; apply Z.leb_gt; lia). simpl andb.
    rewrite IH. replace (Z.max (i + 1) st) with (Z.max i st) by lia.
    simpl skipz. destruct (st - i <=? 0) eqn:F; [lia|]. replace (st - (i + 1)) with (st - i - 1) by lia. reflexivity.
Qed.
Lemma keep_until {A} en : en <> -1 -> forall (l : list A) s,
  keep_idx (fun j => (en =? -1) || (j <? en)) s l = takez l (en - s).
Proof.
  intros Hen. replace (en =? -1) with false by (symmetry; apply Z.eqb_neq; exact Hen).
  induction l as [|x l IH]; intros s; [reflexivity|]. simpl.
  destruct (s <? en) eqn:E.
  - apply Z.ltb_lt in E. destruct (en - s <=? 0) eqn:F; [lia|]. rewrite IH. f_equal. f_equal. lia.
  - apply Z.ltb_ge in E. destruct (en - s <=? 0) eqn:F; [|lia].
    apply keep_idx_false. intros j Hj. apply Z.ltb_ge. lia.
Qed.
Lemma keep_window {A} st en (l : list A) : 0 <= st ->
  keep_idx (fun j => (st <=? j) && ((en =? -1) || (j <? en))) 0 l = window st en l.
Proof.
  intros Hst. rewrite keep_from. replace (Z.max 0 st) with st by lia. replace (st - 0) with st by lia.
  unfold window. destruct (en =? -1) eqn:E.
  - apply keep_idx_true. intros; reflexivity.
  - rewrite <- E. apply keep_until. now apply Z.eqb_neq.
Qed.

Definition range_start_ok (p : params) : Prop :=
  match p_range p with Some (_, st, _) => 0 <= st | None => True end.

Lemma window_go_norange rp : forall Ps acc, forallb (fun p => negb (has_range p)) Ps = true ->
  window_go Ps rp acc = Some (match acc with None => WAll | Some (st, ends) => WFrom st ends end).
Proof.
  induction Ps as [|p Ps IH]; intros acc H; simpl in *; auto.
  apply andb_true_iff in H as [H1 H2]. unfold has_range in H1. destruct (p_range p); [discriminate|]. now apply IH.
Qed.
Lemma in_window_norange Ps fp i : forallb (fun p => negb (has_range p)) Ps = true ->
  forallb (fun p => in_window p fp i) Ps = true.
Proof.
  induction Ps as [|p Ps IH]; intros H; simpl in *; auto.
  apply andb_true_iff in H as [H1 H2]. rewrite IH by auto. unfold has_range in H1. unfold in_window.
  destruct (p_range p); [discriminate|reflexivity].
Qed.
Lemma filter_none {A} (f : A -> bool) l : length (filter f l) = 0%nat -> forallb (fun x => negb (f x)) l = true.
Proof. induction l as [|a l IH]; simpl; auto. destruct (f a); simpl; [discriminate|auto]. Qed.

Lemma H_window_chain Ps rp : Forall range_start_ok Ps -> (range_steps Ps <= 1)%nat ->
  exists w, window_c Ps rp = Some w /\ win_ok w /\
            forall rows : list dnode, vw_rows (chain_view Ps) (rev rp) rows = win_rows w rows.
Proof.
  unfold window_c, range_steps. simpl vw_rows. induction Ps as [|p Ps IH]; intros Hst Hone.
  - exists WAll. repeat split. intros rows. apply keep_idx_true. reflexivity.
  - inversion Hst as [|? ? Hp Hrest]; subst. simpl window_go. simpl filter in Hone. unfold has_range in Hone at 1.
    unfold range_start_ok in Hp.
    destruct (p_range p) as [[[sel s] e]|] eqn:Er.
    + (* this step carries the window: none of the later ones does *)
      simpl in Hone. assert (Hnone : forallb (fun p => negb (has_range p)) Ps = true) by (apply filter_none; lia).
      assert (Hin : forall fp i, forallb (fun p0 => in_window p0 fp i) (p :: Ps) = in_window p fp i).
      { intros fp i. simpl. now rewrite in_window_norange, andb_true_r. }
      rewrite path_matches_exactly_spec.
      destruct (selects_exactly sel (rev rp)) eqn:Esel.
      * destruct (negb (e =? -1) && (s >=? e)) eqn:Eempty.
        -- exists WEmpty. repeat split. intros rows. apply keep_idx_false. intros j Hj. rewrite Hin.
           unfold in_window. rewrite Er, Esel. apply andb_true_iff in Eempty as [E1 E2].
           apply negb_true_iff in E1. rewrite E1. simpl orb.
           destruct (s <=? j) eqn:F1; [|reflexivity]. simpl. apply Z.ltb_ge. apply Z.leb_le in F1. lia.
        -- rewrite window_go_norange by auto. simpl app.
           exists (WFrom s (if e =? -1 then [] else [e])). split; [reflexivity|]. split.
           ++ destruct (e =? -1) eqn:E1; simpl; [exact I|]. simpl in Eempty. lia.
           ++ intros rows. rewrite (keep_idx_ext_ge _ (fun j => (s <=? j) && ((e =? -1) || (j <? e)))).
              2:{ intros j _. rewrite Hin. unfold in_window. now rewrite Er, Esel. }
              rewrite keep_window by auto. unfold window. destruct (e =? -1); reflexivity.
      * rewrite window_go_norange by auto. exists WAll. repeat split. intros rows.
        apply keep_idx_true. intros j _. rewrite Hin. unfold in_window. now rewrite Er, Esel.
    + destruct (IH Hrest Hone) as [w [Hw [Hok Hrows]]]. exists w. repeat split; auto.
      intros rows. rewrite <- Hrows. apply keep_idx_ext_ge. intros j _. simpl.
      unfold in_window at 1. now rewrite Er.
Qed.

Lemma H_natural_chain Ps (f : dnode -> dnode) fp l :
  vw_rows (chain_view Ps) fp (map f l) = map f (vw_rows (chain_view Ps) fp l).
Proof. simpl. apply keep_idx_map. Qed.

(** * C07 for chains: the read is the projection by the intersection of the steps' views *)
Definition chain_valid (Ps : list params) : Prop :=
  Forall valid_params Ps /\ Forall range_start_ok Ps /\ (range_steps Ps <= 1)%nat.

Theorem read_chain_is_projection : forall Ps kids data,
  chain_valid Ps -> forallb wf_schema kids = true -> shaped (SCont root_meta kids) (DCont data) = true ->
  read_chain_content Ps kids data = spec_chain Ps kids data.
Proof.
  intros Ps kids data [Hv [Hst Hone]] Hwf Hsh. unfold read_chain_content, spec_chain, read_one_c.
  rewrite (read_one_h_spec _ _ _ _ _ (chain_view Ps)); auto.
  - cbv zeta. unfold project, full_read. simpl rev.
    rewrite project_fill_cont. rewrite !fill_cont. cbv beta iota.
    rewrite <- (fill_cont false root_meta kids data). rewrite project_fill_cont. cbv beta iota.
    unfold outcome_h, over_some, over_c. rewrite Z.add_0_l. unfold count_c.
    destruct (existsb _ Ps); reflexivity.
  - apply H_cont_chain; auto.
  - apply H_field_chain; auto.
  - apply H_post_chain.
  - apply over_c_mono.
  - intros rp. apply H_window_chain; auto.
  - apply H_natural_chain.
  - exact I.
  - apply over_c_zero; auto.
Qed.

(** a LIST as the target of the read *)
Theorem read_chain_rows_is_projection : forall Ps m keys row rows,
  chain_valid Ps -> wf_schema (SList m keys row) = true -> shaped (SList m keys row) (DList rows) = true ->
  read_chain_rows Ps (SList m keys row) rows = spec_chain_rows Ps (SList m keys row) rows.
Proof.
  intros Ps m keys row rows [Hv [Hst Hone]] Hwf Hsh. unfold read_chain_rows, spec_chain_rows, read_one_c.
  rewrite (read_one_h_spec _ _ _ _ _ (chain_view Ps)); auto.
  - cbv zeta. simpl rev. simpl fill. simpl project_view.
    unfold outcome_h, over_some, over_c. rewrite Z.add_0_l.
    destruct (existsb _ Ps); reflexivity.
  - apply H_cont_chain; auto.
  - apply H_field_chain; auto.
  - apply H_post_chain.
  - apply over_c_mono.
  - intros rp. apply H_window_chain; auto.
  - apply H_natural_chain.
  - exact I.
  - apply over_c_zero; auto.
Qed.

(** * BuildConstraints, step by step, delivers valid records with non-negative start rows *)
Lemma digit_val_nonneg b d : digit_val b = Some d -> 0 <= d.
Proof. destruct b; simpl; intros H; try discriminate; inversion H; lia. Qed.
Lemma digits_val_nonneg : forall s acc v, 0 <= acc -> digits_val s acc = Some v -> 0 <= v.
Proof.
  induction s as [|b s IH]; simpl; intros acc v Ha H.
  - inversion H; subst; auto.
  - destruct (digit_val b) as [d|] eqn:E; [|discriminate]. apply digit_val_nonneg in E.
    apply (IH (acc * 10 + d)); auto. lia.
Qed.
Lemma atoi_nonneg s n : ~ In x2d s -> atoi s = Some n -> 0 <= n.
Proof.
  intros Hn. unfold atoi.
  assert (Hbody : forall body, match body with
                               | [] => None
                               | _ => match digits_val body 0 with
                                      | None => None
                                      | Some v => if (v <? -9223372036854775808) || (v >? 9223372036854775807) then None else Some v
                                      end
                               end = Some n -> 0 <= n).
  { intros body H. destruct body as [|b body]; [discriminate|].
    destruct (digits_val (b :: body) 0) as [v|] eqn:E; [|discriminate].
    apply digits_val_nonneg in E; [|lia].
    destruct ((v <? -9223372036854775808) || (v >? 9223372036854775807)); [discriminate|]. inversion H; subst; auto. }
  assert (Hm : exists body, match s with
                            | x2d :: tl => (true, tl)
                            | x2b :: tl => (false, tl)
                            | _ => (false, s)
                            end = (false, body)).
  { destruct s as [|c tl]; [eexists; reflexivity|].
    destruct c; try (eexists; reflexivity). exfalso. apply Hn. now left. }
  destruct Hm as [body Hm]. rewrite Hm. cbv beta iota zeta. apply Hbody.
Qed.

Lemma byte_eqb_false a b : Byte.eqb a b = false -> a <> b.
Proof. intros E Heq. subst. rewrite (Byte.byte_dec_lb eq_refl) in E. discriminate. Qed.
Lemma cut_at_nosep sep : forall s cur a b, cut_at sep s cur = Some (a, b) ->
  exists a', a = rev cur ++ a' /\ ~ In sep a'.
Proof.
  induction s as [|c s IH]; intros cur a b H; simpl in H; [discriminate|].
  destruct (Byte.eqb c sep) eqn:E.
  - inversion H; subst. exists []. rewrite app_nil_r. split; auto.
  - apply IH in H as [a' [Ha Hn]]. exists (c :: a'). split.
    + rewrite Ha. simpl. now rewrite <- app_assoc.
    + intros [Hc|Hc]; [|contradiction]. apply byte_eqb_false in E. congruence.
Qed.
Lemma cut_at_none sep : forall s cur, cut_at sep s cur = None -> ~ In sep s.
Proof.
  induction s as [|c s IH]; intros cur H; simpl in *; [tauto|].
  destruct (Byte.eqb c sep) eqn:E; [discriminate|].
  intros [Hc|Hc]; [apply byte_eqb_false in E; congruence|]. eapply IH; eauto.
Qed.

Lemma new_list_range_start v ps s e : new_list_range v = POk (ps, s, e) -> 0 <= s.
Proof.
  unfold new_list_range. destruct (cut_at x21 v []) as [[sel rows]|]; [|discriminate].
  destruct (parse_path_expr sel) as [ps'|]; [|discriminate]. simpl bind.
  rewrite split_on_cut. simpl rev. simpl app.
  destruct (cut_at x2d rows []) as [[st en]|] eqn:Ec.
  - apply cut_at_nosep in Ec as [a' [Ha Hn]]. simpl in Ha. subst a'.
    destruct (split_on x2d en []) as [|e1 [|e2 rest]] eqn:Es.
    + exfalso. eapply split_on_nonempty; eauto.
    + destruct (atoi st) as [s0|] eqn:Ea; [|discriminate].
      intros H. assert (s = s0).
      { destruct e1; [inversion H; auto|]. destruct (atoi (b :: e1)); inversion H; auto. }
      subst. eapply atoi_nonneg; eauto.
    + discriminate.
  - apply cut_at_none in Ec.
    destruct (atoi rows) as [s0|] eqn:Ea; [|discriminate].
    intros H. inversion H; subst. eapply atoi_nonneg; eauto.
Qed.

Lemma build_range_start q p : build_constraints q = POk (Some p) -> range_start_ok p.
Proof.
  unfold build_constraints. destruct q as [|kv q']; [intros H; inversion H|].
  set (q := kv :: q'). intros H.
  apply bind_ok in H as [depth [_ H]].
  apply bind_ok in H as [range [Hr H]].
  apply bind_ok in H as [fields [_ H]].
  apply bind_ok in H as [xfields [_ H]].
  apply bind_ok in H as [maxn [_ H]].
  apply bind_ok in H as [cont [_ H]].
  apply bind_ok in H as [trim [_ H]].
  inversion H; subst p. unfold range_start_ok. simpl p_range.
  unfold opt_param in Hr. destruct (lookup (B "fc.range") q) as [v|]; [|inversion Hr; exact I].
  apply bind_ok in Hr as [[[ps s] e] [Hn Hr]]. inversion Hr; subst. eapply new_list_range_start; eauto.
Qed.

Theorem build_chain_valid : forall steps Ps, build_chain steps = POk Ps ->
  Forall valid_params Ps /\ Forall range_start_ok Ps.
Proof.
  induction steps as [|q steps IH]; intros Ps H; simpl in H.
  - inversion H; subst. split; constructor.
  - apply bind_ok in H as [P [Hq H]]. apply bind_ok in H as [rest [Hrest H]].
    inversion H; subst Ps. destruct (IH rest Hrest) as [A C].
    destruct P as [p|]; [|split; auto].
    split; constructor; auto.
    + apply (build_valid q (Some p) Hq).
    + eapply build_range_start; eauto.
Qed.

(** the declarative reading of the steps and BuildConstraints agree *)
Theorem interpret_chain_agrees : forall steps asts,
  match interpret_chain steps asts with
  | TOk Ps => build_chain steps = POk Ps
  | TBad => is_err (build_chain steps)
  | TUnk => True
  end.
Proof.
  induction steps as [|q steps IH]; intros asts; [reflexivity|].
  simpl interpret_chain. simpl build_chain.
  pose proof (interpret_agrees q (hd [] asts)) as Hq. specialize (IH (List.tl asts)).
  destruct (interpret q (hd [] asts)) as [P| |]; destruct (interpret_chain steps (List.tl asts)) as [rest| |]; auto.
  - rewrite Hq, IH. reflexivity.
  - rewrite Hq. simpl bind. now apply bind_err.
  - now apply bind_err.
  - now apply bind_err.
Qed.

(** ... so the model meets the check's spec oracle on every chain in which at most one step
    carries fc.range, for a container-like target and for a list target *)
Theorem chain_model_meets_spec : forall kids data steps asts,
  forallb wf_schema kids = true -> shaped (SCont root_meta kids) (DCont data) = true ->
  match interpret_chain steps asts with
  | TOk Ps => (range_steps Ps <= 1)%nat -> read_steps_content kids data steps = spec_chain Ps kids data
  | TBad => is_err (read_steps_content kids data steps)
  | TUnk => True
  end.
Proof.
  intros kids data steps asts Hwf Hsh. pose proof (interpret_chain_agrees steps asts) as H.
  destruct (interpret_chain steps asts) as [Ps| |]; auto.
  - intros Hone. unfold read_steps_content. rewrite H. simpl bind.
    destruct (build_chain_valid _ _ H) as [A C]. apply read_chain_is_projection; auto. repeat split; auto.
  - unfold read_steps_content. now apply bind_err.
Qed.

Theorem chain_model_meets_spec_rows : forall m keys row rows steps asts,
  wf_schema (SList m keys row) = true -> shaped (SList m keys row) (DList rows) = true ->
  match interpret_chain steps asts with
  | TOk Ps => (range_steps Ps <= 1)%nat ->
              read_steps_rows (SList m keys row) rows steps = spec_chain_rows Ps (SList m keys row) rows
  | TBad => is_err (read_steps_rows (SList m keys row) rows steps)
  | TUnk => True
  end.
Proof.
  intros m keys row rows steps asts Hwf Hsh. pose proof (interpret_chain_agrees steps asts) as H.
  destruct (interpret_chain steps asts) as [Ps| |]; auto.
  - intros Hone. unfold read_steps_rows. rewrite H. simpl bind.
    destruct (build_chain_valid _ _ H) as [A C]. apply read_chain_rows_is_projection; auto. repeat split; auto.
  - unfold read_steps_rows. now apply bind_err.
Qed.

(** a chain of one step is the single-step read of Params.v (same answer on the whole domain) *)
Theorem chain_of_one_is_read_query : forall q P kids data,
  build_constraints q = POk P ->
  forallb wf_schema kids = true -> shaped (SCont root_meta kids) (DCont data) = true ->
  read_steps_content kids data [q] = read_query kids data q.
Proof.
  intros q P kids data Hb Hwf Hsh.
  rewrite (read_query_is_projection q P) by auto.
  unfold read_steps_content. simpl build_chain. rewrite Hb. simpl bind.
  pose proof (build_valid q P Hb) as Hv.
  destruct P as [p|].
  - rewrite read_chain_is_projection; auto.
    + unfold spec_chain, spec_read, over_some. simpl existsb. rewrite orb_false_r.
      replace (project (chain_view [p]) kids (full_read kids data))
        with (project (params_view p) kids (full_read kids data)); [reflexivity|].
      apply project_ext. unfold view_equiv, chain_view; cbn [vw_leaf vw_node vw_rows vw_trim forallb existsb].
      split; [|split; [|split]].
      * intros. now rewrite andb_true_r.
      * intros. now rewrite andb_true_r.
      * intros fp rows.
        rewrite vw_rows_params. pose proof (build_range_start q p Hb) as Hs. unfold range_start_ok in Hs.
        rewrite (keep_idx_ext_ge _ (fun j => in_window p fp j)) by (intros; apply andb_true_r).
        unfold in_window. destruct (p_range p) as [[[ps st] en]|].
        -- destruct (selects_exactly ps fp); [symmetry; now apply keep_window|symmetry; apply keep_idx_true; reflexivity].
        -- symmetry; apply keep_idx_true; reflexivity.
      * rewrite vw_trim_params. now rewrite orb_false_r.
    + repeat split; [constructor; auto|constructor; [eapply build_range_start; eauto|constructor]|].
      unfold range_steps. simpl. destruct (has_range p); simpl; lia.
  - rewrite read_chain_is_projection; auto.
    + unfold spec_chain, spec_read, over_some. simpl existsb. cbv iota.
      replace (project (chain_view []) kids (full_read kids data)) with (project view_all kids (full_read kids data)).
      * unfold project, full_read. rewrite fill_cont. cbv beta iota. rewrite <- (fill_cont false root_meta kids data).
        rewrite project_all_id by auto. rewrite fill_cont. reflexivity.
      * apply project_ext. unfold view_equiv, chain_view, view_all, keep_all, all_rows; cbn [vw_leaf vw_node vw_rows vw_trim forallb existsb].
        split; [|split; [|split]]; intros; auto. symmetry; apply keep_idx_true; reflexivity.
    + repeat split; try constructor. unfold range_steps; simpl; lia.
Qed.

(** two windows on one list given in separate steps do NOT intersect: the start row of the later
    step replaces the earlier one (ListRange.CheckListPreConstraints: SetStartRow on the first
    request).  list q of three rows, q!1-3 then q!0-2: the answer is rows 0,1 - rows [1,3) and
    [0,2) have only row 1 in common *)
Definition tw_kids : list snode :=
  [SList (mkMeta [x71] [x6d] true [] None) [0%nat]
     (SCont (mkMeta [x71] [x6d] true [] None) [SLeaf (mkMeta [x6b] [x6d] true [] None) TStr false None])].
Definition tw_row (b : byte) : dnode := DCont [Some (DLeaf (LV (VStr [b])))].
Definition tw_data : content := [Some (DList [tw_row x61; tw_row x62; tw_row x63])].
Example chain_two_windows_refuted :
  forallb wf_schema tw_kids = true /\ shaped (SCont root_meta tw_kids) (DCont tw_data) = true /\
  read_steps_content tw_kids tw_data [[(B "fc.range", B "q!1-3")]; [(B "fc.range", B "q!0-2")]]
    = POk [Some (DList [tw_row x61; tw_row x62])] /\
  (exists Ps, build_chain [[(B "fc.range", B "q!1-3")]; [(B "fc.range", B "q!0-2")]] = POk Ps /\
              spec_chain Ps tw_kids tw_data = POk [Some (DList [tw_row x62])]).
Proof.
  repeat split; try (vm_compute; reflexivity).
  eexists. split; vm_compute; reflexivity.
Qed.

(** the full statement (every chain) does not hold of the faithful model: *)
Definition chain_full_statement : Prop :=
  forall kids data steps asts Ps,
    forallb wf_schema kids = true -> shaped (SCont root_meta kids) (DCont data) = true ->
    interpret_chain steps asts = TOk Ps ->
    read_steps_content kids data steps = spec_chain Ps kids data.

Definition tw_steps : list query := [[(B "fc.range", B "q!1-3")]; [(B "fc.range", B "q!0-2")]].
Definition tw_Ps : list params :=
  Eval vm_compute in match interpret_chain tw_steps [] with TOk Ps => Ps | _ => [] end.
Theorem chain_full_statement_refuted : ~ chain_full_statement.
Proof.
  intros H. specialize (H tw_kids tw_data tw_steps [] tw_Ps).
  assert (E : read_steps_content tw_kids tw_data tw_steps <> spec_chain tw_Ps tw_kids tw_data)
    by (vm_compute; discriminate).
  apply E. apply H; vm_compute; reflexivity.
Qed.

(** the hypotheses are satisfiable and the statements not vacuous: container a { leaf x;
    container b { leaf y } }, a/x = "1", a/b/y = "2": depth=1 first, content=config later keeps the
    depth; the list q of [chain_two_windows_refuted] as the target with depth=1 and a window *)
Definition ce_kids : list snode :=
  [SCont (mkMeta [x61] [x6d] true [] None)
     [SLeaf (mkMeta [x78] [x6d] true [] None) TStr false None;
      SCont (mkMeta [x62] [x6d] true [] None) [SLeaf (mkMeta [x79] [x6d] true [] None) TStr false None]]].
Definition ce_data : content :=
  [Some (DCont [Some (DLeaf (LV (VStr [x31]))); Some (DCont [Some (DLeaf (LV (VStr [x32])))])])].
Definition ce_list : snode :=
  SList (mkMeta [x71] [x6d] true [] None) [0%nat]
    (SCont (mkMeta [x71] [x6d] true [] None)
       [SLeaf (mkMeta [x6b] [x6d] true [] None) TStr false None;
        SCont (mkMeta [x63] [x6d] true [] None) [SLeaf (mkMeta [x7a] [x6d] true [] None) TStr false None]]).
Definition ce_row (b : byte) : dnode := DCont [Some (DLeaf (LV (VStr [b]))); Some (DCont [Some (DLeaf (LV (VStr [b])))])].
Example chain_example :
  forallb wf_schema ce_kids = true /\ shaped (SCont root_meta ce_kids) (DCont ce_data) = true /\
  read_steps_content ce_kids ce_data [[(B "depth", B "1")]; [(B "content", B "config")]]
    = POk [Some (DCont [None; None])] /\
  read_steps_content ce_kids ce_data [[(B "fc.max-node-count", B "1")]; [(B "depth", B "8")]] = PErr PConflict /\
  read_steps_content ce_kids ce_data [[(B "depth", B "2")]; [(B "depth", B "zero")]] = PErr PBadRequest /\
  wf_schema ce_list = true /\ shaped ce_list (DList [ce_row x61; ce_row x62]) = true /\
  read_steps_rows ce_list [ce_row x61; ce_row x62] [[(B "depth", B "1")]; [(B "fc.range", B "!1-2")]]
    = POk [DCont [Some (DLeaf (LV (VStr [x62]))); Some (DCont [None])]].
Proof. repeat split; vm_compute; reflexivity. Qed.
