(** Parameters applied in SEVERAL STEPS, and a LIST as the target of the read.

    sel1, _ := root.Find("a?depth=2");  sel2, _ := sel1.Find("b?content=config");
    sel3, _ := sel2.Constrain("fields=x");  sel3.UpsertInto(capture)

    node/selection.go BuildConstraints starts every step from NewConstraints(sel.Constraints) - a
    copy of the entries registered so far (child selections share their parent's constraint
    object, so navigating keeps them) - and APPENDS the step's own entries
    (node/constraints.go AddConstraint), "depth" (default 64) and "fc.max-node-count" (default
    10000) included, on every step that has at least one parameter.  The constraint table of the
    selection that is finally read therefore holds one group of entries per step; every hook of
    every group is consulted (Constraints.Check*: compiled order = (priority, weight), equal keys
    in order of registration; first veto wins), relative to the base of the final read only
    (editor.basePath = the path of the selection UpsertInto is called on).

      depth / fields / fc.xfields / content  : pre hooks, pure booleans -> every step must let
                                               the node pass
      with-defaults                          : post hook, every "trim" entry nils a value equal
                                               to the default (val.Equal(def, nil) = false: a
                                               second entry leaves the nil alone)
      fc.max-node-count                      : every entry is its own *MaxNode with its own
                                               counter, all of them count the same containers
                                               from 0 (the intermediate selections are not read)
      fc.range                               : ListRange.CheckListPreConstraints of every entry
                                               whose selector names the list: on the first
                                               request an entry with an empty window of its own
                                               vetoes, otherwise it SETS the start row (the last
                                               entry wins); on the later requests every entry
                                               stops the loop at its own end row

    The reader is the one of Tree/Params.v ([read_one]) with the five hooks abstracted
    ([read_one_h]); a LIST target enters it at the list (editor.enter -> editor.list: the
    entries are created in the capturing list, nothing is counted for the target itself, the
    paths of the entries' children are relative to the list: Selection.selectListItem gives an
    entry the position of its list). *)
From Coq Require Import ZArith List Bool Strings.Byte Strings.String.
From YV Require Import Val.Model Tree.Schema Tree.PathExpr Tree.Params.
Import ListNotations.
Open Scope Z_scope.

(** what the fc.range entries make of the loop over one list *)
Inductive lwin :=
| WAll                               (* no entry names the list *)
| WEmpty                             (* some entry vetoed the first request *)
| WFrom (st : Z) (ends : list Z).    (* start row; the loop stops at the first row >= one of [ends] *)

(** * the reader over abstract hooks (Params.read_one with P's hooks taken out) *)
Section HReader.
  Variable h_pre_cont h_pre_field : list ident -> nmeta -> option bool.
  Variable h_post : option lval -> option dnode -> option dnode.
  Variable h_over : Z -> bool.
  Variable h_window : list ident -> option lwin.

  Definition bump_h (cnt : Z) : pres Z :=
    let c := cnt + 1 in if h_over c then PErr PConflict else POk c.

  Fixpoint read_one_h (s : snode) (d : dnode) (rp : list ident) (new : bool) (cnt : Z) {struct s}
    : pres (Z * dnode) :=
    match s, d with
    | SCont _ kids, DCont dc =>
        do (c, out) <-
           kids_loop
             (fun k dk cnt =>
                match k with
                | SLeaf m _ _ dflt =>
                    match h_pre_field rp m with
                    | None => PErr PPanic
                    | Some false => POk (cnt, None)
                    | Some true =>
                        let v := match dk with
                                 | Some x => Some x
                                 | None => if new then option_map DLeaf dflt else None
                                 end in
                        POk (cnt, h_post dflt v)
                    end
                | SCont m _ | SList m _ _ =>
                    match h_pre_cont rp m with
                    | None => PErr PPanic
                    | Some false => POk (cnt, None)
                    | Some true =>
                        match dk with
                        | None => POk (cnt, None)
                        | Some sd =>
                            do c1 <- bump_h cnt;
                            do (c2, td) <- read_one_h k sd (nm_name m :: rp) true c1;
                            POk (c2, Some td)
                        end
                    end
                end) kids dc cnt;
        POk (c, DCont out)
    | SList _ _ row, DList rows =>
        match h_window rp with
        | None => PErr PPanic
        | Some WAll =>
            do (c, out) <- rows_loop (fun r cnt => read_one_h row r rp true cnt) (fun _ => false) rows 0 true cnt;
            POk (c, DList out)
        | Some WEmpty => POk (cnt, DList [])
        | Some (WFrom st ends) =>
            do (c, out) <- rows_loop (fun r cnt => read_one_h row r rp true cnt)
                                      (fun idx => existsb (fun en => idx >=? en) ends)
                                      (skipz rows st) st true cnt;
            POk (c, DList out)
        end
    | _, _ => PErr PUnshaped
    end.
End HReader.

(** * the hooks of a constraint table built in several steps *)
Section ChainHooks.
  Variable Ps : list params.      (* one record per step that had parameters, in order *)

  (** Constraints.Check{Container,Field}PreConstraints over the compiled table:
      (50,10) depth, fields, fc.xfields of step 1, of step 2, ... then (70,10) content of step 1,
      of step 2, ... *)
  Definition pre_checks_c (rp : list ident) (m : nmeta) (content_ok : content_mode -> bool) : option bool :=
    first_veto
      (flat_map (fun p =>
         [ (fun _ : unit => Some (check_path_len (p_depth p) rp 0));
           (fun _ => match p_fields p with Some ps => fields_visible false ps (nm_name m :: rp) | None => Some true end);
           (fun _ => match p_xfields p with Some ps => fields_visible true ps (nm_name m :: rp) | None => Some true end) ]) Ps
       ++ map (fun p (_ : unit) => match p_content p with Some c => Some (content_ok c) | None => Some true end) Ps).

  Definition pre_cont_c (rp : list ident) (m : nmeta) : option bool :=
    pre_checks_c rp m (fun c => match c with CConfig => nm_config m | _ => true end).
  Definition pre_field_c (rp : list ident) (m : nmeta) : option bool :=
    pre_checks_c rp m (fun c => match c with
                                | CAll => true
                                | CConfig => nm_config m
                                | CNonconfig => negb (nm_config m)
                                end).

  (** Constraints.CheckFieldPostConstraints: the with-defaults entry of every step in turn *)
  Definition post_field_c (dflt : option lval) (v : option dnode) : option dnode :=
    fold_left (fun v p => post_field (Some p) dflt v) Ps v.

  (** Constraints.CheckContainerPostConstraints: the MaxNode of every step, each with its own count *)
  Definition over_c (c : Z) : bool := existsb (fun p => c >? p_max_node p) Ps.

  (** Constraints.CheckListPreConstraints: the ListRange of every step in turn.  [acc]: the start
      row set so far and the end rows of the entries that let the first request pass *)
  Fixpoint window_go (ps : list params) (rp : list ident) (acc : option (Z * list Z)) : option lwin :=
    match ps with
    | [] => Some (match acc with None => WAll | Some (st, ends) => WFrom st ends end)
    | p :: tl =>
        match p_range p with
        | None => window_go tl rp acc
        | Some (sel, s, e) =>
            match path_matches_exactly sel rp with
            | None => None
            | Some false => window_go tl rp acc
            | Some true =>
                if negb (e =? -1) && (s >=? e) then Some WEmpty
                else window_go tl rp
                       (Some (s, (match acc with Some (_, es) => es | None => [] end)
                                 ++ (if e =? -1 then [] else [e])))
            end
        end
    end.
  Definition window_c (rp : list ident) : option lwin := window_go Ps rp None.

  Definition read_one_c : snode -> dnode -> list ident -> bool -> Z -> pres (Z * dnode) :=
    read_one_h pre_cont_c pre_field_c post_field_c over_c window_c.

  (** UpsertInto on a container-like selection (module root, container, list entry) *)
  Definition read_chain_content (kids : list snode) (data : content) : pres content :=
    match read_one_c (SCont root_meta kids) (DCont data) [] false 0 with
    | POk (_, DCont c) => POk c
    | POk _ => PErr PUnshaped
    | PErr e => PErr e
    end.

  (** UpsertInto on a list selection: editor.enter -> editor.list(from, to, new = false) *)
  Definition read_chain_rows (l : snode) (rows : list dnode) : pres (list dnode) :=
    match l with
    | SList _ _ _ =>
        match read_one_c l (DList rows) [] false 0 with
        | POk (_, DList out) => POk out
        | POk _ => PErr PUnshaped
        | PErr e => PErr e
        end
    | _ => PErr PUnshaped
    end.
End ChainHooks.

(** BuildConstraints step by step; a step without parameters registers nothing
    ("if len(params) == 0 { return nil }"); the first step that fails ends the chain *)
Fixpoint build_chain (steps : list query) : pres (list params) :=
  match steps with
  | [] => POk []
  | q :: tl =>
      do P <- build_constraints q;
      do rest <- build_chain tl;
      POk (match P with Some p => p :: rest | None => rest end)
  end.

Definition read_steps_content (kids : list snode) (data : content) (steps : list query) : pres content :=
  do Ps <- build_chain steps;
  read_chain_content Ps kids data.

Definition read_steps_rows (l : snode) (rows : list dnode) (steps : list query) : pres (list dnode) :=
  do Ps <- build_chain steps;
  read_chain_rows Ps l rows.
