(** Proofs about Tree/KeyText.v: the text a key value prints as converts back to that value. *)
From Coq Require Import ZArith List Bool Strings.Byte Decimal Lia.
From Coq Require Import DecimalPos DecimalZ.
From YV Require Import Base.Wrap Val.Model Val.Proofs Tree.Schema Tree.KeyText.
Import ListNotations.
Open Scope Z_scope.

Lemma uint_bytes_roundtrip : forall u, uint_of_bytes (bytes_of_uint u) = Some u.
Proof. induction u; simpl; try rewrite IHu; reflexivity. Qed.

(** first byte of a non-empty digit string is a digit, so ParseInt does not take the sign branch *)
Lemma parse_int_digits : forall u, u <> Nil -> parse_int (bytes_of_uint u) = parse_uint (bytes_of_uint u).
Proof. intros u Hu. destruct u; try congruence; reflexivity. Qed.

Lemma parse_uint_digits : forall u, u <> Nil -> parse_uint (bytes_of_uint u) = Some (Z.of_uint u).
Proof.
  intros u Hu. unfold parse_uint.
  pose proof (uint_bytes_roundtrip u) as H.
  destruct u; try congruence; simpl bytes_of_uint in *; rewrite H; reflexivity.
Qed.

Lemma to_int_cases : forall z,
  (exists u, Z.to_int z = Pos u /\ u <> Nil /\ 0 <= z) \/ (exists u, Z.to_int z = Neg u /\ u <> Nil).
Proof.
  intros [|p|p]; simpl.
  - left. exists (D0 Nil). repeat split; try congruence; lia.
  - left. exists (Pos.to_uint p). repeat split; [apply Unsigned.to_uint_nonnil | lia].
  - right. exists (Pos.to_uint p). split; [reflexivity | apply Unsigned.to_uint_nonnil].
Qed.

Theorem parse_int_print : forall z, parse_int (print_Z z) = Some z.
Proof.
  intros z. pose proof (DecimalZ.of_to z) as Hz. unfold print_Z.
  destruct (to_int_cases z) as [[u [E [Hu _]]]|[u [E Hu]]]; rewrite E in *; simpl in Hz.
  - rewrite parse_int_digits, parse_uint_digits by exact Hu. rewrite Hz. reflexivity.
  - change (parse_int (x2d :: bytes_of_uint u)) with (option_map Z.opp (parse_uint (bytes_of_uint u))).
    rewrite parse_uint_digits by exact Hu. simpl. rewrite Hz. reflexivity.
Qed.

Theorem parse_uint_print : forall z, 0 <= z -> parse_uint (print_Z z) = Some z.
Proof.
  intros z Hz0. pose proof (DecimalZ.of_to z) as Hz. unfold print_Z.
  destruct (to_int_cases z) as [[u [E [Hu _]]]|[u [E Hu]]]; rewrite E in *; simpl in Hz.
  - rewrite parse_uint_digits by exact Hu. rewrite Hz. reflexivity.
  - exfalso. destruct z; simpl in E; try discriminate. lia.
Qed.

Lemma bytes_eqb_refl s : bytes_eqb s s = true.
Proof. unfold bytes_eqb. apply Z.eqb_eq. apply lex_cmp_eq. reflexivity. Qed.
Lemma bytes_eqb_eq a b : bytes_eqb a b = true -> a = b.
Proof. unfold bytes_eqb. intros H. apply Z.eqb_eq in H. apply lex_cmp_eq. exact H. Qed.

(** C08: node.NewValue(type, v.String()) = v for every key value that conforms to its leaf type *)
Theorem conv_key_text : forall ty v, key_val_ok ty v -> conv_key ty (key_text v) = Some v.
Proof.
  intros ty v H. destruct ty; destruct v as [x| | |]; try contradiction; destruct x; try contradiction; simpl in H |- *.
  - destruct H as [E [Hs Hr]]. subst f0. unfold conv_int.
    destruct (is_signed f) eqn:Es.
    + rewrite parse_int_print, Hr. reflexivity.
    + destruct Hs as [Hs|Hu]; [discriminate|].
      assert (0 <= z) as Hz.
      { unfold in_rangeb in Hr. rewrite Es in Hr. unfold in_ub in Hr.
        apply andb_true_iff in Hr. destruct Hr as [H1 _]. apply Z.leb_le in H1. exact H1. }
      rewrite parse_uint_print by exact Hz. rewrite Hr. reflexivity.
  - reflexivity.
  - destruct b; reflexivity.
  - destruct H as [Hl [Hi Hu]]. unfold conv_enum, conv_int. simpl is_signed.
    rewrite Hi, Hu, Hl. reflexivity.
Qed.

Lemma key_val_okb_ok : forall ty v, key_val_okb ty v = true -> key_val_ok ty v.
Proof.
  intros ty v H. destruct ty; destruct v as [x| | |]; try discriminate; destruct x; try discriminate; simpl in H |- *; auto.
  - apply andb_true_iff in H. destruct H as [H Hr]. apply andb_true_iff in H. destruct H as [Hf Hs].
    apply fmt_eqb_eq in Hf. apply orb_true_iff in Hs. auto.
  - apply andb_true_iff in H. destruct H as [H Hu]. apply andb_true_iff in H. destruct H as [Hl Hi].
    destruct (enum_by_label labels label) as [[l' i']|] eqn:E; try discriminate.
    apply andb_true_iff in Hl. destruct Hl as [Hl1 Hl2]. apply bytes_eqb_eq in Hl1. apply Z.eqb_eq in Hl2. subst.
    destruct (parse_int l'); try discriminate. destruct (parse_uint l'); try discriminate. auto.
Qed.
