(** Proofs about Tree/JsonSession.v: a JSONWtr value behaves, over ANY history of Out/configuration
    assignments, Node()+InsertInto exports and JSON(sel) calls, and over streams that fail at any
    position, exactly like a fresh writer per export ([session_is_fresh_writers]); per stream
    ([session_streams]): a stream ends up holding the documents of the exports that were directed at
    it, each once, in order (as much of them as it accepts), and nothing else. *)
From Coq Require Import ZArith List Bool Arith Lia Strings.Byte.
From YV Require Import Val.Model Tree.Schema Tree.Editor Tree.Export Tree.JStr Tree.JsonSpec Tree.JsonExp Tree.JsonW
  Tree.JsonSession.
Import ListNotations.
Open Scope nat_scope.

(** ** lists *)
Lemma nth_error_set_nth_eq {A} : forall (l : list A) k x a,
  nth_error l k = Some a -> nth_error (set_nth k x l) k = Some x.
Proof.
  induction l as [|h t IH]; intros [|k] x a H; cbn in *; try discriminate; [reflexivity|].
  eapply IH; eassumption.
Qed.

Lemma nth_error_set_nth_neq {A} : forall (l : list A) k j x,
  j <> k -> nth_error (set_nth k x l) j = nth_error l j.
Proof.
  induction l as [|h t IH]; intros [|k] [|j] x H; cbn; try reflexivity; try congruence.
  apply IH. congruence.
Qed.

Lemma set_nth_set_nth {A} : forall (l : list A) k x y, set_nth k y (set_nth k x l) = set_nth k y l.
Proof.
  induction l as [|h t IH]; intros [|k] x y; cbn; try reflexivity. f_equal. apply IH.
Qed.

Lemma set_nth_id {A} : forall (l : list A) k a, nth_error l k = Some a -> set_nth k a l = l.
Proof.
  induction l as [|h t IH]; intros [|k] a H; cbn in *; try discriminate.
  - congruence.
  - f_equal. apply IH. exact H.
Qed.

Lemma set_nth_last {A} (l : list A) x y : set_nth (length l) y (l ++ [x]) = l ++ [y].
Proof. induction l as [|h t IH]; cbn; [reflexivity|]. f_equal. exact IH. Qed.

Lemma set_nth_app_l {A} : forall (l r : list A) k x, k < length l -> set_nth k x (l ++ r) = set_nth k x l ++ r.
Proof.
  induction l as [|h t IH]; intros r [|k] x H; cbn in *; try lia; [reflexivity|].
  f_equal. apply IH. lia.
Qed.

(** ** streams: offering c1 and then c2 is offering c1 ++ c2 *)
Lemma sink_eta s : mkSink (sk_data s) (sk_cap s) = s.
Proof. destruct s; reflexivity. Qed.

Lemma sink_write1_nil s : sink_write1 s [] = (s, false).
Proof.
  unfold sink_write1. destruct (sk_cap s) eqn:E; cbn [length Nat.leb]; rewrite app_nil_r; rewrite <- E; rewrite sink_eta; reflexivity.
Qed.

Lemma sink_write1_cap s c : sk_cap (fst (sink_write1 s c)) = sk_cap s.
Proof.
  unfold sink_write1. destruct (sk_cap s) eqn:E; [|reflexivity].
  destruct (Nat.leb (length c) (n - length (sk_data s))); reflexivity.
Qed.

Lemma sink_write1_app s c1 c2 :
  sink_write1 s (c1 ++ c2) =
  (let (s1, f1) := sink_write1 s c1 in if f1 then (s1, true) else sink_write1 s1 c2).
Proof.
  unfold sink_write1. destruct (sk_cap s) as [n|] eqn:E.
  - destruct (Nat.leb (length c1) (n - length (sk_data s))) eqn:E1.
    + apply Nat.leb_le in E1. cbn [sk_cap sk_data]. rewrite !app_length.
      destruct (Nat.leb (length c1 + length c2) (n - length (sk_data s))) eqn:E2.
      * apply Nat.leb_le in E2.
        assert (H : Nat.leb (length c2) (n - (length (sk_data s) + length c1)) = true) by (apply Nat.leb_le; lia).
        rewrite H, app_assoc. reflexivity.
      * apply Nat.leb_gt in E2.
        assert (H : Nat.leb (length c2) (n - (length (sk_data s) + length c1)) = false) by (apply Nat.leb_gt; lia).
        rewrite H. rewrite firstn_app, (firstn_all2 c1) by lia. rewrite app_assoc.
        replace (n - length (sk_data s) - length c1) with (n - (length (sk_data s) + length c1)) by lia. reflexivity.
    + apply Nat.leb_gt in E1. rewrite app_length.
      assert (H : Nat.leb (length c1 + length c2) (n - length (sk_data s)) = false) by (apply Nat.leb_gt; lia).
      rewrite H. rewrite firstn_app.
      replace (n - length (sk_data s) - length c1) with 0 by lia. cbn [firstn]. rewrite app_nil_r. reflexivity.
  - cbn [sk_cap sk_data]. rewrite app_assoc. reflexivity.
Qed.

(** a stream that has failed is full: it takes nothing more *)
Lemma sink_write1_after_fail s c1 c2 :
  snd (sink_write1 s c1) = true -> fst (sink_write1 (fst (sink_write1 s c1)) c2) = fst (sink_write1 s c1).
Proof.
  unfold sink_write1. destruct (sk_cap s) as [n|] eqn:E; [|cbn; discriminate].
  destruct (Nat.leb (length c1) (n - length (sk_data s))) eqn:E1; cbn [snd fst]; [discriminate|]. intros _.
  apply Nat.leb_gt in E1. cbn [sk_cap sk_data]. rewrite app_length, firstn_length.
  replace (n - (length (sk_data s) + Nat.min (n - length (sk_data s)) (length c1))) with 0 by lia.
  destruct (Nat.leb (length c2) 0) eqn:E2; cbn [fst firstn].
  - apply Nat.leb_le in E2. destruct c2; [|cbn in E2; lia]. rewrite app_nil_r. reflexivity.
  - rewrite app_nil_r. reflexivity.
Qed.

(** the monoid-action law on what the stream holds *)
Lemma sink_offer_app s c1 c2 :
  fst (sink_write1 s (c1 ++ c2)) = fst (sink_write1 (fst (sink_write1 s c1)) c2).
Proof.
  rewrite sink_write1_app. destruct (sink_write1 s c1) as [s1 f1] eqn:E. destruct f1; cbn [fst].
  - pose proof (sink_write1_after_fail s c1 c2) as H. rewrite E in H. cbn [fst snd] in H. symmetry. apply H. reflexivity.
  - reflexivity.
Qed.

Lemma filled_cons s d ds : filled s (d :: ds) = filled (fst (sink_write1 s d)) ds.
Proof. unfold filled. cbn [concat]. apply sink_offer_app. Qed.

Lemma filled_nil s : filled s [] = s.
Proof. unfold filled. cbn [concat]. rewrite sink_write1_nil. reflexivity. Qed.

(** ** one export through the buffer = the whole document offered to the bound stream *)
Definition wbytes (ops : list wop) : list byte := concat (map fst ops).

Lemma wbytes_ops_of ts : wbytes (ops_of ts) = render ts.
Proof.
  unfold wbytes, ops_of, render. induction ts as [|t tl IH]; [reflexivity|].
  cbn [map concat fst flat_map]. rewrite IH. reflexivity.
Qed.

Lemma run_wops_err : forall ops ss b, bw_err b = true -> run_wops ss b ops = (ss, b).
Proof.
  induction ops as [|[p chk] tl IH]; intros ss b E; [reflexivity|].
  cbn [run_wops]. unfold bw_write. rewrite E. rewrite E. destruct chk; cbn [andb]; [reflexivity|]. apply IH. exact E.
Qed.

Lemma bw_flush_err ss b : bw_err b = true -> bw_flush ss b = (ss, b).
Proof. intros E. unfold bw_flush. rewrite E. reflexivity. Qed.

Lemma export_through_buffer : forall ops ss b s,
  bw_err b = false -> nth_error ss (bw_target b) = Some s ->
  bw_flush (fst (run_wops ss b ops)) (snd (run_wops ss b ops)) =
  (set_nth (bw_target b) (fst (sink_write1 s (bw_pend b ++ wbytes ops))) ss,
   mkBW (bw_target b) [] (snd (sink_write1 s (bw_pend b ++ wbytes ops)))).
Proof.
  induction ops as [|[p chk] tl IH]; intros ss b s E Hs.
  - cbn [run_wops fst snd wbytes map concat]. rewrite app_nil_r. unfold bw_flush, to_sink. rewrite E, Hs.
    destruct (sink_write1 s (bw_pend b)); reflexivity.
  - cbn [run_wops]. unfold bw_write. rewrite E.
    change (wbytes ((p, chk) :: tl)) with (p ++ wbytes tl). rewrite app_assoc.
    destruct (Nat.ltb bufsize (length (bw_pend b ++ p))) eqn:Eb.
    + unfold to_sink. rewrite Hs. rewrite (sink_write1_app s (bw_pend b ++ p) (wbytes tl)).
      destruct (sink_write1 s (bw_pend b ++ p)) as [s1 f1] eqn:E1. cbn [bw_err].
      destruct f1.
      * (* the stream failed: the error is kept whether or not this write's result is looked at *)
        assert (Hrest : run_wops (set_nth (bw_target b) s1 ss) (mkBW (bw_target b) [] true) tl =
                        (set_nth (bw_target b) s1 ss, mkBW (bw_target b) [] true)) by (apply run_wops_err; reflexivity).
        destruct chk; cbn [andb fst snd]; [|rewrite Hrest; cbn [fst snd]]; rewrite bw_flush_err by reflexivity; reflexivity.
      * rewrite andb_false_r.
        rewrite (IH (set_nth (bw_target b) s1 ss) (mkBW (bw_target b) [] false) s1); cbn [bw_err bw_target bw_pend app]; try reflexivity.
        -- rewrite set_nth_set_nth. reflexivity.
        -- eapply nth_error_set_nth_eq. exact Hs.
    + cbn [bw_err]. rewrite andb_false_r.
      rewrite (IH ss (mkBW (bw_target b) (bw_pend b ++ p) false) s); cbn [bw_err bw_target bw_pend]; try reflexivity. exact Hs.
Qed.

(** the same when the buffer is bound to no stream at all: an error, nothing written *)
Lemma export_no_stream : forall ops ss b,
  bw_err b = false -> nth_error ss (bw_target b) = None ->
  fst (bw_flush (fst (run_wops ss b ops)) (snd (run_wops ss b ops))) = ss /\
  bw_err (snd (bw_flush (fst (run_wops ss b ops)) (snd (run_wops ss b ops)))) = true.
Proof.
  induction ops as [|[p chk] tl IH]; intros ss b E Hs.
  - cbn [run_wops fst snd]. unfold bw_flush, to_sink. rewrite E, Hs. split; reflexivity.
  - cbn [run_wops]. unfold bw_write. rewrite E.
    destruct (Nat.ltb bufsize (length (bw_pend b ++ p))) eqn:Eb.
    + unfold to_sink. rewrite Hs. cbn [bw_err].
      assert (Hrest : run_wops ss (mkBW (bw_target b) [] true) tl = (ss, mkBW (bw_target b) [] true)) by (apply run_wops_err; reflexivity).
      destruct chk; cbn [andb fst snd]; [|rewrite Hrest; cbn [fst snd]]; rewrite bw_flush_err by reflexivity; split; reflexivity.
    + cbn [bw_err]. rewrite andb_false_r. apply IH; cbn [bw_err bw_target]; [reflexivity|exact Hs].
Qed.

(** ** the session *)
Section Session.
  Variable fmt_float : Z -> Z -> list byte.
  Variable idmod : ident -> option ident.
  Variable starts : list start.

  Notation jexport := (jw_export jw_node fmt_float idmod starts).
  Notation jjson := (jw_json jw_node fmt_float idmod starts).
  Notation docof := (doc_of fmt_float idmod starts).

  (** one export of a reused writer: whatever buffer the writer still carries, the document of a
      fresh writer goes as a whole to the stream that is Out now *)
  Definition fresh_export (ss : streams) (out : nat) (d : list byte) : streams * bool :=
    match nth_error ss out with
    | Some s => (set_nth out (fst (sink_write1 s d)) ss, snd (sink_write1 s d))
    | None => (ss, true)
    end.

  Lemma export_is_fresh ss w i :
    match docof (jw_cfg w) i with
    | None => jexport ss w i = None
    | Some d => exists b', jexport ss w i =
                           Some (fst (fresh_export ss (jw_out w) d), mkJW (jw_out w) (jw_cfg w) (Some b'),
                                 snd (fresh_export ss (jw_out w) d))
    end.
  Proof.
    unfold jw_export, doc_of, jw_node, write_bytes, fresh_export. cbn [jw_buf jw_cfg jw_out].
    destruct (nth_error starts i) as [st|]; [|reflexivity].
    destruct (wstart (jw_cfg w) fmt_float idmod st) as [ts|]; cbn [option_map]; [|reflexivity].
    destruct (run_wops ss (new_bufw (jw_out w)) (ops_of ts)) as [ss1 b1] eqn:E1.
    destruct (bw_flush ss1 b1) as [ss2 b2] eqn:E2. exists b2.
    destruct (nth_error ss (jw_out w)) as [s|] eqn:Hs.
    - pose proof (export_through_buffer (ops_of ts) ss (new_bufw (jw_out w)) s eq_refl Hs) as H.
      rewrite E1 in H. cbn [fst snd] in H. rewrite E2 in H. cbn [new_bufw bw_pend bw_target app] in H.
      rewrite wbytes_ops_of in H. injection H as -> ->. reflexivity.
    - pose proof (export_no_stream (ops_of ts) ss (new_bufw (jw_out w)) eq_refl Hs) as [Ha Hb].
      rewrite E1 in Ha, Hb. cbn [fst snd] in Ha, Hb. rewrite E2 in Ha, Hb. cbn [fst snd] in Ha, Hb. subst ss2.
      rewrite Hb. reflexivity.
  Qed.

  (** JSON(sel): the document, no error; the caller's streams are as before *)
  Lemma json_is_fresh ss w i :
    jjson ss w i =
    match docof (jw_cfg w) i with
    | None => None
    | Some d => Some (ss, false, d)
    end.
  Proof.
    unfold jw_json. pose proof (export_is_fresh (ss ++ [mkSink [] None]) (mkJW (length ss) (jw_cfg w) (jw_buf w)) i) as H.
    cbn [jw_cfg jw_out] in H.
    destruct (docof (jw_cfg w) i) as [d|]; [|rewrite H; reflexivity].
    destruct H as [b' H]. rewrite H. unfold fresh_export.
    rewrite nth_error_app2 by lia. rewrite Nat.sub_diag. cbn [nth_error].
    unfold sink_write1. cbn [sk_cap sk_data app fst snd].
    rewrite set_nth_last. rewrite firstn_app, firstn_all, Nat.sub_diag. cbn [firstn]. rewrite app_nil_r.
    rewrite app_nth2 by lia. rewrite Nat.sub_diag. cbn [nth sk_data]. reflexivity.
  Qed.

  (** THEOREM (unbounded: every history, every stream capacity, every schema and tree): a reused
      writer does what fresh writers would do - each export delivers the fresh-writer document of the
      configuration of that moment to the stream that is Out at that moment, reports an error exactly
      when that stream did not take all of it; JSON(sel) returns the document and touches no stream.
      Nothing of an earlier export (buffer, stream binding, error) survives into the next. *)
  Theorem session_is_fresh_writers : forall ops ss w,
    run_session jw_node fmt_float idmod starts ss w ops =
    spec_session fmt_float idmod starts ss (jw_out w) (jw_cfg w) ops.
  Proof.
    induction ops as [|op tl IH]; intros ss w; [reflexivity|].
    cbn [run_session spec_session]. destruct op as [k|c|i|i].
    - rewrite IH. reflexivity.
    - rewrite IH. reflexivity.
    - pose proof (export_is_fresh ss w i) as H. destruct (docof (jw_cfg w) i) as [d|]; [|rewrite H; reflexivity].
      destruct H as [b' H]. rewrite H. unfold fresh_export.
      destruct (nth_error ss (jw_out w)) as [s|].
      + destruct (sink_write1 s d) as [s' f]. cbn [fst snd]. rewrite IH. reflexivity.
      + cbn [fst snd]. rewrite IH. reflexivity.
    - rewrite json_is_fresh. destruct (docof (jw_cfg w) i) as [d|]; [|reflexivity].
      rewrite IH. reflexivity.
  Qed.

  (** per stream: after any history that the model covers, stream [k] holds what it held before
      followed by the documents of exactly the exports made while Out was [k], each once, in order
      (cut where the stream stopped accepting) *)
  Lemma spec_streams : forall ops ss out cfg ssf rs k s,
    spec_session fmt_float idmod starts ss out cfg ops = Some (ssf, rs) ->
    nth_error ss k = Some s ->
    nth_error ssf k = Some (filled s (directed fmt_float idmod starts k out cfg ops)).
  Proof.
    induction ops as [|op tl IH]; intros ss out cfg ssf rs k s H Hk.
    - cbn in H. injection H as <- <-. cbn [directed]. rewrite filled_nil. exact Hk.
    - cbn [spec_session] in H. destruct op as [k'|c|i|i]; cbn [directed].
      + destruct (spec_session fmt_float idmod starts ss k' cfg tl) as [[ssf' rs']|] eqn:E; [|discriminate].
        injection H as <- <-. eapply IH; eassumption.
      + destruct (spec_session fmt_float idmod starts ss out c tl) as [[ssf' rs']|] eqn:E; [|discriminate].
        injection H as <- <-. eapply IH; eassumption.
      + destruct (docof cfg i) as [d|]; [|discriminate].
        destruct (nth_error ss out) as [so|] eqn:Ho.
        * destruct (sink_write1 so d) as [s' f] eqn:Ew.
          destruct (spec_session fmt_float idmod starts (set_nth out s' ss) out cfg tl) as [[ssf' rs']|] eqn:E; [|discriminate].
          injection H as <- <-. destruct (Nat.eqb out k) eqn:Eok.
          -- apply Nat.eqb_eq in Eok. subst k. rewrite Hk in Ho. injection Ho as <-.
             rewrite filled_cons, Ew. cbn [fst]. eapply IH; [exact E|]. eapply nth_error_set_nth_eq. exact Hk.
          -- apply Nat.eqb_neq in Eok. eapply IH; [exact E|]. rewrite nth_error_set_nth_neq by congruence. exact Hk.
        * destruct (spec_session fmt_float idmod starts ss out cfg tl) as [[ssf' rs']|] eqn:E; [|discriminate].
          injection H as <- <-. destruct (Nat.eqb out k) eqn:Eok.
          -- apply Nat.eqb_eq in Eok. subst k. congruence.
          -- eapply IH; eassumption.
      + destruct (docof cfg i) as [d|]; [|discriminate].
        destruct (spec_session fmt_float idmod starts ss out cfg tl) as [[ssf' rs']|] eqn:E; [|discriminate].
        injection H as <- <-. eapply IH; eassumption.
  Qed.

  Theorem session_streams : forall ops ss w ssf rs k s,
    run_session jw_node fmt_float idmod starts ss w ops = Some (ssf, rs) ->
    nth_error ss k = Some s ->
    nth_error ssf k = Some (filled s (directed fmt_float idmod starts k (jw_out w) (jw_cfg w) ops)).
  Proof.
    intros ops ss w ssf rs k s H. rewrite session_is_fresh_writers in H. eapply spec_streams. exact H.
  Qed.
End Session.

(** a stream without a limit that was empty holds exactly the concatenation of those documents *)
Lemma filled_unlimited ds : filled (mkSink [] None) ds = mkSink (concat ds) None.
Proof. reflexivity. Qed.

(** ** the variant that keeps its bufio.Writer is NOT a sequence of fresh writers: the second export,
    made after Out was pointed at another stream, leaves that stream empty and lands in the first *)
Definition rf_meta (n : list byte) : nmeta := mkMeta n [x6d] true [] None.
Definition rf_schema : snode := SCont (rf_meta [x6d]) [SLeaf (rf_meta [x61]) TBool false None].
Definition rf_start : start := StCont true rf_schema (DCont [Some (DLeaf (LV (VBool true)))]).
Definition rf_streams : streams := [mkSink [] None; mkSink [] None].
Definition rf_ops : list sop := [SOut 0; SExport 0; SOut 1; SExport 0].
Definition rf_cfg : wcfg := mkCfg false false false.
Definition rf_float (m e : Z) : list byte := [].
Definition rf_idmod (l : ident) : option ident := None.

Lemma keep_buffer_refuted :
  run_session jw_node_keep rf_float rf_idmod [rf_start] rf_streams (mkJW 0 rf_cfg None) rf_ops <>
  spec_session rf_float rf_idmod [rf_start] rf_streams 0 rf_cfg rf_ops.
Proof. vm_compute. discriminate. Qed.

Lemma fresh_buffer_example :
  run_session jw_node rf_float rf_idmod [rf_start] rf_streams (mkJW 0 rf_cfg None) rf_ops =
  Some ([mkSink [x7b; x22; x61; x22; x3a; x74; x72; x75; x65; x7d] None;
         mkSink [x7b; x22; x61; x22; x3a; x74; x72; x75; x65; x7d] None], [RSet; RExp false; RSet; RExp false]).
Proof. vm_compute. reflexivity. Qed.
