(** Proofs about the slice-level model of expandPaths (Tree/PathMem.v), for EVERY growth policy of
    append: the repaired expandPaths reads out as the list-level [PathExpr.expand_paths] (every
    alternative of a group after a prefix of any length is present), leaves every slice that
    existed before reading the same, and only ever extends the heap; the defective
    `append(dest, src...)` is refuted under Go's policy by the a/b/c/(d;e) witness. *)
From Coq Require Import ZArith List Bool Arith Lia Strings.Byte.
From YV Require Import Val.Model Tree.Schema Tree.PathExpr Tree.PathExprProofs Tree.PathMem.
Import ListNotations.

Definition live (h : heap) (s : slice) : Prop := (fst s < length h)%nat.

Lemma live_ext h e s : live h s -> live (h ++ e) s.
Proof. unfold live. rewrite app_length. lia. Qed.
Lemma live_ext_all h e l : Forall (live h) l -> Forall (live (h ++ e)) l.
Proof. intros H. eapply Forall_impl; [|exact H]. intros a. apply live_ext. Qed.

Lemma rd_frame h ext s : live h s -> rd (h ++ ext) s = rd h s.
Proof. unfold live, rd, arr_at. intros H. now rewrite app_nth1. Qed.

Lemma upd_last h x a : upd (h ++ [x]) (length h) a = h ++ [a].
Proof. induction h; simpl; [reflexivity | now rewrite IHh]. Qed.

Lemma arr_at_last h x : arr_at (h ++ [x]) (length h) = x.
Proof. unfold arr_at. now rewrite nth_middle. Qed.

Lemma firstn_app_exact {A} (a b : list A) : firstn (length a) (a ++ b) = a.
Proof. induction a; simpl; [reflexivity | now rewrite IHa]. Qed.

Section Grow.
Variable grow : nat -> nat -> nat.

Lemma alloc_spec h xs c h' x : alloc grow h xs c = (h', x) ->
  (exists a, h' = h ++ [a]) /\ rd h' x = xs /\ live h' x.
Proof.
  unfold alloc. intros E; inversion E; subst; clear E. split; [eexists; reflexivity|]. split.
  - unfold rd. simpl. rewrite arr_at_last. simpl. apply firstn_all.
  - unfold live. simpl. rewrite app_length. simpl. lia.
Qed.

(** the repaired entry: a fresh array, whatever the capacities are *)
Lemma expand_one_spec h dest src h' x :
  live h dest -> live h src -> expand_one grow h dest src = (h', x) ->
  (exists ext, h' = h ++ ext) /\ rd h' x = rd h dest ++ rd h src /\ live h' x.
Proof.
  intros Hd Hs. unfold expand_one, alloc.
  rewrite (rd_frame h _ src Hs).
  remember (rd h dest) as d. remember (rd h src) as xs.
  remember (Nat.max (grow 0%nat (length d)) (length d)) as c.
  unfold append. cbn [fst snd]. rewrite arr_at_last. rewrite firstn_all.
  destruct (length d + length xs <=? c)%nat.
  - rewrite upd_last. intros E; inversion E; subst h' x; clear E.
    split; [eexists; reflexivity|]. split.
    + unfold rd. cbn [fst snd]. rewrite arr_at_last. cbn [fst].
      rewrite app_assoc, <- app_length. apply firstn_app_exact.
    + unfold live. cbn [fst]. rewrite app_length. simpl. lia.
  - intros E. apply alloc_spec in E. destruct E as [[a ->] [R L]].
    split; [rewrite <- app_assoc; eexists; reflexivity|]. split; assumption.
Qed.

Lemma expand_row_spec : forall subs h dest h' out,
  live h dest -> Forall (live h) subs -> expand_row (expand_one grow) h dest subs = (h', out) ->
  (exists ext, h' = h ++ ext)
  /\ map (rd h') out = map (fun s => rd h dest ++ rd h s) subs
  /\ Forall (live h') out.
Proof.
  induction subs as [|s tl IH]; simpl; intros h dest h' out Hd Hs E.
  - inversion E; subst. split; [exists []; now rewrite app_nil_r|]. split; constructor.
  - destruct (expand_one grow h dest s) as [h1 x] eqn:E1.
    destruct (expand_row (expand_one grow) h1 dest tl) as [h2 xs] eqn:E2.
    inversion E; subst h' out; clear E.
    inversion Hs as [|? ? Hs1 Hs2]; subst.
    destruct (expand_one_spec _ _ _ _ _ Hd Hs1 E1) as [[e1 ->] [R1 L1]].
    destruct (IH _ _ _ _ (live_ext _ e1 _ Hd) (live_ext_all _ e1 _ Hs2) E2) as [[e2 ->] [R2 L2]].
    split; [exists (e1 ++ e2); now rewrite app_assoc|]. split.
    + simpl. f_equal.
      * rewrite rd_frame by exact L1. exact R1.
      * rewrite R2. apply map_ext_in. intros a Ha.
        rewrite Forall_forall in Hs2. rewrite !rd_frame; auto.
    + constructor; [apply live_ext; exact L1 | exact L2].
Qed.

Lemma expand_all_spec : forall dests h subs h' out,
  Forall (live h) dests -> Forall (live h) subs -> expand_all (expand_one grow) h dests subs = (h', out) ->
  (exists ext, h' = h ++ ext)
  /\ map (rd h') out = cross (map (rd h) dests) (map (rd h) subs)
  /\ Forall (live h') out.
Proof.
  induction dests as [|d tl IH]; intros h subs h' out Hd Hs E; cbn [expand_all] in E.
  - inversion E; subst. split; [exists []; now rewrite app_nil_r|]. split; [reflexivity | constructor].
  - destruct (expand_row (expand_one grow) h d subs) as [h1 xs] eqn:E1.
    destruct (expand_all (expand_one grow) h1 tl subs) as [h2 ys] eqn:E2.
    inversion E; subst h' out; clear E.
    inversion Hd as [|? ? Hd1 Hd2]; subst.
    destruct (expand_row_spec _ _ _ _ _ Hd1 Hs E1) as [[e1 ->] [R1 L1]].
    destruct (IH _ _ _ _ (live_ext_all _ e1 _ Hd2) (live_ext_all _ e1 _ Hs) E2) as [[e2 ->] [R2 L2]].
    split; [exists (e1 ++ e2); now rewrite app_assoc|]. split.
    + rewrite map_cons, cross_cons, map_app. f_equal.
      * rewrite map_map.
        rewrite <- R1. apply map_ext_in. intros a Ha.
        rewrite Forall_forall in L1. now rewrite rd_frame by auto.
      * rewrite R2. f_equal; apply map_ext_in; intros a Ha.
        -- rewrite Forall_forall in Hd2. now rewrite rd_frame by auto.
        -- rewrite Forall_forall in Hs. now rewrite rd_frame by auto.
    + apply Forall_app. split; [apply live_ext_all; exact L1 | exact L2].
Qed.

Lemma copy_all_spec : forall subs h h' out,
  Forall (live h) subs -> copy_all grow h subs = (h', out) ->
  (exists ext, h' = h ++ ext) /\ map (rd h') out = map (rd h) subs /\ Forall (live h') out.
Proof.
  induction subs as [|s tl IH]; intros h h' out Hs E; cbn [copy_all] in E.
  - inversion E; subst. split; [exists []; now rewrite app_nil_r|]. split; [reflexivity | constructor].
  - destruct (alloc grow h (rd h s) 0%nat) as [h1 x] eqn:E1.
    destruct (copy_all grow h1 tl) as [h2 xs] eqn:E2.
    inversion E; subst h' out; clear E.
    inversion Hs as [|? ? Hs1 Hs2]; subst.
    destruct (alloc_spec _ _ _ _ _ E1) as [[a ->] [R1 L1]].
    destruct (IH _ _ _ (live_ext_all _ [a] _ Hs2) E2) as [[e2 ->] [R2 L2]].
    split; [exists ([a] ++ e2); now rewrite app_assoc|]. split.
    + simpl. f_equal.
      * rewrite rd_frame by exact L1. exact R1.
      * rewrite R2. apply map_ext_in. intros b Hb.
        rewrite Forall_forall in Hs2. now rewrite rd_frame by auto.
    + constructor; [apply live_ext; exact L1 | exact L2].
Qed.

(** expandPaths as repaired, for every heap, every list of paths with any capacities, every
    group and every growth policy: what is read through the new paths is the list-level
    expansion; every slice that existed before still reads the same; the new paths are live *)
Theorem expand_paths_mem_spec h ps sub h' out :
  Forall (live h) ps -> Forall (live h) sub -> expand_paths_mem grow h ps sub = (h', out) ->
  map (rd h') out = expand_paths (map (rd h) ps) (map (rd h) sub)
  /\ (forall s, live h s -> rd h' s = rd h s)
  /\ Forall (live h') out.
Proof.
  intros Hp Hs. unfold expand_paths_mem, expand_paths_gen, expand_paths.
  destruct sub as [|s0 sub'].
  - intros E; inversion E; subst. simpl. split; [reflexivity|]. split; [reflexivity | exact Hp].
  - destruct ps as [|p0 ps'].
    + intros E. destruct (copy_all_spec _ _ _ _ Hs E) as [[e ->] [R L]].
      split; [exact R|]. split; [intros s; apply rd_frame | exact L].
    + intros E. destruct (expand_all_spec _ _ _ _ _ Hp Hs E) as [[e ->] [R L]].
      split; [exact R|]. split; [intros s; apply rd_frame | exact L].
Qed.

(** every alternative of the group is there behind every path that was there: the clause
    "alternative paths included", at the level of the slices *)
Corollary expand_paths_mem_keeps_every_alternative h ps sub h' out p s :
  Forall (live h) ps -> Forall (live h) sub -> expand_paths_mem grow h ps sub = (h', out) ->
  In p ps -> In s sub -> In (rd h p ++ rd h s) (map (rd h') out).
Proof.
  intros Hp Hs E Ip Is. destruct (expand_paths_mem_spec _ _ _ _ _ Hp Hs E) as [R _]. rewrite R.
  unfold expand_paths.
  destruct (map (rd h) sub) eqn:Es; [destruct sub; [destruct Is | discriminate]|].
  destruct (map (rd h) ps) eqn:Ep; [destruct ps; [destruct Ip | discriminate]|].
  rewrite <- Es, <- Ep. unfold cross. apply in_flat_map. exists (rd h p). split; [now apply in_map|].
  apply in_map_iff. exists (rd h s). split; [reflexivity | now apply in_map].
Qed.
End Grow.

(** the defective entry under Go's growth policy: the prefix a/b/c built by addSegment has
    capacity 4, both alternatives of (d;e) are written into its spare cell, the last one wins.
    97..101 = "a".."e" *)
Definition ia : ident := [x61]. Definition ib : ident := [x62]. Definition ic : ident := [x63].
Definition id_ : ident := [x64]. Definition ie : ident := [x65].
(** a/b/c/(d;e) *)
Definition abc_de : list byte := [x61; x2f; x62; x2f; x63; x2f; x28; x64; x3b; x65; x29].

Example expand_old_mem_refuted :
  parse_mem_old abc_de = POk [[ia; ib; ic; ie]; [ia; ib; ic; ie]]
  /\ parse_mem abc_de = POk [[ia; ib; ic; id_]; [ia; ib; ic; ie]]
  /\ parse_path_expr abc_de = POk [[ia; ib; ic; id_]; [ia; ib; ic; ie]].
Proof. vm_compute. repeat split. Qed.

(** stated as the failure of the theorem above for the old entry *)
Definition expand_old_full_statement : Prop :=
  forall h ps sub h' out, Forall (live h) ps -> Forall (live h) sub ->
    expand_paths_mem_old go_grow h ps sub = (h', out) ->
    map (rd h') out = expand_paths (map (rd h) ps) (map (rd h) sub).
Theorem expand_old_full_refuted : ~ expand_old_full_statement.
Proof.
  intros H.
  specialize (H [([ia; ib; ic], 4%nat); ([id_], 1%nat); ([ie], 1%nat)] [(0, 3)%nat] [(1, 1)%nat; (2, 1)%nat]).
  specialize (H _ _ ltac:(repeat constructor) ltac:(repeat constructor) eq_refl).
  vm_compute in H. discriminate H.
Qed.
