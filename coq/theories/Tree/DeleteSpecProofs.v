(** C18, model = specification, operation by operation: [apply_op kids tgt o = spec_op kids tgt o]
    on shaped targets with unique keys, under the side conditions [op_spec_ok] (decidable, per
    operation; each is needed - counter-examples in Props/C18.v):
      - delete by key: the key is usable (on a key-less list the model removes one row, the
        specification's filter all of them);
      - replace of a container: the supplied content mentions that container only, and its lists
        reached through containers have pairwise distinct usable keys;
      - replace of a list entry: the replacement row carries the key it replaces;
      - insert of rows: the rows have pairwise distinct usable keys.
    And [entry_found_under_its_key]: in a unique list every row with a usable key is the one found
    under its key. *)
From Coq Require Import List Bool Arith Lia Strings.Byte.
From YV Require Import Val.Model Tree.Schema Tree.Editor Tree.Merge Tree.EditorProofs Tree.InsertUpdateProofs
  Tree.KeyEquiv Tree.Delete Tree.DeleteProofs Tree.KeysUniqueProofs.
Import ListNotations.
Open Scope nat_scope.

(** * delete by key = filter *)
Lemma remove_row_is_filter keys key rows :
  rows_unique keys rows = true -> key_usable key = true ->
  remove_row keys key rows = filter (fun r => negb (key_eqb (row_key keys r) key)) rows.
Proof.
  intros Hu Hk. apply remove_row_filter; auto.
  - intros a b Ha Hb. eapply key_eqb_trans; [exact Hb|apply key_eqb_sym; exact Ha].
  - intros r _ E. rewrite (key_eqb_usable _ _ E). exact Hk.
Qed.

Lemma filter_all {A} (p : A -> bool) l : (forall x, In x l -> p x = true) -> filter p l = l.
Proof.
  induction l as [|a l IH]; intros H; simpl; [reflexivity|].
  rewrite (H a (or_introl eq_refl)). f_equal. apply IH. intros x Hx. apply H. right; assumption.
Qed.

Lemma filter_filter {A} (p q : A -> bool) l : filter p (filter q l) = filter (fun x => q x && p x) l.
Proof.
  induction l as [|a l IH]; simpl; [reflexivity|].
  destruct (q a); simpl; [destruct (p a); simpl|]; congruence.
Qed.

Lemma remove_rows_is_filter keys : forall ks rows,
  rows_unique keys rows = true -> forallb key_usable ks = true ->
  fold_left (fun acc k => remove_row keys k acc) ks rows
  = filter (fun r => negb (existsb (fun k => key_eqb (row_key keys r) k) ks)) rows.
Proof.
  induction ks as [|k ks IH]; intros rows Hu Hk.
  - simpl. symmetry. apply filter_all. reflexivity.
  - simpl in Hk. apply andb_true_iff in Hk as [Hk1 Hk]. cbn [fold_left].
    rewrite IH; [|apply rows_unique_remove; assumption|assumption].
    rewrite remove_row_is_filter by assumption. rewrite filter_filter.
    apply filter_ext. intros r. cbn [existsb]. rewrite negb_orb. reflexivity.
Qed.

(** * lookups in an appended list *)
Lemma find_row_app_some keys key b : forall a i j,
  find_row keys key a i = Some j -> find_row keys key (a ++ b) i = Some j.
Proof.
  induction a as [|r a IH]; intros i j H; simpl in *; [discriminate|].
  destruct (key_eqb (row_key keys r) key); auto.
Qed.

Lemma find_row_app_none keys key b : forall a i,
  find_row keys key a i = None -> find_row keys key (a ++ b) i = find_row keys key b (i + length a).
Proof.
  induction a as [|r a IH]; intros i H; simpl in *.
  - rewrite Nat.add_0_r. reflexivity.
  - destruct (key_eqb (row_key keys r) key); [discriminate|]. rewrite IH by assumption. f_equal. lia.
Qed.

Lemma find_row_none_shift keys key : forall b i j, find_row keys key b i = None -> find_row keys key b j = None.
Proof.
  induction b as [|r b IH]; intros i j H; simpl in *; [reflexivity|].
  destruct (key_eqb (row_key keys r) key); [discriminate|]. eauto.
Qed.

Lemma lookup_row_app_some keys sr a b j : lookup_row keys sr a = Some j -> lookup_row keys sr (a ++ b) = Some j.
Proof.
  unfold lookup_row. destruct (key_usable (row_key keys sr)); [|discriminate]. apply find_row_app_some.
Qed.

Lemma lookup_row_app_none keys sr a b :
  lookup_row keys sr a = None -> lookup_row keys sr b = None -> lookup_row keys sr (a ++ b) = None.
Proof.
  unfold lookup_row. destruct (key_usable (row_key keys sr)); [|reflexivity].
  intros Ha Hb. rewrite find_row_app_none by assumption. eapply find_row_none_shift; eauto.
Qed.

Lemma find_row_none_intro keys key : forall rows i,
  (forall r, In r rows -> key_eqb (row_key keys r) key = false) -> find_row keys key rows i = None.
Proof.
  induction rows as [|r rows IH]; intros i H; simpl; [reflexivity|].
  rewrite (H r (or_introl eq_refl)). apply IH. intros r' Hr'. apply H. right; assumption.
Qed.

(** * Insert of rows into an existing list: conflict iff a source row is present, else appended *)
Definition hits (keys : list nat) (trows : list dnode) (sr : dnode) : bool :=
  match lookup_row keys sr trows with Some _ => true | None => false end.

Lemma row_loop_insert_base rec keys row trows :
  (forall sr, shaped row sr = true -> rec row sr (empty_node row) true Upsert = Ok (merge_new row sr)) ->
  forallb (key_leaf_ok true (skids row)) keys = true ->
  forall srows seen, forallb (shaped row) srows = true -> forallb (shaped row) seen = true ->
    rows_distinct keys seen srows = true ->
    row_loop rec keys row Insert srows (trows ++ map (merge_new row) seen)
    = (if existsb (hits keys trows) srows then Err EConflict
       else Ok (trows ++ map (merge_new row) (seen ++ srows)))
    /\ (existsb (hits keys trows) srows = false ->
        merge_rows merge_one keys row srows (trows ++ map (merge_new row) seen)
        = trows ++ map (merge_new row) (seen ++ srows)).
Proof.
  intros Hrec Hk.
  induction srows as [|sr srows IH]; intros seen Hs Hseen Hd.
  - rewrite app_nil_r. split; reflexivity.
  - simpl in Hs, Hd. apply andb_true_iff in Hs as [Hsr Hs]. apply andb_true_iff in Hd as [Hd1 Hd].
    assert (Hlook : lookup_row keys sr (map (merge_new row) seen) = None).
    { rewrite lookup_row_map_key.
      - destruct (lookup_row keys sr seen); [discriminate|reflexivity].
      - intros r Hr. apply row_key_merge_new; [assumption|].
        rewrite forallb_forall in Hseen. auto. }
    assert (Hseen' : forallb (shaped row) (seen ++ [sr]) = true).
    { apply forallb_app'; [assumption|]. simpl. rewrite Hsr. reflexivity. }
    destruct (IH (seen ++ [sr]) Hs Hseen' Hd) as [A B].
    replace (trows ++ map (merge_new row) (seen ++ [sr]))
      with ((trows ++ map (merge_new row) seen) ++ [merge_new row sr]) in A, B
      by (rewrite map_app, app_assoc; reflexivity).
    replace ((seen ++ [sr]) ++ srows) with (seen ++ sr :: srows) in A, B
      by (rewrite <- app_assoc; reflexivity).
    cbn [row_loop existsb]. fold (lookup_row keys sr (trows ++ map (merge_new row) seen)).
    unfold hits at 1 3. destruct (lookup_row keys sr trows) as [j|] eqn:E.
    + rewrite (lookup_row_app_some _ _ _ _ _ E). split; [reflexivity|discriminate].
    + rewrite (lookup_row_app_none _ _ _ _ E Hlook). cbn [orb]. rewrite Hrec by assumption.
      split; [exact A|]. intros Hx. unfold merge_rows. cbn [fold_left].
      rewrite (lookup_row_app_none _ _ _ _ E Hlook). exact (B Hx).
Qed.

(** * contents that mention one position only *)
Definition only_atb (i : nat) (src : content) : bool :=
  forallb (fun j => Nat.eqb j i || negb (present (nth j src None))) (seq 0 (length src)).

Lemma only_atb_spec i src : only_atb i src = true -> forall j, j <> i -> nth j src None = None.
Proof.
  unfold only_atb. rewrite forallb_forall. intros H j Hj.
  destruct (Nat.lt_ge_cases j (length src)) as [Hl|Hl]; [|apply nth_overflow; assumption].
  specialize (H j). rewrite in_seq in H. specialize (H ltac:(lia)).
  apply Nat.eqb_neq in Hj. rewrite Hj in H. simpl in H.
  destruct (nth j src None); [discriminate|reflexivity].
Qed.

Lemma nth_set_nth_none {A} i (l : list (option A)) : nth i (set_nth i None l) None = None.
Proof. revert i; induction l as [|a l IH]; intros [|i]; simpl; auto. Qed.

Lemma set_nth_set_nth {A} i (x y : A) l : set_nth i x (set_nth i y l) = set_nth i x l.
Proof. revert i; induction l as [|a l IH]; intros [|i]; simpl; auto. f_equal. auto. Qed.

Lemma insert_conflicts_disjoint ks : forall sc tc,
  (forall j, nth j sc None = None \/ nth j tc None = None) -> insert_conflicts ks sc tc = false.
Proof.
  induction ks as [|k ks IH]; intros [|sd sc] [|td tc] H; simpl; auto.
  rewrite IH; [|intros j; apply (H (S j))].
  destruct (H 0) as [E|E]; simpl in E; subst; simpl; rewrite ?andb_false_r; reflexivity.
Qed.

Lemma merge_kids_length mrec created ks : forall sc tc,
  length sc = length ks -> length tc = length ks -> length (merge_kids mrec created ks sc tc) = length ks.
Proof.
  induction ks as [|k ks IH]; intros [|sd sc] [|td tc] Hs Ht; simpl in *; try discriminate; auto.
Qed.

(** a source mentioning nothing changes nothing; one mentioning position i only rebuilds position i *)
Lemma merge_kids_nothing mrec ks sc tc :
  length sc = length ks -> length tc = length ks -> (forall j, nth j sc None = None) ->
  merge_kids mrec false ks sc tc = tc.
Proof.
  intros Hs Ht Hn. apply (nth_ext _ _ None None).
  - rewrite merge_kids_length; auto.
  - intros n _. apply merge_frame; auto.
Qed.

Lemma merge_kids_only mrec ks sc tc i k sd :
  length sc = length ks -> length tc = length ks ->
  nth_error ks i = Some k -> is_leaf k = false -> nth i sc None = Some sd ->
  (forall j, j <> i -> nth j sc None = None) -> nth i tc None = None ->
  merge_kids mrec false ks sc tc = set_nth i (Some (mrec k sd (empty_node k) true)) tc.
Proof.
  intros Hs Ht Hk Hl Hsd Hn Hti. apply (nth_ext _ _ None None).
  - rewrite merge_kids_length, set_nth_length; auto.
  - intros n _. destruct (Nat.eq_dec n i) as [->|Hne].
    + rewrite (merge_node_law mrec false ks sc tc i k sd); auto. rewrite Hti. simpl.
      rewrite nth_set_nth_eq; [reflexivity|]. rewrite Ht. apply nth_error_Some. congruence.
    + rewrite merge_frame; auto. rewrite nth_set_nth_neq; auto.
Qed.

(** * side conditions, and the theorem *)
Definition op_spec_ok (kids : list snode) (o : op) : bool :=
  match o with
  | OpUpsert src => shaped_kids shaped kids src
  | OpDeleteKid _ => true
  | OpDeleteRow _ key => key_usable key
  | OpDeleteRows _ ks => forallb key_usable ks
  | OpReplaceKid i src =>
      shaped_kids shaped kids src && only_atb i src && negb (is_leaf (nth i kids dflt_s))
      && all_kids (src_distinct false) kids src
  | OpReplaceRow i key row =>
      key_usable key &&
      match nth i kids dflt_s with
      | SList _ keys r => shaped r row && key_eqb (row_key keys row) key
      | _ => true
      end
  | OpInsertRows i rows =>
      match nth i kids dflt_s with
      | SList _ keys r => forallb (shaped r) rows && rows_distinct keys [] rows
      | _ => true
      end
  end.

Section ModelIsSpec.
  Variable kids : list snode.
  Hypothesis Hwf : forallb wf_schema kids = true.
  Hypothesis Hcf : forallb choice_free kids = true.
  Hypothesis Hko : forallb (keys_ok true) kids = true.
  Variable tgt : content.
  Hypothesis Ht : shaped_kids shaped kids tgt = true.
  Hypothesis Hu : keys_unique_content kids tgt = true.

  Lemma upsert_is_spec src : shaped_kids shaped kids src = true ->
    apply_op kids tgt (OpUpsert src) = spec_op kids tgt (OpUpsert src).
  Proof. intros Hs. simpl. apply upsert_content_is_merge; assumption. Qed.

  Lemma delete_kid_is_spec i : apply_op kids tgt (OpDeleteKid i) = spec_op kids tgt (OpDeleteKid i).
  Proof. reflexivity. Qed.

  Lemma delete_row_is_spec i key : key_usable key = true ->
    apply_op kids tgt (OpDeleteRow i key) = spec_op kids tgt (OpDeleteRow i key).
  Proof.
    intros Hk. simpl.
    destruct (nth i kids (SCont (mkMeta [] [] true [] None) [])) as [| |m keys row] eqn:Ek; try reflexivity.
    destruct (nth i tgt None) as [[| |rows]|] eqn:Et; try reflexivity.
    apply nth_slist in Ek.
    pose proof (all_kids_nth keys_unique _ _ _ _ _ Hu Ek Et) as B. simpl in B.
    apply andb_true_iff in B as [B1 B2].
    rewrite remove_row_is_filter by assumption. reflexivity.
  Qed.

  Lemma delete_rows_is_spec i ks : forallb key_usable ks = true ->
    apply_op kids tgt (OpDeleteRows i ks) = spec_op kids tgt (OpDeleteRows i ks).
  Proof.
    intros Hk. simpl.
    destruct (nth i kids (SCont (mkMeta [] [] true [] None) [])) as [| |m keys row] eqn:Ek; try reflexivity.
    destruct (nth i tgt None) as [[| |rows]|] eqn:Et; try reflexivity.
    apply nth_slist in Ek.
    pose proof (all_kids_nth keys_unique _ _ _ _ _ Hu Ek Et) as B. simpl in B.
    apply andb_true_iff in B as [B1 B2].
    rewrite remove_rows_is_filter by assumption. reflexivity.
  Qed.

  Lemma replace_kid_is_spec i src :
    shaped_kids shaped kids src = true -> only_atb i src = true ->
    is_leaf (nth i kids dflt_s) = false -> all_kids (src_distinct false) kids src = true ->
    apply_op kids tgt (OpReplaceKid i src) = spec_op kids tgt (OpReplaceKid i src).
  Proof.
    intros Hs Ho Hl Hd. cbn [apply_op spec_op].
    pose proof (only_atb_spec _ _ Ho) as Hn.
    pose proof (shaped_kids_length _ _ _ Hs) as Ls. pose proof (shaped_kids_length _ _ _ Ht) as Lt.
    rewrite insert_full; auto; [|apply shaped_kids_set_none; assumption].
    rewrite insert_conflicts_disjoint.
    2:{ intros j. destruct (Nat.eq_dec j i) as [->|Hj]; [right; apply nth_set_nth_none|left; auto]. }
    unfold merge_content. fold dflt_s.
    destruct (nth i src None) as [sd|] eqn:Esd.
    - assert (Hi : i < length kids).
      { rewrite <- Ls. destruct (Nat.lt_ge_cases i (length src)) as [H|H]; [assumption|].
        rewrite nth_overflow in Esd by assumption. discriminate. }
      rewrite (merge_kids_only merge_one kids src (set_nth i None tgt) i (nth i kids dflt_s) sd); auto.
      + rewrite set_nth_set_nth. reflexivity.
      + rewrite set_nth_length. assumption.
      + apply nth_error_nth'. assumption.
      + apply nth_set_nth_none.
    - rewrite merge_kids_nothing; auto.
      + rewrite set_nth_length. assumption.
      + intros j. destruct (Nat.eq_dec j i) as [->|Hj]; auto.
  Qed.

  Lemma replace_row_is_spec i key row :
    key_usable key = true ->
    (forall m keys r, nth i kids dflt_s = SList m keys r ->
                      shaped r row = true /\ key_eqb (row_key keys row) key = true) ->
    apply_op kids tgt (OpReplaceRow i key row) = spec_op kids tgt (OpReplaceRow i key row).
  Proof.
    intros Hk Hrow. cbn [apply_op spec_op]. fold dflt_s.
    destruct (nth i kids dflt_s) as [| |m keys r] eqn:Ek; try reflexivity.
    destruct (nth i tgt None) as [[| |rows]|] eqn:Et; try reflexivity.
    destruct (Hrow m keys r eq_refl) as [Hsr Hkr].
    apply nth_slist in Ek.
    pose proof (all_kids_nth keys_unique _ _ _ _ _ Hu Ek Et) as B. simpl in B.
    apply andb_true_iff in B as [B1 B2].
    pose proof (forallb_nth_error _ _ _ _ Hwf Ek) as Hw. simpl in Hw.
    apply andb_true_iff in Hw as [Hnl Hw]. apply negb_true_iff in Hnl.
    pose proof (forallb_nth_error _ _ _ _ Hcf Ek) as Hc. simpl in Hc. apply andb_true_iff in Hc as [_ Hc].
    rewrite remove_row_is_filter by assumption.
    set (rest := filter (fun x => negb (key_eqb (row_key keys x) key)) rows).
    assert (Hfind : find_row keys (row_key keys row) rest 0 = None).
    { apply find_row_none_intro. intros x Hx. unfold rest in Hx. apply filter_In in Hx as [_ Hx].
      apply negb_true_iff in Hx.
      destruct (key_eqb (row_key keys x) (row_key keys row)) eqn:X; [|reflexivity].
      rewrite <- Hx. symmetry. eapply key_eqb_trans; eauto. }
    cbn [edit_one row_loop]. rewrite Hfind.
    destruct (key_usable (row_key keys row));
      rewrite (upsert_is_merge r Hw Hc Hnl row (empty_node r) true Hsr (shaped_empty_node r Hnl)); reflexivity.
  Qed.

  Lemma insert_rows_is_spec i srows :
    (forall m keys r, nth i kids dflt_s = SList m keys r ->
                      forallb (shaped r) srows = true /\ rows_distinct keys [] srows = true) ->
    apply_op kids tgt (OpInsertRows i srows) = spec_op kids tgt (OpInsertRows i srows).
  Proof.
    intros Hrows. cbn [apply_op spec_op]. fold dflt_s.
    destruct (nth i kids dflt_s) as [| |m keys r] eqn:Ek; try reflexivity.
    destruct (nth i tgt None) as [[| |rows]|] eqn:Et; try reflexivity.
    destruct (Hrows m keys r eq_refl) as [Hsr Hd].
    apply nth_slist in Ek.
    pose proof (forallb_nth_error _ _ _ _ Hwf Ek) as Hw. simpl in Hw.
    apply andb_true_iff in Hw as [Hnl Hw]. apply negb_true_iff in Hnl.
    pose proof (forallb_nth_error _ _ _ _ Hcf Ek) as Hc. simpl in Hc. apply andb_true_iff in Hc as [_ Hc].
    pose proof (forallb_nth_error _ _ _ _ Hko Ek) as Ho. simpl in Ho. apply andb_true_iff in Ho as [Hkl Ho].
    assert (Hrec : forall sr, shaped r sr = true ->
               edit_one false r sr (empty_node r) true Upsert = Ok (merge_new r sr)).
    { intros sr Hs. apply upsert_is_merge; auto. apply shaped_empty_node; assumption. }
    destruct (row_loop_insert_base (edit_one false) keys r rows Hrec Hkl srows [] Hsr eq_refl Hd) as [A B].
    simpl in A, B. rewrite app_nil_r in A, B.
    cbn [edit_one merge_one]. rewrite A.
    change (existsb (fun sr => match lookup_row keys sr rows with Some _ => true | None => false end) srows)
      with (existsb (hits keys rows) srows).
    destruct (existsb (hits keys rows) srows); [reflexivity|].
    rewrite B by reflexivity. reflexivity.
  Qed.

  Theorem apply_op_is_spec o : op_spec_ok kids o = true -> apply_op kids tgt o = spec_op kids tgt o.
  Proof.
    destruct o as [src|i|i key|i src|i key row|i srows|i ks]; cbn [op_spec_ok]; intros H.
    - apply upsert_is_spec; assumption.
    - apply delete_kid_is_spec.
    - apply delete_row_is_spec; assumption.
    - apply andb_true_iff in H as [H H4]. apply andb_true_iff in H as [H H3]. apply andb_true_iff in H as [H1 H2].
      apply negb_true_iff in H3. apply replace_kid_is_spec; assumption.
    - apply andb_true_iff in H as [H1 H2]. apply replace_row_is_spec; [assumption|].
      intros m keys r E. rewrite E in H2. apply andb_true_iff in H2. exact H2.
    - apply insert_rows_is_spec. intros m keys r E. rewrite E in H. apply andb_true_iff in H. exact H.
    - apply delete_rows_is_spec; assumption.
  Qed.
End ModelIsSpec.

(** * an entry is found under its own key *)
Lemma find_row_unique keys : forall rows p r i,
  rows_unique keys rows = true -> nth_error rows p = Some r ->
  key_usable (row_key keys r) = true -> key_eqb (row_key keys r) (row_key keys r) = true ->
  find_row keys (row_key keys r) rows i = Some (i + p).
Proof.
  induction rows as [|r0 rows IH]; intros p r i Hu Hp Hus Hrefl; [destruct p; discriminate|].
  apply rows_unique_cons in Hu as [Hr0 Hu]. destruct p as [|p]; simpl in Hp.
  - inversion Hp; subst r0. simpl. rewrite Hrefl. f_equal. lia.
  - simpl. destruct (key_eqb (row_key keys r0) (row_key keys r)) eqn:X.
    + exfalso. rewrite <- (key_eqb_usable _ _ X) in Hus.
      rewrite key_eqb_comm in X. rewrite (Hr0 Hus r) in X; [discriminate|].
      eapply nth_error_In; eauto.
    + rewrite (IH p r (S i)); auto. f_equal. lia.
Qed.

(** on shaped rows of a list whose key positions are leaves, a usable key consists of leaf values *)
Lemma row_key_leaves keys row r :
  forallb (key_leaf_ok false (skids row)) keys = true -> shaped row r = true ->
  key_usable (row_key keys r) = true -> forallb is_leaf_val (row_key keys r) = true.
Proof.
  intros Hk Hs Hus. unfold key_usable in Hus. apply andb_true_iff in Hus as [_ Hp].
  unfold row_key in *. rewrite forallb_forall in *. intros o Ho.
  specialize (Hp o Ho). apply in_map_iff in Ho as (i & <- & Hi).
  destruct (key_leaf_ok_inv _ _ _ (Hk i Hi)) as (m & ty & il & dflt & Hn & _).
  destruct row as [|mr kk|]; simpl in Hn; try (destruct i; discriminate).
  destruct r as [|c|]; simpl in Hs; try discriminate. simpl in *.
  destruct (nth i c None) as [d|] eqn:E; [|discriminate].
  pose proof (shaped_kids_nth _ _ _ _ _ _ Hs Hn E) as Hd. destruct d; try discriminate. reflexivity.
Qed.

Theorem entry_found_under_its_key m keys row rows p r :
  keys_ok false (SList m keys row) = true -> shaped (SList m keys row) (DList rows) = true ->
  keys_unique (SList m keys row) (DList rows) = true ->
  nth_error rows p = Some r -> key_usable (row_key keys r) = true ->
  find_row keys (row_key keys r) rows 0 = Some p.
Proof.
  intros Hko Hs Hu Hp Hus. simpl in Hko, Hs, Hu.
  apply andb_true_iff in Hko as [Hk _]. apply andb_true_iff in Hu as [Hu _].
  apply (find_row_unique keys rows p r 0); auto.
  apply key_eqb_refl. apply (row_key_leaves keys row); auto.
  eapply forallb_nth_error; eauto.
Qed.
