(** C04, second half: the JSON reader model applied to what the JSON writer model emits gives the
    exported tree back - for every schema, every writer configuration, and every tree whose leaf
    values belong to their types ([rt_ok]); importing it into an empty store then stores that tree. *)
From Coq Require Import ZArith List Bool Lia Strings.Byte.
From YV Require Import Val.Model Tree.Schema Tree.Editor Tree.Export Tree.ExportProofs Tree.JStr Tree.JStrProofs
  Tree.JsonSpec Tree.JsonNumProofs Tree.JsonExp Tree.JsonW Tree.JsonWProofs Tree.JsonR.
Import ListNotations.
Open Scope Z_scope.

(** ** byte-string equality *)
Lemma lex_cmp_eq : forall a b, lex_cmp a b = 0 -> a = b.
Proof.
  induction a as [|x a IH]; intros [|y b] H; cbn in H; try discriminate; auto.
  destruct (byte_z x <? byte_z y) eqn:E1; [discriminate|].
  destruct (byte_z y <? byte_z x) eqn:E2; [discriminate|].
  assert (bz x = bz y) by (unfold bz; lia). f_equal; [apply bz_inj; assumption | apply IH; assumption].
Qed.
Lemma bytes_eqb_eq a b : bytes_eqb a b = true -> a = b.
Proof. unfold bytes_eqb. intros H. apply lex_cmp_eq. lia. Qed.
Lemma bytes_eqb_neq a b : a <> b -> bytes_eqb a b = false.
Proof. intros H. destruct (bytes_eqb a b) eqn:E; [apply bytes_eqb_eq in E; contradiction|reflexivity]. Qed.

Definition no_colon (s : list byte) : bool := forallb (fun b => negb (bz b =? 58)) s.
Definition no_sp (s : list byte) : bool := forallb (fun b => negb (bz b =? 32)) s.
Definition nonempty (s : list byte) : bool := match s with [] => false | _ => true end.

Lemma no_colon_app_neq n a b : no_colon n = true -> n <> a ++ x3a :: b.
Proof.
  intros Hn Heq. subst n. unfold no_colon in Hn. rewrite forallb_app in Hn. apply andb_true_iff in Hn as [_ Hn].
  cbn in Hn. discriminate.
Qed.

Lemma app_colon_inj : forall a c b d, no_colon a = true -> no_colon c = true ->
  a ++ x3a :: b = c ++ x3a :: d -> a = c /\ b = d.
Proof.
  induction a as [|x a IH]; intros [|y c] b d Ha Hc H; cbn in *.
  - injection H as ->. auto.
  - injection H as <- _. cbn in Hc. discriminate.
  - injection H as -> _. cbn in Ha. discriminate.
  - injection H as -> H. apply andb_true_iff in Ha as [_ Ha]. apply andb_true_iff in Hc as [_ Hc].
    destruct (IH c b d Ha Hc H) as [-> ->]. auto.
Qed.

(** ** association lists with pairwise distinct keys *)
Lemma rfind_in {A} (f : A -> rjv) : forall (ms : list (list byte * A)) k v,
  NoDup (map fst ms) -> In (k, v) ms ->
  rfind k (map (fun kv => (fst kv, f (snd kv))) ms) = Some (f v).
Proof.
  induction ms as [|[k0 v0] ms IH]; intros k v Hnd Hin; [contradiction|].
  unfold rfind. cbn [map find fst snd]. inversion Hnd; subst. destruct Hin as [Heq|Hin].
  - injection Heq as -> ->. rewrite bytes_eqb_refl. reflexivity.
  - rewrite bytes_eqb_neq.
    + apply (IH k v H2 Hin).
    + intros ->. apply H1. apply in_map_iff. exists (k, v). auto.
Qed.

Lemma rfind_notin {A} (f : A -> rjv) : forall (ms : list (list byte * A)) k,
  ~ In k (map fst ms) -> rfind k (map (fun kv => (fst kv, f (snd kv))) ms) = None.
Proof.
  induction ms as [|[k0 v0] ms IH]; intros k Hn; [reflexivity|].
  unfold rfind. cbn [map find fst snd]. rewrite bytes_eqb_neq.
  - apply IH. intros H. apply Hn. right. exact H.
  - intros ->. apply Hn. left. reflexivity.
Qed.

Section RT.
  Variable fmt_float : Z -> Z -> list byte.
  Variable float_of : list byte -> Z * Z.     (* oracle: the binary64 (m, e) a number literal rounds to *)
  Variable idmod : ident -> option ident.
  Variable cfg : wcfg.

  (** the integer a literal spells, when it is an integer literal within [-2^63, 2^64) *)
  Definition int_lit (l : list byte) : option Z :=
    match num_parse l with
    | Some (d, k) =>
        if (k =? 0) && (-9223372036854775808 <=? d) && (d <? 18446744073709551616) then Some d else None
    | None => None
    end.

  (** encoding/json's decoding of a value tree, as the repaired reader uses it *)
  Fixpoint dec (v : jvalue) : rjv :=
    match v with
    | JNull => RNull
    | JBool b => RBool b
    | JNum l => RNum (int_lit l) (fst (float_of l)) (snd (float_of l))
    | JStr s => RStr s
    | JArr l => RArr (map dec l)
    | JObj ms => RObj (map (fun kv => (fst kv, dec (snd kv))) ms)
    end.
  Notation conc := (conc fmt_float).
  Definition rd (e : jexp) : rjv := dec (conc e).

  (** ** a leaf value belongs to its type *)
  Definition in64 (z : Z) : bool := (-9223372036854775808 <=? z) && (z <? 18446744073709551616).
  Definition count_def (defs : list (ident * Z)) (n : ident) : nat := length (filter (fun d => ident_eqb n (fst d)) defs).

  Fixpoint typed (ty : ltype) (v : lval) {struct ty} : bool :=
    match ty, v with
    | TInt f, LV (VInt f' z) => fmt_eqb f f' && in_rangeb f z && in64 z
    | TDec _, LV (VDec m e) =>
        (* the FormatFloat / ParseFloat oracles agree on this value *)
        (fst (float_of (fmt_float m e)) =? m) && (snd (float_of (fmt_float m e)) =? e)
    | TStr, LV (VStr _) => true
    | TBool, LV (VBool _) => true
    | TBin, LV (VBin _) => true
    | TEmpty, LEmpty => true
    | TEnum labels, LV (VEnum id l) =>
        (* the value is a member of the enumeration, found by its id resp. its (non-numeric) label *)
        if c_enum_ids cfg
        then in64 id && match enum_by_id labels id with Some (LV (VEnum id' l')) => (id' =? id) && bytes_eqb l' l | _ => false end
        else match atoi l with Some _ => false | None => true end &&
             match enum_by_label labels l with Some (LV (VEnum id' l')) => (id' =? id) && bytes_eqb l' l | _ => false end
    | TBits defs, LBits names =>
        (* every name is a defined bit (defined once), non-empty and without a space *)
        forallb (fun n => nonempty n && no_sp n && Nat.eqb (count_def defs n) 1) names &&
        Nat.eqb (count_def defs []) 0
    | TIdRef accepted, LV (VIdRef l) =>
        nonempty l && no_colon l && existsb (ident_eqb l) accepted &&
        match idmod l with Some im => nonempty im && no_colon im | None => false end
    | TLeafRef t, _ => typed t v
    | _, _ => false
    end.

  Definition typed_leaf (ty : ltype) (il : bool) (v : lval) : bool :=
    if il then
      match ty, v with
      | TEmpty, LEmpty => true
      | TEmpty, _ => false
      | TUnion _, _ => false
      | TBin, LList items => forallb (typed TStr) items
      | _, LList items => forallb (typed ty) items
      | _, _ => false
      end
    else typed ty v.

  (** ** scalars *)
  Lemma int_lit_z_dec z : in64 z = true -> int_lit (z_dec z) = Some z.
  Proof. unfold int_lit, in64. intros H. rewrite num_parse_z_dec. cbn [Z.eqb andb]. rewrite H. reflexivity. Qed.

  Lemma find_existsb (l : ident) : forall acc, existsb (ident_eqb l) acc = true -> find (ident_eqb l) acc = Some l.
  Proof.
    induction acc as [|x acc IH]; cbn; [discriminate|]. destruct (ident_eqb l x) eqn:E; cbn; intros H.
    - apply bytes_eqb_eq in E. now subst.
    - apply IH. exact H.
  Qed.

  Lemma split_colon_none : forall l, no_colon l = true -> split_colon l = None.
  Proof.
    induction l as [|b l IH]; [reflexivity|]. cbn. intros H. apply andb_true_iff in H as [Hb Hl].
    apply negb_true_iff in Hb. rewrite Hb. apply IH. exact Hl.
  Qed.
  Lemma split_colon_app : forall a b, no_colon a = true -> split_colon (a ++ x3a :: b) = Some b.
  Proof.
    induction a as [|x a IH]; intros b H; [reflexivity|]. cbn in *. apply andb_true_iff in H as [Hb Hl].
    apply negb_true_iff in Hb. rewrite Hb. apply IH. exact Hl.
  Qed.

  Lemma strip_prefix_plain l : no_colon l = true -> strip_prefix l = l.
  Proof.
    destruct l as [|b l]; [reflexivity|]. cbn. intros H. apply andb_true_iff in H as [Hb Hl].
    apply negb_true_iff in Hb. rewrite Hb. now rewrite split_colon_none.
  Qed.
  Lemma strip_prefix_qual im l : nonempty im = true -> no_colon im = true -> strip_prefix (im ++ x3a :: l) = l.
  Proof.
    destruct im as [|b im]; [discriminate|]. cbn. intros _ H. apply andb_true_iff in H as [Hb Hl].
    apply negb_true_iff in Hb. rewrite Hb. now rewrite split_colon_app.
  Qed.

  (** strings.Split(strings.Join(names, " "), " ") *)
  Lemma split_sp_word : forall w cur rest, no_sp w = true ->
    split_sp (w ++ x20 :: rest) cur = (rev cur ++ w) :: split_sp rest [].
  Proof.
    induction w as [|b w IH]; intros cur rest H.
    - cbn. now rewrite app_nil_r.
    - cbn in *. apply andb_true_iff in H as [Hb Hw]. apply negb_true_iff in Hb. rewrite Hb.
      rewrite IH by assumption. cbn. now rewrite <- app_assoc.
  Qed.
  Lemma split_sp_last : forall w cur, no_sp w = true -> split_sp w cur = [rev cur ++ w].
  Proof.
    induction w as [|b w IH]; intros cur H.
    - cbn. now rewrite app_nil_r.
    - cbn in *. apply andb_true_iff in H as [Hb Hw]. apply negb_true_iff in Hb. rewrite Hb.
      rewrite IH by assumption. cbn. now rewrite <- app_assoc.
  Qed.
  Lemma split_join : forall names, names <> [] -> forallb no_sp names = true ->
    split_sp (join_sp names) [] = names.
  Proof.
    induction names as [|n names IH]; intros Hne H; [contradiction|].
    cbn [forallb] in H. apply andb_true_iff in H as [Hn Hr]. destruct names as [|n2 names].
    - cbn [join_sp]. now rewrite split_sp_last.
    - change (join_sp (n :: n2 :: names)) with (n ++ x20 :: join_sp (n2 :: names)).
      rewrite split_sp_word by assumption. cbn [rev app]. f_equal. apply IH; [discriminate|assumption].
  Qed.

  Lemma filter_one (defs : list (ident * Z)) n : count_def defs n = 1%nat ->
    map fst (filter (fun d => ident_eqb n (fst d)) defs) = [n].
  Proof.
    unfold count_def. intros H. destruct (filter (fun d => ident_eqb n (fst d)) defs) as [|d [|d2 tl]] eqn:E; try discriminate.
    assert (Hin : In d (filter (fun d => ident_eqb n (fst d)) defs)) by (rewrite E; left; reflexivity).
    apply filter_In in Hin as [_ Hd]. apply bytes_eqb_eq in Hd. cbn. now subst.
  Qed.

  Lemma bits_decode defs : forall names,
    forallb (fun n => nonempty n && no_sp n && Nat.eqb (count_def defs n) 1) names = true ->
    flat_map (fun piece => map fst (filter (fun d => ident_eqb piece (fst d)) defs)) names = names.
  Proof.
    induction names as [|n names IH]; [reflexivity|]. cbn [forallb flat_map]. intros H.
    apply andb_true_iff in H as [Hn Hr]. apply andb_true_iff in Hn as [Hn Hc]. apply Nat.eqb_eq in Hc.
    rewrite (filter_one defs n Hc), IH by assumption. reflexivity.
  Qed.

  Lemma rscalar_rt : forall ty lmod v e, typed ty v = true -> eitem cfg idmod lmod v = Some e ->
    rscalar ty (rd e) = ROk v.
  Proof.
    induction ty; intros lmod v e Ht He; cbn [typed] in Ht.
    - (* TInt *) destruct v as [[f' z| | | | | | ]| | |]; try discriminate.
      apply andb_true_iff in Ht as [Ht H64]. apply andb_true_iff in Ht as [Hf Hr].
      cbn in He. injection He as <-. unfold rd. cbn [conc dec rscalar]. rewrite int_lit_z_dec by assumption.
      rewrite Hr. destruct f, f'; try discriminate; reflexivity.
    - (* TDec *) destruct v as [[ |m e0| | | | | ]| | |]; try discriminate.
      apply andb_true_iff in Ht as [H1 H2]. cbn in He. injection He as <-. unfold rd. cbn [conc dec rscalar].
      apply Z.eqb_eq in H1. apply Z.eqb_eq in H2. rewrite H1, H2. reflexivity.
    - (* TStr *) destruct v as [[ | |s| | | | ]| | |]; try discriminate. cbn in He. injection He as <-. reflexivity.
    - (* TBool *) destruct v as [[ | | | |b| | ]| | |]; try discriminate. cbn in He. injection He as <-. reflexivity.
    - (* TBin *) destruct v as [[ | | |s| | | ]| | |]; try discriminate. cbn in He. injection He as <-. reflexivity.
    - (* TEmpty *) destruct v as [ | | |]; try discriminate. reflexivity.
    - (* TEnum *) destruct v as [[ | | | | |id l| ]| | |]; try discriminate. cbn in He.
      destruct (c_enum_ids cfg) eqn:Ec.
      + injection He as <-. apply andb_true_iff in Ht as [H64 Ht]. unfold rd. cbn [conc dec rscalar].
        rewrite int_lit_z_dec by assumption.
        destruct (enum_by_id labels id) as [[[ | | | | |id' l'| ]| | |]|]; try discriminate.
        apply andb_true_iff in Ht as [H1 H2]. apply Z.eqb_eq in H1. apply bytes_eqb_eq in H2. subst. reflexivity.
      + injection He as <-. apply andb_true_iff in Ht as [Ha Ht]. unfold rd. cbn [conc dec rscalar].
        destruct (atoi l); [discriminate|].
        destruct (enum_by_label labels l) as [[[ | | | | |id' l'| ]| | |]|]; try discriminate.
        apply andb_true_iff in Ht as [H1 H2]. apply Z.eqb_eq in H1. apply bytes_eqb_eq in H2. subst. reflexivity.
    - (* TBits *) destruct v as [ | |ns|]; try discriminate. cbn in He. injection He as <-.
      apply andb_true_iff in Ht as [Hall H0]. unfold rd. cbn [conc dec rscalar]. f_equal. f_equal.
      destruct ns as [|n ns].
      + cbn. apply Nat.eqb_eq in H0. unfold count_def in H0.
        destruct (filter (fun d => ident_eqb [] (fst d)) names); [reflexivity|discriminate].
      + rewrite split_join.
        * apply bits_decode. exact Hall.
        * discriminate.
        * rewrite forallb_forall in Hall. apply forallb_forall. intros x Hx. specialize (Hall x Hx).
          apply andb_true_iff in Hall as [Hall _]. apply andb_true_iff in Hall as [_ Hs]. exact Hs.
    - (* TIdRef *) destruct v as [[ | | | | | |l]| | |]; try discriminate. cbn in He.
      destruct (idmod l) as [im|] eqn:Eim; [|discriminate]. injection He as <-.
      apply andb_true_iff in Ht as [Ht Him]. apply andb_true_iff in Ht as [Ht Hex]. apply andb_true_iff in Ht as [Hne Hnc].
      apply andb_true_iff in Him as [Himne Himnc].
      unfold rd. cbn [conc dec rscalar].
      assert (Hs : strip_prefix (if ident_eqb im lmod then l else im ++ x3a :: l) = l).
      { destruct (ident_eqb im lmod); [now apply strip_prefix_plain | now apply strip_prefix_qual]. }
      rewrite Hs, (find_existsb l accepted Hex). reflexivity.
    - (* TUnion *) discriminate.
    - (* TLeafRef *) cbn [rscalar]. apply (IHty lmod v e Ht He).
  Qed.

  (** ** leaves and leaf-lists *)
  Lemma rd_not_null e : rd e <> RNull.
  Proof. destruct e; discriminate. Qed.

  Lemma rscalars_rt ty lmod : forall items es, forallb (typed ty) items = true ->
    eitems cfg idmod lmod items = Some es -> rscalars ty (map rd es) = ROk items.
  Proof.
    induction items as [|v items IH]; intros es Ht He.
    - cbn in He. injection He as <-. reflexivity.
    - cbn [forallb] in Ht. apply andb_true_iff in Ht as [Hv Hr]. cbn [JsonExp.eitems] in He.
      destruct (eitem cfg idmod lmod v) as [e|] eqn:E1; [|discriminate].
      destruct (eitems cfg idmod lmod items) as [es'|] eqn:E2; [|discriminate]. injection He as <-.
      cbn [map rscalars]. pose proof (rd_not_null e) as Hnn. rewrite (rscalar_rt ty lmod v e Hv E1) in *.
      destruct (rd e); try contradiction; cbn [rbind]; rewrite (IH es' Hr eq_refl); reflexivity.
  Qed.

  Lemma rd_arr es : rd (EArr es) = RArr (map rd es).
  Proof. unfold rd. cbn [conc dec]. now rewrite map_map. Qed.

  Lemma rvalue_rt ty il lmod v e : typed_leaf ty il v = true -> evalue cfg idmod lmod v = Some e ->
    rvalue ty il (rd e) = ROk (Some v).
  Proof.
    unfold typed_leaf. intros Ht He. destruct il.
    - (* leaf-list *)
      assert (Hlist : forall ty' items es, v = LList items -> forallb (typed ty') items = true ->
                eitems cfg idmod lmod items = Some es -> e = EArr es ->
                rbind (rscalars ty' (map rd es)) (fun xs => ROk (Some (LList xs))) = ROk (Some v)).
      { intros ty' items es -> Hi Hes _. rewrite (rscalars_rt ty' lmod items es Hi Hes). reflexivity. }
      destruct ty; destruct v as [sv| |ns|items]; try discriminate;
        try (cbn [JsonExp.evalue] in He; destruct (eitems cfg idmod lmod items) as [es|] eqn:Hes; [|discriminate];
             cbn in He; injection He as <-; rewrite rd_arr; unfold rvalue;
             apply (Hlist _ items es eq_refl Ht Hes eq_refl)).
      (* TEmpty with LEmpty *)
      cbn in He. injection He as <-. reflexivity.
    - (* leaf *)
      assert (Hs : eitem cfg idmod lmod v = Some e).
      { destruct v; try exact He. destruct ty; cbn in Ht; try discriminate.
        (* TLeafRef t with a list value: typed t (LList _) is false *)
        exfalso. clear - Ht. induction ty; cbn in Ht; try discriminate. auto. }
      pose proof (rd_not_null e) as Hnn. unfold rvalue.
      rewrite (rscalar_rt ty lmod v e Ht Hs). destruct (rd e); try contradiction; reflexivity.
  Qed.

  (** ** member names *)
  Definition mname (top : bool) (pmod : ident) (k : snode) : list byte := member_name (c_qualify cfg) top pmod (smeta k).
  Definition name_ok (k : snode) : bool := no_colon (sname k) && no_colon (nm_mod (smeta k)).

  Lemma mname_cases top pmod k : mname top pmod k = sname k \/ mname top pmod k = nm_mod (smeta k) ++ x3a :: sname k.
  Proof. unfold mname, member_name, sname. destruct ((top || negb (ident_eqb pmod (nm_mod (smeta k)))) && c_qualify cfg); auto. Qed.

  Lemma mname_inj top pmod k k' : name_ok k = true -> name_ok k' = true ->
    mname top pmod k = mname top pmod k' -> sname k = sname k'.
  Proof.
    unfold name_ok. intros Hk Hk' H. apply andb_true_iff in Hk as [A B]. apply andb_true_iff in Hk' as [A' B'].
    destruct (mname_cases top pmod k) as [E|E]; destruct (mname_cases top pmod k') as [E'|E']; rewrite E, E' in H.
    - exact H.
    - exfalso. apply (no_colon_app_neq _ _ _ A H).
    - exfalso. symmetry in H. apply (no_colon_app_neq _ _ _ A' H).
    - apply app_colon_inj in H; tauto.
  Qed.

  (** a name that could address [k] (plain or qualified) and is the key of [k'] : same sname *)
  Lemma addr_inj top pmod k k' : name_ok k = true -> name_ok k' = true ->
    (mname top pmod k' = sname k \/ mname top pmod k' = nm_mod (smeta k) ++ x3a :: sname k) -> sname k' = sname k.
  Proof.
    unfold name_ok. intros Hk Hk' H. apply andb_true_iff in Hk as [A B]. apply andb_true_iff in Hk' as [A' B'].
    destruct (mname_cases top pmod k') as [E'|E']; rewrite E' in H; destruct H as [H|H].
    - exact H.
    - exfalso. apply (no_colon_app_neq _ _ _ A' H).
    - exfalso. symmetry in H. apply (no_colon_app_neq _ _ _ A H).
    - apply app_colon_inj in H; tauto.
  Qed.

  Lemma keys_nodup_NoDup : forall l, keys_nodup l = true -> NoDup l.
  Proof.
    induction l as [|x l IH]; intros H; [constructor|]. cbn in H. apply andb_true_iff in H as [H1 H2].
    constructor; [|apply IH; exact H2]. intros Hin. apply negb_true_iff in H1.
    assert (existsb (bytes_eqb x) l = true); [|congruence].
    apply existsb_exists. exists x. split; [exact Hin|apply bytes_eqb_refl].
  Qed.

  Lemma NoDup_map_nth {A B} (f : A -> B) : forall (l : list A) i j x y, NoDup (map f l) ->
    nth_error l i = Some x -> nth_error l j = Some y -> f x = f y -> i = j.
  Proof.
    intros l i j x y Hnd Hi Hj Hf.
    assert (Hi' : nth_error (map f l) i = Some (f x)) by (rewrite nth_error_map, Hi; reflexivity).
    assert (Hj' : nth_error (map f l) j = Some (f y)) by (rewrite nth_error_map, Hj; reflexivity).
    rewrite <- Hf in Hj'. rewrite NoDup_nth_error in Hnd. apply Hnd.
    - apply nth_error_Some. congruence.
    - congruence.
  Qed.

  (** what [ekids] builds *)
  Lemma ekids_spec ekid top pmod : forall ks cs ms, ekids cfg ekid top pmod ks cs = Some ms ->
    length cs = length ks /\
    (forall i k dk, nth_error ks i = Some k -> nth_error cs i = Some (Some dk) ->
       exists e, ekid k dk = Some e /\ In (mname top pmod k, e) ms) /\
    (forall key, In key (map fst ms) ->
       exists i k dk, nth_error ks i = Some k /\ nth_error cs i = Some (Some dk) /\ key = mname top pmod k).
  Proof.
    induction ks as [|k ks IH]; intros cs ms H.
    - destruct cs; [|discriminate]. injection H as <-. repeat split.
      + intros [|i] ? ? Hk; discriminate.
      + intros key [].
    - destruct cs as [|[dk|] cs]; [discriminate| |]; cbn [ekids] in H.
      + destruct (ekid k dk) as [e|] eqn:He; [|discriminate].
        destruct (ekids cfg ekid top pmod ks cs) as [ms'|] eqn:Hms; [|discriminate]. injection H as <-.
        destruct (IH cs ms' Hms) as (L & A & B). repeat split.
        * cbn. now rewrite L.
        * intros [|i] k0 dk0 Hk Hd; cbn in *.
          -- injection Hk as <-. injection Hd as <-. exists e. split; [exact He|]. left. reflexivity.
          -- destruct (A i k0 dk0 Hk Hd) as (e0 & E1 & E2). exists e0. split; [exact E1|]. right. exact E2.
        * intros key [Hk|Hk].
          -- exists 0%nat, k, dk. cbn in Hk. repeat split; auto.
          -- destruct (B key Hk) as (i & k0 & dk0 & X & Y & Z). exists (S i), k0, dk0. repeat split; auto.
      + destruct (IH cs ms H) as (L & A & B). repeat split.
        * cbn. now rewrite L.
        * intros [|i] k0 dk0 Hk Hd; cbn in *; [discriminate|]. apply (A i k0 dk0 Hk Hd).
        * intros key Hk. destruct (B key Hk) as (i & k0 & dk0 & X & Y & Z). exists (S i), k0, dk0. repeat split; auto.
  Qed.

  (** the reader's loop, pointwise *)
  Lemma rkids_pointwise rkid rms : forall ks cs, length cs = length ks ->
    (forall i k, nth_error ks i = Some k ->
       match rlookup (smeta k) rms with None => ROk None | Some v => rkid k v end = ROk (nth i cs None)) ->
    rkids rkid rms ks = ROk cs.
  Proof.
    induction ks as [|k ks IH]; intros [|d cs] Hl H; try discriminate; [reflexivity|].
    cbn [rkids]. rewrite (H 0%nat k eq_refl). cbn [nth rbind].
    rewrite (IH cs); [reflexivity | cbn in Hl; lia | intros i k0 Hk; apply (H (S i) k0 Hk)].
  Qed.

  Definition kid_read (k : snode) (jv : rjv) : rres (option dnode) :=
    match k with
    | SLeaf _ ty il _ => rbind (rvalue ty il jv) (fun o => ROk (option_map DLeaf o))
    | _ => rbind (jsrc k jv) (fun d => ROk (Some d))
    end.

  Lemma jsrc_cont m kids rms :
    jsrc (SCont m kids) (RObj rms) = rbind (rkids kid_read rms kids) (fun c => ROk (DCont c)).
  Proof. reflexivity. Qed.
  Lemma jsrc_list m keys row rows :
    jsrc (SList m keys row) (RArr rows) = rbind (rrows (fun r => jsrc row r) rows) (fun ds => ROk (DList ds)).
  Proof. reflexivity. Qed.

  (** ** trees whose values belong to their types and whose sibling names are distinct *)
  Fixpoint rt_ok (s : snode) (d : dnode) {struct s} : bool :=
    match s, d with
    | SLeaf _ ty il _, DLeaf v => typed_leaf ty il v
    | SCont _ kids, DCont c =>
        keys_nodup (map sname kids) && forallb name_ok kids && all_kids (fun k dk => rt_ok k dk) kids c
    | SList _ _ row, DList rows =>
        match row with SCont _ _ => forallb (fun r => rt_ok row r) rows | _ => false end
    | _, _ => false
    end.

  Lemma rd_obj ms : rd (EObj ms) = RObj (map (fun kv => (fst kv, rd (snd kv))) ms).
  Proof. unfold rd. cbn [conc dec]. now rewrite map_map. Qed.

  Theorem kid_read_rt : forall s top x e, rt_ok s x = true -> enode cfg idmod top s x = Some e ->
    kid_read s (rd e) = ROk (Some x).
  Proof.
    apply (snode_ind3 (fun s => forall top x e, rt_ok s x = true -> enode cfg idmod top s x = Some e ->
                         kid_read s (rd e) = ROk (Some x)));
      [intros m ty il dflt | intros m kids IHk | intros m keys row IHr]; intros top x e Hok He.
    - (* leaf *)
      destruct x as [v| |]; try discriminate. cbn [rt_ok] in Hok. cbn [JsonExp.enode] in He.
      cbn [kid_read]. rewrite (rvalue_rt ty il (nm_mod m) v e Hok He). reflexivity.
    - (* container *)
      destruct x as [|cs|]; try discriminate. cbn [rt_ok] in Hok. apply andb_true_iff in Hok as [Hok Hall].
      apply andb_true_iff in Hok as [Hnd Hnames]. apply keys_nodup_NoDup in Hnd.
      cbn [JsonExp.enode] in He.
      destruct (ekids cfg (fun k dk => enode cfg idmod false k dk) top (nm_mod m) kids cs) as [ms|] eqn:Hms; [|discriminate].
      injection He as <-. destruct (ekids_spec _ top (nm_mod m) kids cs ms Hms) as (Hlen & Hin & Hkeys).
      cbn [kid_read]. rewrite rd_obj, jsrc_cont.
      set (rms := map (fun kv => (fst kv, rd (snd kv))) ms).
      assert (Hname : forall k, In k kids -> name_ok k = true) by (rewrite forallb_forall in Hnames; exact Hnames).
      (* the keys of the object are pairwise distinct *)
      assert (Hkn : NoDup (map fst ms)).
      { clear - Hms Hnd Hname fmt_float float_of idmod cfg. revert cs ms Hms Hnd Hname. induction kids as [|k kids IH]; intros cs ms Hms Hnd Hname.
        - destruct cs; [|discriminate]. injection Hms as <-. constructor.
        - inversion Hnd; subst. destruct cs as [|[dk|] cs]; [discriminate| |]; cbn [ekids] in Hms.
          + destruct (enode cfg idmod false k dk) as [e|]; [|discriminate].
            destruct (ekids cfg (fun k dk => enode cfg idmod false k dk) top (nm_mod m) kids cs) as [ms'|] eqn:E; [|discriminate].
            injection Hms as <-. cbn [map fst]. constructor.
            * intros Hin. destruct (ekids_spec _ top (nm_mod m) kids cs ms' E) as (_ & _ & B).
              destruct (B _ Hin) as (i & k0 & dk0 & X & _ & Z).
              apply H1. apply in_map_iff. exists k0. split; [|apply (nth_error_In _ _ X)].
              symmetry. apply (mname_inj top (nm_mod m) k k0); [apply Hname; left; reflexivity | apply Hname; right; apply (nth_error_In _ _ X) | exact Z].
            * apply (IH cs ms' E H2). intros k0 Hk0. apply Hname. right. exact Hk0.
          + apply (IH cs ms Hms H2). intros k0 Hk0. apply Hname. right. exact Hk0. }
      rewrite (rkids_pointwise kid_read rms kids cs Hlen); [reflexivity|].
      intros i k Hk. pose proof (Hname k (nth_error_In _ _ Hk)) as Hkok.
      (* a key of the object that addresses k belongs to k itself, at position i, which then holds data *)
      assert (Haddr : forall key, In key (map fst ms) ->
                (key = sname k \/ key = nm_mod (smeta k) ++ x3a :: sname k) ->
                exists dk, nth_error cs i = Some (Some dk) /\ key = mname top (nm_mod m) k).
      { intros key Hkey Hor. destruct (Hkeys key Hkey) as (j & k0 & dk0 & X & Y & Z). subst key.
        pose proof (addr_inj top (nm_mod m) k k0 Hkok (Hname k0 (nth_error_In _ _ X)) Hor) as Hs.
        assert (j = i) by (apply (NoDup_map_nth sname kids j i k0 k Hnd X Hk Hs)). subst j.
        assert (k0 = k) by congruence. subst k0. exists dk0. auto. }
      destruct (nth_error cs i) as [[dk|]|] eqn:Ecs.
      + (* present *)
        destruct (Hin i k dk Hk Ecs) as (e & Ee & Hmem).
        assert (Hlook : rlookup (smeta k) rms = Some (rd e)).
        { unfold rlookup. fold (sname k). destruct (mname_cases top (nm_mod m) k) as [E|E].
          - rewrite <- E. unfold rms. rewrite (rfind_in rd ms _ e Hkn Hmem). reflexivity.
          - assert (Hnot : ~ In (sname k) (map fst ms)).
            { intros Hc. destruct (Haddr _ Hc (or_introl eq_refl)) as (dk' & _ & Hc').
              rewrite E in Hc'. unfold name_ok in Hkok. apply andb_true_iff in Hkok as [A _].
              apply (no_colon_app_neq _ _ _ A Hc'). }
            unfold rms at 1. rewrite (rfind_notin rd ms _ Hnot). rewrite <- E. unfold rms.
            rewrite (rfind_in rd ms _ e Hkn Hmem). reflexivity. }
        rewrite Hlook. rewrite (nth_error_nth cs i None Ecs).
        rewrite Forall_forall in IHk. apply (IHk k (nth_error_In _ _ Hk) false dk e); [|exact Ee].
        apply (all_kids_nth (fun k dk => rt_ok k dk) kids cs i k dk Hall Hk). apply (nth_error_nth cs i None Ecs).
      + (* absent *)
        assert (Hlook : rlookup (smeta k) rms = None).
        { unfold rlookup. fold (sname k).
          assert (H1 : ~ In (sname k) (map fst ms)).
          { intros Hc. destruct (Haddr _ Hc (or_introl eq_refl)) as (dk' & Hd & _). congruence. }
          assert (H2 : ~ In (nm_mod (smeta k) ++ x3a :: sname k) (map fst ms)).
          { intros Hc. destruct (Haddr _ Hc (or_intror eq_refl)) as (dk' & Hd & _). congruence. }
          unfold rms. rewrite (rfind_notin rd ms _ H1), (rfind_notin rd ms _ H2). reflexivity. }
        rewrite Hlook. rewrite (nth_error_nth cs i None Ecs). reflexivity.
      + exfalso. apply nth_error_None in Ecs. assert (i < length kids)%nat by (apply nth_error_Some; congruence). lia.
    - (* list *)
      destruct x as [| |rows]; try discriminate. cbn [rt_ok] in Hok.
      destruct row as [|rm rkids|] eqn:Erow; try discriminate. rewrite <- Erow in *.
      cbn [JsonExp.enode] in He. rewrite Erow in He. rewrite <- Erow in He.
      destruct (erows (fun r => enode cfg idmod false row r) rows) as [es|] eqn:Hes; [|discriminate].
      injection He as <-. cbn [kid_read]. rewrite rd_arr, jsrc_list.
      assert (Hr : rrows (fun r => jsrc row r) (map rd es) = ROk rows).
      { clear - Hok Hes IHr Erow fmt_float float_of idmod cfg. revert es Hes. induction rows as [|r rows IH]; intros es Hes.
        - injection Hes as <-. reflexivity.
        - cbn [forallb] in Hok. apply andb_true_iff in Hok as [Hr Hrest]. cbn [erows] in Hes.
          destruct (enode cfg idmod false row r) as [e|] eqn:Ee; [|discriminate].
          destruct (erows (fun r => enode cfg idmod false row r) rows) as [es'|] eqn:Ees; [|discriminate].
          injection Hes as <-. cbn [map rrows].
          pose proof (IHr false r e Hr Ee) as Hk. rewrite Erow in Hk. cbn [kid_read] in Hk. rewrite <- Erow in Hk.
          destruct (jsrc row (rd e)) as [d| |]; cbn [rbind] in Hk; try discriminate. injection Hk as ->.
          cbn [rbind]. rewrite (IH Hrest es' eq_refl). reflexivity. }
      rewrite Hr. reflexivity.
  Qed.

  (** THEOREM (json_roundtrip): reading what the writer wrote gives the tree back *)
  Theorem json_roundtrip : forall s top x e, is_leaf s = false -> rt_ok s x = true ->
    enode cfg idmod top s x = Some e -> jsrc s (rd e) = ROk x.
  Proof.
    intros s top x e Hl Hok He. pose proof (kid_read_rt s top x e Hok He) as H.
    destruct s; try discriminate; cbn [kid_read] in H;
      (destruct (jsrc _ (rd e)) as [d| |]; cbn [rbind] in H; try discriminate; injection H as ->; reflexivity).
  Qed.

  (** ... and importing it into an empty store (Selection.UpsertFrom on a fresh node) stores the export of it *)
  Corollary json_import : forall s top x e, is_leaf s = false -> rt_ok s x = true -> wfd s x = true ->
    enode cfg idmod top s x = Some e -> jimport s (rd e) = ROk (Ok (visit false s x)).
  Proof.
    intros s top x e Hl Hok Hw He. unfold jimport. rewrite (json_roundtrip s top x e Hl Hok He). cbn [rbind].
    rewrite (export_exact s x false Upsert); [reflexivity | discriminate | exact Hl | exact Hw].
  Qed.

  (** on a schema without choices the re-imported tree is the export itself *)
  Corollary roundtrip_same_tree : forall s top d e,
    cfree s = true -> is_leaf s = false ->
    rt_ok s (visit false s d) = true -> wfd s (visit false s d) = true ->
    enode cfg idmod top s (visit false s d) = Some e ->
    jimport s (rd e) = ROk (Ok (visit false s d)).
  Proof.
    intros s top d e Hc Hl Hok Hw He. rewrite (json_import s top _ e Hl Hok Hw He). now rewrite visit_idem.
  Qed.
End RT.
