(** Byte-level model of the text escaping used on XML output and of the decoder's unescaping.

      patch/xml/xml.go  escapeText / printer.EscapeString   -> [escape]
      patch/xml/xml.go  Decoder.text(quote=-1, cdata=false)   -> [unescape]
      patch/xml/xml.go  isInCharacterRange                       -> [in_char_range]
      unicode/utf8      DecodeRune (first[] / acceptRanges)      -> the nested match of [map_runes]
      strings           TrimSpace                                -> [trim_space]

    Text is [list byte].  Runes are [N].  Everything is structurally recursive: the rune walk looks
    at up to four leading bytes and continues on a tail of the list; the decoder is a state machine
    that consumes one byte per step.  Proofs are in XmlEscProofs.v. *)
From Coq Require Import NArith List Bool Strings.Byte.
Import ListNotations.
Open Scope N_scope.

Definition text := list byte.
Definition bN (b : byte) : N := Byte.to_N b.

(** isInCharacterRange: the Char production of XML 1.0 *)
Definition in_char_range (r : N) : bool :=
  (r =? 9) || (r =? 10) || (r =? 13)
  || ((32 <=? r) && (r <=? 55295))             (* 0x20 .. 0xD7FF *)
  || ((57344 <=? r) && (r <=? 65533))          (* 0xE000 .. 0xFFFD *)
  || ((65536 <=? r) && (r <=? 1114111)).       (* 0x10000 .. 0x10FFFF *)

Definition fffd : text := [xef; xbf; xbd].      (* U+FFFD *)

(** utf8.first[] and utf8.acceptRanges: for a lead byte, (sequence length, lowest and highest
    accepted second byte); None = the byte cannot start a multi-byte sequence (table entry xx) *)
Definition lead_info (n0 : N) : option (nat * N * N) :=
  if (194 <=? n0) && (n0 <=? 223) then Some (2%nat, 128, 191)        (* C2..DF *)
  else if n0 =? 224 then Some (3%nat, 160, 191)                      (* E0: A0..BF *)
  else if (225 <=? n0) && (n0 <=? 236) then Some (3%nat, 128, 191)   (* E1..EC *)
  else if n0 =? 237 then Some (3%nat, 128, 159)                      (* ED: 80..9F (no surrogates) *)
  else if (238 <=? n0) && (n0 <=? 239) then Some (3%nat, 128, 191)   (* EE..EF *)
  else if n0 =? 240 then Some (4%nat, 144, 191)                      (* F0: 90..BF *)
  else if (241 <=? n0) && (n0 <=? 243) then Some (4%nat, 128, 191)   (* F1..F3 *)
  else if n0 =? 244 then Some (4%nat, 128, 143)                      (* F4: 80..8F *)
  else None.
Definition is_cont (b : byte) : bool := (128 <=? bN b) && (bN b <=? 191).
Definition in_rng (lo hi : N) (b : byte) : bool := (lo <=? bN b) && (bN b <=? hi).

Definition rune2 (b0 b1 : byte) : N := (bN b0 mod 32) * 64 + (bN b1 mod 64).
Definition rune3 (b0 b1 b2 : byte) : N := (bN b0 mod 16) * 4096 + (bN b1 mod 64) * 64 + (bN b2 mod 64).
Definition rune4 (b0 b1 b2 b3 : byte) : N :=
  (bN b0 mod 8) * 262144 + (bN b1 mod 64) * 4096 + (bN b2 mod 64) * 64 + (bN b3 mod 64).

(** what the escaper writes for a well-formed multi-byte rune: the bytes themselves, or U+FFFD when
    the rune is outside the XML character range (U+FFFE, U+FFFF) *)
Definition emit_rune (r : N) (bs : text) : text := if in_char_range r then bs else fffd.

(** The loop  [for i < len(s) { r, width := utf8.DecodeRune(s[i:]); i += width; ... }]  with the
    treatment of a one-byte rune given by [f1].  Every failure of DecodeRune is (RuneError, 1):
    the byte is replaced by U+FFFD and the walk continues at the next byte. *)
Fixpoint map_runes (f1 : byte -> text) (s : text) {struct s} : text :=
  match s with
  | [] => []
  | b0 :: t0 =>
      if bN b0 <? 128 then f1 b0 ++ map_runes f1 t0
      else match lead_info (bN b0) with
      | None => fffd ++ map_runes f1 t0
      | Some (sz, lo, hi) =>
          match t0 with
          | [] => fffd ++ map_runes f1 t0
          | b1 :: t1 =>
              if negb (in_rng lo hi b1) then fffd ++ map_runes f1 t0
              else match sz with
              | 2%nat => emit_rune (rune2 b0 b1) [b0; b1] ++ map_runes f1 t1
              | _ =>
                  match t1 with
                  | [] => fffd ++ map_runes f1 t0
                  | b2 :: t2 =>
                      if negb (is_cont b2) then fffd ++ map_runes f1 t0
                      else match sz with
                      | 3%nat => emit_rune (rune3 b0 b1 b2) [b0; b1; b2] ++ map_runes f1 t2
                      | _ =>
                          match t2 with
                          | [] => fffd ++ map_runes f1 t0
                          | b3 :: t3 =>
                              if negb (is_cont b3) then fffd ++ map_runes f1 t0
                              else emit_rune (rune4 b0 b1 b2 b3) [b0; b1; b2; b3] ++ map_runes f1 t3
                          end
                      end
                  end
              end
          end
      end
  end.

(** escapeText with escapeNewline = true (EscapeText, and what the marshaller uses for chardata and
    attribute values) on a one-byte rune *)
Definition esc_ascii (b : byte) : text :=
  match b with
  | x22 => [x26; x23; x33; x34; x3b]          (* dquote -> &#34; *)
  | x27 => [x26; x23; x33; x39; x3b]          (* apos -> &#39; *)
  | x26 => [x26; x61; x6d; x70; x3b]          (* &  -> &amp; *)
  | x3c => [x26; x6c; x74; x3b]               (* <  -> &lt; *)
  | x3e => [x26; x67; x74; x3b]               (* >  -> &gt; *)
  | x09 => [x26; x23; x78; x39; x3b]          (* \t -> &#x9; *)
  | x0a => [x26; x23; x78; x41; x3b]          (* \n -> &#xA; *)
  | x0d => [x26; x23; x78; x44; x3b]          (* \r -> &#xD; *)
  | _ => if in_char_range (bN b) then [b] else fffd
  end.
Definition escape (s : text) : text := map_runes esc_ascii s.

(** the text an XML document can carry in place of [s]: every byte sequence that is not the UTF-8
    encoding of an XML character is replaced by U+FFFD (what comes back after escape + decode) *)
Definition san_ascii (b : byte) : text := if in_char_range (bN b) then [b] else fffd.
Definition sanitize (s : text) : text := map_runes san_ascii s.

(** "made of characters XML 1.0 can carry": well-formed UTF-8, every rune in the Char range.  This
    is also the decoder's final check on character data (invalid UTF-8 / illegal character
    code), written as an independent walk. *)
Fixpoint xml_okb (s : text) {struct s} : bool :=
  match s with
  | [] => true
  | b0 :: t0 =>
      if bN b0 <? 128 then in_char_range (bN b0) && xml_okb t0
      else match lead_info (bN b0), t0 with
      | Some (2%nat, lo, hi), b1 :: t1 => in_rng lo hi b1 && in_char_range (rune2 b0 b1) && xml_okb t1
      | Some (3%nat, lo, hi), b1 :: b2 :: t2 =>
          in_rng lo hi b1 && is_cont b2 && in_char_range (rune3 b0 b1 b2) && xml_okb t2
      | Some (4%nat, lo, hi), b1 :: b2 :: b3 :: t3 =>
          in_rng lo hi b1 && is_cont b2 && is_cont b3 && in_char_range (rune4 b0 b1 b2 b3) && xml_okb t3
      | _, _ => false
      end
  end.

(** string(rune(n)) for n <= 0x10FFFF: UTF-8 encoding, surrogates become U+FFFD *)
Definition byte_of (n : N) : byte := match Byte.of_N n with Some b => b | None => x00 end.
Definition utf8_encode (n : N) : text :=
  if n <? 128 then [byte_of n]
  else if n <? 2048 then [byte_of (192 + n / 64); byte_of (128 + n mod 64)]
  else if (55296 <=? n) && (n <=? 57343) then fffd
  else if n <? 65536 then [byte_of (224 + n / 4096); byte_of (128 + (n / 64) mod 64); byte_of (128 + n mod 64)]
  else [byte_of (240 + n / 262144); byte_of (128 + (n / 4096) mod 64); byte_of (128 + (n / 64) mod 64);
        byte_of (128 + n mod 64)].

(** ** Decoder.text: character data up to the next '<' (or the end of input).
    States: plain text remembering the two previous raw bytes (for ]]> and CR LF); after '&';
    after &#; inside a numeric reference; inside a named reference. *)
Inductive ust :=
| STxt (b0 b1 : byte)
| SAmp
| SHash
| SNum (hex : bool) (n : N) (nd : nat)
| SName (acc : text).            (* reversed *)

Definition byte_eqb (a b : byte) : bool := Byte.eqb a b.

Definition dec_digit (b : byte) : option N :=
  let n := bN b in if (48 <=? n) && (n <=? 57) then Some (n - 48) else None.
Definition hex_digit (b : byte) : option N :=
  let n := bN b in
  if (48 <=? n) && (n <=? 57) then Some (n - 48)
  else if (97 <=? n) && (n <=? 102) then Some (n - 87)
  else if (65 <=? n) && (n <=? 70) then Some (n - 55)
  else None.

(** isNameByte, plus every byte >= 0x80 (readName lets multi-byte runes through; no predefined
    entity contains one, so such a name is never found) *)
Definition name_byte (b : byte) : bool :=
  let n := bN b in
  ((65 <=? n) && (n <=? 90)) || ((97 <=? n) && (n <=? 122)) || ((48 <=? n) && (n <=? 57))
  || (n =? 95) || (n =? 58) || (n =? 46) || (n =? 45) || (128 <=? n).

Fixpoint text_eqb (a b : text) : bool :=
  match a, b with
  | [], [] => true
  | x :: a', y :: b' => byte_eqb x y && text_eqb a' b'
  | _, _ => false
  end.

(** the predefined entities (d.Entity is nil; the decoder is Strict) *)
Definition entity (name : text) : option byte :=
  if text_eqb name [x6c; x74] then Some x3c                      (* lt *)
  else if text_eqb name [x67; x74] then Some x3e                 (* gt *)
  else if text_eqb name [x61; x6d; x70] then Some x26            (* amp *)
  else if text_eqb name [x61; x70; x6f; x73] then Some x27       (* apos *)
  else if text_eqb name [x71; x75; x6f; x74] then Some x22       (* quot *)
  else None.

(** the numeric reference is complete: strconv.ParseUint succeeded (at least one digit, below
    2^64) and n <= unicode.MaxRune *)
Definition num_text (n : N) (nd : nat) : option text :=
  match nd with
  | O => None
  | _ => if n <=? 1114111 then Some (utf8_encode n) else None
  end.

(** [out] is the text produced so far, reversed.  None = syntax error. *)
Fixpoint urun (st : ust) (s : text) (out : text) {struct s} : option text :=
  match s with
  | [] =>
      match st with
      | STxt _ _ => let data := rev out in if xml_okb data then Some data else None
      | _ => None                                   (* unexpected EOF inside a reference *)
      end
  | b :: tl =>
      match st with
      | STxt b0 b1 =>
          if byte_eqb b x3e && byte_eqb b1 x5d && byte_eqb b0 x5d then None      (* unescaped ]]> *)
          else if byte_eqb b x3c then                                          (* '<': end of the text *)
            let data := rev out in if xml_okb data then Some data else None
          else if byte_eqb b x26 then urun SAmp tl out
          else if byte_eqb b x0d then urun (STxt b1 b) tl (x0a :: out)         (* \r -> \n *)
          else if byte_eqb b x0a && byte_eqb b1 x0d then urun (STxt b1 b) tl out  (* \r\n: \n already written *)
          else urun (STxt b1 b) tl (b :: out)
      | SAmp =>
          if byte_eqb b x23 then urun SHash tl out
          else if byte_eqb b x3b then None                                      (* &; *)
          else if name_byte b then urun (SName [b]) tl out
          else None
      | SHash =>
          if byte_eqb b x78 then urun (SNum true 0 0) tl out
          else match dec_digit b with
               | Some d => urun (SNum false d 1) tl out
               | None => None                                                   (* &#; or &#q *)
               end
      | SNum hex n nd =>
          if byte_eqb b x3b then
            match num_text n nd with
            | Some t => urun (STxt x00 x00) tl (rev t ++ out)
            | None => None
            end
          else match (if hex then hex_digit b else dec_digit b) with
               | Some d =>
                   (* the value is capped once it is beyond every rune and beyond 2^64: same outcome *)
                   let n' := n * (if hex then 16 else 10) + d in
                   urun (SNum hex (if 18446744073709551616 <=? n' then 18446744073709551616 else n') (S nd)) tl out
               | None => None
               end
      | SName acc =>
          if byte_eqb b x3b then
            match entity (rev acc) with
            | Some c => urun (STxt x00 x00) tl (c :: out)
            | None => None
            end
          else if name_byte b then urun (SName (b :: acc)) tl out
          else None
      end
  end.

Definition unescape (s : text) : option text := urun (STxt x00 x00) s [].

(** ** strings.TrimSpace.  unicode.IsSpace: \t \n \v \f \r ' ' U+0085 U+00A0 and the Unicode Z
    category members below.  A rune is a space exactly when the bytes in front are one of these
    encodings (over-long forms do not decode), and DecodeLastRune finds the same encodings from the
    end, so both ends are prefix tests. *)
Definition ascii_space (b : byte) : bool :=
  match b with x09 | x0a | x0b | x0c | x0d | x20 => true | _ => false end.

Definition is_sp2 (b0 b1 : byte) : bool :=                  (* U+0085, U+00A0 *)
  byte_eqb b0 xc2 && (byte_eqb b1 x85 || byte_eqb b1 xa0).
Definition is_sp3 (b0 b1 b2 : byte) : bool :=
  (byte_eqb b0 xe1 && byte_eqb b1 x9a && byte_eqb b2 x80)                      (* U+1680 *)
  || (byte_eqb b0 xe2 && byte_eqb b1 x80 &&
      (((128 <=? bN b2) && (bN b2 <=? 138)) || (bN b2 =? 168) || (bN b2 =? 169) || (bN b2 =? 175)))
                                                                               (* U+2000-200A 2028 2029 202F *)
  || (byte_eqb b0 xe2 && byte_eqb b1 x81 && byte_eqb b2 x9f)                   (* U+205F *)
  || (byte_eqb b0 xe3 && byte_eqb b1 x80 && byte_eqb b2 x80).                  (* U+3000 *)

Fixpoint trim_left (s : text) {struct s} : text :=
  match s with
  | [] => []
  | b0 :: t0 =>
      if ascii_space b0 then trim_left t0 else
      match t0 with
      | [] => s
      | b1 :: t1 =>
          if is_sp2 b0 b1 then trim_left t1 else
          match t1 with
          | [] => s
          | b2 :: t2 => if is_sp3 b0 b1 b2 then trim_left t2 else s
          end
      end
  end.
(** the same walk on the reversed text (the encodings are read backwards) *)
Fixpoint trim_left_rev (r : text) {struct r} : text :=
  match r with
  | [] => []
  | b0 :: t0 =>
      if ascii_space b0 then trim_left_rev t0 else
      match t0 with
      | [] => r
      | b1 :: t1 =>
          if is_sp2 b1 b0 then trim_left_rev t1 else
          match t1 with
          | [] => r
          | b2 :: t2 => if is_sp3 b2 b1 b0 then trim_left_rev t2 else r
          end
      end
  end.
Definition trim_space (s : text) : text := rev (trim_left_rev (rev (trim_left s))).
