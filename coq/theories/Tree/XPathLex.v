(** Byte-level model of the XPath subset that xpath.Parse really accepts
      xpath/lexer.go   lex, lexBegin, acceptWS, acceptToken, acceptAlphaNumeric, acceptNumeric,
                       acceptLiteral, acceptOperator, error (an error token has type 0 = end of input)
      xpath/parser.y   segments / segment / stmt / qname and their actions (stack.push)
      xpath/ast.go     num (strconv.ParseInt / ParseFloat), literal (Trim of the quotes), Parse2

    The goyacc driver (parser.go) is NOT modelled: the grammar has no conflicts (y.output) and generates
    the regular language  ( name (':' name)? (op (number | literal))? '/'? )+ ; [parse_segs] is a
    recursive-descent reconstruction of the parse result for it, performing the semantic actions in
    the order the LALR driver performs them (lookup error, num error, push).

    Domain: bytes outside quoted literals are ASCII (unicode.IsLetter / IsDigit / IsSpace are modelled on
    ASCII only).  strconv.ParseFloat on digits-and-dots text is modelled exactly ([f64_round]:
    round-to-nearest-even to binary64), tied to the code by the differential check only. *)
From Coq Require Import ZArith List Bool Lia Strings.Byte.
From YV Require Import Val.Model.
Import ListNotations.
Open Scope Z_scope.

Inductive xop := OEq | ONe | OLt | OLe | OGt | OGe.

Inductive token :=
| TName (s : list byte)
| TSlash
| TColon
| TOp (o : xop)
| TNum (s : list byte)       (* digits and dots, first a digit *)
| TLit (s : list byte).      (* raw text of the literal including both quotes *)

(** literal of an operator after the parser's action: num() / literal() *)
Inductive literal :=
| LInt (z : Z)                   (* strconv.ParseInt(s, 10, 64) *)
| LDec (n : Z) (k : Z)           (* the decimal n / 10^k as written; the Go value is ParseFloat of it *)
| LStr (s : list byte).

Definition seg := (list byte * option (xop * literal))%type.
Definition path := list seg.

Inductive pres := POk (p : path) | PErr | PPanic.

(** ** character classes (ASCII) *)
Definition bz (b : byte) : Z := byte_z b.
Definition is_digit (b : byte) : bool := (48 <=? bz b) && (bz b <=? 57).
Definition is_letter (b : byte) : bool :=
  ((65 <=? bz b) && (bz b <=? 90)) || ((97 <=? bz b) && (bz b <=? 122)).
Definition is_namech (b : byte) : bool :=
  is_digit b || is_letter b || (bz b =? 45) || (bz b =? 95) || (bz b =? 46).
Definition is_space (b : byte) : bool :=
  ((9 <=? bz b) && (bz b <=? 13)) || (bz b =? 32).
Definition is_quote (b : byte) : bool := bz b =? 39.
Definition is_dot (b : byte) : bool := bz b =? 46.

(** acceptWS *)
Fixpoint skip_ws (l : list byte) : list byte :=
  match l with
  | b :: t => if is_space b then skip_ws t else l
  | [] => []
  end.

Fixpoint span (p : byte -> bool) (l : list byte) : list byte * list byte :=
  match l with
  | b :: t => if p b then let (a, r) := span p t in (b :: a, r) else ([], l)
  | [] => ([], [])
  end.

(** acceptAlphaNumeric: a non-empty run of name characters *)
Definition lex_name (l : list byte) : option (list byte * list byte) :=
  match span is_namech l with
  | ([], _) => None
  | (n, r) => Some (n, r)
  end.

(** acceptNumeric: a digit, then digits and dots *)
Definition lex_num (l : list byte) : option (list byte * list byte) :=
  match l with
  | b :: t => if is_digit b
              then let (a, r) := span (fun c => is_digit c || is_dot c) t in Some (b :: a, r)
              else None
  | [] => None
  end.

(** acceptLiteral *)
Inductive litres := LitOk (raw rest : list byte) | LitUnterminated | LitNo.
Definition lex_lit (l : list byte) : litres :=
  match l with
  | b :: t =>
      if is_quote b then
        match span (fun c => negb (is_quote c)) t with
        | (body, q :: r) => LitOk (b :: body ++ [q]) r
        | (_, []) => LitUnterminated
        end
      else LitNo
  | [] => LitNo      (* eof: return false, nothing consumed *)
  end.

(** acceptOperator: the operator and the input after it *)
Definition lex_op (l : list byte) : option (xop * list byte) :=
  match l with
  | b :: t =>
      if bz b =? 61 then Some (OEq, t)
      else if bz b =? 33 then
        match t with c :: t' => if bz c =? 61 then Some (ONe, t') else None | [] => None end
      else if bz b =? 60 then
        match t with c :: t' => if bz c =? 61 then Some (OLe, t') else Some (OLt, t) | [] => Some (OLt, t) end
      else if bz b =? 62 then
        match t with c :: t' => if bz c =? 61 then Some (OGe, t') else Some (OGt, t) | [] => Some (OGt, t) end
      else None
  | [] => None
  end.

(** lexBegin, iterated.  A lexing error appends a token of type ParseErr = 0 = ParseEnd: the parser sees
    the end of the input, so the token list simply stops there.  Every step consumes at least one byte;
    [lex] supplies fuel = length + 1. *)
Fixpoint lex_loop (fuel : nat) (l : list byte) : list token :=
  match fuel with
  | O => []
  | S f =>
      match l with
      | [] => []
      | b :: t =>
          if bz b =? 47 then TSlash :: lex_loop f (skip_ws t)
          else if bz b =? 58 then TColon :: lex_loop f (skip_ws t)
          else
            match lex_op l with
            | Some (o, r0) =>
                let r := skip_ws r0 in
                match lex_num r with
                | Some (n, r') => TOp o :: TNum n :: lex_loop f (skip_ws r')
                | None =>
                    match lex_lit r with
                    | LitOk raw r' => TOp o :: TLit raw :: lex_loop f (skip_ws r')
                    | LitUnterminated => [TOp o]
                    | LitNo =>
                        match lex_name r with
                        | Some (n, r') => TOp o :: TName n :: lex_loop f (skip_ws r')
                        | None => [TOp o]
                        end
                    end
                end
            | None =>
                if bz b =? 33 then
                  (* '!' not followed by '=': stays in the pending token text *)
                  match lex_name t with
                  | Some (n, r') => TName (b :: n) :: lex_loop f (skip_ws r')
                  | None => []
                  end
                else
                  match lex_name l with
                  | Some (n, r') => TName n :: lex_loop f (skip_ws r')
                  | None => []       (* "unknown statement" *)
                  end
            end
      end
  end.

Definition lex (s : list byte) : list token := lex_loop (S (length s)) (skip_ws s).

(** ** num() and literal() of ast.go *)
Fixpoint digits_val (acc : Z) (l : list byte) : option Z :=
  match l with
  | [] => Some acc
  | b :: t => if is_digit b then digits_val (acc * 10 + (bz b - 48)) t else None
  end.

Definition count_dots (l : list byte) : Z := Z.of_nat (length (filter is_dot l)).

(** round-to-nearest-even of num/den (> 0) to binary64: (m, e) denoting m * 2^e; None on overflow
    (ParseFloat then reports a range error) *)
Definition f64_round (num den : Z) : option (Z * Z) :=
  if num <=? 0 then Some (0, 0) else
  let e0 := Z.log2 num - Z.log2 den - 52 in
  let q_at := fun e => if 0 <=? e then num / (den * 2 ^ e) else (num * 2 ^ (- e)) / den in
  let e1 := if q_at e0 <? 2 ^ 52 then e0 - 1 else if 2 ^ 53 <=? q_at e0 then e0 + 1 else e0 in
  let e := Z.max e1 (-1074) in
  let n' := if 0 <=? e then num else num * 2 ^ (- e) in
  let d' := if 0 <=? e then den * 2 ^ e else den in
  let q := n' / d' in
  let r := n' mod d' in
  let m := if 2 * r <? d' then q else if d' <? 2 * r then q + 1 else if Z.even q then q else q + 1 in
  let m' := if m =? 2 ^ 53 then 2 ^ 52 else m in
  let e' := if m =? 2 ^ 53 then e + 1 else e in
  if 971 <? e' then None else Some (m', e').

Definition max_int64 : Z := 9223372036854775807.

Definition num (s : list byte) : option literal :=
  if 0 <? count_dots s then
    if count_dots s =? 1 then
      let (ip, rest) := span is_digit s in
      let fp := tl rest in
      match digits_val 0 (ip ++ fp) with
      | Some n =>
          let k := Z.of_nat (length fp) in
          match f64_round n (10 ^ k) with Some _ => Some (LDec n k) | None => None end
      | None => None
      end
    else None
  else
    match digits_val 0 s with
    | Some z => if z <=? max_int64 then Some (LInt z) else None
    | None => None
    end.

Fixpoint trim_left (l : list byte) : list byte :=
  match l with b :: t => if is_quote b then trim_left t else l | [] => [] end.
Definition trim_quotes (l : list byte) : list byte := rev (trim_left (rev (trim_left l))).

(** ** the parse.  [n]: paths pushed so far (the stack holds 256) *)
Definition stack_size : nat := 256.

(** parser states of the reconstruction: what has been seen of the current statement *)
Inductive pstate :=
| QStart                      (* nothing yet: a name is required *)
| QName (nm : list byte)      (* qname seen *)
| QColon (nm : list byte)
| QOp (nm : list byte) (o : xop)
| QAfterStmt                  (* statement pushed; '/' or a name may follow *)
| QAfterSlash.                (* segment closed by '/'; a name may follow *)

(** [acc]: the paths pushed so far, most recent first (stack.push: 256 slots; beyond, the overflow flag makes Parse return an error - fix "an XPath with more steps than the parser's path stack holds") *)
Fixpoint parse_segs (st : pstate) (acc : list seg) (ts : list token) {struct ts} : pres :=
  let push := fun (sg : seg) (k : list seg -> pres) =>
    if Nat.leb stack_size (length acc) then PErr else k (sg :: acc) in
  match ts with
  | [] =>
      match st with
      | QName nm => push (nm, None) (fun a => POk (rev a))
      | QAfterStmt | QAfterSlash => POk (rev acc)
      | _ => PErr
      end
  | t :: r =>
      match st, t with
      | QStart, TName nm | QAfterStmt, TName nm | QAfterSlash, TName nm => parse_segs (QName nm) acc r
      | QAfterStmt, TSlash => parse_segs QAfterSlash acc r
      | QName nm, TOp o => parse_segs (QOp nm o) acc r
      | QName nm, TColon => parse_segs (QColon nm) acc r
      | QName nm, TSlash => push (nm, None) (fun a => parse_segs QAfterSlash a r)
      | QName nm, TName nm' => push (nm, None) (fun a => parse_segs (QName nm') a r)
      | QOp nm o, TNum s =>
          match num s with
          | Some lit => push (nm, Some (o, lit)) (fun a => parse_segs QAfterStmt a r)
          | None => PErr
          end
      | QOp nm o, TLit s => push (nm, Some (o, LStr (trim_quotes s))) (fun a => parse_segs QAfterStmt a r)
      | _, _ => PErr       (* syntax error; a prefixed name fails in lookup (Parse has none) *)
      end
  end.

(** xpath.Parse *)
Definition xparse (s : list byte) : pres := parse_segs QStart [] (lex s).

(** the shape the property speaks about: name(/name)* op literal *)
Record cmp_expr := mkCmp { ce_path : list (list byte); ce_leaf : list byte; ce_op : xop; ce_lit : literal }.

Fixpoint as_cmp (p : path) : option cmp_expr :=
  match p with
  | [] => None
  | [(nm, Some (o, l))] => Some (mkCmp [] nm o l)
  | (nm, None) :: p' =>
      match as_cmp p' with
      | Some c => Some (mkCmp (nm :: ce_path c) (ce_leaf c) (ce_op c) (ce_lit c))
      | None => None
      end
  | _ => None
  end.
