(** C18, uniqueness part: every operation of Tree/Delete.v ([apply_op]) preserves "no list holds two
    entries with equal usable keys" ([keys_unique_content]) on shaped data, hence so does every
    history of operations.  Hypotheses beyond the ones of the original full statement:
      - [keys_ok true]: key positions are leaves of the row WITHOUT a schema default (with a default
        two key-less source rows are both created with the default as key: counter-example in
        Props/C18.v);
      - [op_src_ok]: the data an operation brings is shaped like the schema (the domain of
        [edit_ok_is_merge]).
    No distinctness of source rows and no well-formedness of key values is needed: key equality is
    an equivalence on all values (Tree/KeyEquiv.v), and a merged row carries its source row's key. *)
From Coq Require Import List Bool Arith Lia Strings.Byte.
From YV Require Import Val.Model Tree.Schema Tree.Editor Tree.Merge Tree.EditorProofs Tree.InsertUpdateProofs
  Tree.KeyEquiv Tree.Delete Tree.DeleteProofs.
Import ListNotations.
Open Scope nat_scope.

(** * plumbing *)
Lemma existsb_false {A} (f : A -> bool) l : existsb f l = false <-> forall x, In x l -> f x = false.
Proof.
  induction l as [|a l IH]; simpl.
  - split; [intros _ x []|reflexivity].
  - rewrite orb_false_iff, IH. split.
    + intros [Ha Hl] x [<-|Hx]; auto.
    + intros H. split; [apply H; left; reflexivity|]. intros x Hx. apply H. right. assumption.
Qed.

Lemma in_set_nth {A} (m : A) : forall l j x, In x (set_nth j m l) -> x = m \/ In x l.
Proof.
  induction l as [|a l IH]; intros [|j] x H; simpl in *; auto.
  - destruct H as [<-|H]; auto.
  - destruct H as [<-|H]; auto. apply IH in H. tauto.
Qed.

Lemma in_remove_row keys key : forall rows x, In x (remove_row keys key rows) -> In x rows.
Proof.
  induction rows as [|r rows IH]; intros x H; simpl in *; [assumption|].
  destruct (key_eqb (row_key keys r) key); [right; assumption|].
  destruct H as [<-|H]; [left; reflexivity|right; auto].
Qed.

Lemma forallb_sub {A} (p : A -> bool) l l' :
  (forall x, In x l' -> In x l) -> forallb p l = true -> forallb p l' = true.
Proof. intros Hs H. rewrite forallb_forall in *. auto. Qed.

(** * [rows_unique]: characterisation, and stability under the four ways a list changes *)
Lemma rows_unique_cons keys r tl : rows_unique keys (r :: tl) = true <->
  (key_usable (row_key keys r) = true ->
   forall r', In r' tl -> key_eqb (row_key keys r') (row_key keys r) = false) /\ rows_unique keys tl = true.
Proof.
  simpl. rewrite andb_true_iff, negb_true_iff, andb_false_iff, existsb_false. split.
  - intros [[H|H] Ht]; split; auto. intros Hu. congruence.
  - intros [H Ht]. split; [|assumption].
    destruct (key_usable (row_key keys r)); [right; apply H; reflexivity|left; reflexivity].
Qed.

(** any list whose rows come, in order, from a unique list *)
Lemma rows_unique_remove keys key : forall rows,
  rows_unique keys rows = true -> rows_unique keys (remove_row keys key rows) = true.
Proof.
  induction rows as [|r rows IH]; intros H; [reflexivity|].
  apply rows_unique_cons in H as [Hr Ht]. simpl.
  destruct (key_eqb (row_key keys r) key); [assumption|].
  apply rows_unique_cons. split; [|auto].
  intros Hu r' Hin. apply Hr; [assumption|]. eapply in_remove_row; eauto.
Qed.

Lemma rows_unique_filter keys (p : dnode -> bool) : forall rows,
  rows_unique keys rows = true -> rows_unique keys (filter p rows) = true.
Proof.
  induction rows as [|r rows IH]; intros H; [reflexivity|].
  apply rows_unique_cons in H as [Hr Ht]. simpl.
  destruct (p r); [|auto].
  apply rows_unique_cons. split; [|auto].
  intros Hu r' Hin. apply Hr; [assumption|]. apply filter_In in Hin. tauto.
Qed.

(** a row replaced by one with an equal key *)
Lemma rows_unique_set_nth keys m d : forall rows j,
  rows_unique keys rows = true -> j < length rows ->
  key_eqb (row_key keys (nth j rows d)) (row_key keys m) = true ->
  rows_unique keys (set_nth j m rows) = true.
Proof.
  induction rows as [|r rows IH]; intros [|j] H Hj E; simpl in Hj; try lia.
  - simpl in E. apply rows_unique_cons in H as [Hr Ht]. cbn [set_nth].
    apply rows_unique_cons. split; [|assumption].
    intros Hu r' Hin. rewrite <- (key_eqb_usable _ _ E) in Hu.
    destruct (key_eqb (row_key keys r') (row_key keys m)) eqn:X; [|reflexivity].
    rewrite <- (Hr Hu r' Hin). symmetry.
    eapply key_eqb_trans; [exact X|]. apply key_eqb_sym. exact E.
  - simpl in E. apply rows_unique_cons in H as [Hr Ht]. cbn [set_nth].
    apply rows_unique_cons. split; [|apply IH; auto; lia].
    intros Hu r' Hin. apply in_set_nth in Hin as [->|Hin]; [|auto].
    destruct (key_eqb (row_key keys m) (row_key keys r)) eqn:X; [|reflexivity].
    rewrite <- (Hr Hu (nth j rows d)); [|apply nth_In; lia].
    symmetry. eapply key_eqb_trans; eauto.
Qed.

(** a row appended whose key no usable row has *)
Lemma rows_unique_snoc keys m : forall rows,
  rows_unique keys rows = true ->
  (forall r, In r rows -> key_usable (row_key keys r) = true ->
             key_eqb (row_key keys r) (row_key keys m) = false) ->
  rows_unique keys (rows ++ [m]) = true.
Proof.
  induction rows as [|r rows IH]; intros H Hm.
  - simpl. rewrite andb_false_r. reflexivity.
  - apply rows_unique_cons in H as [Hr Ht]. cbn [app].
    apply rows_unique_cons. split.
    + intros Hu r' Hin. apply in_app_or in Hin as [Hin|[<-|[]]]; [auto|].
      rewrite key_eqb_comm. apply Hm; [left; reflexivity|assumption].
    + apply IH; [assumption|]. intros r' Hin. apply Hm. right; assumption.
Qed.

Lemma lookup_row_none_neq keys sr rows : lookup_row keys sr rows = None ->
  forall r, In r rows -> key_usable (row_key keys r) = true ->
  key_eqb (row_key keys r) (row_key keys sr) = false.
Proof.
  unfold lookup_row. intros H r Hin Hu.
  destruct (key_usable (row_key keys sr)) eqn:Hs.
  - eapply find_row_none; eauto.
  - destruct (key_eqb (row_key keys r) (row_key keys sr)) eqn:X; [|reflexivity].
    apply key_eqb_usable in X. congruence.
Qed.

(** * the merge preserves uniqueness *)
Lemma key_leaf_ok_weaken kk i : key_leaf_ok true kk i = true -> key_leaf_ok false kk i = true.
Proof. unfold key_leaf_ok. destruct (nth_error kk i) as [[? ? ? [?|]| |]|]; auto. Qed.

Lemma keys_leaf_ok_weaken kk keys :
  forallb (key_leaf_ok true kk) keys = true -> forallb (key_leaf_ok false kk) keys = true.
Proof. rewrite !forallb_forall. intros H i Hi. apply key_leaf_ok_weaken. auto. Qed.

Lemma unique_kids_empty rec kids : unique_kids rec kids (empty_content kids) = true.
Proof. induction kids as [|k kids IH]; simpl; auto. Qed.

Lemma keys_unique_empty_node k : keys_unique k (empty_node k) = true.
Proof. destruct k; simpl; auto. apply unique_kids_empty. Qed.

Lemma keys_unique_leaf k d : is_leaf k = true -> keys_unique k d = true.
Proof. destruct k; try discriminate. reflexivity. Qed.

Lemma merge_kids_unique mrec created ks :
  Forall (fun k => forall sd td c, shaped k sd = true -> shaped k td = true -> keys_unique k td = true ->
                                   keys_unique k (mrec k sd td c) = true) ks ->
  forall sc tc, shaped_kids shaped ks sc = true -> shaped_kids shaped ks tc = true ->
  unique_kids keys_unique ks tc = true ->
  unique_kids keys_unique ks (merge_kids mrec created ks sc tc) = true.
Proof.
  induction 1 as [|k ks Hk _ IH]; intros [|sd sc] [|td tc] Hs Ht Hu; simpl in *; try discriminate; auto.
  apply andb_true_iff in Hs as [Hsd Hs]. apply andb_true_iff in Ht as [Htd Ht].
  apply andb_true_iff in Hu as [Hud Hu].
  apply andb_true_iff; split; [|apply IH; assumption].
  destruct k as [m ty il dflt|m kk|m keys row].
  - destruct sd as [d|]; [reflexivity|]. destruct created; [|assumption].
    destruct dflt; [reflexivity|assumption].
  - destruct sd as [sdn|]; [|assumption]. apply Hk; [assumption| |].
    + destruct td as [t|]; [assumption|]. apply shaped_empty_node; reflexivity.
    + destruct td as [t|]; [assumption|]. apply keys_unique_empty_node.
  - destruct sd as [sdn|]; [|assumption]. apply Hk; [assumption| |].
    + destruct td as [t|]; [assumption|]. apply shaped_empty_node; reflexivity.
    + destruct td as [t|]; [assumption|]. apply keys_unique_empty_node.
Qed.

Lemma merge_rows_unique keys row :
  wf_schema row = true -> is_leaf row = false ->
  forallb (key_leaf_ok true (skids row)) keys = true ->
  (forall sd td c, shaped row sd = true -> shaped row td = true -> keys_unique row td = true ->
                   keys_unique row (merge_one row sd td c) = true) ->
  forall srows trows, forallb (shaped row) srows = true -> forallb (shaped row) trows = true ->
    rows_unique keys trows = true -> forallb (keys_unique row) trows = true ->
    rows_unique keys (merge_rows merge_one keys row srows trows) = true /\
    forallb (keys_unique row) (merge_rows merge_one keys row srows trows) = true.
Proof.
  intros Hwf Hnl Hk Hrow. unfold merge_rows.
  induction srows as [|sr srows IH]; intros trows Hs Ht Hu Hf; [split; assumption|].
  simpl in Hs. apply andb_true_iff in Hs as [Hsr Hs]. cbn [fold_left].
  destruct (lookup_row keys sr trows) as [j|] eqn:E.
  - destruct (lookup_row_key keys sr trows j (DCont []) E) as [Hj Hkj].
    pose proof (lookup_row_usable _ _ _ _ E) as Hus.
    assert (Htj : shaped row (nth j trows (DCont [])) = true) by (apply forallb_nth; assumption).
    assert (Hfj : keys_unique row (nth j trows (DCont [])) = true)
      by (apply (forallb_nth (keys_unique row)); assumption).
    set (m := merge_one row sr (nth j trows (DCont [])) false).
    assert (Hkm : row_key keys m = row_key keys sr).
    { apply row_key_merge_usable; auto. apply keys_leaf_ok_weaken. assumption. }
    apply IH; auto.
    + apply forallb_set_nth; [assumption|]. apply merge_shaped; assumption.
    + apply (rows_unique_set_nth keys m (DCont [])); auto. rewrite Hkm. assumption.
    + apply forallb_set_nth; [assumption|]. apply Hrow; assumption.
  - set (m := merge_one row sr (empty_node row) true).
    assert (Hkm : row_key keys m = row_key keys sr) by (apply row_key_merge_new; assumption).
    assert (He : shaped row (empty_node row) = true) by (apply shaped_empty_node; assumption).
    apply IH; auto.
    + apply forallb_app'; [assumption|]. simpl. rewrite andb_true_r. apply merge_shaped; assumption.
    + apply rows_unique_snoc; [assumption|]. rewrite Hkm. apply lookup_row_none_neq. assumption.
    + apply forallb_app'; [assumption|]. simpl. rewrite andb_true_r.
      apply Hrow; auto. apply keys_unique_empty_node.
Qed.

Theorem merge_unique s : wf_schema s = true -> keys_ok true s = true ->
  forall src tgt c, shaped s src = true -> shaped s tgt = true -> keys_unique s tgt = true ->
  keys_unique s (merge_one s src tgt c) = true.
Proof.
  induction s as [m ty il d|m kids IH|m keys row IH] using snode_ind'; intros Hwf Hko src tgt c Hs Ht Hu.
  - reflexivity.
  - destruct src as [|sc|], tgt as [|tc|]; simpl in Hs, Ht; try discriminate.
    cbn [merge_one keys_unique]. cbn [keys_unique] in Hu.
    apply merge_kids_unique; try assumption.
    simpl in Hwf, Hko. rewrite forallb_forall in Hwf, Hko. rewrite Forall_forall in *.
    intros k Hk sd td c'. apply IH; auto.
  - destruct src as [| |srows], tgt as [| |trows]; simpl in Hs, Ht; try discriminate.
    cbn [merge_one keys_unique]. cbn [keys_unique] in Hu.
    simpl in Hwf, Hko. apply andb_true_iff in Hwf as [Hnl Hwf]. apply negb_true_iff in Hnl.
    apply andb_true_iff in Hko as [Hk Hko]. apply andb_true_iff in Hu as [Hu Hf].
    destruct (merge_rows_unique keys row Hwf Hnl Hk (IH Hwf Hko) srows trows Hs Ht Hu Hf) as [A B].
    rewrite A, B. reflexivity.
Qed.

Corollary merge_content_unique kids src tgt :
  forallb wf_schema kids = true -> forallb (keys_ok true) kids = true ->
  shaped_kids shaped kids src = true -> shaped_kids shaped kids tgt = true ->
  keys_unique_content kids tgt = true ->
  keys_unique_content kids (merge_content kids src tgt) = true.
Proof.
  intros Hwf Hko Hs Ht Hu.
  exact (merge_unique (SCont (mkMeta [] [] true [] None) kids) Hwf Hko (DCont src) (DCont tgt) false Hs Ht Hu).
Qed.

Corollary merge_content_shaped kids src tgt :
  forallb wf_schema kids = true ->
  shaped_kids shaped kids src = true -> shaped_kids shaped kids tgt = true ->
  shaped_kids shaped kids (merge_content kids src tgt) = true.
Proof.
  intros Hwf Hs Ht.
  exact (merge_shaped (SCont (mkMeta [] [] true [] None) kids) Hwf (DCont src) (DCont tgt) false Hs Ht).
Qed.

(** * positions of a content *)
Definition dflt_s : snode := SCont (mkMeta [] [] true [] None) [].

Lemma nth_slist kids i m keys r : nth i kids dflt_s = SList m keys r -> nth_error kids i = Some (SList m keys r).
Proof.
  revert i; induction kids as [|k kids IH]; intros [|i] H; simpl in *; try discriminate; auto.
  subst. reflexivity.
Qed.

Lemma shaped_kids_nth rec ks : forall c i k d,
  shaped_kids rec ks c = true -> nth_error ks i = Some k -> nth i c None = Some d -> rec k d = true.
Proof.
  induction ks as [|k0 ks IH]; intros [|x c] i k d H Hk Hd; simpl in H;
    try (destruct i; discriminate).
  apply andb_true_iff in H as [Hx H]. destruct i as [|i]; simpl in *.
  - inversion Hk; subst. assumption.
  - eapply IH; eauto.
Qed.

Lemma shaped_kids_set_nth rec ks : forall c i k d,
  shaped_kids rec ks c = true -> nth_error ks i = Some k -> rec k d = true ->
  shaped_kids rec ks (set_nth i (Some d) c) = true.
Proof.
  induction ks as [|k0 ks IH]; intros [|x c] i k d H Hk Hd; simpl in H; try discriminate;
    try (destruct i; discriminate).
  apply andb_true_iff in H as [Hx H]. destruct i as [|i]; simpl in *.
  - inversion Hk; subst. rewrite Hd. assumption.
  - rewrite Hx. simpl. eapply IH; eauto.
Qed.

Lemma shaped_kids_set_none rec ks : forall c i,
  shaped_kids rec ks c = true -> shaped_kids rec ks (set_nth i None c) = true.
Proof.
  induction ks as [|k0 ks IH]; intros [|x c] [|i] H; simpl in *; try discriminate; auto;
    apply andb_true_iff in H as [Hx H]; auto.
  rewrite Hx. simpl. auto.
Qed.

Lemma unique_kids_set_nth rec ks : forall c i k d,
  unique_kids rec ks c = true -> nth_error ks i = Some k -> rec k d = true ->
  unique_kids rec ks (set_nth i (Some d) c) = true.
Proof.
  induction ks as [|k0 ks IH]; intros [|x c] i k d H Hk Hd; simpl in H |- *; auto;
    try (destruct i; discriminate); try (destruct i; reflexivity).
  apply andb_true_iff in H as [Hx H]. destruct i as [|i]; simpl in *.
  - inversion Hk; subst. rewrite Hd. assumption.
  - rewrite Hx. simpl. eapply IH; eauto.
Qed.

Lemma unique_kids_set_none rec ks : forall c i,
  unique_kids rec ks c = true -> unique_kids rec ks (set_nth i None c) = true.
Proof.
  induction ks as [|k0 ks IH]; intros [|x c] [|i] H; simpl in *; auto;
    apply andb_true_iff in H as [Hx H]; auto.
  rewrite Hx. simpl. auto.
Qed.

Lemma forallb_nth_error {A} (p : A -> bool) l i x : forallb p l = true -> nth_error l i = Some x -> p x = true.
Proof. intros H Hn. rewrite forallb_forall in H. apply H. eapply nth_error_In; eauto. Qed.

(** * every operation preserves "shaped and unique" *)
Definition op_src_ok (kids : list snode) (o : op) : bool :=
  match o with
  | OpUpsert src => shaped_kids shaped kids src
  | OpReplaceKid _ src => shaped_kids shaped kids src
  | OpReplaceRow i _ row => match nth i kids dflt_s with SList _ _ r => shaped r row | _ => true end
  | OpInsertRows i rows => match nth i kids dflt_s with SList _ _ r => forallb (shaped r) rows | _ => true end
  | _ => true
  end.

Definition inv (kids : list snode) (t : content) : Prop :=
  shaped_kids shaped kids t = true /\ keys_unique_content kids t = true.

Section PerOp.
  Variable kids : list snode.
  Hypothesis Hwf : forallb wf_schema kids = true.
  Hypothesis Hcf : forallb choice_free kids = true.
  Hypothesis Hko : forallb (keys_ok true) kids = true.

  Lemma inv_set_list tgt i m keys row rows rows' :
    inv kids tgt -> nth_error kids i = Some (SList m keys row) -> nth i tgt None = Some (DList rows) ->
    (forallb (shaped row) rows = true -> rows_unique keys rows = true -> forallb (keys_unique row) rows = true ->
     forallb (shaped row) rows' = true /\ rows_unique keys rows' = true /\ forallb (keys_unique row) rows' = true) ->
    inv kids (set_nth i (Some (DList rows')) tgt).
  Proof.
    intros [Hs Hu] Hk Ht H.
    pose proof (shaped_kids_nth _ _ _ _ _ _ Hs Hk Ht) as A. simpl in A.
    pose proof (all_kids_nth keys_unique _ _ _ _ _ Hu Hk Ht) as B. simpl in B.
    apply andb_true_iff in B as [B1 B2]. destruct (H A B1 B2) as (X & Y & Z). split.
    - eapply shaped_kids_set_nth; eauto.
    - eapply unique_kids_set_nth; eauto. simpl. rewrite Y, Z. reflexivity.
  Qed.

  Lemma inv_merge src tgt : shaped_kids shaped kids src = true -> inv kids tgt -> inv kids (merge_content kids src tgt).
  Proof.
    intros Hs [Ht Hu]. split; [apply merge_content_shaped|apply merge_content_unique]; assumption.
  Qed.

  Lemma inv_edit_list tgt i m keys row srows rows d st :
    inv kids tgt -> nth_error kids i = Some (SList m keys row) ->
    forallb (shaped row) srows = true ->
    forallb (shaped row) rows = true -> rows_unique keys rows = true -> forallb (keys_unique row) rows = true ->
    st <> Update ->
    edit_one false (SList m keys row) (DList srows) (DList rows) false st = Ok d ->
    inv kids (set_nth i (Some d) tgt).
  Proof.
    intros [Hs Hu] Hk Hsr Hr Hru Hrf Hst Hrun.
    pose proof (forallb_nth_error _ _ _ _ Hwf Hk) as Hw.
    pose proof (forallb_nth_error _ _ _ _ Hcf Hk) as Hc.
    pose proof (forallb_nth_error _ _ _ _ Hko Hk) as Ho.
    apply edit_ok_is_merge in Hrun; auto; [|destruct st; simpl; auto; congruence].
    subst d. split.
    - eapply shaped_kids_set_nth; eauto. apply merge_shaped; auto.
    - eapply unique_kids_set_nth; eauto. apply merge_unique; auto.
      simpl. rewrite Hru, Hrf. reflexivity.
  Qed.

  Theorem apply_op_preserves tgt o r :
    op_src_ok kids o = true -> inv kids tgt -> apply_op kids tgt o = Ok r -> inv kids r.
  Proof.
    intros Hsrc Hinv Hrun. destruct o as [src|i|i key|i src|i key row|i srows|i ks]; simpl in Hsrc; cbn [apply_op] in Hrun.
    - (* Upsert *)
      destruct Hinv as [Ht Hu].
      apply edit_content_ok_is_merge in Hrun; auto. subst r. apply inv_merge; [assumption|split; assumption].
    - (* DeleteKid *)
      inversion Hrun; subst r. destruct Hinv as [Ht Hu]. split.
      + apply shaped_kids_set_none. assumption.
      + apply unique_kids_set_none. assumption.
    - (* DeleteRow *)
      destruct (nth i kids (SCont (mkMeta [] [] true [] None) [])) as [| |m keys row] eqn:Ek; try discriminate.
      destruct (nth i tgt None) as [[| |rows]|] eqn:Et; try discriminate.
      inversion Hrun; subst r. apply nth_slist in Ek.
      eapply inv_set_list; eauto. intros A B C. repeat split.
      + eapply forallb_sub; [|exact A]. apply in_remove_row.
      + apply rows_unique_remove. assumption.
      + eapply forallb_sub; [|exact C]. apply in_remove_row.
    - (* ReplaceKid *)
      destruct Hinv as [Ht Hu].
      assert (Hinv' : inv kids (set_nth i None tgt)).
      { split; [apply shaped_kids_set_none|apply unique_kids_set_none]; assumption. }
      apply edit_content_ok_is_merge in Hrun; auto; [|apply Hinv'].
      subst r. apply inv_merge; assumption.
    - (* ReplaceRow *)
      destruct (nth i kids (SCont (mkMeta [] [] true [] None) [])) as [| |m keys row0] eqn:Ek; try discriminate.
      destruct (nth i tgt None) as [[| |rows]|] eqn:Et; try discriminate.
      fold dflt_s in Hsrc. unfold dflt_s in Hsrc. rewrite Ek in Hsrc.
      destruct (edit_one false (SList m keys row0) (DList [row]) (DList (remove_row keys key rows)) false Insert)
        as [d|e] eqn:E; [|discriminate].
      inversion Hrun; subst r. apply nth_slist in Ek.
      pose proof (shaped_kids_nth _ _ _ _ _ _ (proj1 Hinv) Ek Et) as A. simpl in A.
      pose proof (all_kids_nth keys_unique _ _ _ _ _ (proj2 Hinv) Ek Et) as B. simpl in B.
      apply andb_true_iff in B as [B1 B2].
      eapply inv_edit_list; [exact Hinv|exact Ek| | | | | |exact E].
      + simpl. rewrite Hsrc. reflexivity.
      + eapply forallb_sub; [|exact A]. apply in_remove_row.
      + apply rows_unique_remove. assumption.
      + eapply forallb_sub; [|exact B2]. apply in_remove_row.
      + discriminate.
    - (* InsertRows *)
      destruct (nth i kids (SCont (mkMeta [] [] true [] None) [])) as [| |m keys row0] eqn:Ek; try discriminate.
      destruct (nth i tgt None) as [[| |rows]|] eqn:Et; try discriminate.
      fold dflt_s in Hsrc. unfold dflt_s in Hsrc. rewrite Ek in Hsrc.
      destruct (edit_one false (SList m keys row0) (DList srows) (DList rows) false Insert)
        as [d|e] eqn:E; [|discriminate].
      inversion Hrun; subst r. apply nth_slist in Ek.
      pose proof (shaped_kids_nth _ _ _ _ _ _ (proj1 Hinv) Ek Et) as A. simpl in A.
      pose proof (all_kids_nth keys_unique _ _ _ _ _ (proj2 Hinv) Ek Et) as B. simpl in B.
      apply andb_true_iff in B as [B1 B2].
      eapply inv_edit_list; [exact Hinv|exact Ek|exact Hsrc|exact A|exact B1|exact B2| |exact E].
      discriminate.
    - (* DeleteRows *)
      destruct (nth i kids (SCont (mkMeta [] [] true [] None) [])) as [| |m keys row] eqn:Ek; try discriminate.
      destruct (nth i tgt None) as [[| |rows]|] eqn:Et; try discriminate.
      inversion Hrun; subst r. apply nth_slist in Ek.
      eapply inv_set_list; eauto. clear. revert rows.
      induction ks as [|k ks IH]; intros rows A B C; [auto|]. cbn [fold_left]. apply IH.
      + eapply forallb_sub; [|exact A]. apply in_remove_row.
      + apply rows_unique_remove. assumption.
      + eapply forallb_sub; [|exact C]. apply in_remove_row.
  Qed.

  (** * histories *)
  Definition run_ops (ops : list op) (start : res content) : res content :=
    fold_left (fun acc o => match acc with Ok t => apply_op kids t o | Err e => Err e end) ops start.

  Lemma run_ops_err ops e : run_ops ops (Err e) = Err e.
  Proof. induction ops as [|o ops IH]; simpl; auto. Qed.

  Theorem history_preserves ops : forall tgt r,
    forallb (op_src_ok kids) ops = true -> inv kids tgt -> run_ops ops (Ok tgt) = Ok r -> inv kids r.
  Proof.
    induction ops as [|o ops IH]; intros tgt r Hsrc Hinv Hrun.
    - simpl in Hrun. inversion Hrun; subst. assumption.
    - simpl in Hsrc. apply andb_true_iff in Hsrc as [Ho Hsrc]. unfold run_ops in Hrun. cbn [fold_left] in Hrun.
      destruct (apply_op kids tgt o) as [t|e] eqn:E.
      + apply (IH t r); auto. eapply apply_op_preserves; eauto.
      + fold (run_ops ops (Err e)) in Hrun. rewrite run_ops_err in Hrun. discriminate.
  Qed.
End PerOp.

Theorem keys_unique_history kids ops tgt r :
  forallb wf_schema kids = true -> forallb choice_free kids = true -> forallb (keys_ok true) kids = true ->
  forallb (op_src_ok kids) ops = true ->
  shaped_kids shaped kids tgt = true -> keys_unique_content kids tgt = true ->
  fold_left (fun acc o => match acc with Ok t => apply_op kids t o | Err e => Err e end) ops (Ok tgt) = Ok r ->
  shaped_kids shaped kids r = true /\ keys_unique_content kids r = true.
Proof.
  intros Hwf Hcf Hko Hsrc Ht Hu Hrun.
  exact (history_preserves kids Hwf Hcf Hko ops tgt r Hsrc (conj Ht Hu) Hrun).
Qed.
