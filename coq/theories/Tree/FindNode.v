(** Selection.Find (C08) over data served by ANY node implementation that honours the contract of
    node.Node.Next, not only the reference store that echoes the key of the request.

      node/node.go       Node.Next: "[]val.Value - If a key was defined in YANG, AND the request is
                         for the next item in the list, then you must also return the key": for a
                         lookup BY key (ListRequest.Key set) a node may answer (entry, nil, nil),
                         may hand back the request's key, or may report the key the entry holds
      node/selection.go  selectListItem:
                             childNode, key, err := sel.Node.Next( *r)
                             if err != nil || childNode == nil { return nil, true, nil, err }
                             // no need to trust implementation to return the key we passed to them
                             if key == nil { key = r.Key }
                             child := &Selection{ ... Path: &Path{Parent: parentPath, Meta: sel.Path.Meta, Key: key} ...}
      node/find.go       findSlice: the list step of the walk is selectListItem with r.Key = the
                         converted key of the path segment

    The key of the found selection (Selection.Key(), and through Path.Key the rendered path of the
    entry and of everything found below it) is what the node reported, or - when it reported none -
    the key of the request.  [walk_gen] is Tree/Find.v's [walk] with that step made explicit;
    [nodeans] is the node's answer.  The code is [walk_gen true]; [walk_gen false] is the variant
    WITHOUT the fallback to the request's key, kept only to show (Tree/FindNodeProofs.v) that the
    "same key values" clause of C08 depends on it. *)
From Coq Require Import ZArith List Bool Strings.Byte.
From YV Require Import Val.Model Tree.Schema Tree.Editor Tree.Pct Tree.KeyText Tree.Find.
Import ListNotations.

(** ** the node's side *)

(** second result of Node.Next for a lookup by key: flat kid index of the list in its holder, the
    key of the request, the key values the matched entry holds -> the reported key ([None] = nil) *)
Definition nodeans := nat -> list (option lval) -> list (option dnode) -> option (list (option lval)).

Definition stored_key (k : list (option dnode)) : list (option lval) :=
  map (fun d => match d with Some (DLeaf v) => Some v | _ => None end) k.

(** the three behaviours the contract leaves open (harness/props/c08.go c8serve) *)
Inductive keyans :=
| KEcho      (* return r.Key: every node shipped in nodeutil, and the reference store *)
| KNil       (* return nil: "only when iterating" read literally *)
| KStored.   (* return the entry's own key values, freshly read from the entry *)

Definition answer (a : keyans) (req : list (option lval)) (stored : list (option dnode))
  : option (list (option lval)) :=
  match a with
  | KEcho => Some req
  | KNil => None
  | KStored => Some (stored_key stored)
  end.

(** how the lists of one served tree answer: all alike, or depending on where the list sits *)
Inductive kpolicy := PAll (a : keyans) | PByIdx.

Definition ans_of (p : kpolicy) : nodeans :=
  fun i req stored =>
    match p with
    | PAll a => answer a req stored
    | PByIdx => answer (match Nat.modulo i 3 with O => KNil | S O => KStored | _ => KEcho end) req stored
    end.

(** ** the library's side *)

(** selectListItem: [if key == nil { key = r.Key }]; the result is Path.Key of the child ([None]:
    a nil Path.Key - the segment then renders, and is observed, as the bare list name) *)
Definition sel_key (fallback : bool) (reported : option (list (option lval))) (req : list (option lval))
  : option (list (option lval)) :=
  match reported with
  | Some k => Some k
  | None => if fallback then Some req else None
  end.

(** the reference store's List.find + row access, with the key values the matched entry holds *)
Definition entry_at (lst : snode) (rows : list dnode) (key : list (option dnode))
  : option (content * list (option dnode)) :=
  let (keys, _) := list_parts lst in
  match find_row keys key rows O with
  | Some j => match nth_error rows j with
              | Some (DCont c) => Some (c, row_key keys (DCont c))
              | _ => None
              end
  | None => None
  end.

(** findSlice (Tree/Find.v [walk]) with the list step spelled out *)
Fixpoint walk_gen (fb : bool) (ans : nodeans) (cur : cursor) (segs : list seg) : wres :=
  match segs with
  | [] => WOk (Some [])
  | sg :: tl =>
      let i := sg_idx sg in
      match sg_node sg with
      | SLeaf _ _ _ _ =>
          match tl with
          | [] => WOk (Some [SName i])
          | _ => WErr FOther
          end
      | SCont _ kids' =>
          match cur with
          | AtCont _ data =>
              match nth i data None with
              | Some (DCont c) => wcons (SName i) (walk_gen fb ans (AtCont kids' c) tl)
              | _ => WOk None
              end
          | _ => WErr FOther
          end
      | SList _ _ row as lst =>
          match cur with
          | AtCont _ data =>
              match nth i data None with
              | Some (DList rows) =>
                  match sg_key sg with
                  | None =>
                      match tl with
                      | [] => WOk (Some [SName i])
                      | _ => WErr FOther
                      end
                  | Some key =>
                      match entry_at lst rows (map (option_map DLeaf) key) with
                      | Some (c, stored) =>
                          match sel_key fb (ans i key stored) key with
                          | Some k =>
                              match all_some k with
                              | Some vals => wcons (SKey i vals) (walk_gen fb ans (AtCont (skids row) c) tl)
                              | None => WErr FOther   (* a key with a nil value: no node within the contract reports one *)
                              end
                          | None => wcons (SName i) (walk_gen fb ans (AtCont (skids row) c) tl)
                          end
                      | None => WOk None
                      end
                  end
              | _ => WOk None
              end
          | _ => WErr FOther
          end
      end
  end.

(** Selection.Find (Tree/Find.v [find_from], [find]) on top of it *)
Definition find_from_gen (fb : bool) (ans : nodeans) (pfx : ident) (kids : list snode) (data : content)
           (start' : loc) (scope_loc : loc) (p : list byte) : fres :=
  let p := fst (cut_at qmark p) in
  match resolve (AtCont kids data) start', resolve (AtCont kids data) scope_loc with
  | Some cur, Some scur =>
      match parse_segs (is_root scope_loc) pfx (scope_of scur) (split_on slash p) with
      | PErr e => FErr e
      | PPanic => FPanic
      | PUnmodelled => FUnmodelled
      | POk segs =>
          match walk_gen fb ans cur segs with
          | WOk (Some steps) => FOk (Some (start' ++ steps))
          | WOk None => FOk None
          | WErr e => FErr e
          end
      end
  | _, _ => FBadStart
  end.

Definition find_gen (fb : bool) (ans : nodeans) (pfx : ident) (kids : list snode) (data : content)
           (start : loc) (path : list byte) : fres :=
  match strip_up (rev start) path with
  | None => FErr FNotFound
  | Some (rl, p) => find_from_gen fb ans pfx kids data (rev rl) (rev rl) p
  end.

(** the code *)
Definition walk_n := walk_gen true.
Definition find_n := find_gen true.

(** ** comparing locations the way the property does: same schema positions, key values equal as
    val.Equal decides ([lval_eqb]) *)
Fixpoint lvals_eqb (a b : list lval) : bool :=
  match a, b with
  | [], [] => true
  | x :: a', y :: b' => lval_eqb x y && lvals_eqb a' b'
  | _, _ => false
  end.
Definition step_eqb (a b : step) : bool :=
  match a, b with
  | SName i, SName j => Nat.eqb i j
  | SKey i k, SKey j k' => Nat.eqb i j && lvals_eqb k k'
  | _, _ => false
  end.
Fixpoint loc_eqb (a b : loc) : bool :=
  match a, b with
  | [], [] => true
  | x :: a', y :: b' => step_eqb x y && loc_eqb a' b'
  | _, _ => false
  end.
