(** C10 proofs, part 4: text to decimal64 (ParseFloat on the plain grammar) and toDecimal64. *)
From Coq Require Import ZArith List Bool Lia Strings.Byte QArith Qreduction.
From YV Require Import Base.Wrap Val.Model Val.Proofs Conv.Model Conv.Spec Conv.Proofs Conv.ProofsNum Conv.ProofsText.
Import ListNotations.
Open Scope Z_scope.

Lemma pf_scan_frac s : forall m nd fd m' nd' fd',
  pf_scan s true m nd fd = Some (m', nd', fd') ->
  dec_val s m = Some m' /\ nd' = nd + Z.of_nat (length s) /\ fd' = fd + Z.of_nat (length s).
Proof.
  induction s as [|c s IH]; intros m nd fd m' nd' fd' H; cbn [pf_scan dec_val length] in *.
  - injection H as <- <- <-. repeat split; lia.
  - destruct (byte_z c =? 46); [discriminate|].
    destruct (is_digit c); [|discriminate].
    apply IH in H. destruct H as (H1 & H2 & H3). rewrite Nat2Z.inj_succ. repeat split; [exact H1|lia|lia].
Qed.

Lemma pf_scan_int s : forall m nd m' nd' fd',
  pf_scan s false m nd 0 = Some (m', nd', fd') ->
  match split_dot s with
  | (ip, None) => ip = s /\ dec_val s m = Some m' /\ nd' = nd + Z.of_nat (length s) /\ fd' = 0
  | (ip, Some fp) => dec_val (ip ++ fp) m = Some m' /\
                     nd' = nd + Z.of_nat (length ip) + Z.of_nat (length fp) /\ fd' = Z.of_nat (length fp)
  end.
Proof.
  induction s as [|c s IH]; intros m nd m' nd' fd' H; cbn [pf_scan split_dot dec_val length] in *.
  - injection H as <- <- <-. repeat split; lia.
  - destruct (byte_z c =? 46) eqn:Ed.
    + apply pf_scan_frac in H. destruct H as (H1 & H2 & H3). cbn [app length]. repeat split; [exact H1|lia|lia].
    + destruct (is_digit c) eqn:Dc; [|discriminate].
      apply IH in H. destruct (split_dot s) as [ip [fp|]].
      * destruct H as (H1 & H2 & H3). cbn [app dec_val length]. rewrite Dc, Nat2Z.inj_succ.
        repeat split; [exact H1|lia|lia].
      * destruct H as (H1 & H2 & H3 & H4). subst ip. rewrite Nat2Z.inj_succ.
        repeat split; [exact H2|lia|lia].
Qed.

Lemma pow10_pos n : Z.pos (pow10 n) = 10 ^ Z.of_nat n.
Proof. unfold pow10. rewrite Z2Pos.id; [reflexivity | apply Z.pow_pos_nonneg; lia]. Qed.

Lemma pow10_split n : 10 ^ Z.of_nat n = 2 ^ Z.of_nat n * 5 ^ Z.of_nat n.
Proof. change 10 with (2 * 5). apply Z.pow_mul_l. Qed.

(** a0 * 2^-n is mant / 10^n when mant = 5^n * a0 *)
Lemma dy_dec a0 n : Qeq (Qmake (5 ^ Z.of_nat n * a0) (pow10 n)) (dy a0 (- Z.of_nat n)).
Proof.
  unfold dy. destruct n as [|n].
  - change (Z.of_nat 0) with 0. change (- 0) with 0. change (0 <=? 0) with true. cbv iota.
    unfold Qeq, inject_Z. cbn [Qnum Qden]. change (Z.pos (pow10 0)) with 1. change (5 ^ 0) with 1. change (2 ^ 0) with 1. lia.
  - destruct (Z.leb_spec 0 (- Z.of_nat (S n))); [lia|].
    unfold Qeq. cbn [Qnum Qden]. rewrite pow10_pos, Z.opp_involutive.
    rewrite Z2Pos.id by (apply Z.pow_pos_nonneg; lia). rewrite pow10_split. ring.
Qed.

Lemma Qopp_dy a e : Qeq (Qopp (dy a e)) (dy (- a) e).
Proof.
  unfold dy. destruct (0 <=? e); unfold Qeq, Qopp, inject_Z; simpl; lia.
Qed.

Lemma pf_finish_exact neg body x : pf_finish neg body = Ok x ->
  bytes_eqb body w_inf = false /\
  exists q, read_unsigned body = Some q /\ qnum (if neg then Qopp q else q) = denote_fl x.
Proof.
  unfold pf_finish. destruct (pf_scan body false 0 0 0) as [[[mant nd] fd]|] eqn:S; [|discriminate].
  intros H. split.
  { destruct (bytes_eqb body w_inf) eqn:E; [|reflexivity].
    apply bytes_eqb_true in E. subst body. vm_compute in S. discriminate. }
  apply pf_scan_int in S.
  destruct (Z.eqb_spec nd 0) as [|Hnd]; [discriminate|].
  (* the value read by the spec *)
  assert (R : exists n, fd = Z.of_nat n /\ read_unsigned body = Some (Qmake mant (pow10 n))).
  { unfold read_unsigned. destruct (split_dot body) as [ip [fp|]].
    - destruct S as (H1 & H2 & H3). exists (length fp). split; [exact H3|].
      destruct (ip ++ fp) eqn:Eall.
      + apply app_eq_nil in Eall. destruct Eall; subst. simpl in *. lia.
      + rewrite H1. reflexivity.
    - destruct S as (H1 & H2 & H3 & H4). subst ip. exists O. split; [exact H4|].
      destruct body; [simpl in *; lia|]. rewrite H2. reflexivity. }
  destruct R as (n & -> & R). rewrite R. eexists; split; [reflexivity|].
  destruct (Z.eqb_spec mant 0) as [->|Hm].
  - injection H as <-. destruct neg; simpl.
    + apply qnum_ext. unfold Qeq; simpl; lia.
    + unfold dy. simpl. apply qnum_ext. unfold Qeq; simpl; lia.
  - destruct (Z.eqb_spec (mant mod 5 ^ Z.of_nat n) 0) as [Hdiv|]; [|discriminate].
    cbn [negb] in H. cbv zeta in H.
    destruct (strip_twos _ _ _) as [odd t].
    destruct ((odd <? 2 ^ 53) && (-1074 <=? t - Z.of_nat n) && (Z.log2 odd + t - Z.of_nat n <? 1024)); [|discriminate].
    injection H as <-.
    assert (Hp : 0 < 5 ^ Z.of_nat n) by (apply Z.pow_pos_nonneg; lia).
    pose proof (Z_div_mod_eq_full mant (5 ^ Z.of_nat n)) as Em. rewrite Hdiv, Z.add_0_r in Em.
    set (a0 := mant / 5 ^ Z.of_nat n) in *. clearbody a0. subst mant.
    cbn [denote_fl]. apply qnum_ext. destruct neg.
    + rewrite (dy_dec a0 n). apply Qopp_dy.
    + apply dy_dec.
Qed.

(** ParseFloat on the plain decimal grammar, when the model answers, is exact *)
Lemma parse_float_exact s x : parse_float s = Ok x -> read_num s = Some (denote_fl x).
Proof.
  destruct s as [|c r]; [discriminate|]. unfold parse_float.
  destruct (forallb pf_alphabet (c :: r)); [|discriminate]. cbn [negb].
  unfold read_num.
  destruct (bytes_eqb (c :: r) w_nan) eqn:En.
  { apply bytes_eqb_true in En. injection En as -> ->. vm_compute. discriminate. }
  unfold strip_sign.
  destruct (byte_z c =? 43); [|destruct (byte_z c =? 45)]; intros H;
    apply pf_finish_exact in H; destruct H as (Hi & q & Hq & Hv); rewrite Hi, Hq, Hv; reflexivity.
Qed.

(** toDecimal64 *)
Lemma to_dec_exact x d : to_dec x = Ok d -> agree (denote_fl d) (denote_scalar x).
Proof.
  destruct x as [|named k z|named f|f|named s|c|]; simpl; try discriminate.
  - destruct named; [discriminate|].
    assert (S : Ok (FFin z 0) = Ok d -> agree (denote_fl d) (znum z)).
    { intros H; injection H as <-. simpl. rewrite dy_z0. reflexivity. }
    assert (I : (if (rne z <? 2 ^ 63) && (cvt_i64 (rne z) =? z) then Ok (FFin (rne z) 0) else Err) = Ok d ->
                agree (denote_fl d) (znum z)).
    { destruct (Z.ltb_spec (rne z) (2 ^ 63)); [|discriminate].
      destruct (Z.eqb_spec (cvt_i64 (rne z)) z) as [E|]; [|discriminate]. simpl.
      rewrite (cvt_i64_eq _ _ E H eq_refl). exact S. }
    assert (U : (if (rne z <? 2 ^ 64) && (cvt_u64 (rne z) =? z) then Ok (FFin (rne z) 0) else Err) = Ok d ->
                agree (denote_fl d) (znum z)).
    { destruct (Z.ltb_spec (rne z) (2 ^ 64)); [|discriminate].
      destruct (Z.eqb_spec (cvt_u64 (rne z)) z) as [E|]; [|discriminate]. simpl.
      rewrite (cvt_u64_eq _ _ E H eq_refl). exact S. }
    destruct k; first [exact S | exact I | exact U].
  - destruct named; [discriminate|]. intros H; injection H as <-. apply agree_fl_refl.
  - intros H; injection H as <-. apply agree_fl_refl.
  - destruct named; [discriminate|]. intros H. apply parse_float_exact in H.
    destruct d as [m e| | |n]; simpl; exact H.
Qed.
