(** C10 proofs, part 7: the executable spec oracle used by the correspondence check decides the
    propositional spec (so a case the check accepts is a case the theorems speak about). *)
From Coq Require Import ZArith List Bool Lia Strings.Byte QArith.
From YV Require Import Base.Wrap Val.Model Val.Proofs Conv.Model Conv.Spec Conv.Proofs.
Import ListNotations.
Open Scope Z_scope.

Lemma den_eqb_true a b : den_eqb a b = true -> a = b.
Proof.
  destruct a as [p| |m|s|m| |], b as [q| |n|t|n| |]; simpl; try discriminate; try reflexivity.
  - unfold q_eqb. intros H. apply andb_true_iff in H. destruct H as [H1 H2].
    apply Z.eqb_eq in H1. apply Pos.eqb_eq in H2. destruct p, q; simpl in *; subst; reflexivity.
  - intros H. apply eqb_prop in H. subst. reflexivity.
  - intros H. apply bytes_eqb_true in H. subst. reflexivity.
  - intros H. apply eqb_prop in H. subst. reflexivity.
Qed.
Lemma opt_den_eqb_true o b : opt_den_eqb o b = true -> o = Some b.
Proof. destruct o as [x|]; simpl; [|discriminate]. intros H. apply den_eqb_true in H. subst. reflexivity. Qed.

Lemma agreeb_sound a b : agreeb a b = true -> agree a b.
Proof.
  destruct a as [p| |m|s|m| |], b as [q| |n|t|n| |]; simpl; try discriminate;
  try (intros H; apply opt_den_eqb_true in H; exact H);
  try (intros H; apply bytes_eqb_true in H; exact H);
  try (intros H; apply (den_eqb_true _ _ H)).
  all: intros H; match goal with |- ?a = ?b => apply (den_eqb_true a b); exact H end.
Qed.

Lemma forall2b_sound {A B} (p : A -> B -> bool) (P : A -> B -> Prop) :
  (forall a b, p a b = true -> P a b) -> forall l m, forall2b p l m = true -> Forall2 P l m.
Proof.
  intros Hp. induction l as [|a l IH]; intros [|b m]; simpl; try discriminate; [constructor|].
  intros H. apply andb_true_iff in H. destruct H. constructor; [apply Hp; assumption | apply IH; assumption].
Qed.

Theorem exactb_sound s r : exactb s r = true -> exact s r.
Proof.
  destruct r as [|v|f l]; simpl.
  - destruct s as [[| | | | | |]|]; try discriminate. reflexivity.
  - destruct s as [x|]; [|discriminate]. intros H. exists x. split; [reflexivity | apply agreeb_sound; exact H].
  - apply forall2b_sound. apply agreeb_sound.
Qed.

Lemma fmt_eqb_true f g : fmt_eqb f g = true -> f = g.
Proof. destruct f, g; simpl; try discriminate; reflexivity. Qed.
Lemma in_rangeb_true f z : in_rangeb f z = true -> in_range f z.
Proof. unfold in_rangeb, in_range. destruct (is_signed f); [apply in_sb_spec | apply in_ub_spec]. Qed.

Lemma cval_typedb_sound f v : cval_typedb f v = true -> cval_typed f v.
Proof.
  destruct v as [g z|d|s|b]; simpl.
  - intros H. apply andb_true_iff in H. destruct H as [H R]. apply andb_true_iff in H. destruct H as [E I].
    apply fmt_eqb_true in E. split; [exact E|]. split; [exact I | apply in_rangeb_true; exact R].
  - apply fmt_eqb_true.
  - apply fmt_eqb_true.
  - apply fmt_eqb_true.
Qed.
Theorem rval_typedb_sound t r : rval_typedb t r = true -> rval_typed t r.
Proof.
  destruct r as [|v|g l], t as [f|f]; simpl; try discriminate; try trivial.
  - apply cval_typedb_sound.
  - intros H. apply andb_true_iff in H. destruct H as [E F]. apply fmt_eqb_true in E. split; [exact E|].
    apply Forall_forall. intros v Hv. apply cval_typedb_sound. rewrite forallb_forall in F. apply F. exact Hv.
Qed.
