(** C10 proofs, part 6: the NewValue front end (plain, leafref, union, enumeration). *)
From Coq Require Import ZArith List Bool Lia Strings.Byte QArith.
From YV Require Import Base.Wrap Val.Model Val.Proofs Conv.Model Conv.Spec Conv.Proofs Conv.ProofsNum
  Conv.ProofsText Conv.ProofsDec Conv.ProofsMain Conv.Front.
Import ListNotations.
Open Scope Z_scope.

Lemma by_id_in el id e : by_id el id = Some e -> In e el /\ fst e = id.
Proof.
  induction el as [|a tl IH]; simpl; [discriminate|].
  destruct (Z.eqb_spec (fst a) id).
  - intros H; injection H as <-. split; [left; reflexivity | assumption].
  - intros H. destruct (IH H). split; [right; assumption | assumption].
Qed.
Lemma by_label_in el l e : by_label el l = Some e -> In e el /\ snd e = l.
Proof.
  induction el as [|a tl IH]; simpl; [discriminate|].
  destruct (bytes_eqb (snd a) l) eqn:E.
  - intros H; injection H as <-. split; [left; reflexivity | apply bytes_eqb_true; exact E].
  - intros H. destruct (IH H). split; [right; assumption | assumption].
Qed.

(** toEnum returns a declared enum whose id is the number given or whose label is the text given
    (or reads as the number given) - except for a fractional float64, which toString rounds *)
Lemma to_enum_exact el x e : wf_scalar x -> to_enum el x = Ok e ->
  In e el /\ (enum_agree e x \/ float_text x = true).
Proof.
  intros Hw. unfold to_enum.
  destruct (conv_scalar FInt32 x) as [[g id|?|?|?]| |] eqn:E1; try discriminate.
  - destruct (by_id el id) as [e'|] eqn:B; [|discriminate]. intros H; injection H as <-.
    destruct (by_id_in _ _ _ B) as [I F]. split; [exact I|]. left. left.
    destruct (conv_scalar_exact FInt32 x _ eq_refl Hw E1) as [[A|[Ef _]] _]; [|discriminate Ef].
    rewrite F. exact A.
  - destruct (conv_scalar FUInt32 x) as [[g id|?|?|?]| |] eqn:E2; try discriminate.
    + destruct (by_id el (wraps 64 id)) as [e'|] eqn:B; [|discriminate]. intros H; injection H as <-.
      destruct (by_id_in _ _ _ B) as [I F]. split; [exact I|]. left. left.
      destruct (conv_scalar_exact FUInt32 x _ eq_refl Hw E2) as [[A|[Ef _]] T]; [|discriminate Ef].
      simpl in T. destruct T as (_ & _ & R). unfold in_range, in_u in R. simpl in R.
      rewrite wraps_id in F by (lia || (unfold in_s; simpl; lia)). rewrite F. exact A.
    + destruct (conv_scalar FString x) as [[?|?|s|?]| |] eqn:E3; try discriminate.
      destruct (by_label el s) as [e'|] eqn:B; [|discriminate]. intros H; injection H as <-.
      destruct (by_label_in _ _ _ B) as [I F]. split; [exact I|].
      destruct (conv_scalar_exact FString x _ eq_refl Hw E3) as [[A|[_ A]] _].
      * left. right. rewrite F. exact A.
      * right. exact A.
Qed.

Lemma is_nil_true s : is_nil s = true -> s = SScalar XNil.
Proof. destruct s as [[| | | | | |]|]; try discriminate. reflexivity. Qed.

Lemma nexact_nil d : nexact d (SScalar XNil) (NR RNil).
Proof. induction d; simpl; try reflexivity. exact IHd. Qed.

(** NewValue: exact (or inside the recorded region), and of the declared type *)
Theorem new_value_exact : forall ty s res, wf_src s -> new_value ty s = Ok res ->
  nexact ty s res \/ nkf ty s = true.
Proof.
  induction ty as [t|ts|el|d IH]; intros s res Hw H; simpl in H.
  - destruct (is_nil s) eqn:N.
    + injection H as <-. left. simpl. apply is_nil_true. exact N.
    + destruct (conv_impl t s) as [r| |] eqn:C; try discriminate. injection H as <-.
      pose proof (conv_typed t s r Hw C) as T.
      destruct (conv_exact_partial t s r Hw C) as [E|K]; [left | right; exact K].
      simpl. destruct r; [simpl in E; subst s; discriminate N | split; assumption | split; assumption].
  - destruct (is_nil s) eqn:N.
    + injection H as <-. left. simpl. apply is_nil_true. exact N.
    + destruct (conv_one_of ts s) as [[r t]| |] eqn:C; try discriminate. injection H as <-.
      destruct (conv_one_of_first ts s r t C) as (pre & post & -> & Ci & _).
      destruct (conv_one_of_exact _ s r t Hw C) as [[E|K] T].
      * left. simpl.
        assert (In t (pre ++ t :: post)) by (apply in_or_app; right; left; reflexivity).
        destruct r; [simpl in E; subst s; discriminate N | split; [assumption | exists t; split; assumption]
                    | split; [assumption | exists t; split; assumption]].
      * right. simpl. apply existsb_exists. exists t. split; [apply in_or_app; right; left; reflexivity | exact K].
  - destruct (is_nil s) eqn:N.
    + injection H as <-. left. simpl. apply is_nil_true. exact N.
    + destruct s as [x|ek l]; [|discriminate].
      destruct (to_enum el x) as [e| |] eqn:C; try discriminate. injection H as <-.
      destruct (to_enum_exact el x e Hw C) as [I [A|K]].
      * left. simpl. split; [exact I | exists x; split; [reflexivity | exact A]].
      * right. simpl. rewrite K. reflexivity.
  - destruct (is_nil s) eqn:N.
    + injection H as <-. left. apply is_nil_true in N. subst s. apply (nexact_nil (NLeafRef d)).
    + simpl. apply IH; assumption.
Qed.
