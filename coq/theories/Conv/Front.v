(** Model of the schema-aware front end node/value.go: NewValue for plain types (val.Conv), leafref
    (the resolved type), union (val.ConvOneOf over the member formats) and enumeration (toEnum).
    bits, identityref, enum lists and union lists are not modelled. *)
From Coq Require Import ZArith List Bool Lia Strings.Byte QArith.
From YV Require Import Base.Wrap Val.Model Conv.Model Conv.Spec.
Import ListNotations.
Open Scope Z_scope.

Definition enum := (Z * list byte)%type.          (* val.Enum{Id, Label} *)

(** the leaf's type as NewValue sees it *)
Inductive ntype :=
| NPlain (t : target)                  (* default: val.Conv(typ.Format(), v) *)
| NUnion (ts : list target)            (* val.ConvOneOf(typ.UnionFormats(), v) *)
| NEnum (el : list enum)               (* toEnum(typ.Enum(), v) *)
| NLeafRef (d : ntype).                (* NewValue(typ.Resolve(), v) *)

Inductive nres := NR (r : rval) | NREnum (e : enum).

(** val.EnumList.ById / ByLabel: first match *)
Fixpoint by_id (el : list enum) (id : Z) : option enum :=
  match el with [] => None | e :: tl => if fst e =? id then Some e else by_id tl id end.
Fixpoint by_label (el : list enum) (l : list byte) : option enum :=
  match el with [] => None | e :: tl => if bytes_eqb (snd e) l then Some e else by_label tl l end.

(** toEnum: Conv(FmtInt32) -> ById, else Conv(FmtUInt32) -> ById, else Conv(FmtString) -> ByLabel;
    a number without a matching id is an error (the label is not tried) *)
Definition to_enum (el : list enum) (x : scalar) : outcome enum :=
  match conv_scalar FInt32 x with
  | Ok (CInt _ id) => match by_id el id with Some e => Ok e | None => Err end
  | Ok _ => Err
  | Unmodelled => Unmodelled
  | Err =>
      match conv_scalar FUInt32 x with
      | Ok (CInt _ id) => match by_id el (wraps 64 id) with Some e => Ok e | None => Err end   (* int(uint) *)
      | Ok _ => Err
      | Unmodelled => Unmodelled
      | Err =>
          match conv_scalar FString x with
          | Ok (CStr s) => match by_label el s with Some e => Ok e | None => Err end
          | Ok _ => Err
          | Unmodelled => Unmodelled
          | Err => Err
          end
      end
  end.

Definition is_nil (s : src) : bool := match s with SScalar XNil => true | _ => false end.

Fixpoint new_value (ty : ntype) (s : src) : outcome nres :=
  if is_nil s then Ok (NR RNil)                         (* if v == nil { return nil, nil } *)
  else match ty with
       | NPlain t => match conv_impl t s with Ok r => Ok (NR r) | Err => Err | Unmodelled => Unmodelled end
       | NUnion ts => match conv_one_of ts s with Ok (r, _) => Ok (NR r) | Err => Err | Unmodelled => Unmodelled end
       | NEnum el => match s with
                     | SScalar x => match to_enum el x with Ok e => Ok (NREnum e) | Err => Err | Unmodelled => Unmodelled end
                     | SSlice _ _ => Unmodelled         (* Int32, UInt32 fail; then %v of a slice *)
                     end
       | NLeafRef d => new_value d s
       end.

(** ** spec *)
Definition enum_agree (e : enum) (x : scalar) : Prop :=
  agree (znum (fst e)) (denote_scalar x) \/ agree (DText (snd e)) (denote_scalar x).
Fixpoint nexact (ty : ntype) (s : src) (res : nres) : Prop :=
  match ty, res with
  | NLeafRef d, _ => nexact d s res
  | _, NR RNil => s = SScalar XNil
  | NPlain t, NR r => exact s r /\ rval_typed t r
  | NUnion ts, NR r => exact s r /\ exists t, In t ts /\ rval_typed t r
  | NEnum el, NREnum e => In e el /\ exists x, s = SScalar x /\ enum_agree e x
  | _, _ => False
  end.
Fixpoint nkf (ty : ntype) (s : src) : bool :=
  match ty with
  | NPlain t => kf_float_text t s
  | NUnion ts => existsb (fun t => kf_float_text t s) ts
  | NEnum _ => existsb float_text (elems s)
  | NLeafRef d => nkf d s
  end.

(** executable spec for the check *)
Definition enum_eqb (a b : enum) : bool := (fst a =? fst b) && bytes_eqb (snd a) (snd b).
Definition enum_agreeb (e : enum) (x : scalar) : bool :=
  agreeb (znum (fst e)) (denote_scalar x) || agreeb (DText (snd e)) (denote_scalar x).
Fixpoint nexactb (ty : ntype) (s : src) (res : nres) : bool :=
  match ty, res with
  | NLeafRef d, _ => nexactb d s res
  | _, NR RNil => is_nil s
  | NPlain t, NR r => exactb s r && rval_typedb t r
  | NUnion ts, NR r => exactb s r && existsb (fun t => rval_typedb t r) ts
  | NEnum el, NREnum e => existsb (enum_eqb e) el &&
                          match s with SScalar x => enum_agreeb e x | _ => false end
  | _, _ => false
  end.
