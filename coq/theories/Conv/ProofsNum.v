(** C10 proofs, part 2: floats to integers, the integer helpers, integers to decimal64. *)
From Coq Require Import ZArith List Bool Lia Strings.Byte QArith Qreduction.
From YV Require Import Base.Wrap Val.Model Val.Proofs Conv.Model Conv.Spec Conv.Proofs.
Import ListNotations.
Open Scope Z_scope.

(** an integral float denotes the integer [fl_int_val] *)
Lemma dy_int m e : fl_is_int m e = true -> qnum (dy m e) = znum (fl_int_val m e).
Proof.
  unfold fl_is_int, dy, fl_int_val, znum. destruct (Z.leb_spec 0 e) as [He|He]; simpl; [reflexivity|].
  intros H. apply Z.eqb_eq in H.
  assert (Hd : 0 < 2 ^ (- e)) by (apply Z.pow_pos_nonneg; lia).
  apply qnum_ext. unfold Qeq. simpl. rewrite Z2Pos.id by exact Hd.
  pose proof (Z_div_mod_eq_full m (2 ^ (- e))). lia.
Qed.

(** and a finite float that denotes an integer is integral *)
Lemma dy_int_inv m e z : qnum (dy m e) = znum z -> fl_is_int m e = true /\ fl_int_val m e = z.
Proof.
  unfold fl_is_int, dy, fl_int_val, znum. destruct (Z.leb_spec 0 e) as [He|He]; simpl.
  - intros H. apply qnum_inj in H. unfold Qeq in H. simpl in H. split; [reflexivity | lia].
  - intros H. apply qnum_inj in H. unfold Qeq in H. simpl in H.
    assert (Hd : 0 < 2 ^ (- e)) by (apply Z.pow_pos_nonneg; lia).
    rewrite Z2Pos.id in H by exact Hd.
    assert (m = z * 2 ^ (- e)) by lia. subst m.
    rewrite Z_mod_mult, Z_div_mult by lia. split; [reflexivity | reflexivity].
Qed.

Definition num_agree (i : Z) (x : scalar) : Prop := agree (znum i) (denote_scalar x).

Lemma f64_to_int64_exact x i : f64_to_int64 x = Ok i -> denote_fl x = znum i /\ in_s 64 i.
Proof.
  destruct x as [m e| | |n]; unfold f64_to_int64; cbv zeta; try discriminate.
  - destruct (fl_is_int m e) eqn:Hi; cbn [andb]; [|discriminate].
    destruct (Z.leb_spec (- 2 ^ 63) (fl_int_val m e)); cbn [andb]; [|discriminate].
    destruct (Z.ltb_spec (fl_int_val m e) (2 ^ 63)); [|discriminate].
    intros HH. injection HH as <-.
    assert (R : in_s 64 (fl_int_val m e)) by (unfold in_s; simpl in *; lia).
    rewrite wraps_id by (lia || exact R). split; [apply dy_int; exact Hi | exact R].
  - intros HH. injection HH as <-. split; [reflexivity | unfold in_s; simpl; lia].
Qed.
Lemma f64_to_uint64_exact x i : f64_to_uint64 x = Ok i -> denote_fl x = znum i /\ in_u 64 i.
Proof.
  destruct x as [m e| | |n]; unfold f64_to_uint64; cbv zeta; try discriminate.
  - destruct (fl_is_int m e) eqn:Hi; cbn [andb]; [|discriminate].
    destruct (Z.leb_spec 0 (fl_int_val m e)); cbn [andb]; [|discriminate].
    destruct (Z.ltb_spec (fl_int_val m e) (2 ^ 64)); [|discriminate].
    intros HH. injection HH as <-.
    assert (R : in_u 64 (fl_int_val m e)) by (unfold in_u; simpl in *; lia).
    rewrite wrapu_id by exact R. split; [apply dy_int; exact Hi | exact R].
  - intros HH. injection HH as <-. split; [reflexivity | unfold in_u; simpl; lia].
Qed.

Lemma fl_num_agree x i : denote_fl x = znum i -> agree (znum i) (denote_fl x).
Proof. intros ->. reflexivity. Qed.

Lemma ik_range k z : ik_in_rangeb k z = true ->
  if ik_signed k then in_s (ik_width k) z else in_u (ik_width k) z.
Proof.
  unfold ik_in_rangeb. destruct (ik_signed k); [apply in_sb_spec | apply in_ub_spec].
Qed.

(** toInt64 *)
Lemma to_int64_exact x i : wf_scalar x -> to_int64 x = Ok i -> num_agree i x /\ in_s 64 i.
Proof.
  unfold num_agree. destruct x as [|named k z|named f|f|named s|b|]; simpl; try discriminate.
  - intros Hw. apply ik_range in Hw.
    destruct named.
    + destruct (ik_signed k) eqn:Hs; [|discriminate]. intros HH; injection HH as <-.
      split; [reflexivity|]. destruct k; try discriminate Hs; unfold in_s in *; simpl in *; lia.
    + destruct k; simpl in Hw;
      try (intros HH; injection HH as <-; split; [reflexivity | unfold in_s, in_u in *; simpl in *; lia]).
      all: unfold max_int64; destruct (Z.leb_spec z 9223372036854775807); [|discriminate];
        intros HH; injection HH as <-;
        assert (R : in_s 64 z) by (unfold in_s, in_u in *; simpl in *; lia);
        rewrite wraps_id by (lia || exact R); split; [reflexivity | exact R].
  - intros _. destruct named; [discriminate|]. intros H.
    apply f64_to_int64_exact in H. destruct H as [H R]. split; [apply fl_num_agree; exact H | exact R].
  - intros _ H. apply f64_to_int64_exact in H. destruct H as [H R]. split; [apply fl_num_agree; exact H | exact R].
  - intros _. destruct named; [discriminate|]. intros H.
    apply parse_int_exact in H; [|right; reflexivity]. exact H.
Qed.

(** toUInt64 *)
Lemma to_uint64_exact x i : wf_scalar x -> to_uint64 x = Ok i -> num_agree i x /\ in_u 64 i.
Proof.
  unfold num_agree. destruct x as [|named k z|named f|f|named s|b|]; simpl; try discriminate.
  - intros Hw. apply ik_range in Hw.
    destruct named.
    + destruct (ik_signed k) eqn:Hs; [discriminate|]. intros HH; injection HH as <-.
      split; [reflexivity|]. destruct k; try discriminate Hs; unfold in_u in *; simpl in *; lia.
    + destruct (ik_signed k) eqn:Hs.
      * destruct (Z.leb_spec 0 z); [|discriminate]. intros HH; injection HH as <-.
        assert (R : in_u 64 z) by (destruct k; try discriminate Hs; unfold in_s, in_u in *; simpl in *; lia).
        rewrite wrapu_id by exact R. split; [reflexivity | exact R].
      * intros HH; injection HH as <-. split; [reflexivity|].
        destruct k; try discriminate Hs; unfold in_u in *; simpl in *; lia.
  - intros _. destruct named; [discriminate|]. intros H.
    apply f64_to_uint64_exact in H. destruct H as [H R]. split; [apply fl_num_agree; exact H | exact R].
  - intros _ H. apply f64_to_uint64_exact in H. destruct H as [H R]. split; [apply fl_num_agree; exact H | exact R].
  - intros _. destruct named; [discriminate|]. intros H.
    apply parse_uint_exact in H; [|lia]. exact H.
Qed.

(** the generic narrowing step: toInt64/toUInt64, then the range check, then the Go conversion *)
Definition via64 (f : fmt) (x : scalar) : outcome Z :=
  match (if is_signed f then to_int64 x else to_uint64 x) with
  | Ok i => if (fmt_min f <=? i) && (i <=? fmt_max f) then Ok (wrapf f i) else Err
  | o => o
  end.
Lemma via64_exact f x z : is_int_fmt f = true -> wf_scalar x -> via64 f x = Ok z ->
  num_agree z x /\ in_range f z.
Proof.
  intros Hf Hw. unfold via64.
  destruct (is_signed f).
  - destruct (to_int64 x) as [i| |] eqn:E; try discriminate.
    destruct (Z.leb_spec (fmt_min f) i); simpl; [|discriminate].
    destruct (Z.leb_spec i (fmt_max f)); simpl; [|discriminate].
    intros HH; injection HH as <-. destruct (wrapf_id f i Hf ltac:(lia)) as [-> R].
    split; [apply (to_int64_exact x i Hw E) | exact R].
  - destruct (to_uint64 x) as [i| |] eqn:E; try discriminate.
    destruct (Z.leb_spec (fmt_min f) i); simpl; [|discriminate].
    destruct (Z.leb_spec i (fmt_max f)); simpl; [|discriminate].
    intros HH; injection HH as <-. destruct (wrapf_id f i Hf ltac:(lia)) as [-> R].
    split; [apply (to_uint64_exact x i Hw E) | exact R].
Qed.

Lemma fast_path_range f k z : fast_path f k = true -> ik_in_rangeb k z = true -> in_range f z.
Proof.
  intros Hp Hw. apply ik_range in Hw.
  destruct f; try discriminate Hp; destruct k; try discriminate Hp;
  unfold in_range, in_s, in_u in *; simpl in *; lia.
Qed.

Lemma in_range_64 f z : f = FInt64 -> in_s 64 z -> in_range f z.
Proof. intros ->. trivial. Qed.

(** toInt8 ... toUInt64: the integer returned is the number the source denotes, and fits *)
Lemma to_intf_exact f x z : is_int_fmt f = true -> wf_scalar x -> to_intf f x = Ok z ->
  num_agree z x /\ in_range f z.
Proof.
  intros Hf Hw H.
  destruct (fmt_eqb f FInt64) eqn:E64.
  { destruct f; try discriminate E64. simpl in H. apply (to_int64_exact x z Hw H). }
  destruct (fmt_eqb f FUInt64) eqn:EU64.
  { destruct f; try discriminate EU64. simpl in H. apply (to_uint64_exact x z Hw H). }
  assert (G : forall y, (match (if is_signed f then to_int64 y else to_uint64 y) with
            | Ok i => if (fmt_min f <=? i) && (i <=? fmt_max f) then Ok (wrapf f i) else Err
            | o => o end) = via64 f y) by reflexivity.
  destruct x as [|named k z0|named fl|fl|named s|b|].
  - destruct f; try discriminate Hf; try discriminate E64; try discriminate EU64; discriminate H.
  - destruct named.
    + assert (H' : via64 f (XInt true k z0) = Ok z)
        by (destruct f; try discriminate Hf; try discriminate E64; try discriminate EU64; exact H).
      apply (via64_exact f _ z Hf Hw H').
    + destruct (fast_path f k) eqn:Hp.
      * assert (z = z0) by (destruct f; try discriminate Hf; try discriminate E64; try discriminate EU64;
                            unfold to_intf in H; rewrite Hp in H; congruence).
        subst z0. split; [reflexivity | apply (fast_path_range f k z Hp Hw)].
      * assert (H' : via64 f (XInt false k z0) = Ok z)
          by (destruct f; try discriminate Hf; try discriminate E64; try discriminate EU64;
              unfold to_intf in H; rewrite Hp in H; exact H).
        apply (via64_exact f _ z Hf Hw H').
  - assert (H' : via64 f (XF64 named fl) = Ok z)
      by (destruct f; try discriminate Hf; try discriminate E64; try discriminate EU64; exact H).
    apply (via64_exact f _ z Hf Hw H').
  - assert (H' : via64 f (XF32 fl) = Ok z)
      by (destruct f; try discriminate Hf; try discriminate E64; try discriminate EU64; exact H).
    apply (via64_exact f _ z Hf Hw H').
  - destruct named.
    + assert (H' : via64 f (XStr true s) = Ok z)
        by (destruct f; try discriminate Hf; try discriminate E64; try discriminate EU64; exact H).
      apply (via64_exact f _ z Hf Hw H').
    + destruct (fmt_eqb f FInt32) eqn:E32.
      * destruct f; try discriminate E32. simpl in H.
        destruct (parse_int s 32) as [i| |] eqn:P; try discriminate. injection H as <-.
        destruct (parse_int_exact s 32 i (or_introl eq_refl) P) as [Hr Hi].
        rewrite wraps_id by (lia || exact Hi). split; [exact Hr | exact Hi].
      * assert (H' : via64 f (XStr false s) = Ok z)
          by (destruct f; try discriminate Hf; try discriminate E64; try discriminate EU64; try discriminate E32; exact H).
        apply (via64_exact f _ z Hf Hw H').
  - assert (H' : via64 f (XBool b) = Ok z)
      by (destruct f; try discriminate Hf; try discriminate E64; try discriminate EU64; exact H).
    apply (via64_exact f _ z Hf Hw H').
  - assert (H' : via64 f XOther = Ok z)
      by (destruct f; try discriminate Hf; try discriminate E64; try discriminate EU64; exact H).
    apply (via64_exact f _ z Hf Hw H').
Qed.

(** every in-range integer of a plain integer kind converts, to itself (errors are not spurious) *)
Lemma to_int64_complete k z : ik_in_rangeb k z = true -> in_s 64 z -> to_int64 (XInt false k z) = Ok z.
Proof.
  intros Hw R. apply ik_range in Hw. unfold to_int64.
  destruct k; try reflexivity; unfold max_int64;
  (destruct (Z.leb_spec z 9223372036854775807); [rewrite wraps_id by (lia || exact R); reflexivity
                                                 | unfold in_s in R; simpl in R; lia]).
Qed.
Lemma to_uint64_complete k z : ik_in_rangeb k z = true -> in_u 64 z -> to_uint64 (XInt false k z) = Ok z.
Proof.
  intros Hw R. unfold to_uint64. destruct (ik_signed k).
  - destruct (Z.leb_spec 0 z); [rewrite wrapu_id by exact R; reflexivity | unfold in_u in R; lia].
  - reflexivity.
Qed.
Lemma to_intf_complete f k z : is_int_fmt f = true -> ik_in_rangeb k z = true -> in_range f z ->
  to_intf f (XInt false k z) = Ok z.
Proof.
  intros Hf Hw R.
  assert (V : fmt_eqb f FInt64 = false -> fmt_eqb f FUInt64 = false -> via64 f (XInt false k z) = Ok z).
  { intros _ _. unfold via64. unfold in_range in R. destruct (is_signed f) eqn:Hs.
    - rewrite to_int64_complete; [|exact Hw|destruct f; try discriminate Hs; unfold in_s in *; simpl in *; lia].
      assert (fmt_min f <= z <= fmt_max f) by (unfold fmt_min, fmt_max; rewrite Hs; unfold in_s in R; lia).
      destruct (Z.leb_spec (fmt_min f) z); [|lia]. destruct (Z.leb_spec z (fmt_max f)); [|lia]. simpl.
      destruct (wrapf_id f z Hf H) as [-> _]. reflexivity.
    - rewrite to_uint64_complete; [|exact Hw|destruct f; try discriminate Hf; try discriminate Hs; unfold in_u in *; simpl in *; lia].
      assert (fmt_min f <= z <= fmt_max f) by (unfold fmt_min, fmt_max; rewrite Hs; unfold in_u in R; lia).
      destruct (Z.leb_spec (fmt_min f) z); [|lia]. destruct (Z.leb_spec z (fmt_max f)); [|lia]. simpl.
      destruct (wrapf_id f z Hf H) as [-> _]. reflexivity. }
  destruct f; try discriminate Hf.
  1-3, 5-7: unfold to_intf; match goal with |- context [fast_path ?g ?kk] => destruct (fast_path g kk) end;
    [reflexivity | apply V; reflexivity].
  - unfold to_intf. apply to_int64_complete; assumption.
  - unfold to_intf. apply to_uint64_complete; assumption.
Qed.

(** * integers and floats to decimal64 *)
Lemma dy_z0 z : qnum (dy z 0) = znum z.
Proof. unfold dy, znum. simpl. rewrite Z.mul_1_r. reflexivity. Qed.

Lemma cvt_i64_eq f z : cvt_i64 f = z -> f < 2 ^ 63 -> rne z = f -> f = z.
Proof.
  unfold cvt_i64. destruct (in_sb 64 f) eqn:E; [tauto|].
  intros <- _ H. rewrite <- H in E. vm_compute in E. discriminate.
Qed.
Lemma cvt_u64_eq f z : cvt_u64 f = z -> f < 2 ^ 64 -> rne z = f -> f = z.
Proof.
  unfold cvt_u64. destruct (in_ub 64 f) eqn:E; [tauto|].
  intros <- _ H. rewrite <- H in E. vm_compute in E. discriminate.
Qed.

Lemma agree_fl_refl x : agree (denote_fl x) (denote_fl x).
Proof. destruct x; reflexivity. Qed.
