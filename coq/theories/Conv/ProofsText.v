(** C10 proofs, part 3: numbers to text (FormatInt, FormatFloat 'f' 0), text to decimal64
    (ParseFloat on the plain grammar), booleans. *)
From Coq Require Import ZArith List Bool Lia Strings.Byte QArith Qreduction.
From YV Require Import Base.Wrap Val.Model Val.Proofs Conv.Model Conv.Spec Conv.Proofs Conv.ProofsNum.
Import ListNotations.
Open Scope Z_scope.

(** * FormatInt *)
Lemma digit_byte_spec d : 0 <= d <= 9 -> is_digit (digit_byte d) = true /\ digit_val (digit_byte d) = d.
Proof.
  intros H.
  assert (C : d = 0 \/ d = 1 \/ d = 2 \/ d = 3 \/ d = 4 \/ d = 5 \/ d = 6 \/ d = 7 \/ d = 8 \/ d = 9) by lia.
  repeat (destruct C as [->|C]; [split; reflexivity|]). subst d. split; reflexivity.
Qed.

Lemma dec_val_app a : forall b acc,
  dec_val (a ++ b) acc = match dec_val a acc with Some x => dec_val b x | None => None end.
Proof.
  induction a as [|c a IH]; intros b acc; simpl; [reflexivity|].
  destruct (is_digit c); [apply IH | reflexivity].
Qed.

Lemma show_nat_loop_spec fuel : forall n acc, (0 < fuel)%nat -> 0 <= n < 2 ^ Z.of_nat fuel ->
  exists p, show_nat_loop fuel n acc = p ++ acc /\ p <> [] /\
            forall rest a, dec_val (p ++ rest) a = dec_val rest (a * 10 ^ Z.of_nat (length p) + n).
Proof.
  induction fuel as [|f IH]; intros n acc Hf Hn; [lia|].
  cbn [show_nat_loop].
  assert (Hd : 0 <= n mod 10 <= 9) by (pose proof (Z.mod_pos_bound n 10); lia).
  destruct (digit_byte_spec _ Hd) as [Dd Dv].
  destruct (Z.ltb_spec n 10) as [Hs|Hb].
  - exists [digit_byte (n mod 10)]. split; [reflexivity|]. split; [discriminate|].
    intros rest a. cbn [app dec_val length]. rewrite Dd, Dv. rewrite Z.mod_small by lia.
    f_equal; try (change (Z.of_nat 1) with 1; lia).
  - assert (Hf' : (0 < f)%nat).
    { destruct f; [|lia]. simpl in Hn. lia. }
    assert (Hn' : 0 <= n / 10 < 2 ^ Z.of_nat f).
    { split; [apply Z.div_pos; lia|].
      rewrite Nat2Z.inj_succ, Z.pow_succ_r in Hn by lia.
      apply Z.div_lt_upper_bound; lia. }
    destruct (IH (n / 10) (digit_byte (n mod 10) :: acc) Hf' Hn') as (p' & E & Hne & Hv).
    exists (p' ++ [digit_byte (n mod 10)]). split; [rewrite E, <- app_assoc; reflexivity|].
    split; [destruct p'; discriminate|].
    intros rest a. rewrite <- app_assoc. rewrite Hv. cbn [app dec_val]. rewrite Dd, Dv.
    f_equal. rewrite app_length. cbn [length]. rewrite Nat2Z.inj_add. change (Z.of_nat 1) with 1.
    rewrite Z.pow_add_r by lia. pose proof (Z_div_mod_eq_full n 10). lia.
Qed.

Lemma show_nat_val n : 0 <= n -> show_nat n <> [] /\ dec_val (show_nat n) 0 = Some n.
Proof.
  intros Hn. unfold show_nat.
  assert (Hb : 0 <= n < 2 ^ Z.of_nat (S (Z.to_nat (Z.log2 n)))).
  { rewrite Nat2Z.inj_succ, Z2Nat.id by apply Z.log2_nonneg.
    destruct (Z.eq_dec n 0) as [->|Hz]; [cbv; split; [discriminate | reflexivity]|].
    pose proof (Z.log2_spec n ltac:(lia)). lia. }
  destruct (show_nat_loop_spec _ n [] (Nat.lt_0_succ _) Hb) as (p & E & Hne & Hv).
  rewrite E, app_nil_r. split; [exact Hne|].
  specialize (Hv [] 0). rewrite app_nil_r in Hv. rewrite Hv. reflexivity.
Qed.

(** reading the decimal text of an integer gives the integer back *)
Lemma read_show_int z : read_num (show_int z) = Some (znum z).
Proof.
  unfold show_int. destruct (Z.ltb_spec z 0).
  - destruct (show_nat_val (- z) ltac:(lia)) as [Hne Hv].
    rewrite (read_num_neg_digits _ _ Hne Hv). rewrite Z.opp_involutive. reflexivity.
  - destruct (show_nat_val z ltac:(lia)) as [Hne Hv].
    apply (read_num_digits _ _ Hne Hv).
Qed.

(** * FormatFloat(x, 'f', 0, 64) of an integral float *)
Lemma rhe_int m e : fl_is_int m e = true -> round_half_even m e = fl_int_val m e.
Proof.
  unfold fl_is_int, round_half_even, fl_int_val. destruct (Z.leb_spec 0 e) as [He|He]; simpl; [reflexivity|].
  intros H. apply Z.eqb_eq in H. cbv zeta.
  set (d := 2 ^ (- e)) in *.
  assert (Hd : 2 <= d).
  { unfold d. replace (- e) with (Z.succ (- e - 1)) by lia. rewrite Z.pow_succ_r by lia.
    assert (0 < 2 ^ (- e - 1)) by (apply Z.pow_pos_nonneg; lia). lia. }
  pose proof (Z_div_mod_eq_full m d) as Hm. rewrite H, Z.add_0_r in Hm. clear H.
  set (k := m / d) in *. clearbody k. subst m.
  rewrite Z.abs_mul, (Z.abs_eq d) by lia.
  rewrite (Z.mul_comm d (Z.abs k)), Z_mod_mult, Z_div_mult by lia.
  assert (1 <= d / 2) by (apply Z.div_le_lower_bound; lia).
  destruct (Z.ltb_spec (d / 2) 0); [lia|]. destruct (Z.eqb_spec 0 (d / 2)); [lia|]. simpl.
  rewrite Z.sgn_mul, (Z.sgn_pos d) by lia. rewrite Z.mul_1_l. rewrite Z.mul_comm. apply Z.abs_sgn.
Qed.

Lemma fl_int_sign m e : fl_is_int m e = true -> (m <? 0) = (fl_int_val m e <? 0).
Proof.
  unfold fl_is_int, fl_int_val. destruct (Z.leb_spec 0 e) as [He|He]; simpl.
  - intros _. assert (0 < 2 ^ e) by (apply Z.pow_pos_nonneg; lia).
    destruct (Z.ltb_spec m 0), (Z.ltb_spec (m * 2 ^ e) 0); try reflexivity; nia.
  - intros H. apply Z.eqb_eq in H.
    assert (Hd : 0 < 2 ^ (- e)) by (apply Z.pow_pos_nonneg; lia).
    pose proof (Z_div_mod_eq_full m (2 ^ (- e))) as Hm. rewrite H in Hm.
    destruct (Z.ltb_spec m 0), (Z.ltb_spec (m / 2 ^ (- e)) 0); try reflexivity; nia.
Qed.

Lemma format_f0_int m e : fl_is_int m e = true -> format_f0 (FFin m e) = show_int (fl_int_val m e).
Proof.
  intros H. unfold format_f0. cbv zeta. rewrite (rhe_int m e H), (fl_int_sign m e H).
  unfold show_int. destruct (Z.ltb_spec (fl_int_val m e) 0); [|reflexivity].
  rewrite Z.abs_neq by lia. reflexivity.
Qed.

(** text of a float64 whose value is integral, of -0, NaN and +-Inf reads back as that float *)
Lemma format_f0_exact x : (match x with FFin m e => fl_is_int m e | _ => true end) = true ->
  read_num (format_f0 x) = Some (denote_fl x).
Proof.
  destruct x as [m e| | |[|]]; intros H; try reflexivity.
  rewrite (format_f0_int m e H). simpl. rewrite (dy_int m e H). apply read_show_int.
Qed.

(** * booleans *)
Lemma to_bool_exact x b : to_bool x = Ok b -> agree (DBool b) (denote_scalar x).
Proof.
  destruct x as [|named k z|named f|f|named s|c|]; simpl; try discriminate.
  - destruct named; [discriminate|].
    destruct (bytes_eqb s w_1) eqn:E1; [apply bytes_eqb_true in E1; subst; intros H; injection H as <-; reflexivity|].
    destruct (bytes_eqb s w_true) eqn:E2; [apply bytes_eqb_true in E2; subst; intros H; injection H as <-; reflexivity|].
    destruct (bytes_eqb s w_yes) eqn:E3; [apply bytes_eqb_true in E3; subst; intros H; injection H as <-; reflexivity|].
    simpl.
    destruct (bytes_eqb s w_0) eqn:E4; [apply bytes_eqb_true in E4; subst; intros H; injection H as <-; reflexivity|].
    destruct (bytes_eqb s w_false) eqn:E5; [apply bytes_eqb_true in E5; subst; intros H; injection H as <-; reflexivity|].
    destruct (bytes_eqb s w_no) eqn:E6; [apply bytes_eqb_true in E6; subst; intros H; injection H as <-; reflexivity|].
    discriminate.
  - intros H; injection H as <-. reflexivity.
Qed.

(** * toString *)
Lemma to_string_exact x t : to_string x = Ok t ->
  agree (DText t) (denote_scalar x) \/ float_text x = true.
Proof.
  destruct x as [|named k z|named f|f|named s|c|]; simpl; try discriminate.
  - intros H; injection H as <-. left. apply read_show_int.
  - intros H; injection H as <-.
    destruct f as [m e| | |n].
    + destruct (fl_is_int m e) eqn:Hi; [left | right; reflexivity].
      apply (format_f0_exact (FFin m e)). exact Hi.
    + left. reflexivity.
    + left. reflexivity.
    + left. destruct n; reflexivity.
  - intros H; injection H as <-. left. reflexivity.
  - destruct c; intros H; injection H as <-; left; reflexivity.
Qed.
