(** Proofs about Conv/Model.v against Conv/Spec.v (C10). *)
From Coq Require Import ZArith List Bool Lia Strings.Byte QArith Qreduction.
From YV Require Import Base.Wrap Val.Model Val.Proofs Conv.Model Conv.Spec.
Import ListNotations.
Open Scope Z_scope.

(** * canonical numbers *)
Lemma qnum_ext p q : Qeq p q -> qnum p = qnum q.
Proof. intros H. unfold qnum. f_equal. apply Qred_complete. exact H. Qed.
Lemma qnum_inj p q : qnum p = qnum q -> Qeq p q.
Proof.
  unfold qnum. intros H. injection H as H.
  rewrite <- (Qred_correct p), <- (Qred_correct q), H. reflexivity.
Qed.
Lemma znum_inj a b : znum a = znum b -> a = b.
Proof. intros H. apply qnum_inj in H. unfold Qeq in H. simpl in H. lia. Qed.

Lemma pow2_pos n : 0 < 2 ^ n \/ n < 0.
Proof. destruct (Z_lt_le_dec n 0); [right; lia | left; apply Z.pow_pos_nonneg; lia]. Qed.

(** * formats *)
Lemma wrapf_id f i : is_int_fmt f = true -> fmt_min f <= i <= fmt_max f ->
  wrapf f i = i /\ in_range f i.
Proof.
  intros Hf H. destruct f; try discriminate Hf;
  unfold wrapf, in_range, fmt_min, fmt_max in *; simpl in *;
  (split; [first [apply wraps_id; [lia | unfold in_s; simpl; lia]
                 | apply wrapu_id; unfold in_u; simpl; lia]
          | first [unfold in_s; simpl; lia | unfold in_u; simpl; lia]]).
Qed.

(** * ParseUint / ParseInt *)
Lemma is_digit_val c : is_digit c = true -> 0 <= digit_val c <= 9.
Proof. unfold is_digit, digit_val. intros H. apply andb_true_iff in H. lia. Qed.
Lemma is_digit_not_dot c : is_digit c = true -> (byte_z c =? 46) = false.
Proof. unfold is_digit. intros H. apply andb_true_iff in H. lia. Qed.
Lemma is_digit_not_sign c : is_digit c = true -> (byte_z c =? 43) = false /\ (byte_z c =? 45) = false.
Proof. unfold is_digit. intros H. apply andb_true_iff in H. lia. Qed.

Lemma pu_cutoff_val : pu_cutoff = 1844674407370955162.
Proof. reflexivity. Qed.

Lemma two64 : 2 ^ 64 = 18446744073709551616. Proof. reflexivity. Qed.
Lemma two63 : 2 ^ 63 = 9223372036854775808. Proof. reflexivity. Qed.
Lemma wrapu64_small x : 0 <= x < 2 ^ 64 -> wrapu 64 x = x.
Proof. intros. apply wrapu_id. exact H. Qed.
Lemma wrapu64_carry x : 2 ^ 64 <= x < 2 * 2 ^ 64 -> wrapu 64 x = x - 2 ^ 64.
Proof.
  intros H. unfold wrapu. replace x with ((x - 2 ^ 64) + 1 * 2 ^ 64) at 1 by ring.
  rewrite Z_mod_plus_full. apply Z.mod_small. lia.
Qed.

Lemma parse_uint_loop_ok maxVal s : forall n r, 0 <= n <= maxVal -> maxVal < 2 ^ 64 ->
  parse_uint_loop maxVal s n = Ok r -> dec_val s n = Some r /\ 0 <= r <= maxVal.
Proof.
  induction s as [|c s IH]; intros n r Hn Hm H; cbn [parse_uint_loop dec_val] in *.
  - injection H as <-. split; [reflexivity | lia].
  - destruct (is_digit c) eqn:Hd; cbn [negb] in H; [|discriminate].
    pose proof (is_digit_val c Hd) as Hdv.
    destruct (Z.leb_spec pu_cutoff n) as [|Hc]; [discriminate|].
    rewrite pu_cutoff_val in Hc.
    rewrite two64 in *.
    assert (H10 : wrapu 64 (n * 10) = n * 10) by (apply wrapu64_small; rewrite two64; lia).
    rewrite H10 in H.
    destruct (Z_lt_le_dec (n * 10 + digit_val c) 18446744073709551616) as [Hs|Hb].
    + rewrite wrapu64_small in H by (rewrite two64; lia).
      destruct ((n * 10 + digit_val c <? n * 10) || (maxVal <? n * 10 + digit_val c)) eqn:E; [discriminate|].
      apply orb_false_iff in E. destruct E as [_ E]. apply Z.ltb_ge in E.
      apply IH; [lia | exact Hm | exact H].
    + rewrite wrapu64_carry in H by (rewrite two64; lia). rewrite two64 in H.
      destruct (Z.ltb_spec (n * 10 + digit_val c - 18446744073709551616) (n * 10)) as [|Hx]; [discriminate|].
      lia.
Qed.

Lemma parse_uint_ok s bits r : 0 < bits <= 64 -> parse_uint s bits = Ok r ->
  s <> [] /\ dec_val s 0 = Some r /\ 0 <= r < 2 ^ bits.
Proof.
  intros Hb H. destruct s as [|c s]; [discriminate|]. unfold parse_uint in H.
  assert (0 < 2 ^ bits) by (apply Z.pow_pos_nonneg; lia).
  assert (2 ^ bits <= 2 ^ 64) by (apply Z.pow_le_mono_r; lia).
  apply parse_uint_loop_ok in H; [|lia|lia].
  split; [discriminate|]. split; [tauto|lia].
Qed.

Lemma dec_val_no_dot s : forall a r, dec_val s a = Some r -> split_dot s = (s, None).
Proof.
  induction s as [|c s IH]; intros a r H; simpl in *; [reflexivity|].
  destruct (is_digit c) eqn:Hd; [|discriminate].
  rewrite (is_digit_not_dot c Hd). rewrite (IH _ _ H). reflexivity.
Qed.

Lemma bytes_eqb_true a b : bytes_eqb a b = true -> a = b.
Proof. unfold bytes_eqb. intros H. apply lex_cmp_eq. lia. Qed.
Lemma bytes_eqb_refl a : bytes_eqb a a = true.
Proof. unfold bytes_eqb. assert (lex_cmp a a = 0) by (apply lex_cmp_eq; reflexivity). lia. Qed.

(** a digit string is none of the special words *)
Lemma digits_not_word c s w0 w : is_digit c = true -> is_digit w0 = false ->
  bytes_eqb (c :: s) (w0 :: w) = false.
Proof.
  intros Hc Hw. destruct (bytes_eqb (c :: s) (w0 :: w)) eqn:E; [|reflexivity].
  apply bytes_eqb_true in E. injection E as -> _. congruence.
Qed.

Lemma read_unsigned_digits s r : s <> [] -> dec_val s 0 = Some r -> read_unsigned s = Some (inject_Z r).
Proof.
  intros Hs H. unfold read_unsigned. rewrite (dec_val_no_dot _ _ _ H).
  destruct s; [congruence|]. rewrite H. reflexivity.
Qed.

Lemma head_digit s a r : s <> [] -> dec_val s a = Some r -> exists c s', s = c :: s' /\ is_digit c = true.
Proof.
  intros Hs H. destruct s as [|c s']; [congruence|]. simpl in H.
  destruct (is_digit c) eqn:E; [|discriminate]. eauto.
Qed.

Lemma read_num_digits s r : s <> [] -> dec_val s 0 = Some r -> read_num s = Some (znum r).
Proof.
  intros Hs H. destruct (head_digit _ _ _ Hs H) as (c & s' & -> & Hd).
  unfold read_num. unfold w_nan. rewrite (digits_not_word c s' x4e [x61; x4e] Hd eq_refl).
  unfold strip_sign. destruct (is_digit_not_sign c Hd) as [-> ->].
  unfold w_inf. rewrite (digits_not_word c s' x49 [x6e; x66] Hd eq_refl).
  rewrite (read_unsigned_digits _ _ Hs H). reflexivity.
Qed.

Lemma read_num_neg_digits s r : s <> [] -> dec_val s 0 = Some r -> read_num (x2d :: s) = Some (znum (- r)).
Proof.
  intros Hs H. destruct (head_digit _ _ _ Hs H) as (c & s' & -> & Hd).
  unfold read_num. replace (bytes_eqb (x2d :: c :: s') w_nan) with false by reflexivity.
  unfold strip_sign. replace (byte_z x2d =? 43) with false by reflexivity.
  replace (byte_z x2d =? 45) with true by reflexivity.
  unfold w_inf. rewrite (digits_not_word c s' x49 [x6e; x66] Hd eq_refl).
  rewrite (read_unsigned_digits _ _ Hs H). reflexivity.
Qed.

Lemma read_num_pos_digits s r : s <> [] -> dec_val s 0 = Some r -> read_num (x2b :: s) = Some (znum r).
Proof.
  intros Hs H. destruct (head_digit _ _ _ Hs H) as (c & s' & -> & Hd).
  unfold read_num. replace (bytes_eqb (x2b :: c :: s') w_nan) with false by reflexivity.
  unfold strip_sign. replace (byte_z x2b =? 43) with true by reflexivity.
  unfold w_inf. rewrite (digits_not_word c s' x49 [x6e; x66] Hd eq_refl).
  rewrite (read_unsigned_digits _ _ Hs H). reflexivity.
Qed.

Lemma wraps64_neg un : 0 <= un <= 2 ^ 63 -> wraps 64 (- wraps 64 un) = - un.
Proof.
  intros H. destruct (Z.eq_dec un (2 ^ 63)) as [->|Hne]; [reflexivity|].
  rewrite (wraps_id 64 un) by (unfold in_s; simpl in *; lia).
  apply wraps_id; [lia | unfold in_s; simpl in *; lia].
Qed.

Lemma byte_z_eq c n b : byte_z c = n -> Byte.of_N (Z.to_N n) = Some b -> c = b.
Proof.
  intros H Hb. unfold byte_z in H. assert (Byte.to_N c = Z.to_N n) by lia.
  rewrite <- H0 in Hb. rewrite Byte.of_to_N in Hb. congruence.
Qed.

(** ParseInt is exact: the text read as a numeral is the number returned, which fits [bits] *)
Lemma parse_int_exact s bits z : bits = 32 \/ bits = 64 -> parse_int s bits = Ok z ->
  read_num s = Some (znum z) /\ in_s bits z.
Proof.
  intros Hb H. destruct s as [|c r]; [discriminate|]. unfold parse_int in H.
  assert (Hbits : 0 < bits <= 64) by lia.
  assert (Hp : 2 ^ (bits - 1) <= 2 ^ 63) by (apply Z.pow_le_mono_r; lia).
  assert (Hp0 : 0 < 2 ^ (bits - 1)) by (apply Z.pow_pos_nonneg; lia).
  destruct (Z.eqb_spec (byte_z c) 43) as [E|E].
  - assert (c = x2b) by (apply (byte_z_eq c 43 x2b E); reflexivity). subst c.
    destruct (parse_uint r bits) as [un| |] eqn:P; try discriminate.
    destruct (parse_uint_ok _ _ _ Hbits P) as (Hne & Hd & Hr).
    destruct (Z.leb_spec (2 ^ (bits - 1)) un); [discriminate|]. injection H as <-.
    rewrite wraps_id by (try lia; unfold in_s; simpl; lia).
    split; [apply read_num_pos_digits; assumption | unfold in_s; lia].
  - destruct (Z.eqb_spec (byte_z c) 45) as [E2|E2].
    + assert (c = x2d) by (apply (byte_z_eq c 45 x2d E2); reflexivity). subst c.
      destruct (parse_uint r bits) as [un| |] eqn:P; try discriminate.
      destruct (parse_uint_ok _ _ _ Hbits P) as (Hne & Hd & Hr).
      destruct (Z.ltb_spec (2 ^ (bits - 1)) un); [discriminate|]. injection H as <-.
      rewrite wraps64_neg by lia.
      split; [apply read_num_neg_digits; assumption | unfold in_s; lia].
    + destruct (parse_uint (c :: r) bits) as [un| |] eqn:P; try discriminate.
      destruct (parse_uint_ok _ _ _ Hbits P) as (Hne & Hd & Hr).
      destruct (Z.leb_spec (2 ^ (bits - 1)) un); [discriminate|]. injection H as <-.
      rewrite wraps_id by (try lia; unfold in_s; simpl; lia).
      split; [apply read_num_digits; assumption | unfold in_s; lia].
Qed.

Lemma parse_uint_exact s bits z : 0 < bits <= 64 -> parse_uint s bits = Ok z ->
  read_num s = Some (znum z) /\ in_u bits z.
Proof.
  intros Hb H. destruct (parse_uint_ok _ _ _ Hb H) as (Hne & Hd & Hr).
  split; [apply read_num_digits; assumption | exact Hr].
Qed.
