(** Executable model of val/conv.go (Conv, ConvOneOf, the to*() helpers and their list forms)
    as the code stands AFTER the C10 repairs (commits "fix: narrow integer conversions ...",
    "fix: toInt64 rejects unsigned ...", "fix: toUInt64 rejects negative ...", "fix: float to
    integer ...", "fix: toDecimal64 rejects ...", "fix: toBool accepts "no" ...").

    Sources are Go dynamic values: a scalar carries its Go kind (and whether its type is a *named*
    type, which the type switches do not match); integers are unbounded Z, every Go conversion that
    could wrap is written with wraps/wrapu.  float32/float64 are exact dyadics m*2^e plus -0, NaN,
    +-Inf.  Text is [list byte].

    Not modelled (outcome [Unmodelled], never a normal-looking answer):
      strconv.ParseFloat outside the grammar  [+-]?digits[.digits] / [+-]?.digits  and whenever
      the decimal is not exactly a float64 (rounding is the oracle's business);
      fmt %v of float32, nil, composite kinds (slice/struct/map as a *scalar* source of toString);
      targets binary, enum, identityref, bits, union, empty, any.  time.Time is not a source. *)
From Coq Require Import ZArith List Bool Lia Strings.Byte.
From YV Require Import Base.Wrap Val.Model.
Import ListNotations.
Open Scope Z_scope.

Inductive outcome (A : Type) := Ok (a : A) | Err | Unmodelled.
Arguments Ok {A} a.
Arguments Err {A}.
Arguments Unmodelled {A}.

(** * Sources *)
Inductive ikind := I8 | I16 | I32 | I64 | IInt | U8 | U16 | U32 | U64 | UInt.
Definition ik_signed (k : ikind) : bool :=
  match k with I8 | I16 | I32 | I64 | IInt => true | _ => false end.
Definition ik_width (k : ikind) : Z :=
  match k with I8 | U8 => 8 | I16 | U16 => 16 | I32 | U32 => 32 | _ => 64 end.
Definition ik_eqb (a b : ikind) : bool :=
  match a, b with
  | I8, I8 | I16, I16 | I32, I32 | I64, I64 | IInt, IInt
  | U8, U8 | U16, U16 | U32, U32 | U64, U64 | UInt, UInt => true
  | _, _ => false
  end.
Definition ik_in_rangeb (k : ikind) (z : Z) : bool :=
  if ik_signed k then in_sb (ik_width k) z else in_ub (ik_width k) z.

(** a float32/float64: [FFin m e] is m*2^e exactly (m = 0 is +0) *)
Inductive fl := FFin (m e : Z) | FNegZero | FNaN | FInf (neg : bool).

(** a Go value that is not a slice.  [named]: the dynamic type is a defined type (type T int16),
    which `case int16:` does not match; only the reflect fall-backs see it. *)
Inductive scalar :=
| XNil
| XInt (named : bool) (k : ikind) (z : Z)
| XF64 (named : bool) (x : fl)
| XF32 (x : fl)
| XStr (named : bool) (s : list byte)
| XBool (b : bool)
| XOther.                      (* struct, map, nested slice, ...: nothing accepts it *)

(** element type of a Go slice as the type switches of the list helpers see it *)
Inductive ekind := EIface | EInt (k : ikind) | EF64 | EStr | EBool | EOtherElem.

Inductive src := SScalar (x : scalar) | SSlice (ek : ekind) (l : list scalar).

(** * Targets and results *)
Inductive target := TScalar (f : fmt) | TList (f : fmt).

Inductive cval := CInt (f : fmt) (z : Z) | CDec (x : fl) | CStr (s : list byte) | CBool (b : bool).
Inductive rval := RNil | RScalar (v : cval) | RList (f : fmt) (l : list cval).

(** * strconv.ParseUint(s, 10, bitSize) / strconv.ParseInt(s, 10, bitSize)  (strconv/atoi.go) *)
Definition is_digit (c : byte) : bool := (48 <=? byte_z c) && (byte_z c <=? 57).
Definition digit_val (c : byte) : Z := byte_z c - 48.
Definition max_uint64 : Z := 18446744073709551615.
Definition pu_cutoff : Z := max_uint64 / 10 + 1.

(**  for _, c := range s { d = c-'0' (else syntax error);
       if n >= cutoff { range error }; n *= 10
       n1 := n + d; if n1 < n || n1 > maxVal { range error }; n = n1 }        *)
Fixpoint parse_uint_loop (maxVal : Z) (s : list byte) (n : Z) : outcome Z :=
  match s with
  | [] => Ok n
  | c :: s' =>
      if negb (is_digit c) then Err
      else if pu_cutoff <=? n then Err
      else let n10 := wrapu 64 (n * 10) in
           let n1 := wrapu 64 (n10 + digit_val c) in
           if (n1 <? n10) || (maxVal <? n1) then Err else parse_uint_loop maxVal s' n1
  end.
Definition parse_uint (s : list byte) (bits : Z) : outcome Z :=
  match s with [] => Err | _ => parse_uint_loop (2 ^ bits - 1) s 0 end.

(**  sign stripped; un from ParseUint (a range error there is a range error here);
     cutoff = 1<<(bitSize-1); !neg && un >= cutoff, neg && un > cutoff: range error;
     n := int64(un); if neg { n = -n }                                          *)
Definition parse_int (s : list byte) (bits : Z) : outcome Z :=
  match s with
  | [] => Err
  | c :: r =>
      let '(neg, body) := if byte_z c =? 43 then (false, r)
                          else if byte_z c =? 45 then (true, r) else (false, s) in
      match parse_uint body bits with
      | Ok un =>
          if neg then (if 2 ^ (bits - 1) <? un then Err else Ok (wraps 64 (- wraps 64 un)))
          else (if 2 ^ (bits - 1) <=? un then Err else Ok (wraps 64 un))
      | Err => Err
      | Unmodelled => Unmodelled
      end
  end.

(** * floats *)
(** x == math.Trunc(x) for a finite x *)
Definition fl_is_int (m e : Z) : bool := (0 <=? e) || (m mod 2 ^ (- e) =? 0).
Definition fl_int_val (m e : Z) : Z := if 0 <=? e then m * 2 ^ e else m / 2 ^ (- e).

(** toInt64, case float64 (repaired):
      if x == math.Trunc(x) && x >= -2^63 && x < 2^63 { return int64(x), nil } *)
Definition f64_to_int64 (x : fl) : outcome Z :=
  match x with
  | FFin m e =>
      let v := fl_int_val m e in
      if fl_is_int m e && (- 2 ^ 63 <=? v) && (v <? 2 ^ 63) then Ok (wraps 64 v) else Err
  | FNegZero => Ok 0
  | FNaN => Err           (* NaN != Trunc(NaN) *)
  | FInf _ => Err         (* fails the range test *)
  end.
(** toUInt64, case float64 (repaired): x == math.Trunc(x) && x >= 0 && x < 2^64 *)
Definition f64_to_uint64 (x : fl) : outcome Z :=
  match x with
  | FFin m e =>
      let v := fl_int_val m e in
      if fl_is_int m e && (0 <=? v) && (v <? 2 ^ 64) then Ok (wrapu 64 v) else Err
  | FNegZero => Ok 0      (* -0.0 >= 0 *)
  | FNaN => Err
  | FInf _ => Err
  end.

(** float64(x) for a 64-bit integer x: round to nearest, ties to even, 53-bit mantissa *)
Definition rne (z : Z) : Z :=
  let a := Z.abs z in
  if a <? 2 ^ 53 then z
  else let k := Z.log2 a - 52 in
       let q := a / 2 ^ k in
       let r := a mod 2 ^ k in
       let h := 2 ^ (k - 1) in
       let q' := if (h <? r) || ((r =? h) && Z.odd q) then q + 1 else q in
       Z.sgn z * q' * 2 ^ k.
(** int64(f) / uint64(f) for an integral float f; outside the target range the result is
    implementation specific (amd64: 0x8000000000000000) *)
Definition cvt_i64 (v : Z) : Z := if in_sb 64 v then v else - 2 ^ 63.
Definition cvt_u64 (v : Z) : Z := if in_ub 64 v then v else 2 ^ 63.

(** * decimal text *)
Definition digit_byte (d : Z) : byte :=
  match d with
  | 0 => x30 | 1 => x31 | 2 => x32 | 3 => x33 | 4 => x34
  | 5 => x35 | 6 => x36 | 7 => x37 | 8 => x38 | _ => x39
  end.
Fixpoint show_nat_loop (fuel : nat) (n : Z) (acc : list byte) : list byte :=
  match fuel with
  | O => acc
  | S f => let acc' := digit_byte (n mod 10) :: acc in
           if n <? 10 then acc' else show_nat_loop f (n / 10) acc'
  end.
(** strconv.FormatUint(n, 10) for n >= 0 *)
Definition show_nat (n : Z) : list byte := show_nat_loop (S (Z.to_nat (Z.log2 n))) n [].
(** strconv.FormatInt(z, 10) = fmt %v / %d of every integer kind *)
Definition show_int (z : Z) : list byte := if z <? 0 then x2d :: show_nat (- z) else show_nat z.

(** nearest integer to m*2^e, ties to even, as a magnitude rounding (strconv 'f' with prec 0) *)
Definition round_half_even (m e : Z) : Z :=
  if 0 <=? e then m * 2 ^ e
  else let a := Z.abs m in
       let d := 2 ^ (- e) in
       let q := a / d in
       let r := a mod d in
       let h := d / 2 in
       let q' := if (h <? r) || ((r =? h) && Z.odd q) then q + 1 else q in
       Z.sgn m * q'.
(** strconv.FormatFloat(x, 'f', 0, 64) *)
Definition format_f0 (x : fl) : list byte :=
  match x with
  | FFin m e => let r := round_half_even m e in
                if m <? 0 then x2d :: show_nat (Z.abs r) else show_nat r
  | FNegZero => [x2d; x30]
  | FNaN => [x4e; x61; x4e]
  | FInf false => [x2b; x49; x6e; x66]
  | FInf true => [x2d; x49; x6e; x66]
  end.

(** * strconv.ParseFloat(s, 64) on the plain decimal grammar (strconv/atof.go readFloat without
    exponent, hex, underscores, inf/nan words) *)
(** digits and at most one '.', returning (mantissa, number of digits, digits after the dot) *)
Fixpoint pf_scan (s : list byte) (sawdot : bool) (mant nd fd : Z) : option (Z * Z * Z) :=
  match s with
  | [] => Some (mant, nd, fd)
  | c :: s' =>
      if byte_z c =? 46 then (if sawdot then None else pf_scan s' true mant nd fd)
      else if is_digit c
           then pf_scan s' sawdot (mant * 10 + digit_val c) (nd + 1) (if sawdot then fd + 1 else fd)
           else None
  end.
(** bytes ParseFloat could accept somewhere: digits, letters, '+', '-', '.', '_' *)
Definition pf_alphabet (c : byte) : bool :=
  let z := byte_z c in
  is_digit c || ((65 <=? z) && (z <=? 90)) || ((97 <=? z) && (z <=? 122))
  || (z =? 43) || (z =? 45) || (z =? 46) || (z =? 95).
Fixpoint strip_twos (fuel : nat) (a t : Z) : Z * Z :=
  match fuel with
  | O => (a, t)
  | S f => if (a =? 0) || Z.odd a then (a, t) else strip_twos f (a / 2) (t + 1)
  end.
(** after the sign: scan, then convert exactly or give up *)
Definition pf_finish (neg : bool) (body : list byte) : outcome fl :=
  match pf_scan body false 0 0 0 with
  | None => Unmodelled                     (* exponent, hex, inf, nan, '_', or malformed *)
  | Some (mant, nd, fd) =>
      if nd =? 0 then Err                  (* no digits: syntax error *)
      else if mant =? 0 then Ok (if neg then FNegZero else FFin 0 0)
      else if negb (mant mod 5 ^ fd =? 0) then Unmodelled     (* not dyadic: rounding *)
      else let a0 := mant / 5 ^ fd in
           let '(odd, t) := strip_twos (S (Z.to_nat (Z.log2 a0))) a0 0 in
           if (odd <? 2 ^ 53) && (- 1074 <=? t - fd) && (Z.log2 odd + t - fd <? 1024)
           then Ok (FFin (if neg then - a0 else a0) (- fd))
           else Unmodelled                 (* needs rounding / overflows *)
  end.
Definition parse_float (s : list byte) : outcome fl :=
  match s with
  | [] => Err
  | c :: r =>
      if negb (forallb pf_alphabet s) then Err
      else
      let '(neg, body) := if byte_z c =? 43 then (false, r)
                          else if byte_z c =? 45 then (true, r) else (false, s) in
      pf_finish neg body
  end.

(** * scalar helpers *)
Definition max_int64 : Z := 9223372036854775807.

(** toInt64 *)
Definition to_int64 (x : scalar) : outcome Z :=
  match x with
  | XInt false k z =>
      match k with
      | UInt | U64 => if z <=? max_int64 then Ok (wraps 64 z) else Err
      | _ => Ok z                                   (* widening int64(x) *)
      end
  | XInt true k z => if ik_signed k then Ok z else Err      (* reflect: rv.CanInt() *)
  | XStr false s => parse_int s 64
  | XF64 false x => f64_to_int64 x
  | XF32 x => f64_to_int64 x                        (* toInt64(float64(x)) *)
  | _ => Err
  end.
(** toUInt64 *)
Definition to_uint64 (x : scalar) : outcome Z :=
  match x with
  | XInt false k z =>
      if ik_signed k then (if 0 <=? z then Ok (wrapu 64 z) else Err) else Ok z
  | XInt true k z => if ik_signed k then Err else Ok z      (* reflect: rv.CanUint() *)
  | XStr false s => parse_uint s 64
  | XF64 false x => f64_to_uint64 x
  | XF32 x => f64_to_uint64 x
  | _ => Err
  end.

(** the widening fast paths that remain in toInt8..toUInt32 (type switch cases before default) *)
Definition fast_path (f : fmt) (k : ikind) : bool :=
  match f, k with
  | FInt8, I8 => true
  | FUInt8, U8 => true
  | FInt16, (I8 | U8 | I16) => true
  | FUInt16, (U8 | U16) => true
  | FInt32, (I8 | U8 | I16 | U16 | I32) => true
  | FUInt32, (U8 | U16 | U32) => true
  | _, _ => false
  end.
Definition fmt_min (f : fmt) : Z := if is_signed f then - 2 ^ (width f - 1) else 0.
Definition fmt_max (f : fmt) : Z := if is_signed f then 2 ^ (width f - 1) - 1 else 2 ^ width f - 1.
Definition wrapf (f : fmt) (z : Z) : Z := if is_signed f then wraps (width f) z else wrapu (width f) z.

(** toInt8, toUInt8, toInt16, toUInt16, toInt32, toUInt32, toInt64, toUInt64 *)
Definition to_intf (f : fmt) (x : scalar) : outcome Z :=
  match f with
  | FInt64 => to_int64 x
  | FUInt64 => to_uint64 x
  | _ =>
    match x with
    | XInt false k z =>
        if fast_path f k then Ok z
        else match (if is_signed f then to_int64 x else to_uint64 x) with
             | Ok i => if (fmt_min f <=? i) && (i <=? fmt_max f) then Ok (wrapf f i) else Err
             | o => o
             end
    | XStr false s =>
        match f with
        | FInt32 => match parse_int s 32 with Ok i => Ok (wraps 32 i) | o => o end
        | _ => match (if is_signed f then to_int64 x else to_uint64 x) with
               | Ok i => if (fmt_min f <=? i) && (i <=? fmt_max f) then Ok (wrapf f i) else Err
               | o => o
               end
        end
    | _ => match (if is_signed f then to_int64 x else to_uint64 x) with
           | Ok i => if (fmt_min f <=? i) && (i <=? fmt_max f) then Ok (wrapf f i) else Err
           | o => o
           end
    end
  end.

(** toDecimal64 (type switch without default: named types are errors) *)
Definition to_dec (x : scalar) : outcome fl :=
  match x with
  | XInt false k z =>
      match k with
      | I64 | IInt => let f := rne z in
                      if (f <? 2 ^ 63) && (cvt_i64 f =? z) then Ok (FFin f 0) else Err
      | U64 | UInt => let f := rne z in
                      if (f <? 2 ^ 64) && (cvt_u64 f =? z) then Ok (FFin f 0) else Err
      | _ => Ok (FFin z 0)
      end
  | XF32 x => Ok x
  | XF64 false x => Ok x
  | XStr false s => parse_float s
  | _ => Err
  end.

(** toBool: switch x { case "1", "true", "yes": true; case "0", "false", "no": false } *)
Definition w_1 : list byte := [x31].
Definition w_true : list byte := [x74; x72; x75; x65].
Definition w_yes : list byte := [x79; x65; x73].
Definition w_0 : list byte := [x30].
Definition w_false : list byte := [x66; x61; x6c; x73; x65].
Definition w_no : list byte := [x6e; x6f].
Definition w_np : list byte := [x6e; x70].
Definition to_bool (x : scalar) : outcome bool :=
  match x with
  | XBool b => Ok b
  | XStr false s =>
      if bytes_eqb s w_1 || bytes_eqb s w_true || bytes_eqb s w_yes then Ok true
      else if bytes_eqb s w_0 || bytes_eqb s w_false || bytes_eqb s w_no then Ok false
      else Err
  | _ => Err
  end.

(** toString: reflect Kind()==Float64 -> FormatFloat(f,'f',0,64); else fmt.Sprintf("%v") *)
Definition to_string (x : scalar) : outcome (list byte) :=
  match x with
  | XF64 _ f => Ok (format_f0 f)
  | XInt _ _ z => Ok (show_int z)
  | XStr _ s => Ok s
  | XBool true => Ok w_true
  | XBool false => Ok w_false
  | XF32 _ | XNil | XOther => Unmodelled
  end.

Definition supported (f : fmt) : bool :=
  match f with FBinary | FEnum | FIdentRef => false | _ => true end.

(** one element through the helper of format [f] *)
Definition conv_scalar (f : fmt) (x : scalar) : outcome cval :=
  match f with
  | FDecimal64 => match to_dec x with Ok d => Ok (CDec d) | Err => Err | Unmodelled => Unmodelled end
  | FBool => match to_bool x with Ok b => Ok (CBool b) | Err => Err | Unmodelled => Unmodelled end
  | FString => match to_string x with Ok s => Ok (CStr s) | Err => Err | Unmodelled => Unmodelled end
  | FBinary | FEnum | FIdentRef => Unmodelled
  | _ => match to_intf f x with Ok z => Ok (CInt f z) | Err => Err | Unmodelled => Unmodelled end
  end.

(** for i := range x { if l[i], err = toX(x[i]); err != nil { return nil, err } } *)
Fixpoint conv_each (f : fmt) (l : list scalar) : outcome (list cval) :=
  match l with
  | [] => Ok []
  | x :: tl =>
      match conv_scalar f x with
      | Ok v => match conv_each f tl with Ok vs => Ok (v :: vs) | Err => Err | Unmodelled => Unmodelled end
      | Err => Err
      | Unmodelled => Unmodelled
      end
  end.

(** `case []T: return x, nil`: the slice is taken over as it is *)
Definition as_is (f : fmt) (x : scalar) : cval :=
  match x with
  | XInt _ _ z => CInt f z
  | XF64 _ d => CDec d
  | XF32 d => CDec d
  | XStr _ s => CStr s
  | XBool b => CBool b
  | _ => CStr []
  end.

(** the Go kind of the elements of the list value of format [f] *)
Definition own_ekind (f : fmt) : ekind :=
  match f with
  | FInt8 => EInt I8 | FInt16 => EInt I16 | FInt32 => EInt I32 | FInt64 => EInt I64
  | FUInt8 => EInt U8 | FUInt16 => EInt U16 | FUInt32 => EInt U32 | FUInt64 => EInt U64
  | FDecimal64 => EF64 | FBool => EBool | _ => EStr
  end.
Definition ekind_eqb (a b : ekind) : bool :=
  match a, b with
  | EIface, EIface | EF64, EF64 | EStr, EStr | EBool, EBool | EOtherElem, EOtherElem => true
  | EInt j, EInt k => ik_eqb j k
  | _, _ => false
  end.

(** which slice types the list helper of [f] converts element by element *)
Definition elementwise (f : fmt) (ek : ekind) : bool :=
  match f with
  | FString => true                                   (* toStringList: reflection over any slice *)
  | FBool => match ek with EIface | EStr => true | _ => false end
  | FDecimal64 => match ek with EIface | EStr => true | _ => false end
  | _ =>
      match ek with
      | EIface | EF64 | EStr => true
      | EInt IInt => match f with FInt32 | FInt64 | FUInt64 => true | _ => false end
      | EInt UInt => match f with FUInt32 => true | _ => false end
      | _ => false
      end
  end.

(** toInt8List ... toStringList *)
Definition conv_list (f : fmt) (s : src) : outcome (list cval) :=
  match s with
  | SSlice ek l =>
      if ekind_eqb ek (own_ekind f) then Ok (map (as_is f) l)
      else if elementwise f ek then conv_each f l
      else Err                       (* default: toX(slice) fails for every helper *)
  | SScalar x =>
      match f with
      | FString => match x with XStr false s => Ok [CStr s] | _ => Err end
      | _ => match conv_scalar f x with Ok v => Ok [v] | Err => Err | Unmodelled => Unmodelled end
      end
  end.

(** val.Conv, after the nil test: the switch on the format *)
Definition conv_body (t : target) (s : src) : outcome rval :=
  match t with
  | TScalar f =>
      if negb (supported f) then Unmodelled else
      match s with
      | SScalar x => match conv_scalar f x with
                     | Ok v => Ok (RScalar v) | Err => Err | Unmodelled => Unmodelled end
      | SSlice _ _ => match f with FString => Unmodelled (* %v of a slice *) | _ => Err end
      end
  | TList f =>
      if negb (supported f) then Unmodelled else
      match conv_list f s with Ok l => Ok (RList f l) | Err => Err | Unmodelled => Unmodelled end
  end.
(** val.Conv *)
Definition conv_impl (t : target) (s : src) : outcome rval :=
  match s with
  | SScalar XNil => Ok RNil                            (* if val == nil { return nil, err } *)
  | _ => conv_body t s
  end.

(** val.ConvOneOf: the first format that converts wins *)
Fixpoint conv_one_of (ts : list target) (s : src) : outcome (rval * target) :=
  match ts with
  | [] => Err
  | t :: tl =>
      match conv_impl t s with
      | Ok r => Ok (r, t)
      | Err => conv_one_of tl s
      | Unmodelled => Unmodelled
      end
  end.

(** Value.String() of a scalar result: strconv.Itoa / FormatInt / FormatUint, the string, "true"/"false".
    (Decimal64.String() is fmt %f: not modelled) *)
Definition string_of (v : cval) : option (list byte) :=
  match v with
  | CInt _ z => Some (show_int z)
  | CStr s => Some s
  | CBool true => Some w_true
  | CBool false => Some w_false
  | CDec _ => None
  end.

(** * The pinned commit, only the branches that were wrong (for the _refuted examples) *)
Definition fl_trunc (m e : Z) : Z := if 0 <=? e then m * 2 ^ e else Z.quot m (2 ^ (- e)).
Definition conv_old_scalar (f : fmt) (x : scalar) : outcome cval :=
  match f, x with
  | FInt8, XInt false U8 z => Ok (CInt FInt8 (wraps 8 z))          (* case uint8: return int8(x) *)
  | FUInt8, XInt false I8 z => Ok (CInt FUInt8 (wrapu 8 z))
  | FInt16, XInt false U16 z => Ok (CInt FInt16 (wraps 16 z))
  | FInt32, XInt false (I64 | IInt | UInt | U32) z => Ok (CInt FInt32 (wraps 32 z))
  | FUInt32, XInt false (IInt | UInt | I8 | I16 | I32) z => Ok (CInt FUInt32 (wrapu 32 z))
  | FInt64, XInt false (U64 | UInt) z => Ok (CInt FInt64 (wraps 64 z))
  | FUInt64, XInt false _ z => Ok (CInt FUInt64 (wrapu 64 z))
  | FInt32, XF64 false (FFin m e) => Ok (CInt FInt32 (wraps 32 (fl_trunc m e)))   (* int32(x), in range *)
  | FDecimal64, XInt false _ z => Ok (CDec (FFin (rne z) 0))       (* float64(x) *)
  | FBool, XStr false s => if bytes_eqb s w_np then Ok (CBool false) else conv_scalar f x  (* "np" *)
  | _, _ => conv_scalar f x
  end.
