(** What a source and a converted value *denote* (C10): a number (canonical rational), a
    non-number float (NaN, +-Inf), a text, a truth value; [agree] relates denotations across the
    text/number and text/boolean border through the reading of numerals ([read_num]) and of
    boolean words ([read_bool]).  Nothing here looks at how the model computes. *)
From Coq Require Import ZArith List Bool Lia Strings.Byte QArith Qreduction.
From YV Require Import Base.Wrap Val.Model Conv.Model.
Import ListNotations.
Open Scope Z_scope.

Inductive den :=
| DNum (q : Q)            (* always built by [qnum]: reduced fraction, so equal numbers are equal terms *)
| DNaN
| DInf (neg : bool)
| DText (s : list byte)
| DBool (b : bool)
| DNil
| DOpaque.

Definition qnum (q : Q) : den := DNum (Qred q).
Definition znum (z : Z) : den := qnum (inject_Z z).

(** m * 2^e as a rational *)
Definition dy (m e : Z) : Q :=
  if 0 <=? e then inject_Z (m * 2 ^ e) else Qmake m (Z.to_pos (2 ^ (- e))).

Definition denote_fl (x : fl) : den :=
  match x with
  | FFin m e => qnum (dy m e)
  | FNegZero => znum 0
  | FNaN => DNaN
  | FInf n => DInf n
  end.

Definition denote_scalar (x : scalar) : den :=
  match x with
  | XNil => DNil
  | XInt _ _ z => znum z
  | XF64 _ f => denote_fl f
  | XF32 f => denote_fl f
  | XStr _ s => DText s
  | XBool b => DBool b
  | XOther => DOpaque
  end.

Definition denote_cval (v : cval) : den :=
  match v with
  | CInt _ z => znum z
  | CDec f => denote_fl f
  | CStr s => DText s
  | CBool b => DBool b
  end.

(** ** reading a numeral:  NaN | [+-]?Inf | [+-]? digits [. digits] | [+-]? . digits *)
Fixpoint dec_val (s : list byte) (acc : Z) : option Z :=
  match s with
  | [] => Some acc
  | c :: s' => if is_digit c then dec_val s' (acc * 10 + digit_val c) else None
  end.
Fixpoint split_dot (s : list byte) : list byte * option (list byte) :=
  match s with
  | [] => ([], None)
  | c :: r => if byte_z c =? 46 then ([], Some r)
              else let (a, b) := split_dot r in (c :: a, b)
  end.
Definition pow10 (n : nat) : positive := Z.to_pos (10 ^ Z.of_nat n).
Definition read_unsigned (body : list byte) : option Q :=
  let (ip, fo) := split_dot body in
  match fo with
  | None => match ip with
            | [] => None
            | _ => match dec_val ip 0 with Some n => Some (inject_Z n) | None => None end
            end
  | Some fp => match ip ++ fp with
               | [] => None
               | all => match dec_val all 0 with
                        | Some n => Some (Qmake n (pow10 (length fp)))
                        | None => None
                        end
               end
  end.
Definition w_nan : list byte := [x4e; x61; x4e].
Definition w_inf : list byte := [x49; x6e; x66].
Definition strip_sign (t : list byte) : bool * list byte :=
  match t with
  | [] => (false, [])
  | c :: r => if byte_z c =? 43 then (false, r) else if byte_z c =? 45 then (true, r) else (false, t)
  end.
Definition read_num (t : list byte) : option den :=
  if bytes_eqb t w_nan then Some DNaN
  else let (neg, body) := strip_sign t in
       if bytes_eqb body w_inf then Some (DInf neg)
       else match read_unsigned body with
            | Some q => Some (qnum (if neg then Qopp q else q))
            | None => None
            end.

(** ** reading a boolean word: YANG's true/false plus the customary 1/0 and yes/no *)
Definition read_bool (t : list byte) : option den :=
  if bytes_eqb t w_true then Some (DBool true)
  else if bytes_eqb t w_false then Some (DBool false)
  else if bytes_eqb t w_1 then Some (DBool true)
  else if bytes_eqb t w_0 then Some (DBool false)
  else if bytes_eqb t w_yes then Some (DBool true)
  else if bytes_eqb t w_no then Some (DBool false)
  else None.

(** ** "denotes the same": equal, or a text that reads as the other side *)
Definition agree (a b : den) : Prop :=
  match a, b with
  | DOpaque, _ | _, DOpaque | DNil, _ | _, DNil => False
  | DText t, DText u => t = u
  | DText t, DBool _ => read_bool t = Some b
  | DBool _, DText u => read_bool u = Some a
  | DText t, _ => read_num t = Some b
  | _, DText u => read_num u = Some a
  | _, _ => a = b
  end.

(** the elements a source stands for: a slice its elements, a scalar itself (a single value given
    for a leaf-list is the one-element list) *)
Definition elems (s : src) : list scalar :=
  match s with SScalar x => [x] | SSlice _ l => l end.

(** C10's "denotes exactly the same number, text, truth value or sequence" *)
Definition exact (s : src) (r : rval) : Prop :=
  match r with
  | RNil => s = SScalar XNil
  | RScalar v => exists x, s = SScalar x /\ agree (denote_cval v) (denote_scalar x)
  | RList _ l => Forall2 agree (map denote_cval l) (map denote_scalar (elems s))
  end.

(** ** the result is a value of the requested type *)
Definition is_int_fmt (f : fmt) : bool := is_signed f || is_unsigned f.
Definition cval_typed (f : fmt) (v : cval) : Prop :=
  match v with
  | CInt g z => g = f /\ is_int_fmt f = true /\ in_range f z
  | CDec _ => f = FDecimal64
  | CStr _ => f = FString
  | CBool _ => f = FBool
  end.
Definition rval_typed (t : target) (r : rval) : Prop :=
  match r, t with
  | RNil, _ => True
  | RScalar v, TScalar f => cval_typed f v
  | RList g l, TList f => g = f /\ Forall (cval_typed f) l
  | _, _ => False
  end.

(** ** well-formed sources: an integer lies in the range of its Go kind; slice elements have the
    slice's element type *)
Definition wf_scalar (x : scalar) : Prop :=
  match x with XInt _ k z => ik_in_rangeb k z = true | _ => True end.
Definition elem_of (ek : ekind) (x : scalar) : Prop :=
  match ek, x with
  | EIface, _ => True
  | EInt k, XInt false k' _ => k' = k
  | EF64, XF64 false _ => True
  | EStr, XStr false _ => True
  | EBool, XBool _ => True
  | EOtherElem, _ => True
  | _, _ => False
  end.
Definition wf_src (s : src) : Prop :=
  match s with
  | SScalar x => wf_scalar x
  | SSlice ek l => Forall (fun x => wf_scalar x /\ elem_of ek x) l
  end.

(** ** the one recorded finding: a non-integral float64 converted to text is rounded
    (val/conv.go toString: FormatFloat(f,'f',0,64)); pinned by val/conv_test.go *)
Definition float_text (x : scalar) : bool :=
  match x with XF64 _ (FFin m e) => negb (fl_is_int m e) | _ => false end.
Definition kf_float_text (t : target) (s : src) : bool :=
  match t with
  | TScalar FString | TList FString => existsb float_text (elems s)
  | _ => false
  end.

(** ** executable versions for the correspondence check *)
Definition q_eqb (a b : Q) : bool := (Qnum a =? Qnum b) && (Pos.eqb (Qden a) (Qden b)).
Definition den_eqb (a b : den) : bool :=
  match a, b with
  | DNum p, DNum q => q_eqb p q
  | DNaN, DNaN => true
  | DInf m, DInf n => Bool.eqb m n
  | DText s, DText t => bytes_eqb s t
  | DBool m, DBool n => Bool.eqb m n
  | _, _ => false
  end.
Definition opt_den_eqb (a : option den) (b : den) : bool :=
  match a with Some x => den_eqb x b | None => false end.
Definition agreeb (a b : den) : bool :=
  match a, b with
  | DOpaque, _ | _, DOpaque | DNil, _ | _, DNil => false
  | DText t, DText u => bytes_eqb t u
  | DText t, DBool _ => opt_den_eqb (read_bool t) b
  | DBool _, DText u => opt_den_eqb (read_bool u) a
  | DText t, _ => opt_den_eqb (read_num t) b
  | _, DText u => opt_den_eqb (read_num u) a
  | _, _ => den_eqb a b
  end.
Fixpoint forall2b {A B} (p : A -> B -> bool) (l : list A) (m : list B) : bool :=
  match l, m with
  | [], [] => true
  | a :: l', b :: m' => p a b && forall2b p l' m'
  | _, _ => false
  end.
Definition exactb (s : src) (r : rval) : bool :=
  match r with
  | RNil => match s with SScalar XNil => true | _ => false end
  | RScalar v => match s with
                 | SScalar x => agreeb (denote_cval v) (denote_scalar x)
                 | _ => false
                 end
  | RList _ l => forall2b agreeb (map denote_cval l) (map denote_scalar (elems s))
  end.
Definition cval_typedb (f : fmt) (v : cval) : bool :=
  match v with
  | CInt g z => fmt_eqb g f && is_int_fmt f && in_rangeb f z
  | CDec _ => fmt_eqb f FDecimal64
  | CStr _ => fmt_eqb f FString
  | CBool _ => fmt_eqb f FBool
  end.
Definition rval_typedb (t : target) (r : rval) : bool :=
  match r, t with
  | RNil, _ => true
  | RScalar v, TScalar f => cval_typedb f v
  | RList g l, TList f => fmt_eqb g f && forallb (cval_typedb f) l
  | _, _ => false
  end.
