(** C10 proofs, part 5: Conv as a whole - exactness, typedness, never-wraps corollaries,
    completeness on in-range integers, ConvOneOf first match, read-back, the pinned commit. *)
From Coq Require Import ZArith List Bool Lia Strings.Byte QArith Qreduction.
From YV Require Import Base.Wrap Val.Model Val.Proofs Conv.Model Conv.Spec Conv.Proofs Conv.ProofsNum
  Conv.ProofsText Conv.ProofsDec.
Import ListNotations.
Open Scope Z_scope.

Definition elem_ok (f : fmt) (v : cval) (x : scalar) : Prop :=
  (agree (denote_cval v) (denote_scalar x) \/ (f = FString /\ float_text x = true)) /\ cval_typed f v.

Lemma supported_cases f : supported f = true ->
  is_int_fmt f = true \/ f = FDecimal64 \/ f = FBool \/ f = FString.
Proof. destruct f; try discriminate; auto. Qed.

Lemma conv_scalar_int f x : is_int_fmt f = true ->
  conv_scalar f x = match to_intf f x with Ok z => Ok (CInt f z) | Err => Err | Unmodelled => Unmodelled end.
Proof. destruct f; try discriminate; reflexivity. Qed.

(** one value through the helper of its format *)
Lemma conv_scalar_exact f x v : supported f = true -> wf_scalar x -> conv_scalar f x = Ok v -> elem_ok f v x.
Proof.
  intros Hs Hw H. destruct (supported_cases f Hs) as [Hi | [-> | [-> | ->]]].
  - rewrite (conv_scalar_int f x Hi) in H.
    destruct (to_intf f x) as [z| |] eqn:E; try discriminate. injection H as <-.
    destruct (to_intf_exact f x z Hi Hw E) as [A R].
    split; [left; exact A | repeat split; assumption].
  - simpl in H. destruct (to_dec x) as [d| |] eqn:E; try discriminate. injection H as <-.
    split; [left; apply (to_dec_exact x d E) | reflexivity].
  - simpl in H. destruct (to_bool x) as [b| |] eqn:E; try discriminate. injection H as <-.
    split; [left; apply (to_bool_exact x b E) | reflexivity].
  - simpl in H. destruct (to_string x) as [t| |] eqn:E; try discriminate. injection H as <-.
    split; [|reflexivity].
    destruct (to_string_exact x t E) as [A|A]; [left; exact A | right; split; [reflexivity | exact A]].
Qed.

Lemma conv_each_exact f : supported f = true -> forall l vs, Forall wf_scalar l ->
  conv_each f l = Ok vs -> Forall2 (elem_ok f) vs l.
Proof.
  intros Hs. induction l as [|x l IH]; intros vs Hw H; simpl in H.
  - injection H as <-. constructor.
  - destruct (conv_scalar f x) as [v| |] eqn:E; try discriminate.
    destruct (conv_each f l) as [vs'| |] eqn:E'; try discriminate. injection H as <-.
    inversion Hw; subst. constructor; [apply (conv_scalar_exact f x v Hs H1 E) | apply IH; [assumption | reflexivity]].
Qed.

(** `case []T: return x, nil` *)
Lemma as_is_exact f l : supported f = true ->
  Forall (fun x => wf_scalar x /\ elem_of (own_ekind f) x) l ->
  Forall2 (elem_ok f) (map (as_is f) l) l.
Proof.
  intros Hs. induction l as [|x l IH]; intros H; simpl; [constructor|].
  inversion H as [|? ? [Hw He] Hl]; subst. constructor; [|apply IH; exact Hl].
  destruct (supported_cases f Hs) as [Hi | [-> | [-> | ->]]].
  - assert (exists k, own_ekind f = EInt k /\ is_signed f = ik_signed k /\ width f = ik_width k) as (k & Ek & Es & Ew)
      by (destruct f; try discriminate Hi; eexists; repeat split; reflexivity).
    rewrite Ek in He. destruct x as [|[|] k' z| | | | |]; simpl in He; try contradiction. subst k'.
    simpl. split; [left; reflexivity|]. split; [reflexivity|]. split; [exact Hi|].
    simpl in Hw. apply ik_range in Hw. unfold in_range. rewrite Es, Ew. exact Hw.
  - destruct x as [| | [|] d| | | |]; simpl in He; try contradiction.
    split; [left; apply agree_fl_refl | reflexivity].
  - destruct x; simpl in He; try contradiction. split; [left; reflexivity | reflexivity].
  - destruct x as [| | | |[|] s| |]; simpl in He; try contradiction. split; [left; reflexivity | reflexivity].
Qed.

Lemma elem_ok_split f vs l : Forall2 (elem_ok f) vs l ->
  (Forall2 agree (map denote_cval vs) (map denote_scalar l) \/ (f = FString /\ existsb float_text l = true))
  /\ Forall (cval_typed f) vs.
Proof.
  induction 1 as [|v x vs l [[A|[Ef Af]] T] H [[IHa|IHa] IHt]]; simpl.
  - split; [left; constructor | constructor].
  - split; [left; constructor; assumption | constructor; assumption].
  - split; [right; destruct IHa; split; [assumption | apply orb_true_iff; right; assumption] | constructor; assumption].
  - split; [right; split; [exact Ef | rewrite Af; reflexivity] | constructor; assumption].
  - split; [right; split; [exact Ef | rewrite Af; reflexivity] | constructor; assumption].
Qed.

Lemma wf_slice_scalars ek l : Forall (fun x => wf_scalar x /\ elem_of ek x) l -> Forall wf_scalar l.
Proof. intros H. eapply Forall_impl; [|exact H]. simpl. tauto. Qed.

Lemma ekind_eqb_true a b : ekind_eqb a b = true -> a = b.
Proof.
  destruct a, b; simpl; try discriminate; try reflexivity.
  destruct k, k0; simpl; try discriminate; reflexivity.
Qed.

Lemma conv_list_exact f s vs : supported f = true -> wf_src s -> conv_list f s = Ok vs ->
  Forall2 (elem_ok f) vs (elems s).
Proof.
  intros Hs Hw H. destruct s as [x|ek l]; simpl in *.
  - assert (G : match conv_scalar f x with Ok v => Ok [v] | Err => Err | Unmodelled => Unmodelled end = Ok vs ->
                Forall2 (elem_ok f) vs [x]).
    { destruct (conv_scalar f x) as [v| |] eqn:E; try discriminate. intros HH; injection HH as <-.
      constructor; [apply (conv_scalar_exact f x v Hs Hw E) | constructor]. }
    destruct (fmt_eqb f FString) eqn:Ef.
    + destruct f; try discriminate Ef.
      destruct x as [| | | |[|] t| |]; try discriminate. injection H as <-.
      constructor; [|constructor]. split; [left; reflexivity | reflexivity].
    + destruct f; try discriminate Ef; try discriminate Hs; apply G; exact H.
  - destruct (ekind_eqb ek (own_ekind f)) eqn:Ee.
    + apply ekind_eqb_true in Ee. subst ek. injection H as <-. apply as_is_exact; assumption.
    + destruct (elementwise f ek); [|discriminate].
      apply conv_each_exact; [exact Hs | apply (wf_slice_scalars ek l Hw) | exact H].
Qed.

(** * C10, main statement *)
Lemma conv_body_exact t s r : wf_src s -> conv_body t s = Ok r ->
  (exact s r \/ kf_float_text t s = true) /\ rval_typed t r.
Proof.
  intros Hw H. unfold conv_body in H. destruct t as [f|f]; destruct (supported f) eqn:Hs; try discriminate; cbn [negb] in H.
  - destruct s as [x|ek l]; [|destruct f; discriminate].
    destruct (conv_scalar f x) as [v| |] eqn:E; try discriminate. injection H as <-.
    destruct (conv_scalar_exact f x v Hs Hw E) as [[A | [-> A]] T].
    + split; [left; exists x; split; [reflexivity | exact A] | exact T].
    + split; [right; simpl; rewrite A; reflexivity | exact T].
  - destruct (conv_list f s) as [vs| |] eqn:E; try discriminate. injection H as <-.
    destruct (elem_ok_split f vs _ (conv_list_exact f s vs Hs Hw E)) as [[A | [-> A]] T].
    + split; [left; exact A | split; [reflexivity | exact T]].
    + split; [right; exact A | split; [reflexivity | exact T]].
Qed.

Lemma conv_impl_cases t s r : conv_impl t s = Ok r ->
  (s = SScalar XNil /\ r = RNil) \/ conv_body t s = Ok r.
Proof.
  unfold conv_impl. destruct s as [[| | | | | |]|]; intros H; try (right; exact H).
  left. injection H as <-. split; reflexivity.
Qed.

(** every successful conversion of a Go value is exact, except inside the recorded region *)
Theorem conv_exact_partial : forall t s r, wf_src s -> conv_impl t s = Ok r ->
  exact s r \/ kf_float_text t s = true.
Proof.
  intros t s r Hw H. destruct (conv_impl_cases t s r H) as [[-> ->] | B].
  - left. reflexivity.
  - apply (conv_body_exact t s r Hw B).
Qed.

(** and it is a value of the requested type, inside the range of that type *)
Theorem conv_typed : forall t s r, wf_src s -> conv_impl t s = Ok r -> rval_typed t r.
Proof.
  intros t s r Hw H. destruct (conv_impl_cases t s r H) as [[-> ->] | B].
  - exact I.
  - apply (conv_body_exact t s r Hw B).
Qed.

Theorem conv_exact_outside_region : forall t s r, wf_src s -> kf_float_text t s = false ->
  conv_impl t s = Ok r -> exact s r.
Proof.
  intros t s r Hw Hk H. destruct (conv_exact_partial t s r Hw H) as [E|E]; [exact E | congruence].
Qed.

(** the full statement and its refutation by the recorded finding *)
Definition conv_exact_full_statement : Prop :=
  forall t s r, wf_src s -> conv_impl t s = Ok r -> exact s r.
Example kf_float_text_witness :
  kf_float_text (TScalar FString) (SScalar (XF64 false (FFin 37 (-3)))) = true /\
  conv_impl (TScalar FString) (SScalar (XF64 false (FFin 37 (-3)))) = Ok (RScalar (CStr [x35])) /\
  ~ exact (SScalar (XF64 false (FFin 37 (-3)))) (RScalar (CStr [x35])).
Proof.
  split; [reflexivity|]. split; [reflexivity|].
  intros (x & E & A). injection E as <-. vm_compute in A. discriminate.
Qed.
Theorem conv_exact_full_refuted : ~ conv_exact_full_statement.
Proof.
  intros F. destruct kf_float_text_witness as (_ & C & N). apply N. exact (F _ (SScalar (XF64 false (FFin 37 (-3)))) _ I C).
Qed.

(** * never wraps *)
(** the number a scalar source stands for when a number is asked for *)
Definition src_num (x : scalar) : option den :=
  match x with
  | XInt _ _ z => Some (znum z)
  | XF64 _ f | XF32 f => Some (denote_fl f)
  | XStr _ s => read_num s
  | _ => None
  end.

Lemma agree_src_num z x : agree (znum z) (denote_scalar x) -> src_num x = Some (znum z).
Proof.
  destruct x as [|named k z0|named f|f|named s|b|]; simpl; try contradiction.
  - intros H. rewrite H. reflexivity.
  - destruct f as [m e| | |n]; simpl; intros H; try discriminate H; rewrite H; reflexivity.
  - destruct f as [m e| | |n]; simpl; intros H; try discriminate H; rewrite H; reflexivity.
  - intros H. exact H.
  - intros H. discriminate H.
Qed.

Lemma int_fmt_not_string f : is_int_fmt f = true -> forall s, kf_float_text (TScalar f) s = false.
Proof. destruct f; try discriminate; reflexivity. Qed.

(** an integer target: whatever converts, converts to the very integer the source denotes, and that
    integer lies in the range of the target type *)
Theorem conv_int_sound : forall f x r, is_int_fmt f = true -> wf_scalar x -> x <> XNil ->
  conv_impl (TScalar f) (SScalar x) = Ok r ->
  exists z, r = RScalar (CInt f z) /\ in_range f z /\ src_num x = Some (znum z).
Proof.
  intros f x r Hf Hw Hn H.
  pose proof (conv_typed (TScalar f) (SScalar x) r Hw H) as T.
  pose proof (conv_exact_outside_region (TScalar f) (SScalar x) r Hw (int_fmt_not_string f Hf _) H) as E.
  destruct r as [|v|g l]; simpl in T, E; try contradiction.
  - injection E as ->. congruence.
  - destruct E as (x' & Ex & A). injection Ex as <-.
    destruct v as [g z|d|s|b]; simpl in T.
    + destruct T as (-> & _ & R). exists z. split; [reflexivity|]. split; [exact R|].
      apply agree_src_num. exact A.
    + subst f. discriminate Hf.
    + subst f. discriminate Hf.
    + subst f. discriminate Hf.
Qed.

Theorem conv_out_of_range_fails : forall f x z0 r, is_int_fmt f = true -> wf_scalar x ->
  src_num x = Some (znum z0) -> ~ in_range f z0 -> conv_impl (TScalar f) (SScalar x) <> Ok r.
Proof.
  intros f x z0 r Hf Hw Hs Hr H.
  assert (Hn : x <> XNil) by (intros ->; discriminate Hs).
  destruct (conv_int_sound f x r Hf Hw Hn H) as (z & _ & R & S).
  rewrite Hs in S. assert (S' : znum z0 = znum z) by congruence. apply znum_inj in S'.
  subst. contradiction.
Qed.

Theorem conv_negative_to_unsigned_fails : forall f x z0 r, is_unsigned f = true -> wf_scalar x ->
  src_num x = Some (znum z0) -> z0 < 0 -> conv_impl (TScalar f) (SScalar x) <> Ok r.
Proof.
  intros f x z0 r Hf Hw Hs Hz. apply (conv_out_of_range_fails f x z0 r); try assumption.
  - unfold is_int_fmt. rewrite Hf. apply orb_true_r.
  - unfold in_range. destruct f; try discriminate Hf; unfold in_u; simpl; lia.
Qed.

(** a float that is not an integer (a fraction, NaN, an infinity) converts to no integer type *)
Theorem conv_non_integral_fails : forall f x fl r, is_int_fmt f = true ->
  (x = XF64 false fl \/ x = XF64 true fl \/ x = XF32 fl) ->
  (match fl with FFin m e => fl_is_int m e = false | FNegZero => False | _ => True end) ->
  conv_impl (TScalar f) (SScalar x) <> Ok r.
Proof.
  intros f x fl r Hf Hx Hfl H.
  assert (Hw : wf_scalar x) by (destruct Hx as [->|[->| ->]]; exact I).
  assert (Hn : x <> XNil) by (destruct Hx as [->|[->| ->]]; discriminate).
  destruct (conv_int_sound f x r Hf Hw Hn H) as (z & _ & _ & S).
  assert (S' : denote_fl fl = znum z) by (destruct Hx as [->|[->| ->]]; simpl in S; congruence).
  destruct fl as [m e| | |n]; simpl in S'; try contradiction; try discriminate S'.
  apply dy_int_inv in S'. destruct S' as [S' _]. congruence.
Qed.

(** * errors are not spurious: an in-range integer of any plain integer kind converts to itself *)
Theorem conv_int_complete : forall f k z, is_int_fmt f = true -> ik_in_rangeb k z = true -> in_range f z ->
  conv_impl (TScalar f) (SScalar (XInt false k z)) = Ok (RScalar (CInt f z)).
Proof.
  intros f k z Hf Hw R. unfold conv_impl, conv_body.
  assert (supported f = true) by (destruct f; try discriminate Hf; reflexivity). rewrite H. cbn [negb].
  rewrite (conv_scalar_int f _ Hf), (to_intf_complete f k z Hf Hw R). reflexivity.
Qed.

(** * read-back *)
Theorem string_of_readback : forall v t, string_of v = Some t -> agree (DText t) (denote_cval v).
Proof.
  intros [f z|d|s|[|]] t H; simpl in H; try discriminate; injection H as <-; simpl.
  - apply read_show_int.
  - reflexivity.
  - reflexivity.
  - reflexivity.
Qed.

(** String() of a converted integer, read as a numeral, is the number the source stood for *)
Theorem conv_int_readback : forall f x v, is_int_fmt f = true -> wf_scalar x -> x <> XNil ->
  conv_impl (TScalar f) (SScalar x) = Ok (RScalar v) ->
  exists t, string_of v = Some t /\ read_num t = src_num x.
Proof.
  intros f x v Hf Hw Hn H. destruct (conv_int_sound f x _ Hf Hw Hn H) as (z & E & _ & S).
  injection E as ->. exists (show_int z). split; [reflexivity|]. rewrite S. apply read_show_int.
Qed.

(** numbers to numbers: plain equality of denotations *)
Theorem conv_num_exact : forall f x v, (is_int_fmt f = true \/ f = FDecimal64) -> wf_scalar x ->
  (match x with XInt _ _ _ | XF64 _ _ | XF32 _ => True | _ => False end) ->
  conv_impl (TScalar f) (SScalar x) = Ok (RScalar v) -> denote_cval v = denote_scalar x.
Proof.
  intros f x v Hf Hw Hx H.
  assert (K : kf_float_text (TScalar f) (SScalar x) = false)
    by (destruct Hf as [Hf| ->]; [apply int_fmt_not_string; exact Hf | reflexivity]).
  pose proof (conv_typed (TScalar f) (SScalar x) _ Hw H) as T.
  destruct (conv_exact_outside_region (TScalar f) (SScalar x) _ Hw K H) as (x' & E & A). injection E as <-.
  destruct v as [g z|d|s|b]; simpl in T.
  - destruct x as [|named k z0|named fl|fl|named s|b|]; try contradiction; simpl in *.
    + exact A.
    + destruct fl; simpl in *; first [exact A | discriminate A].
    + destruct fl; simpl in *; first [exact A | discriminate A].
  - destruct x as [|named k z0|named fl|fl|named s|b|]; try contradiction;
      destruct d; simpl in *; try exact A; try discriminate A;
      try (destruct fl; simpl in *; first [exact A | discriminate A]).
  - subst f. destruct Hf as [Hf|Hf]; discriminate Hf.
  - subst f. destruct Hf as [Hf|Hf]; discriminate Hf.
Qed.

(** * ConvOneOf: the first format that converts *)
Theorem conv_one_of_first : forall ts s r t, conv_one_of ts s = Ok (r, t) ->
  exists pre post, ts = pre ++ t :: post /\ conv_impl t s = Ok r /\
                   forall u, In u pre -> conv_impl u s = Err.
Proof.
  induction ts as [|u ts IH]; intros s r t H; simpl in H; [discriminate|].
  destruct (conv_impl u s) as [r'| |] eqn:E; try discriminate.
  - injection H as <- <-. exists [], ts. split; [reflexivity|]. split; [exact E|]. intros ? [].
  - destruct (IH s r t H) as (pre & post & -> & C & P).
    exists (u :: pre), post. split; [reflexivity|]. split; [exact C|].
    intros w [<-|Hin]; [exact E | apply P; exact Hin].
Qed.
Theorem conv_one_of_exact : forall ts s r t, wf_src s -> conv_one_of ts s = Ok (r, t) ->
  (exact s r \/ kf_float_text t s = true) /\ rval_typed t r.
Proof.
  intros ts s r t Hw H. destruct (conv_one_of_first ts s r t H) as (_ & _ & _ & C & _).
  split; [apply (conv_exact_partial t s r Hw C) | apply (conv_typed t s r Hw C)].
Qed.

(** * the pinned commit: each repaired branch returned a different number without an error *)
Example conv_old_refuted :
  conv_old_scalar FInt8 (XInt false U8 200) = Ok (CInt FInt8 (-56)) /\
  conv_old_scalar FInt32 (XInt false I64 4294967301) = Ok (CInt FInt32 5) /\
  conv_old_scalar FUInt64 (XInt false I8 (-1)) = Ok (CInt FUInt64 18446744073709551615) /\
  conv_old_scalar FInt32 (XF64 false (FFin 37 (-3))) = Ok (CInt FInt32 4) /\
  conv_old_scalar FInt64 (XInt false U64 18446744073709551615) = Ok (CInt FInt64 (-1)) /\
  conv_old_scalar FDecimal64 (XInt false I64 9007199254740993) = Ok (CDec (FFin 9007199254740992 0)) /\
  conv_old_scalar FBool (XStr false w_np) = Ok (CBool false).
Proof. repeat split; vm_compute; reflexivity. Qed.
Example conv_old_not_exact :
  ~ agree (denote_cval (CInt FInt8 (-56))) (denote_scalar (XInt false U8 200)) /\
  ~ agree (denote_cval (CInt FInt32 5)) (denote_scalar (XInt false I64 4294967301)) /\
  ~ agree (denote_cval (CInt FUInt64 18446744073709551615)) (denote_scalar (XInt false I8 (-1))) /\
  ~ agree (denote_cval (CInt FInt32 4)) (denote_scalar (XF64 false (FFin 37 (-3)))) /\
  ~ agree (denote_cval (CDec (FFin 9007199254740992 0))) (denote_scalar (XInt false I64 9007199254740993)) /\
  ~ agree (denote_cval (CBool false)) (denote_scalar (XStr false w_np)).
Proof. repeat split; intros A; vm_compute in A; discriminate A. Qed.
(** and the repaired model refuses each of them *)
Example conv_new_refuses :
  conv_scalar FInt8 (XInt false U8 200) = Err /\
  conv_scalar FInt32 (XInt false I64 4294967301) = Err /\
  conv_scalar FUInt64 (XInt false I8 (-1)) = Err /\
  conv_scalar FInt32 (XF64 false (FFin 37 (-3))) = Err /\
  conv_scalar FInt64 (XInt false U64 18446744073709551615) = Err /\
  conv_scalar FDecimal64 (XInt false I64 9007199254740993) = Err /\
  conv_scalar FBool (XStr false w_np) = Err.
Proof. repeat split; vm_compute; reflexivity. Qed.
