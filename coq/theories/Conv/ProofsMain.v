(** C10 proofs, part 5: Conv as a whole - exactness, typedness, never-wraps corollaries,
    completeness on in-range integers, ConvOneOf first match, read-back, the pinned commit. *)
From Coq Require Import ZArith List Bool Lia Strings.Byte QArith Qreduction.
From YV Require Import Base.Wrap Val.Model Val.Proofs Conv.Model Conv.Spec Conv.Proofs Conv.ProofsNum
  Conv.ProofsText Conv.ProofsDec.
Import ListNotations.
Open Scope Z_scope.

Definition elem_ok (f : fmt) (v : cval) (x : scalar) : Prop :=
  (agree (denote_cval v) (denote_scalar x) \/ (f = FString /\ float_text x = true)) /\ cval_typed f v.

Lemma supported_cases f : supported f = true ->
  is_int_fmt f = true \/ f = FDecimal64 \/ f = FBool \/ f = FString.
Proof. destruct f; try discriminate; auto. Qed.

Lemma conv_scalar_int f x : is_int_fmt f = true ->
  conv_scalar f x = match to_intf f x with Ok z => Ok (CInt f z) | Err => Err | Unmodelled => Unmodelled end.
Proof. destruct f; try discriminate; reflexivity. Qed.

(** one value through the helper of its format *)
Lemma conv_scalar_exact f x v : supported f = true -> wf_scalar x -> conv_scalar f x = Ok v -> elem_ok f v x.
Proof.
  intros Hs Hw H. destruct (supported_cases f Hs) as [Hi | [-> | [-> | ->]]].
  - rewrite (conv_scalar_int f x Hi) in H.
    destruct (to_intf f x) as [z| |] eqn:E; try discriminate. injection H as <-.
    destruct (to_intf_exact f x z Hi Hw E) as [A R].
    split; [left; exact A | repeat split; assumption].
  - simpl in H. destruct (to_dec x) as [d| |] eqn:E; try discriminate. injection H as <-.
    split; [left; apply (to_dec_exact x d E) | reflexivity].
  - simpl in H. destruct (to_bool x) as [b| |] eqn:E; try discriminate. injection H as <-.
    split; [left; apply (to_bool_exact x b E) | reflexivity].
  - simpl in H. destruct (to_string x) as [t| |] eqn:E; try discriminate. injection H as <-.
    split; [|reflexivity].
    destruct (to_string_exact x t E) as [A|A]; [left; exact A | right; split; [reflexivity | exact A]].
Qed.

Lemma conv_each_exact f : supported f = true -> forall l vs, Forall wf_scalar l ->
  conv_each f l = Ok vs -> Forall2 (elem_ok f) vs l.
Proof.
  intros Hs. induction l as [|x l IH]; intros vs Hw H; simpl in H.
  - injection H as <-. constructor.
  - destruct (conv_scalar f x) as [v| |] eqn:E; try discriminate.
    destruct (conv_each f l) as [vs'| |] eqn:E'; try discriminate. injection H as <-.
    inversion Hw; subst. constructor; [apply (conv_scalar_exact f x v Hs H1 E) | apply IH; [assumption | reflexivity]].
Qed.

(** `case []T: return x, nil` *)
Lemma as_is_exact f l : supported f = true ->
  Forall (fun x => wf_scalar x /\ elem_of (own_ekind f) x) l ->
  Forall2 (elem_ok f) (map (as_is f) l) l.
Proof.
  intros Hs. induction l as [|x l IH]; intros H; simpl; [constructor|].
  inversion H as [|? ? [Hw He] Hl]; subst. constructor; [|apply IH; exact Hl].
  destruct (supported_cases f Hs) as [Hi | [-> | [-> | ->]]].
  - assert (exists k, own_ekind f = EInt k /\ is_signed f = ik_signed k /\ width f = ik_width k) as (k & Ek & Es & Ew)
      by (destruct f; try discriminate Hi; eexists; repeat split; reflexivity).
    rewrite Ek in He. destruct x as [|[|] k' z| | | | |]; simpl in He; try contradiction. subst k'.
    simpl. split; [left; reflexivity|]. split; [reflexivity|]. split; [exact Hi|].
    simpl in Hw. apply ik_range in Hw. unfold in_range. rewrite Es, Ew. exact Hw.
  - destruct x as [| | [|] d| | | |]; simpl in He; try contradiction.
    split; [left; apply agree_fl_refl | reflexivity].
  - destruct x; simpl in He; try contradiction. split; [left; reflexivity | reflexivity].
  - destruct x as [| | | |[|] s| |]; simpl in He; try contradiction. split; [left; reflexivity | reflexivity].
Qed.

Lemma elem_ok_split f vs l : Forall2 (elem_ok f) vs l ->
  (Forall2 agree (map denote_cval vs) (map denote_scalar l) \/ (f = FString /\ existsb float_text l = true))
  /\ Forall (cval_typed f) vs.
Proof.
  induction 1 as [|v x vs l [[A|[Ef Af]] T] H [[IHa|IHa] IHt]]; simpl.
  - split; [left; constructor | constructor].
  - split; [left; constructor; assumption | constructor; assumption].
  - split; [right; destruct IHa; split; [assumption | apply orb_true_iff; right; assumption] | constructor; assumption].
  - split; [right; split; [exact Ef | rewrite Af; reflexivity] | constructor; assumption].
  - split; [right; split; [exact Ef | rewrite Af; reflexivity] | constructor; assumption].
Qed.

Lemma wf_slice_scalars ek l : Forall (fun x => wf_scalar x /\ elem_of ek x) l -> Forall wf_scalar l.
Proof. intros H. eapply Forall_impl; [|exact H]. simpl. tauto. Qed.

Lemma ekind_eqb_true a b : ekind_eqb a b = true -> a = b.
Proof.
  destruct a, b; simpl; try discriminate; try reflexivity.
  destruct k, k0; simpl; try discriminate; reflexivity.
Qed.

Lemma conv_list_exact f s vs : supported f = true -> wf_src s -> conv_list f s = Ok vs ->
  Forall2 (elem_ok f) vs (elems s).
Proof.
  intros Hs Hw H. destruct s as [x|ek l]; simpl in *.
  - assert (G : match conv_scalar f x with Ok v => Ok [v] | Err => Err | Unmodelled => Unmodelled end = Ok vs ->
                Forall2 (elem_ok f) vs [x]).
    { destruct (conv_scalar f x) as [v| |] eqn:E; try discriminate. intros HH; injection HH as <-.
      constructor; [apply (conv_scalar_exact f x v Hs Hw E) | constructor]. }
    destruct (fmt_eqb f FString) eqn:Ef.
    + destruct f; try discriminate Ef.
      destruct x as [| | | |[|] t| |]; try discriminate. injection H as <-.
      constructor; [|constructor]. split; [left; reflexivity | reflexivity].
    + destruct f; try discriminate Ef; try discriminate Hs; apply G; exact H.
  - destruct (ekind_eqb ek (own_ekind f)) eqn:Ee.
    + apply ekind_eqb_true in Ee. subst ek. injection H as <-. apply as_is_exact; assumption.
    + destruct (elementwise f ek); [|discriminate].
      apply conv_each_exact; [exact Hs | apply (wf_slice_scalars ek l Hw) | exact H].
Qed.

(** * C10, main statement *)
Lemma conv_body_exact t s r : wf_src s -> conv_body t s = Ok r ->
  (exact s r \/ kf_float_text t s = true) /\ rval_typed t r.
Proof.
  intros Hw H. unfold conv_body in H. destruct t as [f|f]; destruct (supported f) eqn:Hs; try discriminate; cbn [negb] in H.
  - destruct s as [x|ek l]; [|destruct f; discriminate].
    destruct (conv_scalar f x) as [v| |] eqn:E; try discriminate. injection H as <-.
    destruct (conv_scalar_exact f x v Hs Hw E) as [[A | [-> A]] T].
    + split; [left; exists x; split; [reflexivity | exact A] | exact T].
    + split; [right; simpl; rewrite A; reflexivity | exact T].
  - destruct (conv_list f s) as [vs| |] eqn:E; try discriminate. injection H as <-.
    destruct (elem_ok_split f vs _ (conv_list_exact f s vs Hs Hw E)) as [[A | [-> A]] T].
    + split; [left; exact A | split; [reflexivity | exact T]].
    + split; [right; exact A | split; [reflexivity | exact T]].
Qed.

Lemma conv_impl_cases t s r : conv_impl t s = Ok r ->
  (s = SScalar XNil /\ r = RNil) \/ conv_body t s = Ok r.
Proof.
  unfold conv_impl. destruct s as [[| | | | | |]|]; intros H; try (right; exact H).
  left. injection H as <-. split; reflexivity.
Qed.

(** every successful conversion of a Go value is exact, except inside the recorded region *)
Theorem conv_exact_partial : forall t s r, wf_src s -> conv_impl t s = Ok r ->
  exact s r \/ kf_float_text t s = true.
Proof.
  intros t s r Hw H. destruct (conv_impl_cases t s r H) as [[-> ->] | B].
  - left. reflexivity.
  - apply (conv_body_exact t s r Hw B).
Qed.

(** and it is a value of the requested type, inside the range of that type *)
Theorem conv_typed : forall t s r, wf_src s -> conv_impl t s = Ok r -> rval_typed t r.
Proof.
  intros t s r Hw H. destruct (conv_impl_cases t s r H) as [[-> ->] | B].
  - exact I.
  - apply (conv_body_exact t s r Hw B).
Qed.
