(** Proofs about Typed/Model.v against Typed/Spec.v (property C02). *)
From Coq Require Import ZArith List Bool Lia Strings.Byte.
From YV Require Import Typed.Model Typed.Spec.
Import ListNotations.
Open Scope Z_scope.

(** * Enum values / bit positions: the code's running counter is RFC 7950 9.6.4.2 *)
Lemma fold_max_max : forall l a b, fold_left Z.max l (Z.max a b) = Z.max a (fold_left Z.max l b).
Proof.
  induction l as [|x l IH]; intros a b; simpl; [reflexivity|].
  rewrite <- Z.max_assoc. apply IH.
Qed.

Definition next_of (prev : list Z) : Z := match highest prev with Some h => h + 1 | None => 0 end.

Lemma assign_from_rfc : forall l prev,
  values_of (assign_from (is_nil prev) (next_of prev) l) = rfc_values prev l.
Proof.
  induction l as [|[n v] l IH]; intros prev; [reflexivity|].
  cbn [assign_from rfc_values values_of map fst snd].
  set (x := match v with Some x => x | None => next_of prev end).
  assert (Hx : x = match v with
                   | Some x => x
                   | None => match highest prev with Some h => h + 1 | None => 0 end
                   end) by (subst x; destruct v; reflexivity).
  rewrite <- Hx. f_equal.
  assert (Hn : (if is_nil prev || (next_of prev <=? x) then x + 1 else next_of prev) = next_of (x :: prev)).
  { unfold next_of. destruct prev as [|p ps]; simpl; [reflexivity|].
    rewrite (fold_max_max ps x p).
    destruct (Z.leb_spec (fold_left Z.max ps p + 1) x); lia. }
  rewrite Hn. exact (IH (x :: prev)).
Qed.

Lemma assign_rfc : forall l, values_of (assign l) = rfc_values [] l.
Proof. intro l. exact (assign_from_rfc l []). Qed.

Definition all_some (l : list valued) : Prop := Forall (fun nv => snd nv <> None) l.

Lemma assign_from_all_some : forall l f n, all_some l -> assign_from f n l = l.
Proof.
  induction l as [|[k v] l IH]; intros f n H; [reflexivity|].
  inversion H as [|? ? Hv Hl]; subst. simpl in Hv.
  destruct v as [x|]; [|congruence]. simpl. f_equal. apply IH. exact Hl.
Qed.

Lemma assign_from_is_all_some : forall l f n, all_some (assign_from f n l).
Proof.
  induction l as [|[k v] l IH]; intros f n; simpl; [constructor|].
  constructor; [simpl; congruence|apply IH].
Qed.

Lemma assign_idem : forall l, assign (assign l) = assign l.
Proof. intro l. apply assign_from_all_some. apply assign_from_is_all_some. Qed.

(** * Default and units: the recursive inheritance is "nearest typedef stating one" *)
Lemma inherited_spec : forall lv,
  inherited lv = (first_some (map lv_default lv), first_nonempty (map lv_units lv)).
Proof.
  induction lv as [|[[[[y mi] d] u] s] lv IH]; [reflexivity|].
  simpl. rewrite IH. destruct d; destruct u; reflexivity.
Qed.

(** * The steps of compileType after the format is known *)
Lemma fmt_single_list : forall f, fmt_single (fmt_list f) = fmt_single f.
Proof.
  intro f. unfold fmt_single, fmt_list, list_flag.
  change 1024 with (2 ^ 10). rewrite <- !Z.land_ones by lia.
  rewrite Z.land_lor_distr_l. change (Z.land (2 ^ 10) (Z.ones 10)) with 0. apply Z.lor_0_r.
Qed.

Lemma fmt_list_idem : forall f, fmt_list (fmt_list f) = fmt_list f.
Proof. intro f. unfold fmt_list. rewrite <- Z.lor_assoc. rewrite Z.lor_diag. reflexivity. Qed.

Lemma add_list_format : forall b y, t_format (add_list b y) = if b then fmt_list (t_format y) else t_format y.
Proof. intros [] [? ? ? ? ? ? ? ? ? ? ? ? ?]; reflexivity. Qed.

(** the fields no step touches *)
Definition core (y : ty) := (t_ident y, t_ranges y, t_lengths y, t_patterns y, t_fd y, t_path y, t_bases y).

Lemma add_list_core : forall b y, core (add_list b y) = core y /\ t_enums (add_list b y) = t_enums y
  /\ t_bits (add_list b y) = t_bits y /\ t_target (add_list b y) = t_target y
  /\ t_idents (add_list b y) = t_idents y /\ t_members (add_list b y) = t_members y.
Proof. intros [] [? ? ? ? ? ? ? ? ? ? ? ? ?]; repeat split. Qed.

Definition target_of (E : env) (abs_ok : bool) (self : option (list text)) (f : Z) (path : text) : option (option Z) :=
  if fmt_single f =? FmtLeafRef then
    match find_path (e_tree E) abs_ok self path with
    | Some (TLeaf tl tp y0) =>
        match base_format (chain_fuel (e_mods E) tp) (e_mods E) tp (t_ident y0) with
        | Some f => Some (Some (if tl then fmt_list f else f))
        | None => None
        end
    | _ => None
    end
  else Some None.

Ltac acc := cbn [t_ident t_format t_ranges t_lengths t_patterns t_fd t_enums t_bits t_path t_target
                 t_bases t_idents t_members core set_format set_members set_target set_idents
                 set_enums set_bits] in *.
Ltac break H := repeat match type of H with
  | context [match ?x with _ => _ end] => destruct x eqn:?; try discriminate
  end.

Lemma post_leafref_ok : forall E mi c y t, post_leafref E mi c y = Ok t ->
  core t = core y /\ t_format t = t_format y /\ t_enums t = t_enums y /\ t_bits t = t_bits y
  /\ t_idents t = t_idents y /\ t_members t = t_members y
  /\ target_of E (snd c || Nat.eqb mi 0) (ctx_self c) (t_format y) (t_path y) = Some (t_target t).
Proof.
  intros E mi c y t H. unfold post_leafref in H. unfold target_of.
  destruct y as [a b c0 d e g h i j k l m n]; acc.
  break H; inversion H; subst; acc; repeat split.
Qed.

Lemma post_ident_ok : forall E mi y t, post_ident E mi y = Ok t ->
  core t = core y /\ t_format t = t_format y /\ t_enums t = t_enums y /\ t_bits t = t_bits y
  /\ t_target t = t_target y /\ t_members t = t_members y
  /\ (if (t_format y =? FmtIdentityRef) && is_nil (t_idents y)
      then resolve_idents (e_mods E) mi (t_bases y) = Some (t_idents t)
      else t_idents t = t_idents y).
Proof.
  intros E mi y t H. unfold post_ident in H.
  destruct y as [a b c0 d e g h i j k l m n]; acc.
  break H; inversion H; subst; acc; repeat split.
Qed.

Lemma post_union_ok : forall b y t, post_union b y = Ok t ->
  core t = core y /\ t_format t = t_format y /\ t_enums t = t_enums y /\ t_bits t = t_bits y
  /\ t_target t = t_target y /\ t_idents t = t_idents y
  /\ t_members t = map (add_list b) (t_members y)
  /\ ((fmt_single (t_format y) =? FmtUnion) = negb (is_nil (t_members y))).
Proof.
  intros b y t H. unfold post_union in H.
  destruct y as [a b0 c0 d e g h i j k l m n]; acc.
  break H; inversion H; subst; acc; repeat split; try reflexivity.
  all: match goal with Hn : is_nil ?n = _ |- _ => destruct n; simpl in *; congruence end.
Qed.

Lemma post_values_ok : forall y,
  core (post_values y) = core y /\ t_format (post_values y) = t_format y
  /\ t_target (post_values y) = t_target y /\ t_idents (post_values y) = t_idents y
  /\ t_members (post_values y) = t_members y
  /\ t_enums (post_values y) = (if fmt_single (t_format y) =? FmtEnum then assign (t_enums y) else t_enums y)
  /\ t_bits (post_values y) = (if fmt_single (t_format y) =? FmtBits then assign (t_bits y) else t_bits y).
Proof.
  intros [a b c0 d e g h i j k l m n]. unfold post_values. simpl.
  destruct (fmt_single b =? FmtEnum) eqn:A; simpl; destruct (fmt_single b =? FmtBits) eqn:B; simpl;
    repeat split.
Qed.

(** everything [post] does, in one statement *)
Lemma post_ok : forall E mi c y t, post E mi c y = Ok t ->
  core t = core y
  /\ t_format t = (if ctx_list c then fmt_list (t_format y) else t_format y)
  /\ target_of E (snd c || Nat.eqb mi 0) (ctx_self c) (t_format y) (t_path y) = Some (t_target t)
  /\ (if (t_format y =? FmtIdentityRef) && is_nil (t_idents y)
      then resolve_idents (e_mods E) mi (t_bases y) = Some (t_idents t)
      else t_idents t = t_idents y)
  /\ t_members t = map (add_list (ctx_list c)) (t_members y)
  /\ ((fmt_single (t_format y) =? FmtUnion) = negb (is_nil (t_members y)))
  /\ t_enums t = (if fmt_single (t_format y) =? FmtEnum then assign (t_enums y) else t_enums y)
  /\ t_bits t = (if fmt_single (t_format y) =? FmtBits then assign (t_bits y) else t_bits y).
Proof.
  intros E mi c y t H. unfold post in H.
  destruct (post_leafref E mi c y) as [y1| | |] eqn:H1; try discriminate. simpl in H.
  destruct (post_ident E mi y1) as [y2| | |] eqn:H2; try discriminate. simpl in H.
  destruct (post_union (ctx_list c) (add_list (ctx_list c) y2)) as [y3| | |] eqn:H3; try discriminate.
  simpl in H. inversion H; subst t; clear H.
  apply post_leafref_ok in H1. destruct H1 as (A1 & A2 & A3 & A4 & A5 & A6 & A7).
  apply post_ident_ok in H2. destruct H2 as (B1 & B2 & B3 & B4 & B5 & B6 & B7).
  apply post_union_ok in H3. destruct H3 as (C1 & C2 & C3 & C4 & C5 & C6 & C7 & C8).
  destruct (add_list_core (ctx_list c) y2) as (D1 & D2 & D3 & D4 & D5 & D6).
  destruct (post_values_ok y3) as (V1 & V2 & V3 & V4 & V5 & V6 & V7).
  rewrite add_list_format in C2, C8.
  assert (F3 : fmt_single (t_format y3) = fmt_single (t_format y)).
  { rewrite C2, B2, A2. destruct (ctx_list c); [apply fmt_single_list|reflexivity]. }
  assert (F2 : fmt_single (if ctx_list c then fmt_list (t_format y2) else t_format y2) = fmt_single (t_format y)).
  { rewrite B2, A2. destruct (ctx_list c); [apply fmt_single_list|reflexivity]. }
  repeat split.
  - rewrite V1, C1, D1, B1, A1. reflexivity.
  - rewrite V2, C2, B2, A2. reflexivity.
  - rewrite A7, V3, C5, D4, B5. reflexivity.
  - rewrite A2, A5 in B7. assert (Hb : t_bases y1 = t_bases y) by (unfold core in A1; congruence).
    rewrite Hb in B7. rewrite V4, C6, D5. exact B7.
  - rewrite V5, C7, D6, B6, A6. reflexivity.
  - rewrite F2 in C8. rewrite C8, D6, B6, A6. reflexivity.
  - rewrite V6, F3, C3, D2, B3, A3. reflexivity.
  - rewrite V7, F3, C4, D3, B4, A4. reflexivity.
Qed.

(** * The chain: what the bottom-up mixin leaves in the compiled type *)
Fixpoint first_nonnil {A} (l : list (list A)) : list A :=
  match l with [] => [] | [] :: tl => first_nonnil tl | a :: _ => a end.

Lemma app_if : forall {A} (d b : list A),
  (if is_nil d then b else if is_nil b then d else d ++ b) = d ++ b.
Proof. intros A [|x d] [|y b]; simpl; rewrite ?app_nil_r; reflexivity. Qed.

Lemma is_nil_true : forall {A} (l : list A), is_nil l = true -> l = [].
Proof. intros A [|x l] H; [reflexivity|discriminate]. Qed.

Lemma resolve_idents_nil : forall mods mi qs, resolve_idents mods mi qs = Some [] -> qs = [].
Proof.
  intros mods mi [|q qs] H; [reflexivity|]. simpl in H.
  destruct (resolve_ident mods mi q); [|discriminate].
  destruct (resolve_idents mods mi qs); discriminate.
Qed.

Definition val_of (v : option Z) : Z := match v with Some x => x | None => -1 end.

Lemma assoc_values_of : forall b n, assoc (values_of b) n = option_map val_of (assoc b n).
Proof.
  induction b as [|[k v] b IH]; intro n; [reflexivity|].
  simpl. destruct (text_eqb n k); [reflexivity|apply IH].
Qed.

Lemma assoc_all_some : forall b n v, all_some b -> assoc b n = Some v -> v <> None.
Proof.
  induction b as [|[k w] b IH]; intros n v H A; [discriminate|].
  inversion H; subst. simpl in A. destruct (text_eqb n k).
  - inversion A; subst. assumption.
  - eapply IH; eassumption.
Qed.

(** mixin's inheritance of values is the RFC's "restricted type keeps the base's values" *)
Lemma inherit_values_spec : forall b d,
  all_some b -> restrict_ok (values_of b) d = true -> d <> [] ->
  all_some (inherit_values b d) /\ values_of (inherit_values b d) = restrict (values_of b) d.
Proof.
  intros b d Hb Hok Hne. unfold restrict. destruct d as [|d0 d']; [congruence|]. cbn [is_nil].
  clear Hne. revert Hok. generalize (d0 :: d'). clear d0 d'.
  induction l as [|[n v] l IH]; intro Hok; [split; [constructor|reflexivity]|].
  simpl in Hok. apply andb_true_iff in Hok. destruct Hok as [H1 H2].
  destruct (IH H2) as [I1 I2]. rewrite assoc_values_of in H1.
  unfold inherit_values, values_of. cbn [map fst snd]. fold (inherit_values b l). fold (values_of (inherit_values b l)).
  rewrite assoc_values_of.
  destruct (assoc b n) as [w|] eqn:A; [|discriminate]. cbn [option_map] in *.
  destruct v as [x|].
  - apply Z.eqb_eq in H1. subst. split.
    + constructor; [simpl; congruence|exact I1].
    + cbn [fst snd]. f_equal. exact I2.
  - pose proof (assoc_all_some _ _ _ Hb A) as Hw. destruct w as [x|]; [|congruence]. split.
    + constructor; [simpl; congruence|exact I1].
    + cbn [fst snd val_of]. f_equal. exact I2.
Qed.

Lemma project_add_list : forall mods b m, project mods false (add_list b m) = project mods false m.
Proof.
  intros mods [] [a f c d e g h i j k l m0 n]; [|reflexivity].
  unfold add_list. acc. cbn [project]. rewrite !fmt_single_list. reflexivity.
Qed.

Lemma map_project_add_list : forall mods b ms,
  map (project mods false) (map (add_list b) ms) = map (project mods false) ms.
Proof.
  intros mods b ms. rewrite map_map. apply map_ext. intro m. apply project_add_list.
Qed.

(** one level of values (enums or bits): what mixin + the renumbering leave *)
Lemma level_values : forall (bv dv : list valued) cur,
  all_some bv -> values_of bv = cur -> restrict_ok cur dv = true ->
  let mixed := if is_nil dv then bv else inherit_values bv dv in
  all_some (assign mixed) /\ values_of (assign mixed) = restrict cur dv.
Proof.
  intros bv dv cur Hb Hc Hok mixed. subst cur.
  assert (Hm : all_some mixed /\ values_of mixed = restrict (values_of bv) dv).
  { subst mixed. destruct dv as [|d0 d'] eqn:Ed.
    - simpl. split; [exact Hb|reflexivity].
    - cbn [is_nil]. apply inherit_values_spec; [exact Hb|exact Hok|congruence]. }
  destruct Hm as [M1 M2]. unfold assign. rewrite (assign_from_all_some _ _ _ M1). split; assumption.
Qed.

Ltac splits := repeat match goal with |- _ /\ _ => split end.

Definition outer_mi (levels : list level) (mib : nat) : nat :=
  match levels with (_, mi, _, _, _) :: _ => mi | [] => mib end.

Lemma chain_ok : forall E levels fm base mib ms c t,
  forallb level_ok levels = true -> parsed base = true ->
  compile_levels E levels fm base mib ms c = Ok t ->
  t_format t = (if ctx_list c then fmt_list fm else fm)
  /\ t_ranges t = flat_map t_ranges (stmts levels base)
  /\ t_lengths t = flat_map t_lengths (stmts levels base)
  /\ t_patterns t = first_nonnil (map t_patterns (stmts levels base))
  /\ t_fd t = t_fd base /\ t_path t = t_path base /\ t_bases t = t_bases base
  /\ (if fm =? FmtIdentityRef then resolve_idents (e_mods E) mib (t_bases base) = Some (t_idents t)
      else t_idents t = [])
  /\ map (project (e_mods E) false) (t_members t) = map (project (e_mods E) false) ms
  /\ ((fmt_single fm =? FmtUnion) = negb (is_nil ms))
  /\ target_of E (snd c || Nat.eqb (outer_mi levels mib) 0) (ctx_self c) fm (t_path base) = Some (t_target t)
  /\ (fmt_single fm = FmtEnum -> levels_values_ok t_enums levels base = true ->
      all_some (t_enums t) /\ values_of (t_enums t) = eff_values t_enums levels base)
  /\ (fmt_single fm = FmtBits -> levels_values_ok t_bits levels base = true ->
      all_some (t_bits t) /\ values_of (t_bits t) = eff_values t_bits levels base).
Proof.
  intros E levels fm base mib ms. induction levels as [|[[[[y mi] d] u] tdself] levels IH]; intros c t Hl Hb H.
  - (* the statement naming the built-in *)
    cbn [compile_levels] in H. apply post_ok in H.
    destruct H as (K & F & Tg & Id & Ms & Un & En & Bi).
    unfold parsed in Hb. apply andb_true_iff in Hb. destruct Hb as [Hb Ht].
    apply andb_true_iff in Hb. destruct Hb as [Hf Hi]. apply is_nil_true in Hi.
    destruct base as [a b c0 d e g h i j k l m n]; acc. subst m.
    unfold stmts. cbn [map app flat_map first_nonnil]. acc. rewrite !app_nil_r.
    unfold core in K. acc. inversion K; subst.
    splits; try assumption; try reflexivity.
    + destruct (t_patterns t); reflexivity.
    + cbn [is_nil andb] in Id. rewrite andb_true_r in Id.
      destruct (fm =? FmtIdentityRef); assumption.
    + rewrite Ms. apply map_project_add_list.
    + rewrite En. intros Hfm _. rewrite Hfm. cbn [Z.eqb FmtEnum Pos.eqb]. split.
      * apply assign_from_is_all_some.
      * unfold eff_values. cbn [fold_right]. acc. apply assign_rfc.
    + rewrite Bi. intros Hfm _. rewrite Hfm. cbn [Z.eqb FmtBits Pos.eqb]. split.
      * apply assign_from_is_all_some.
      * unfold eff_values. cbn [fold_right]. acc. apply assign_rfc.
  - (* a statement naming a typedef: mixin with the compiled typedef type, then post *)
    cbn [compile_levels] in H.
    destruct (compile_levels E levels fm base mib ms (tdself, false, false)) as [b| | |] eqn:Hc; try discriminate.
    cbn [bind] in H. apply post_ok in H.
    cbn [forallb] in Hl. apply andb_true_iff in Hl. destruct Hl as [Hy Hl].
    specialize (IH _ _ Hl Hb Hc).
    destruct IH as (IF & IR & IL & IP & Ifd & Ipa & Iba & Iid & Ims & Iun & _ & Ien & Ibi).
    cbn [ctx_list fst snd] in IF.
    destruct H as (K & F & Tg & Id & Ms & Un & En & Bi).
    unfold level_ok, lv_stmt in Hy. repeat (apply andb_true_iff in Hy; destruct Hy as [Hy ?]).
    unfold parsed in Hy. repeat (apply andb_true_iff in Hy; destruct Hy as [Hy ?]).
    repeat match goal with X : is_nil _ = true |- _ => apply is_nil_true in X end.
    match goal with X : (t_fd y =? 0) = true |- _ => apply Z.eqb_eq in X; rename X into Yfd end.
    unfold core, mixin in *. acc.
    repeat match goal with X : t_path y = [] |- _ => rewrite X in * end.
    repeat match goal with X : t_bases y = [] |- _ => rewrite X in * end.
    repeat match goal with X : t_idents y = [] |- _ => rewrite X in * end.
    repeat match goal with X : t_members y = [] |- _ => rewrite X in * end.
    rewrite Yfd in *. cbn [is_nil Z.eqb] in *.
    rewrite !app_if in K. inversion K as [[K1 K2 K3 K4 K5 K6 K7]]; clear K.
    unfold stmts. cbn [map app flat_map lv_stmt first_nonnil]. fold (stmts levels base).
    rewrite IF in *.
    assert (Pth : (if negb (is_nil (t_path b)) && true then t_path b else []) = t_path base).
    { rewrite Ipa. destruct (t_path base); reflexivity. }
    rewrite Pth in *.
    splits.
    + exact F.
    + rewrite K2, IR. reflexivity.
    + rewrite K3, IL. reflexivity.
    + rewrite K4, IP. destruct (t_patterns y); reflexivity.
    + rewrite K5. exact Ifd.
    + exact K6.
    + rewrite K7. exact Iba.
    + destruct (fm =? FmtIdentityRef) eqn:F7; cbn [andb] in Id.
      * destruct (is_nil (t_idents b)) eqn:Nb.
        -- apply is_nil_true in Nb. rewrite Nb in Iid. apply resolve_idents_nil in Iid.
           rewrite Iba, Iid in Id. cbn [resolve_idents] in Id. inversion Id as [Id'].
           rewrite Iid. reflexivity.
        -- rewrite Id. exact Iid.
      * rewrite Id. exact Iid.
    + rewrite Ms, map_project_add_list. exact Ims.
    + exact Iun.
    + cbn [outer_mi]. exact Tg.
    + intros Hfm Hok. cbn [levels_values_ok lv_stmt] in Hok. apply andb_true_iff in Hok.
      destruct Hok as [O1 O2]. destruct (Ien Hfm O2) as [E1 E2].
      rewrite En, Hfm. cbn [Z.eqb FmtEnum Pos.eqb].
      apply (level_values (t_enums b) (t_enums y) (eff_values t_enums levels base) E1 E2 O1).
    + intros Hfm Hok. cbn [levels_values_ok lv_stmt] in Hok. apply andb_true_iff in Hok.
      destruct Hok as [O1 O2]. destruct (Ibi Hfm O2) as [E1 E2].
      rewrite Bi, Hfm. cbn [Z.eqb FmtBits Pos.eqb].
      apply (level_values (t_bits b) (t_bits y) (eff_values t_bits levels base) E1 E2 O1).
Qed.

(** * Nested recursion: unfolding lemmas and an induction principle for [rt] *)
Fixpoint mapm {A B} (f : A -> outcome B) (l : list A) : outcome (list B) :=
  match l with
  | [] => Ok []
  | a :: tl => bind (f a) (fun b => bind (mapm f tl) (fun r => Ok (b :: r)))
  end.
Fixpoint mapo {A B} (f : A -> option B) (l : list A) : option (list B) :=
  match l with
  | [] => Some []
  | a :: tl => match f a, mapo f tl with Some b, Some r => Some (b :: r) | _, _ => None end
  end.

Lemma compile_rt_unfold : forall E lv fm b mib ms c,
  compile_rt E (RT lv fm b mib ms) c =
  bind (mapm (fun m => compile_rt E m (base_ctx lv c)) ms) (fun ms' => compile_levels E lv fm b mib ms' c).
Proof.
  intros. cbn [compile_rt]. f_equal.
  all: try (induction ms as [|m ms IH]; [reflexivity|]; cbn [mapm]; rewrite <- IH; reflexivity).
Qed.

Lemma project_unfold : forall mods top t,
  project mods top t =
  OType (if top then t_format t else fmt_single (t_format t)) (t_ranges t) (t_lengths t) (t_patterns t) (t_fd t)
        (if fmt_single (t_format t) =? FmtEnum then values_of (t_enums t) else [])
        (if fmt_single (t_format t) =? FmtBits then values_of (t_bits t) else [])
        (t_target t) (t_idents t) (accepted_union mods (t_idents t))
        (map (project mods false) (t_members t)).
Proof.
  intros mods top [a f c d e g h i j k l m n]. cbn [project]. acc. f_equal.
  all: try (induction n as [|x n IH]; [reflexivity|]; cbn [map]; rewrite <- IH; reflexivity).
Qed.

Lemma wf_rt_unfold : forall lv fm b mib ms,
  wf_rt (RT lv fm b mib ms) =
  (forallb level_ok lv && parsed b && (0 <? fm) && (fm <? list_flag)
   && levels_values_ok t_enums lv b && levels_values_ok t_bits lv b
   && negb (rt_negative (RT lv fm b mib [])) && forallb wf_rt ms).
Proof.
  intros. cbn [wf_rt]. f_equal.
  all: try (induction ms as [|m ms IH]; [reflexivity|]; cbn [forallb]; rewrite <- IH; reflexivity).
Qed.

Lemma pat_region_unfold : forall lv fm b mib ms,
  pat_region (RT lv fm b mib ms) = (Nat.ltb 1 (count_pattern_levels (stmts lv b)) || existsb pat_region ms).
Proof.
  intros. cbn [pat_region]. f_equal.
  all: try (induction ms as [|m ms IH]; [reflexivity|]; cbn [existsb]; rewrite <- IH; reflexivity).
Qed.

Lemma multibase_unfold : forall lv fm b mib ms,
  multibase_region (RT lv fm b mib ms) = (Nat.ltb 1 (List.length (t_bases b)) || existsb multibase_region ms).
Proof.
  intros. cbn [multibase_region]. f_equal.
  all: try (induction ms as [|m ms IH]; [reflexivity|]; cbn [existsb]; rewrite <- IH; reflexivity).
Qed.

Lemma td_leafref_unfold : forall in_td lv fm b mib ms,
  td_leafref in_td (RT lv fm b mib ms) =
  (((in_td || negb (is_nil lv)) && (fm =? FmtLeafRef) && relative (t_path b))
   || existsb (td_leafref (in_td || negb (is_nil lv))) ms).
Proof.
  intros. cbn [td_leafref]. f_equal.
  all: try (induction ms as [|m ms IH]; [reflexivity|]; cbn [existsb]; rewrite <- IH; reflexivity).
Qed.

Lemma effective_members_unfold : forall E c ms,
  (fix go (l : list rt) : option (list otype) :=
     match l with
     | [] => Some []
     | m :: tl => match effective E false m c, go tl with
                  | Some a, Some r => Some (a :: r)
                  | _, _ => None
                  end
     end) ms = mapo (fun m => effective E false m c) ms.
Proof. intros. induction ms as [|m ms IH]; [reflexivity|]. cbn [mapo]. rewrite <- IH. reflexivity. Qed.

Definition rt_ind' (P : rt -> Prop)
  (H : forall lv fm b mib ms, Forall P ms -> P (RT lv fm b mib ms)) : forall r, P r :=
  fix F (r : rt) : P r :=
    match r with
    | RT lv fm b mib ms =>
        H lv fm b mib ms
          ((fix go (l : list rt) : Forall P l :=
              match l with
              | [] => Forall_nil P
              | m :: tl => Forall_cons m (F m) (go tl)
              end) ms)
    end.

(** * Regions *)
Lemma first_nonnil_flat : forall {A} (ls : list (list A)),
  Nat.ltb 1 (List.length (filter (fun l => negb (is_nil l)) ls)) = false ->
  first_nonnil ls = flat_map (fun l => l) ls.
Proof.
  induction ls as [|l ls IH]; intro H; [reflexivity|].
  destruct l as [|x l].
  - simpl in *. apply IH. exact H.
  - cbn [first_nonnil flat_map]. cbn [filter is_nil negb List.length] in H.
    assert (Z0 : filter (fun l => negb (is_nil l)) ls = []).
    { destruct (filter (fun l => negb (is_nil l)) ls); [reflexivity|discriminate]. }
    assert (Z1 : flat_map (fun l => l) ls = []).
    { clear -Z0. induction ls as [|a ls IH]; [reflexivity|].
      simpl in Z0. destruct a; simpl in *; [apply IH; exact Z0|discriminate]. }
    rewrite Z1, app_nil_r. reflexivity.
Qed.

Lemma count_pattern_levels_map : forall ss,
  count_pattern_levels ss = List.length (filter (fun l => negb (is_nil l)) (map t_patterns ss)).
Proof.
  unfold count_pattern_levels. induction ss as [|y ss IH]; [reflexivity|].
  simpl. destruct (is_nil (t_patterns y)); simpl; rewrite IH; reflexivity.
Qed.

Lemma resolve_idents_length : forall mods mi qs ids,
  resolve_idents mods mi qs = Some ids -> List.length ids = List.length qs.
Proof.
  induction qs as [|q qs IH]; intros ids H; simpl in H.
  - inversion H. reflexivity.
  - destruct (resolve_ident mods mi q); [|discriminate].
    destruct (resolve_idents mods mi qs) eqn:R; [|discriminate].
    inversion H; subst. simpl. f_equal. apply IH. reflexivity.
Qed.

Lemma filter_true : forall {A} (l : list A), filter (fun _ => true) l = l.
Proof. induction l as [|a l IH]; [reflexivity|]. simpl. rewrite IH. reflexivity. Qed.

Lemma accepted_single : forall mods ids, Nat.ltb 1 (List.length ids) = false ->
  accepted_union mods ids = accepted_inter mods ids.
Proof.
  intros mods [|i [|j ids]] H; [reflexivity| |discriminate].
  unfold accepted_union, accepted_inter. cbn [flat_map forallb]. rewrite app_nil_r, filter_true. reflexivity.
Qed.

Lemma find_path_abs : forall tree ok s1 s2 p,
  relative p = false -> p <> [] ->
  find_path tree ok s1 p = find_path tree ok s2 p.
Proof.
  intros tree ok s1 s2 [|c p] R N; [congruence|].
  unfold relative in R. apply negb_false_iff in R. unfold find_path. rewrite R. reflexivity.
Qed.

Lemma find_path_abs_ok : forall tree s p n,
  relative p = false -> find_path tree false s p = Some n -> False.
Proof.
  intros tree s [|c p] n R H; [discriminate|].
  unfold relative in R. apply negb_false_iff in R. unfold find_path in H. rewrite R in H. discriminate.
Qed.

Lemma mapm_ok : forall {A B} (f : A -> outcome B) l r, mapm f l = Ok r -> Forall2 (fun a b => f a = Ok b) l r.
Proof.
  induction l as [|a l IH]; intros r H; simpl in H.
  - inversion H. constructor.
  - destruct (f a) eqn:Fa; try discriminate. simpl in H.
    destruct (mapm f l) eqn:M; try discriminate. simpl in H. inversion H; subst.
    constructor; [exact Fa|apply IH; reflexivity].
Qed.

(** * The compiled type is the effective type (outside the listed regions) *)
Section Correct.
Variable E : env.

Definition correct_at (r : rt) : Prop :=
  forall in_td cm cs top t,
    wf_rt r = true -> pat_region r = false -> multibase_region r = false -> td_leafref in_td r = false ->
    (in_td = false -> cm = cs /\ snd cm = true) -> (top = true -> in_td = false) ->
    compile_rt E r cm = Ok t ->
    effective E top r cs = Some (project (e_mods E) top t).

Lemma members_correct : forall ms in_td cm cs ts,
  Forall correct_at ms ->
  forallb wf_rt ms = true -> existsb pat_region ms = false -> existsb multibase_region ms = false ->
  existsb (td_leafref in_td) ms = false ->
  (in_td = false -> cm = cs /\ snd cm = true) ->
  Forall2 (fun m t => compile_rt E m cm = Ok t) ms ts ->
  mapo (fun m => effective E false m cs) ms = Some (map (project (e_mods E) false) ts).
Proof.
  induction ms as [|m ms IH]; intros in_td cm cs ts HF Hw Hp Hm Ht Hc H2.
  - inversion H2. reflexivity.
  - inversion H2 as [|? t ? ts' Hm1 Hrest]; subst. inversion HF as [|? ? Pm Pms]; subst.
    cbn [forallb] in Hw. apply andb_true_iff in Hw. destruct Hw as [W1 W2].
    cbn [existsb] in Hp, Hm, Ht.
    apply orb_false_iff in Hp. destruct Hp as [P1 P2].
    apply orb_false_iff in Hm. destruct Hm as [M1 M2].
    apply orb_false_iff in Ht. destruct Ht as [T1 T2].
    cbn [mapo map].
    rewrite (Pm in_td cm cs false t W1 P1 M1 T1 Hc (fun X => False_ind _ (diff_false_true X)) Hm1).
    rewrite (IH in_td cm cs ts' Pms W2 P2 M2 T2 Hc Hrest). reflexivity.
Qed.

Lemma correct_all : forall r, correct_at r.
Proof.
  apply rt_ind'. intros lv fm b mib ms IHms.
  intros in_td cm cs top t Hw Hp Hm Ht Hc Htop H.
  rewrite wf_rt_unfold in Hw. repeat (apply andb_true_iff in Hw; destruct Hw as [Hw ?]).
  rename H0 into Wms, H1 into Wneg, H2 into Wbits, H3 into Wen, H4 into Wlt, H5 into Wgt, H6 into Wb.
  rewrite pat_region_unfold in Hp. apply orb_false_iff in Hp. destruct Hp as [P1 P2].
  rewrite multibase_unfold in Hm. apply orb_false_iff in Hm. destruct Hm as [M1 M2].
  rewrite td_leafref_unfold in Ht. apply orb_false_iff in Ht. destruct Ht as [T1 T2].
  rewrite compile_rt_unfold in H.
  destruct (mapm (fun m => compile_rt E m (base_ctx lv cm)) ms) as [ts| | |] eqn:Hms; try discriminate.
  cbn [bind] in H. apply mapm_ok in Hms.
  assert (Hfm : fmt_single fm = fm).
  { unfold fmt_single, list_flag in *. apply Z.ltb_lt in Wgt. apply Z.ltb_lt in Wlt. apply Z.mod_small. lia. }
  (* members *)
  assert (Mem : mapo (fun m => effective E false m cs) ms = Some (map (project (e_mods E) false) ts)).
  { apply (members_correct ms (in_td || negb (is_nil lv)) (base_ctx lv cm) cs ts IHms Wms P2 M2 T2); [|exact Hms].
    intro X. apply orb_false_iff in X. destruct X as [X1 X2]. apply negb_false_iff in X2.
    apply is_nil_true in X2. subst lv. cbn [base_ctx]. apply Hc. exact X1. }
  destruct (chain_ok E lv fm b mib ts cm t Hw Wb H)
    as (CF & CR & CL & CP & Cfd & Cpa & Cba & Cid & Cms & Cun & Ctg & Cen & Cbi).
  cbn [effective]. rewrite effective_members_unfold, Mem.
  (* leafref target *)
  assert (Tg : (if fm =? FmtLeafRef then
                  match find_path (e_tree E) true (ctx_self cs) (t_path b) with
                  | Some (TLeaf tl tp y0) =>
                      match base_format (chain_fuel (e_mods E) tp) (e_mods E) tp (t_ident y0) with
                      | Some f => Some (Some (if tl then fmt_list f else f))
                      | None => None
                      end
                  | _ => None
                  end
                else Some None) = Some (t_target t)).
  { unfold target_of in Ctg. rewrite Hfm in Ctg. destruct (fm =? FmtLeafRef) eqn:F13; [|exact Ctg].
    destruct in_td.
    - cbn [orb andb] in T1.
      destruct (t_path b) as [|ch p] eqn:Pb.
      + unfold find_path in Ctg. discriminate.
      + assert (Rel : relative (ch :: p) = false) by exact T1.
        destruct (snd cm || Nat.eqb (outer_mi lv mib) 0) eqn:Ok1.
        * rewrite (find_path_abs (e_tree E) true (ctx_self cs) (ctx_self cm) (ch :: p) Rel) by discriminate.
          exact Ctg.
        * destruct (find_path (e_tree E) false (ctx_self cm) (ch :: p)) eqn:FP; [|discriminate].
          exfalso. exact (find_path_abs_ok _ _ _ _ Rel FP).
    - destruct (Hc eq_refl) as [Ceq Csnd]. subst cs. rewrite Csnd in Ctg. exact Ctg. }
  rewrite Tg.
  (* identityref *)
  assert (Ids : (if fm =? FmtIdentityRef then resolve_idents (e_mods E) mib (t_bases b) else Some []) = Some (t_idents t)).
  { destruct (fm =? FmtIdentityRef); [exact Cid|rewrite Cid; reflexivity]. }
  rewrite Ids.
  assert (Acc : accepted_union (e_mods E) (t_idents t) = accepted_inter (e_mods E) (t_idents t)).
  { apply accepted_single. destruct (fm =? FmtIdentityRef) eqn:F7.
    - rewrite (resolve_idents_length _ _ _ _ Cid). exact M1.
    - rewrite Cid. reflexivity. }
  rewrite Hfm in Cun.
  assert (Nil : is_nil ts = is_nil ms) by (inversion Hms; reflexivity).
  rewrite Nil in Cun.
  assert (U1 : (fm =? FmtUnion) && is_nil ms = false).
  { rewrite Cun. destruct (is_nil ms); reflexivity. }
  assert (U2 : negb (fm =? FmtUnion) && negb (is_nil ms) = false).
  { rewrite Cun. destruct (is_nil ms); reflexivity. }
  rewrite U1, U2. f_equal. rewrite project_unfold.
  assert (Fs : fmt_single (t_format t) = fm).
  { rewrite CF. destruct (ctx_list cm); [rewrite fmt_single_list|]; exact Hfm. }
  rewrite Fs, CR, CL, CP, Cfd, Cms, Acc.
  assert (Pats : first_nonnil (map t_patterns (stmts lv b)) = flat_map t_patterns (stmts lv b)).
  { rewrite count_pattern_levels_map in P1. rewrite (first_nonnil_flat _ P1).
    clear. induction (stmts lv b) as [|y ss IH]; [reflexivity|]. simpl. rewrite IH. reflexivity. }
  rewrite Pats.
  assert (Fmt : (if top then t_format t else fm) =
                (if top then if ctx_list cs then fmt_list fm else fm else fm)).
  { destruct top; [|reflexivity]. destruct (Hc (Htop eq_refl)) as [Ceq _]. subst cs. exact CF. }
  rewrite Fmt.
  assert (En : (if fm =? FmtEnum then values_of (t_enums t) else []) =
               (if fm =? FmtEnum then eff_values t_enums lv b else [])).
  { destruct (fm =? FmtEnum) eqn:F6; [|reflexivity]. apply Z.eqb_eq in F6.
    rewrite <- Hfm in F6. exact (proj2 (Cen F6 Wen)). }
  assert (Bi : (if fm =? FmtBits then values_of (t_bits t) else []) =
               (if fm =? FmtBits then eff_values t_bits lv b else [])).
  { destruct (fm =? FmtBits) eqn:F2; [|reflexivity]. apply Z.eqb_eq in F2.
    rewrite <- Hfm in F2. exact (proj2 (Cbi F2 Wbits)). }
  rewrite En, Bi. reflexivity.
Qed.
End Correct.

(** * Leaves, and the copies of a grouping leaf *)
Lemma compile_levels_format : forall E lv fm b mib ms c t,
  compile_levels E lv fm b mib ms c = Ok t -> ctx_list c = true -> fmt_list (t_format t) = t_format t.
Proof.
  intros E lv fm b mib ms c t H L. destruct lv as [|[[[[y mi] d] u] s] lv]; cbn [compile_levels] in H.
  - apply post_ok in H. destruct H as (_ & F & _). rewrite F, L. apply fmt_list_idem.
  - destruct (compile_levels E lv fm b mib ms (s, false, false)); try discriminate. cbn [bind] in H.
    apply post_ok in H. destruct H as (_ & F & _). rewrite F, L. apply fmt_list_idem.
Qed.

Lemma add_list_fixed : forall b t, (b = true -> fmt_list (t_format t) = t_format t) -> add_list b t = t.
Proof.
  intros [] [a f c d e g h i j k l m n] H; [|reflexivity].
  unfold add_list. acc. rewrite (H eq_refl). reflexivity.
Qed.

Lemma compile_leaf_list : forall fuel E l t i,
  compile_leaf fuel E l = Ok (t, i) -> add_list (lf_list l) t = t.
Proof.
  intros fuel E l t i H. unfold compile_leaf in H.
  destruct (resolve fuel (e_mods E) (lf_pos l) (lf_type l)) as [r| | |]; try discriminate. cbn [bind] in H.
  destruct (rt_negative r); [discriminate|].
  destruct (compile_rt E r (Some (lf_self l), lf_list l, true)) as [t'| | |] eqn:C; try discriminate.
  cbn [bind] in H. inversion H; subst t' i. apply add_list_fixed. intro L.
  destruct r as [lv fm b mib ms]. rewrite compile_rt_unfold in C.
  destruct (mapm (fun m => compile_rt E m (base_ctx lv (Some (lf_self l), lf_list l, true))) ms); try discriminate.
  cbn [bind] in C. eapply compile_levels_format; [exact C|exact L].
Qed.

(** every copy of a grouping leaf gets the same type, default and units (repaired code) *)
Lemma use_invariant : forall fuel E l n rs,
  compile_uses true fuel E l n = Ok rs -> forall x y, In x rs -> In y rs -> x = y.
Proof.
  intros fuel E l n rs H. unfold compile_uses in H.
  destruct (compile_leaf fuel E l) as [[t i]| | |] eqn:C; try discriminate. cbn [bind] in H.
  unfold early_return in H. cbn [fst snd] in H. rewrite (compile_leaf_list _ _ _ _ _ C) in H.
  inversion H; subst rs; clear H.
  assert (A : forall x, In x ((t, fst (apply_inherit l i), snd (apply_inherit l i))
                              :: repeat (t, fst (apply_inherit l i), snd (apply_inherit l i)) (n - 1)) ->
                        x = (t, fst (apply_inherit l i), snd (apply_inherit l i))).
  { intros x [X|X]; [symmetry; exact X|]. apply repeat_spec in X. exact X. }
  intros x y Hx Hy. rewrite (A x Hx), (A y Hy). reflexivity.
Qed.

Lemma uses_count : forall fx fuel E l n rs, compile_uses fx fuel E l n = Ok rs -> List.length rs = S (n - 1).
Proof.
  intros fx fuel E l n rs H. unfold compile_uses in H.
  destruct (compile_leaf fuel E l) as [[t i]| | |]; try discriminate. cbn [bind] in H.
  inversion H. cbn [List.length]. rewrite repeat_length. reflexivity.
Qed.

(** a default / units statement on the leaf itself is what every copy ends with *)
Lemma explicit_default_wins : forall fx fuel E l n rs d,
  compile_uses fx fuel E l n = Ok rs -> lf_default l = Some d ->
  Forall (fun r => snd (fst r) = Some d) rs.
Proof.
  intros fx fuel E l n rs d H D. unfold compile_uses in H.
  destruct (compile_leaf fuel E l) as [[t i]| | |]; try discriminate. cbn [bind] in H.
  inversion H; subst rs; clear H. unfold apply_inherit. rewrite D. cbn [fst snd].
  constructor; [reflexivity|]. apply Forall_forall. intros x X. apply repeat_spec in X. subst x. reflexivity.
Qed.

Lemma explicit_units_win : forall fx fuel E l n rs,
  compile_uses fx fuel E l n = Ok rs -> lf_units l <> [] ->
  Forall (fun r => snd r = lf_units l) rs.
Proof.
  intros fx fuel E l n rs H U. unfold compile_uses in H.
  destruct (compile_leaf fuel E l) as [[t i]| | |]; try discriminate. cbn [bind] in H.
  inversion H; subst rs; clear H. unfold apply_inherit.
  destruct (lf_units l) eqn:Eu; [congruence|]. cbn [is_nil fst snd].
  constructor; [reflexivity|]. apply Forall_forall. intros x X. apply repeat_spec in X. subst x. reflexivity.
Qed.

(** the compiled leaf is the RFC's effective leaf, for every use, outside the listed regions *)
Theorem leaf_correct : forall fuel E l r n rs,
  resolve fuel (e_mods E) (lf_pos l) (lf_type l) = Ok r -> wf_rt r = true ->
  pat_region r = false -> multibase_region r = false -> tdrel_region r = false ->
  compile_uses true fuel E l n = Ok rs ->
  Forall (fun x => effective_leaf E l r = Some (project_leaf (e_mods E) x)) rs.
Proof.
  intros fuel E l r n rs R W P M T H.
  assert (First : exists t i, compile_leaf fuel E l = Ok (t, i)
                  /\ effective_leaf E l r = Some (project_leaf (e_mods E) (t, fst (apply_inherit l i), snd (apply_inherit l i)))
                  /\ In (t, fst (apply_inherit l i), snd (apply_inherit l i)) rs).
  { unfold compile_uses in H. destruct (compile_leaf fuel E l) as [[t i]| | |] eqn:C; try discriminate.
    cbn [bind] in H. exists t, i. split; [reflexivity|]. split.
    - unfold compile_leaf in C. rewrite R in C. cbn [bind] in C.
      destruct (rt_negative r); [discriminate|].
      destruct (compile_rt E r (Some (lf_self l), lf_list l, true)) as [t'| | |] eqn:CR; try discriminate.
      cbn [bind] in C. inversion C; subst t' i; clear C.
      unfold effective_leaf.
      rewrite (correct_all E r false (Some (lf_self l), lf_list l, true) (Some (lf_self l), lf_list l, true)
                 true t W P M T (fun _ => conj eq_refl eq_refl) (fun _ => eq_refl) CR).
      unfold project_leaf, eff_default, eff_units, apply_inherit. rewrite inherited_spec. cbn [fst snd].
      reflexivity.
    - inversion H. left. reflexivity. }
  destruct First as (t & i & C & Eq & In1).
  apply Forall_forall. intros x Hx.
  rewrite (use_invariant fuel E l n rs H x _ Hx In1). exact Eq.
Qed.

Lemma type_correct : forall E r c t,
  wf_rt r = true -> pat_region r = false -> multibase_region r = false -> tdrel_region r = false ->
  snd c = true -> compile_rt E r c = Ok t ->
  effective E true r c = Some (project (e_mods E) true t).
Proof.
  intros E r c t W P M T S H.
  exact (correct_all E r false c c true t W P M T (fun _ => conj eq_refl S) (fun _ => eq_refl) H).
Qed.
