(** Proofs about the identity lookup (Typed/FindId.v): the depth-first search of FindIdentity finds a
    name exactly when an identity of that name is among the candidates or below one of them, for
    every hierarchy (any branching, any depth); for an identityref with one base this is RFC 7950
    9.10.2 ("derived from the base") except for the name of the base itself. *)
From Coq Require Import ZArith List Bool Strings.Byte Lia.
From YV Require Import Typed.Model Typed.Spec Typed.Proofs Typed.FindId.
Import ListNotations.

Lemma find_unfold : forall f mods cands t,
  find_identity (S f) mods cands t = find_loop f mods t cands.
Proof.
  intros f mods cands t. cbn [find_identity].
  induction cands as [|c tl IH]; [reflexivity|].
  cbn [find_loop]. rewrite <- IH. reflexivity.
Qed.

Lemma text_eqb_eq : forall a b, text_eqb a b = true <-> a = b.
Proof.
  induction a as [|x a IH]; destruct b as [|y b]; cbn; split; intro H; try reflexivity; try discriminate.
  - apply andb_true_iff in H. destruct H as [H1 H2]. apply Byte.byte_dec_bl in H1. apply IH in H2. subst. reflexivity.
  - inversion H; subst. apply andb_true_iff. split; [apply Byte.byte_dec_lb; reflexivity | apply IH; reflexivity].
Qed.

Lemma descendants_S : forall f mods i,
  descendants (S f) mods i = closure f mods (direct_derived mods i).
Proof. reflexivity. Qed.
Lemma descendants_0 : forall mods i, descendants 0 mods i = [].
Proof. reflexivity. Qed.
Lemma closure_cons : forall f mods c tl,
  closure f mods (c :: tl) = c :: descendants f mods c ++ closure f mods tl.
Proof. reflexivity. Qed.
Local Opaque descendants.

(** what one call establishes about the part of the hierarchy it looks at *)
Definition find_post (f : nat) (mods : list modl) (cands : list iid) (t : text) (r : found) : Prop :=
  match r with
  | Found j => In j (closure f mods cands) /\ snd j = t
  | NotFound => forall j, In j (closure f mods cands) -> snd j <> t
  | FuelOut => True
  end.

Lemma find_zero : forall mods cands t, find_post 0 mods cands t (find_identity 0 mods cands t)
  /\ (find_identity 0 mods cands t = NotFound -> cands = []).
Proof.
  intros mods [|c tl] t; cbn; split; auto; try discriminate.
Qed.

Lemma find_sound_complete : forall f mods cands t,
  find_post f mods cands t (find_identity (S f) mods cands t).
Proof.
  induction f as [|f IH]; intros mods cands t; rewrite find_unfold.
  - (* the sub-call has no fuel: it answers only for identities nobody derives from *)
    induction cands as [|c tl IHl]; cbn [find_loop].
    + cbn. intros j [].
    + destruct (text_eqb (snd c) t) eqn:E.
      * cbn. split; [left; reflexivity | apply text_eqb_eq; exact E].
      * destruct (find_identity 0 mods (direct_derived mods c) t) eqn:F.
        -- destruct (direct_derived mods c); cbn in F; discriminate.
        -- destruct (find_loop 0 mods t tl) eqn:L; cbn in IHl |- *.
           ++ destruct IHl as [I N]. split; [right; exact I | exact N].
           ++ intros j [J|J]; [subst j; intro X; apply text_eqb_eq in X; congruence | apply IHl; exact J].
           ++ exact I.
        -- exact I.
  - induction cands as [|c tl IHl]; cbn [find_loop].
    + cbn. intros j [].
    + destruct (text_eqb (snd c) t) eqn:E.
      * cbn. split; [left; reflexivity | apply text_eqb_eq; exact E].
      * specialize (IH mods (direct_derived mods c) t).
        destruct (find_identity (S f) mods (direct_derived mods c) t) eqn:F.
        -- cbn in IH |- *. destruct IH as [I N]. split; [|exact N].
           right. apply in_or_app. left. rewrite descendants_S. exact I.
        -- destruct (find_loop (S f) mods t tl) eqn:L; cbn in IHl, IH |- *.
           ++ destruct IHl as [I N]. split; [|exact N]. right. apply in_or_app. right. exact I.
           ++ intros j [J|J].
              ** subst j. intro X. apply text_eqb_eq in X. congruence.
              ** apply in_app_or in J. destruct J as [J|J].
                 --- rewrite descendants_S in J. apply IH. exact J.
                 --- apply IHl. exact J.
           ++ exact I.
        -- exact I.
Qed.

(** the three outcomes, read as one equivalence *)
Lemma find_iff : forall f mods cands t,
  find_identity (S f) mods cands t <> FuelOut ->
  ((exists j, find_identity (S f) mods cands t = Found j) <->
   (exists j, In j (closure f mods cands) /\ snd j = t)).
Proof.
  intros f mods cands t NF. pose proof (find_sound_complete f mods cands t) as P.
  destruct (find_identity (S f) mods cands t) eqn:F; cbn in P.
  - split; intros _; [exists j; exact P | exists j; reflexivity].
  - split; intros [j H]; [discriminate | destruct H as [I N]; exfalso; exact (P j I N)].
  - congruence.
Qed.

(** ** Fuel: a hierarchy without cycles never runs out.  [rank] is any measure that decreases along
    derivation (for instance the length of the longest chain below an identity). *)
Lemma find_fuel_enough : forall (rank : iid -> nat) mods t,
  (forall i j, In j (direct_derived mods i) -> (rank j < rank i)%nat) ->
  forall f cands, (forall c, In c cands -> (rank c < f)%nat) ->
  find_identity f mods cands t <> FuelOut.
Proof.
  intros rank mods t R. induction f as [|f IH]; intros cands B.
  - destruct cands as [|c tl]; cbn; [discriminate|]. exfalso. specialize (B c (or_introl eq_refl)). lia.
  - rewrite find_unfold. induction cands as [|c tl IHl]; cbn [find_loop]; [discriminate|].
    destruct (text_eqb (snd c) t); [discriminate|].
    assert (S : find_identity f mods (direct_derived mods c) t <> FuelOut).
    { apply IH. intros d D. specialize (R c d D). specialize (B c (or_introl eq_refl)). lia. }
    destruct (find_identity f mods (direct_derived mods c) t); try discriminate; try congruence.
    apply IHl. intros c' I. apply B. right. exact I.
Qed.

(** ** Against the RFC: membership in the sets the specification uses *)
Lemma iid_eqb_eq : forall a b, iid_eqb a b = true <-> a = b.
Proof.
  intros [m a] [n b]. unfold iid_eqb. cbn. rewrite andb_true_iff, Nat.eqb_eq, text_eqb_eq.
  split; [intros [-> ->]; reflexivity | intro H; inversion H; auto].
Qed.

Lemma mem_iid_in : forall a l, mem_iid a l = true <-> In a l.
Proof.
  intros a l. unfold mem_iid. rewrite existsb_exists. split.
  - intros [x [I E]]. apply iid_eqb_eq in E. subst. exact I.
  - intro I. exists a. split; [exact I | apply iid_eqb_eq; reflexivity].
Qed.

Lemma dedup_in : forall l a, In a (dedup l) <-> In a l.
Proof.
  induction l as [|x tl IH]; intro a; cbn; [tauto|].
  destruct (mem_iid x tl) eqn:M.
  - rewrite IH. split; [auto|]. intros [->|I]; [apply mem_iid_in; exact M | exact I].
  - cbn. rewrite IH. tauto.
Qed.

Lemma accepted_union_in : forall mods ids j,
  In j (accepted_union mods ids) <-> In j (flat_map (descendants (ident_fuel mods) mods) ids).
Proof. intros. unfold accepted_union. apply dedup_in. Qed.

Lemma closure_in : forall f mods cands j,
  In j (closure f mods cands) <-> In j cands \/ In j (flat_map (descendants f mods) cands).
Proof.
  intros f mods cands j. unfold closure. induction cands as [|c tl IH]; cbn; [tauto|].
  rewrite !in_app_iff, IH. tauto.
Qed.

(** the lookup over the bases of a type, as the implementation runs it: found exactly for the names
    of the bases and of everything below them (the union over the bases) *)
Lemma lookup_union : forall mods ids t,
  find_identity (find_fuel mods) mods ids t <> FuelOut ->
  ((exists j, find_identity (find_fuel mods) mods ids t = Found j) <->
   (exists j, (In j ids \/ In j (accepted_union mods ids)) /\ snd j = t)).
Proof.
  intros mods ids t NF. unfold find_fuel in *. rewrite (find_iff _ _ _ _ NF).
  split; intros [j [I N]]; exists j; (split; [|exact N]).
  - apply closure_in in I. destruct I as [I|I]; [left; exact I | right; apply accepted_union_in; exact I].
  - apply closure_in. destruct I as [I|I]; [left; exact I | right; apply accepted_union_in; exact I].
Qed.

Lemma found_named : forall mods ids t j,
  find_identity (find_fuel mods) mods ids t = Found j ->
  (In j ids \/ In j (accepted_union mods ids)) /\ snd j = t.
Proof.
  intros mods ids t j F. unfold find_fuel in F.
  pose proof (find_sound_complete (ident_fuel mods) mods ids t) as P. rewrite F in P. cbn in P.
  destruct P as [I N]. split; [|exact N].
  apply closure_in in I. destruct I as [I|I]; [left; exact I | right; apply accepted_union_in; exact I].
Qed.

(** one base [b], a name other than the base's own: accepted exactly when RFC 7950 9.10.2 says so *)
Lemma lookup_single_rfc : forall mods b t,
  find_identity (find_fuel mods) mods [b] t <> FuelOut -> snd b <> t ->
  ((exists j, find_identity (find_fuel mods) mods [b] t = Found j) <->
   (exists j, In j (accepted_inter mods [b]) /\ snd j = t)).
Proof.
  intros mods b t NF NB. rewrite (lookup_union _ _ _ NF).
  rewrite <- (accepted_single mods [b]) by reflexivity.
  split; intros [j [I N]]; exists j; (split; [|exact N]).
  - destruct I as [[I|[]]|I]; [subst j; congruence | exact I].
  - right. exact I.
Qed.

(** and the identity handed back is one the RFC accepts, whatever the shape of the hierarchy *)
Lemma found_single_rfc : forall mods b t j,
  find_identity (find_fuel mods) mods [b] t = Found j -> snd b <> t ->
  In j (accepted_inter mods [b]) /\ snd j = t.
Proof.
  intros mods b t j F NB. destruct (found_named _ _ _ _ F) as [I N]. split; [|exact N].
  rewrite <- (accepted_single mods [b]) by reflexivity.
  destruct I as [[I|[]]|I]; [subst j; congruence | exact I].
Qed.

(** ** node.NewValue (toIdentRef after repair 873d214): the search starts below each base *)
Lemma value_loop_post : forall f mods x bases,
  match value_loop (S f) mods x bases with
  | Found j => In j (flat_map (descendants (S f) mods) bases) /\ snd j = x
  | NotFound => forall j, In j (flat_map (descendants (S f) mods) bases) -> snd j <> x
  | FuelOut => True
  end.
Proof.
  intros f mods x. induction bases as [|b tl IH]; cbn [value_loop flat_map].
  - intros j [].
  - pose proof (find_sound_complete f mods (direct_derived mods b) x) as P. unfold find_post in P.
    rewrite <- descendants_S in P.
    destruct (find_identity (S f) mods (direct_derived mods b) x) eqn:F.
    + destruct P as [I N]. split; [apply in_or_app; left; exact I | exact N].
    + destruct (value_loop (S f) mods x tl) eqn:L.
      * destruct IH as [I N]. split; [apply in_or_app; right; exact I | exact N].
      * intros j J. apply in_app_or in J. destruct J as [J|J]; [apply P; exact J | apply IH; exact J].
      * exact I.
    + exact I.
Qed.

Lemma ident_fuel_S : forall mods, ident_fuel mods = S (List.length (all_idents mods)).
Proof. reflexivity. Qed.

(** a text is accepted exactly when it names an identity below one of the bases (the bases
    themselves excluded); with several bases this is the union (finding k=2) *)
Lemma value_union : forall mods ids v,
  ident_value (value_fuel mods) mods ids v <> None ->
  ((exists lab, ident_value (value_fuel mods) mods ids v = Some (Some lab)) <->
   (exists j, In j (accepted_union mods ids) /\ snd j = value_local v)).
Proof.
  intros mods ids v NF. unfold ident_value, value_fuel in *.
  pose proof (value_loop_post (List.length (all_idents mods)) mods (value_local v) ids) as P.
  rewrite <- ident_fuel_S in P.
  destruct (value_loop (ident_fuel mods) mods (value_local v) ids) eqn:L.
  - destruct P as [I N]. split; intros _.
    + exists j. split; [apply accepted_union_in; exact I | exact N].
    + eexists. reflexivity.
  - split; intros [j H]; [discriminate|]. destruct H as [I N]. exfalso.
    apply accepted_union_in in I. exact (P j I N).
  - congruence.
Qed.

(** one base: exactly the identities RFC 7950 9.10.2 admits, the name of the base included in the
    statement (it is rejected unless an identity below the base carries it) *)
Lemma value_single_rfc : forall mods b v,
  ident_value (value_fuel mods) mods [b] v <> None ->
  ((exists lab, ident_value (value_fuel mods) mods [b] v = Some (Some lab)) <->
   (exists j, In j (accepted_inter mods [b]) /\ snd j = value_local v)).
Proof.
  intros mods b v NF. rewrite (value_union _ _ _ NF).
  rewrite (accepted_single mods [b]) by reflexivity. tauto.
Qed.

(** the label is the local part of the text given and names an identity below a base *)
Lemma ident_value_label : forall mods ids v lab,
  ident_value (value_fuel mods) mods ids v = Some (Some lab) ->
  lab = value_local v /\ exists j, In j (accepted_union mods ids) /\ snd j = lab.
Proof.
  intros mods ids v lab H. unfold ident_value, value_fuel in H.
  pose proof (value_loop_post (List.length (all_idents mods)) mods (value_local v) ids) as P.
  rewrite <- ident_fuel_S in P.
  destruct (value_loop (ident_fuel mods) mods (value_local v) ids) eqn:L; try discriminate.
  inversion H; subst. destruct P as [I N]. split; [exact N|].
  exists j. split; [apply accepted_union_in; exact I | reflexivity].
Qed.

(** a value is never out of fuel on a hierarchy without cycles *)
Lemma value_fuel_enough : forall (rank : iid -> nat) mods x,
  (forall i j, In j (direct_derived mods i) -> (rank j < rank i)%nat) ->
  forall f bases, (forall b, In b bases -> (rank b <= f)%nat) ->
  value_loop f mods x bases <> FuelOut.
Proof.
  intros rank mods x R f. induction bases as [|b tl IH]; intro B; cbn [value_loop]; [discriminate|].
  assert (S : find_identity f mods (direct_derived mods b) x <> FuelOut).
  { apply (find_fuel_enough rank mods x R). intros c C. specialize (R b c C).
    specialize (B b (or_introl eq_refl)). lia. }
  destruct (find_identity f mods (direct_derived mods b) x); try discriminate; try congruence.
  apply IH. intros b' I. apply B. right. exact I.
Qed.
