(** Witnesses for the identity lookup: a hierarchy that branches and is two levels deep, the name
    of the base itself (rejected as a value since repair 873d214), the hypotheses of the lookup theorems are met. *)
From Coq Require Import ZArith List Bool Strings.Byte Strings.String Lia.
From YV Require Import Base.Verdict Typed.Model Typed.Spec Typed.Proofs Typed.FindId Typed.FindIdProofs
  Typed.Examples Check.C02Check.
Import ListNotations.
Open Scope string_scope.

(** identity transport; tcp {base transport} udp {base transport} tls {base tcp} dtls {base udp} other;
    leaf x { type identityref { base transport; } } *)
Definition ids_tr : list (text * list text) :=
  [(T "transport", []); (T "tcp", [T "transport"]); (T "udp", [T "transport"]);
   (T "tls", [T "tcp"]); (T "dtls", [T "udp"]); (T "other", [])].
Definition mods_tr := one_mod [] ids_tr.
Definition E_tr := mkEnv mods_tr tree0.
Definition l_tr := leaf_x (st_bases "identityref" [T "transport"]).
Definition i_tr (s : string) : iid := (0%nat, T s).

(** the probes the model answers with, for a list of texts *)
Definition model_probes (E : env) (l : leaf) (texts : list text) : list (text * pobs) :=
  match model_bases E l with
  | Some ids => map (fun x => (x, match model_probe (e_mods E) ids x with Some p => p | None => PPanic end)) texts
  | None => []
  end.
Definition find_meets_spec (E : env) (l : leaf) (texts : list text) : bool :=
  spec_find E l (model_probes E l texts).

Lemma lookup_tr :
  find_identity (find_fuel mods_tr) mods_tr [i_tr "transport"] (T "dtls") = Found (i_tr "dtls")
  /\ find_identity (find_fuel mods_tr) mods_tr [i_tr "transport"] (T "udp") = Found (i_tr "udp")
  /\ find_identity (find_fuel mods_tr) mods_tr [i_tr "transport"] (T "tls") = Found (i_tr "tls")
  /\ find_identity (find_fuel mods_tr) mods_tr [i_tr "transport"] (T "other") = NotFound
  /\ find_identity (find_fuel mods_tr) mods_tr [i_tr "tcp"] (T "dtls") = NotFound
  /\ ident_value (value_fuel mods_tr) mods_tr [i_tr "transport"] (T "m:dtls") = Some (Some (T "dtls")).
Proof. repeat split; vm_compute; reflexivity. Qed.

(** every hypothesis of the lookup theorems is met by this hierarchy, and the model's answers for
    all its identity names (qualified or not) and an unknown name pass the oracle of the check *)
Lemma lookup_hyps_met :
  find_identity (find_fuel mods_tr) mods_tr [i_tr "transport"] (T "dtls") <> FuelOut
  /\ snd (i_tr "transport") <> T "dtls"
  /\ In (i_tr "dtls") (accepted_inter mods_tr [i_tr "transport"])
  /\ model_bases E_tr l_tr = Some [i_tr "transport"]
  /\ corr_find E_tr l_tr (model_probes E_tr l_tr [T "tcp"; T "udp"; T "tls"; T "m:dtls"; T "other"; T "nosuch"]) = true
  /\ find_meets_spec E_tr l_tr [T "tcp"; T "udp"; T "tls"; T "m:dtls"; T "other"; T "nosuch"] = true
  /\ known_find E_tr l_tr (model_probes E_tr l_tr [T "tcp"; T "udp"; T "tls"; T "m:dtls"; T "other"; T "nosuch"]) = None.
Proof.
  split; [vm_compute; discriminate|]. split; [vm_compute; discriminate|].
  split; [vm_compute; tauto|]. repeat split; vm_compute; reflexivity.
Qed.

(** a measure that decreases along derivation exists for it, so the lookup cannot run out of fuel *)
Definition rank_tr (i : iid) : nat :=
  if iid_eqb i (i_tr "transport") then 2
  else if iid_eqb i (i_tr "tcp") || iid_eqb i (i_tr "udp") then 1 else 0.

Lemma rank_tr_decreases : forall i j, In j (direct_derived mods_tr i) -> (rank_tr j < rank_tr i)%nat.
Proof.
  intros i j H. unfold rank_tr.
  unfold direct_derived in H. cbn in H.
  let a := eval vm_compute in (i_tr "transport") in change (i_tr "transport") with a in *.
  let a := eval vm_compute in (i_tr "tcp") in change (i_tr "tcp") with a in *.
  let a := eval vm_compute in (i_tr "udp") in change (i_tr "udp") with a in *.
  match goal with |- context [iid_eqb i ?a] => destruct (iid_eqb i a) eqn:E1 end;
  match goal with |- context [iid_eqb i ?a] => destruct (iid_eqb i a) eqn:E2 | _ => idtac end;
  match goal with |- context [iid_eqb i ?a] => destruct (iid_eqb i a) eqn:E3 | _ => idtac end;
  cbn in H;
  repeat match goal with
         | H : context [iid_eqb i ?a] |- _ => destruct (iid_eqb i a); cbn in H
         end;
  repeat match goal with
         | H : _ \/ _ |- _ => destruct H as [H|H]
         | H : False |- _ => destruct H
         | H : _ = j |- _ => subst j
         end; vm_compute; lia.
Qed.

Lemma rank_tr_bound : forall c, In c [i_tr "transport"] -> (rank_tr c < find_fuel mods_tr)%nat.
Proof. intros c [<-|[]]. vm_compute. lia. Qed.

(** the name of the base itself: the helper FindIdentity, handed the bases as candidates, answers
    with the base (its contract); node.NewValue rejects it as RFC 7950 9.10.2 requires, and did not
    before repair 873d214 *)
Lemma base_itself_rejected :
  find_identity (find_fuel mods_tr) mods_tr [i_tr "transport"] (T "transport") = Found (i_tr "transport")
  /\ ~ In (i_tr "transport") (accepted_inter mods_tr [i_tr "transport"])
  /\ ident_value (value_fuel mods_tr) mods_tr [i_tr "transport"] (T "transport") = Some None
  /\ ident_value_old (find_fuel mods_tr) mods_tr [i_tr "transport"] (T "transport") = Some (Some (T "transport"))
  /\ known_find E_tr l_tr (model_probes E_tr l_tr [T "transport"]) = None
  /\ corr_find E_tr l_tr (model_probes E_tr l_tr [T "transport"]) = true
  /\ find_meets_spec E_tr l_tr [T "transport"; T "m:transport"] = true.
Proof.
  split; [vm_compute; reflexivity|]. split.
  - vm_compute. intuition discriminate.
  - repeat split; vm_compute; reflexivity.
Qed.

(** the code before the repair fails the oracle on that text *)
Definition old_probes (E : env) (l : leaf) (texts : list text) : list (text * pobs) :=
  match model_bases E l with
  | Some ids => map (fun x => (x, match find_identity (find_fuel (e_mods E)) (e_mods E) ids x,
                                        ident_value_old (find_fuel (e_mods E)) (e_mods E) ids x with
                                  | Found j, Some v => PObs (Some j) v
                                  | NotFound, Some v => PObs None v
                                  | _, _ => PPanic
                                  end)) texts
  | None => []
  end.
Lemma value_old_refuted :
  spec_find E_tr l_tr (old_probes E_tr l_tr [T "transport"]) = false
  /\ corr_find E_tr l_tr (old_probes E_tr l_tr [T "transport"]) = false
  /\ spec_find E_tr l_tr (old_probes E_tr l_tr [T "tcp"; T "m:dtls"; T "other"]) = true.
Proof. repeat split; vm_compute; reflexivity. Qed.

Lemma accept_full_refuted :
  ~ (forall mods ids t,
       find_identity (find_fuel mods) mods ids t <> FuelOut ->
       ((exists j, find_identity (find_fuel mods) mods ids t = Found j) <->
        (exists j, In j (accepted_inter mods ids) /\ snd j = t))).
Proof.
  intro F. specialize (F mods_tr [i_tr "transport"] (T "transport")).
  assert (NF : find_identity (find_fuel mods_tr) mods_tr [i_tr "transport"] (T "transport") <> FuelOut)
    by (vm_compute; discriminate).
  destruct (F NF) as [A _].
  destruct A as [j [I N]]; [eexists; vm_compute; reflexivity|].
  vm_compute in I.
  repeat match goal with
         | H : _ \/ _ |- _ => destruct H as [H|H]
         | H : False |- _ => destruct H
         | H : _ = j |- _ => subst j
         end; vm_compute in N; discriminate.
Qed.
