(** What RFC 7950 derives for a leaf's type (sections 7.3, 7.4, 9.2.4, 9.4.4-9.4.5, 9.6.4, 9.7.4,
    9.9, 9.10, 9.12), written over the resolved chain of statements [rt] (Typed/Model.v stage 1 is
    only name resolution) and without the bottom-up mixin of the implementation:
    - the built-in is the one the chain ends in, the list flag comes from the leaf;
    - range, length and pattern restrictions are the stack of ALL statements of the chain;
    - enum values / bit positions are assigned on the base statement (stated value kept, otherwise
      one more than the highest so far, 0 for the first); a restricting statement keeps the listed
      names with the base's values;
    - union members are the effective member types; a leafref points at the leaf its path names,
      read from the leaf that uses the type; an identityref accepts the identities derived from
      ALL its bases;
    - default and units: the leaf's own, else of the nearest typedef stating one. *)
From Coq Require Import ZArith List Bool Strings.Byte.
From YV Require Import Typed.Model.
Import ListNotations.
Open Scope Z_scope.

Definition lv_stmt (lv : level) : ty := match lv with (y, _, _, _, _) => y end.
Definition lv_default (lv : level) : option text := match lv with (_, _, d, _, _) => d end.
Definition lv_units (lv : level) : text := match lv with (_, _, _, u, _) => u end.

Definition stmts (levels : list level) (base : ty) : list ty := map lv_stmt levels ++ [base].

(** RFC 9.6.4.2 / 9.7.4.2, from the values already given *)
Definition highest (prev : list Z) : option Z :=
  match prev with [] => None | p :: ps => Some (fold_left Z.max ps p) end.
Fixpoint rfc_values (prev : list Z) (l : list valued) : list (text * Z) :=
  match l with
  | [] => []
  | (n, v) :: tl =>
      let x := match v with
               | Some x => x
               | None => match highest prev with Some h => h + 1 | None => 0 end
               end in
      (n, x) :: rfc_values (x :: prev) tl
  end.

(** a restricting statement: the names it lists, with the values of the type it restricts *)
Definition restrict (cur : list (text * Z)) (stated : list valued) : list (text * Z) :=
  if is_nil stated then cur
  else map (fun nv => (fst nv, match assoc cur (fst nv) with
                               | Some v => v
                               | None => match snd nv with Some v => v | None => -1 end
                               end)) stated.

Definition eff_values (sel : ty -> list valued) (levels : list level) (base : ty) : list (text * Z) :=
  fold_right (fun lv cur => restrict cur (sel (lv_stmt lv))) (rfc_values [] (sel base)) levels.

Fixpoint first_some {A} (l : list (option A)) : option A :=
  match l with [] => None | Some a :: _ => Some a | None :: tl => first_some tl end.
Fixpoint first_nonempty (l : list text) : text :=
  match l with [] => [] | [] :: tl => first_nonempty tl | a :: _ => a end.

(** identities derived from every base; the other direction of the derivation relation than the
    implementation's walk is used on purpose in [derives_from] (Check/C02Check.v compares both) *)
Definition accepted_inter (mods : list modl) (ids : list iid) : list iid :=
  match ids with
  | [] => []
  | i :: others =>
      filter (fun j => forallb (fun b => mem_iid j (descendants (ident_fuel mods) mods b)) others)
             (dedup (descendants (ident_fuel mods) mods i))
  end.

Fixpoint derives_from (fuel : nat) (mods : list modl) (j i : iid) : bool :=
  match fuel with
  | O => false
  | S f =>
      match nth_error mods (fst j) with
      | None => false
      | Some m =>
          match assoc (md_idents m) (snd j) with
          | None => false
          | Some bs =>
              match resolve_idents mods (fst j) bs with
              | None => false
              | Some rs => existsb (fun b => iid_eqb b i || derives_from f mods b i) rs
              end
          end
      end
  end.
Definition accepted_upward (mods : list modl) (ids : list iid) : list iid :=
  if is_nil ids then []
  else filter (fun j => forallb (derives_from (ident_fuel mods) mods j) ids) (map fst (all_idents mods)).

(** the effective type; None: the statement is not a valid type (leafref without a resolvable path,
    union without members, members on a non-union, unknown identity) *)
Fixpoint effective (E : env) (top : bool) (r : rt) (c : ctx) : option otype :=
  match r with
  | RT levels fm base mib ms =>
      let ss := stmts levels base in
      let members :=
        (fix go (l : list rt) : option (list otype) :=
           match l with
           | [] => Some []
           | m :: tl => match effective E false m c, go tl with
                        | Some a, Some r => Some (a :: r)
                        | _, _ => None
                        end
           end) ms in
      let target :=
        if fm =? FmtLeafRef then
          match find_path (e_tree E) true (ctx_self c) (t_path base) with
          | Some (TLeaf tl tp y0) =>
              match base_format (chain_fuel (e_mods E) tp) (e_mods E) tp (t_ident y0) with
              | Some f => Some (Some (if tl then fmt_list f else f))
              | None => None
              end
          | _ => None
          end
        else Some None in
      let ids :=
        if fm =? FmtIdentityRef then resolve_idents (e_mods E) mib (t_bases base) else Some [] in
      match members, target, ids with
      | Some mo, Some tg, Some ids =>
          if (fm =? FmtUnion) && is_nil ms then None
          else if negb (fm =? FmtUnion) && negb (is_nil ms) then None
          else Some (OType (if top then (if ctx_list c then fmt_list fm else fm) else fm)
                           (flat_map t_ranges ss) (flat_map t_lengths ss) (flat_map t_patterns ss)
                           (t_fd base)
                           (if fm =? FmtEnum then eff_values t_enums levels base else [])
                           (if fm =? FmtBits then eff_values t_bits levels base else [])
                           tg ids (accepted_inter (e_mods E) ids) mo)
      | _, _, _ => None
      end
  end.

Definition eff_default (l : leaf) (levels : list level) : option (list text) :=
  match lf_default l with
  | Some d => Some d
  | None => match first_some (map lv_default levels) with Some d => Some [d] | None => None end
  end.
Definition eff_units (l : leaf) (levels : list level) : text :=
  if is_nil (lf_units l) then first_nonempty (map lv_units levels) else lf_units l.

Definition effective_leaf (E : env) (l : leaf) (r : rt) : option oleaf :=
  match effective E true r (Some (lf_self l), lf_list l, true) with
  | Some o => Some (o, eff_default l (rt_levels r), eff_units l (rt_levels r))
  | None => None
  end.

(** ** Well-formed chains (what RFC 7950 allows a module to say) *)
Definition no_negative (l : list valued) : bool := negb (has_negative l).
Definition parsed (y : ty) : bool :=       (* a statement as the parser leaves it *)
  (t_format y =? 0) && is_nil (t_idents y) && match t_target y with None => true | Some _ => false end.

(** a restricting statement names entries of the restricted type and states no other value *)
Definition restrict_ok (cur : list (text * Z)) (stated : list valued) : bool :=
  forallb (fun nv => match assoc cur (fst nv) with
                     | Some x => match snd nv with None => true | Some v => v =? x end
                     | None => false
                     end) stated.
Fixpoint levels_values_ok (sel : ty -> list valued) (levels : list level) (base : ty) : bool :=
  match levels with
  | [] => true
  | lv :: tl => restrict_ok (eff_values sel tl base) (sel (lv_stmt lv)) && levels_values_ok sel tl base
  end.

Definition level_ok (lv : level) : bool :=
  let y := lv_stmt lv in
  parsed y && (t_fd y =? 0) && is_nil (t_path y) && is_nil (t_bases y) && is_nil (t_members y).

Fixpoint wf_rt (r : rt) : bool :=
  match r with
  | RT levels fm base mib ms =>
      forallb level_ok levels && parsed base && (0 <? fm) && (fm <? list_flag)
      && levels_values_ok t_enums levels base && levels_values_ok t_bits levels base
      && negb (rt_negative (RT levels fm base mib []))
      && (fix go (l : list rt) : bool := match l with [] => true | m :: tl => wf_rt m && go tl end) ms
  end.

(** ** Regions where the implementation is known to differ (KNOWN_FINDINGS.txt) *)
(** 1: pattern statements at more than one level of the chain (mixin keeps the outermost only) *)
Definition count_pattern_levels (ss : list ty) : nat :=
  List.length (filter (fun y => negb (is_nil (t_patterns y))) ss).
Fixpoint pat_region (r : rt) : bool :=
  match r with
  | RT levels _ base _ ms =>
      Nat.ltb 1 (count_pattern_levels (stmts levels base))
      || (fix go (l : list rt) : bool := match l with [] => false | m :: tl => pat_region m || go tl end) ms
  end.
(** 2: an identityref with several bases (any of them is enough for the implementation) *)
Fixpoint multibase_region (r : rt) : bool :=
  match r with
  | RT _ _ base _ ms =>
      Nat.ltb 1 (List.length (t_bases base))
      || (fix go (l : list rt) : bool := match l with [] => false | m :: tl => multibase_region m || go tl end) ms
  end.
(** 4: a leafref with a relative path reached through a typedef (the path is also resolved from
    the typedef statement, where it does not lead anywhere) *)
Definition relative (p : text) : bool :=
  match p with c :: _ => negb (Byte.eqb c slash) | [] => false end.
Fixpoint td_leafref (in_td : bool) (r : rt) : bool :=
  match r with
  | RT levels fm base _ ms =>
      let td := in_td || negb (is_nil levels) in
      (td && (fm =? FmtLeafRef) && relative (t_path base))
      || (fix go (l : list rt) : bool := match l with [] => false | m :: tl => td_leafref td m || go tl end) ms
  end.
Definition tdrel_region (r : rt) : bool := td_leafref false r.
