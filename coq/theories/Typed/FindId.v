(** Executable model of how an identityref decides which identities it accepts:
      meta/core.go    FindIdentity (depth-first search through Identity.derived, first hit wins)
      node/value.go   toIdentRef (drops a prefix, FindIdentity over the DerivedDirect() of each identity
                      of Type.Base() (repair 873d214), label = Ident())
    The JSON and XML writers (nodeutil/json_wtr.go, xml_wtr.go, xml_wtr2.go) call FindIdentity the
    same way.  Identity.derived of an identity is [direct_derived] (Typed/Model.v); the order of that
    list in Go depends on the order identities are compiled in, which is why the check only
    generates module sets whose identity names are unique (the identity found is then the same for
    every order). *)
From Coq Require Import ZArith List Bool Strings.Byte.
From YV Require Import Typed.Model.
Import ListNotations.

Inductive found :=
| Found (j : iid)      (* the *Identity returned *)
| NotFound             (* nil *)
| FuelOut.             (* the recursion is deeper than the fuel (only on a derivation cycle, which
                          compiler.identity cannot produce; Go would overflow its stack) *)

(** func FindIdentity(candidates []*Identity, target string) *Identity {
      for _, candidate := range candidates {
        if candidate.ident == target { return candidate }
        if derived := FindIdentity(candidate.derived, target); derived != nil { return derived }
      }
      return nil } *)
Fixpoint find_identity (fuel : nat) (mods : list modl) (cands : list iid) (target : text) : found :=
  match fuel with
  | O => if is_nil cands then NotFound else FuelOut
  | S f =>
      (fix go (l : list iid) : found :=
         match l with
         | [] => NotFound
         | c :: tl =>
             if text_eqb (snd c) target then Found c
             else match find_identity f mods (direct_derived mods c) target with
                  | NotFound => go tl
                  | r => r
                  end
         end) cands
  end.

(** the loop of one call, named so that proofs can talk about it *)
Fixpoint find_loop (f : nat) (mods : list modl) (target : text) (l : list iid) : found :=
  match l with
  | [] => NotFound
  | c :: tl =>
      if text_eqb (snd c) target then Found c
      else match find_identity f mods (direct_derived mods c) target with
           | NotFound => find_loop f mods target tl
           | r => r
           end
  end.

(** one more than [ident_fuel]: the call on the bases, then at most one level per identity *)
Definition find_fuel (mods : list modl) : nat := S (ident_fuel mods).

(** toIdentRef: x := fmt.Sprintf("%v", v); if colon := strings.IndexRune(x, ':'); colon > 0 { x = x[colon+1:] } *)
Definition value_local (x : text) : text :=
  match split_ident_aux [] x with
  | Some (p, rest) => if is_nil p then x else rest
  | None => x
  end.

(** node.NewValue on an identityref before repair 873d214: FindIdentity over Type.Base() itself, so
    the name of a base was accepted as a value (kept for the refuted example only) *)
Definition ident_value_old (fuel : nat) (mods : list modl) (bases : list iid) (v : text) : option (option text) :=
  match find_identity fuel mods bases (value_local v) with
  | Found j => Some (Some (snd j))
  | NotFound => Some None
  | FuelOut => None
  end.

(** toIdentRef after the repair:
      var ref *meta.Identity
      for _, base := range bases {
        if ref = meta.FindIdentity(base.DerivedDirect(), x); ref != nil { break }
      }
    the search starts below each base, the base itself is never a candidate *)
Fixpoint value_loop (fuel : nat) (mods : list modl) (x : text) (bases : list iid) : found :=
  match bases with
  | [] => NotFound
  | b :: tl => match find_identity fuel mods (direct_derived mods b) x with
               | NotFound => value_loop fuel mods x tl
               | r => r
               end
  end.

(** node.NewValue on an identityref: the label of the value, None = "could not find identity ref" *)
Definition ident_value (fuel : nat) (mods : list modl) (bases : list iid) (v : text) : option (option text) :=
  match value_loop fuel mods (value_local v) bases with
  | Found j => Some (Some (snd j))
  | NotFound => Some None
  | FuelOut => None
  end.

(** the calls start one level below the bases: at most one level per identity *)
Definition value_fuel (mods : list modl) : nat := ident_fuel mods.

(** everything a call with fuel [S f] looks at: the candidates and what is below them *)
Definition closure (f : nat) (mods : list modl) (cands : list iid) : list iid :=
  flat_map (fun c => c :: descendants f mods c) cands.
