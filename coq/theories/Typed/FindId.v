(** Executable model of how an identityref decides which identities it accepts:
      meta/core.go    FindIdentity (depth-first search through Identity.derived, first hit wins)
      node/value.go   toIdentRef (drops a prefix, FindIdentity over Type.Base(), label = Ident())
    The JSON and XML writers (nodeutil/json_wtr.go, xml_wtr.go, xml_wtr2.go) call FindIdentity the
    same way.  Identity.derived of an identity is [direct_derived] (Typed/Model.v); the order of that
    list in Go depends on the order identities are compiled in, which is why the check only
    generates module sets whose identity names are unique (the identity found is then the same for
    every order). *)
From Coq Require Import ZArith List Bool Strings.Byte.
From YV Require Import Typed.Model.
Import ListNotations.

Inductive found :=
| Found (j : iid)      (* the *Identity returned *)
| NotFound             (* nil *)
| FuelOut.             (* the recursion is deeper than the fuel (only on a derivation cycle, which
                          compiler.identity cannot produce; Go would overflow its stack) *)

(** func FindIdentity(candidates []*Identity, target string) *Identity {
      for _, candidate := range candidates {
        if candidate.ident == target { return candidate }
        if derived := FindIdentity(candidate.derived, target); derived != nil { return derived }
      }
      return nil } *)
Fixpoint find_identity (fuel : nat) (mods : list modl) (cands : list iid) (target : text) : found :=
  match fuel with
  | O => if is_nil cands then NotFound else FuelOut
  | S f =>
      (fix go (l : list iid) : found :=
         match l with
         | [] => NotFound
         | c :: tl =>
             if text_eqb (snd c) target then Found c
             else match find_identity f mods (direct_derived mods c) target with
                  | NotFound => go tl
                  | r => r
                  end
         end) cands
  end.

(** the loop of one call, named so that proofs can talk about it *)
Fixpoint find_loop (f : nat) (mods : list modl) (target : text) (l : list iid) : found :=
  match l with
  | [] => NotFound
  | c :: tl =>
      if text_eqb (snd c) target then Found c
      else match find_identity f mods (direct_derived mods c) target with
           | NotFound => find_loop f mods target tl
           | r => r
           end
  end.

(** one more than [ident_fuel]: the call on the bases, then at most one level per identity *)
Definition find_fuel (mods : list modl) : nat := S (ident_fuel mods).

(** toIdentRef: x := fmt.Sprintf("%v", v); if colon := strings.IndexRune(x, ':'); colon > 0 { x = x[colon+1:] } *)
Definition value_local (x : text) : text :=
  match split_ident_aux [] x with
  | Some (p, rest) => if is_nil p then x else rest
  | None => x
  end.

(** node.NewValue on an identityref: the label of the value, None = "could not find identity ref" *)
Definition ident_value (fuel : nat) (mods : list modl) (bases : list iid) (v : text) : option (option text) :=
  match find_identity fuel mods bases (value_local v) with
  | Found j => Some (Some (snd j))
  | NotFound => Some None
  | FuelOut => None
  end.

(** everything a call with fuel [S f] looks at: the candidates and what is below them *)
Definition closure (f : nat) (mods : list modl) (cands : list iid) : list iid :=
  flat_map (fun c => c :: descendants f mods c) cands.
