(** Executable model of how a leaf's type is compiled (after the C02 repairs in the tree under test):
      meta/compile.go   compileType, inheritFromTypedef, findTypedef, identity
      meta/core.go      Type.mixin, Type accessors, FindIdentity's walk over Identity.derived
      meta/find.go      Find (leafref path lookup)
      meta/util.go      splitIdent, findModuleAndIsExternal
      val/format.go     TypeAsFormat, Format.List/IsList/Single
    The model runs in two stages.  [resolve] follows the names exactly as findTypedef does (lexical
    frames of the original parents, own prefix, import prefix) and yields the chain of type statements
    from the leaf down to a built-in; [compile_rt] then replays what compileType computes bottom-up:
    the built-in statement is compiled first, every typedef level is [mixin]ed with its base and
    post-processed ([post]), the leaf's own statement last.  [compile_uses] adds the sharing of the
    Type object between the copies of a grouping leaf (early return when the format is already set).
    Text is [list byte]; "nil" slices of Go are [[]]. *)
From Coq Require Import ZArith List Bool Strings.Byte Strings.String.
Import ListNotations.
Open Scope Z_scope.

Definition text := list byte.
Definition T (s : string) : text := list_byte_of_string s.

Fixpoint text_eqb (a b : text) : bool :=
  match a, b with
  | [], [] => true
  | x :: a', y :: b' => Byte.eqb x y && text_eqb a' b'
  | _, _ => false
  end.
Definition is_nil {A} (l : list A) : bool := match l with [] => true | _ => false end.

Inductive outcome (A : Type) :=
| Ok (a : A)
| Err (k : nat)      (* load fails; k names the branch (1 typedef not found, 2 path required, 3 path
                        unresolved, 4 identity/module not found, 5 empty union, 6 embedded types,
                        7 rejected by the grammar, 8 outside the modelled domain) *)
| Panic              (* Go panics *)
| OutOfFuel.
Arguments Ok {A}. Arguments Err {A}. Arguments Panic {A}. Arguments OutOfFuel {A}.

Definition bind {A B} (o : outcome A) (f : A -> outcome B) : outcome B :=
  match o with Ok a => f a | Err k => Err k | Panic => Panic | OutOfFuel => OutOfFuel end.

(** ** meta.Type.  One record for a parsed type statement (format 0) and for a compiled one. *)
Definition valued := (text * option Z)%type.     (* enum name + value / bit name + position; None = not stated *)
Definition iid := (nat * text)%type.             (* identity: module index, name *)

Inductive ty := Ty
  (ident : text)                      (* "int8", "t", "p:t" *)
  (format : Z)                        (* val.Format, 0 = not compiled *)
  (ranges lengths : list text)        (* one entry per range/length statement met along the chain *)
  (patterns : list (text * bool))     (* pattern, invert-match *)
  (fd : Z)                            (* fraction-digits, 0 = absent *)
  (enums bits : list valued)
  (path : text)                       (* leafref path, [] = absent *)
  (target : option Z)                 (* format of delegate when it is another type (leafref) *)
  (bases : list text)                 (* identityref base statements *)
  (idents : list iid)                 (* resolved identities (Type.identities) *)
  (members : list ty).                (* union member types *)

Definition t_ident y := match y with Ty a _ _ _ _ _ _ _ _ _ _ _ _ => a end.
Definition t_format y := match y with Ty _ a _ _ _ _ _ _ _ _ _ _ _ => a end.
Definition t_ranges y := match y with Ty _ _ a _ _ _ _ _ _ _ _ _ _ => a end.
Definition t_lengths y := match y with Ty _ _ _ a _ _ _ _ _ _ _ _ _ => a end.
Definition t_patterns y := match y with Ty _ _ _ _ a _ _ _ _ _ _ _ _ => a end.
Definition t_fd y := match y with Ty _ _ _ _ _ a _ _ _ _ _ _ _ => a end.
Definition t_enums y := match y with Ty _ _ _ _ _ _ a _ _ _ _ _ _ => a end.
Definition t_bits y := match y with Ty _ _ _ _ _ _ _ a _ _ _ _ _ => a end.
Definition t_path y := match y with Ty _ _ _ _ _ _ _ _ a _ _ _ _ => a end.
Definition t_target y := match y with Ty _ _ _ _ _ _ _ _ _ a _ _ _ => a end.
Definition t_bases y := match y with Ty _ _ _ _ _ _ _ _ _ _ a _ _ => a end.
Definition t_idents y := match y with Ty _ _ _ _ _ _ _ _ _ _ _ a _ => a end.
Definition t_members y := match y with Ty _ _ _ _ _ _ _ _ _ _ _ _ a => a end.

Definition set_format (y : ty) (f : Z) : ty :=
  match y with Ty a _ c d e g h i j k l m n => Ty a f c d e g h i j k l m n end.
Definition set_members (y : ty) (ms : list ty) : ty :=
  match y with Ty a b c d e g h i j k l m _ => Ty a b c d e g h i j k l m ms end.
Definition set_target (y : ty) (t : option Z) : ty :=
  match y with Ty a b c d e g h i j _ l m n => Ty a b c d e g h i j t l m n end.
Definition set_idents (y : ty) (ids : list iid) : ty :=
  match y with Ty a b c d e g h i j k l _ n => Ty a b c d e g h i j k l ids n end.
Definition set_enums (y : ty) (es : list valued) : ty :=
  match y with Ty a b c d e g _ i j k l m n => Ty a b c d e g es i j k l m n end.
Definition set_bits (y : ty) (bs : list valued) : ty :=
  match y with Ty a b c d e g h _ j k l m n => Ty a b c d e g h bs j k l m n end.

(** ** val/format.go *)
Definition list_flag := 1024.
Definition fmt_single (f : Z) : Z := f mod list_flag.           (* Format.Single *)
Definition fmt_list (f : Z) : Z := Z.lor f list_flag.            (* Format.List: f | fmtListFlag *)
Definition fmt_is_list (f : Z) : bool := fmt_list f =? f.         (* Format.IsList: f.List() == f *)

Definition FmtBits := 2.  Definition FmtDecimal64 := 4.  Definition FmtEnum := 6.
Definition FmtIdentityRef := 7.  Definition FmtLeafRef := 13.  Definition FmtString := 14.
Definition FmtUnion := 19.

(** internalTypes / TypeAsFormat *)
Definition builtin_table : list (text * Z) :=
  [ (T "binary", 1); (T "bits", 2); (T "boolean", 3); (T "decimal64", 4); (T "empty", 5);
    (T "enumeration", 6); (T "identityref", 7); (T "instance-identifier", 8); (T "int8", 9);
    (T "int16", 10); (T "int32", 11); (T "int64", 12); (T "leafref", 13); (T "string", 14);
    (T "uint8", 15); (T "uint16", 16); (T "uint32", 17); (T "uint64", 18); (T "union", 19);
    (T "any", 20) ].

Fixpoint assoc {A} (l : list (text * A)) (k : text) : option A :=
  match l with
  | [] => None
  | (k', v) :: tl => if text_eqb k k' then Some v else assoc tl k
  end.
Definition builtin_format (ident : text) : option Z := assoc builtin_table ident.

(** ** meta/util.go splitIdent: prefix and name around the first ':' *)
Definition colon : byte := x3a.
Fixpoint split_ident_aux (acc s : text) : option (text * text) :=
  match s with
  | [] => None
  | c :: tl => if Byte.eqb c colon then Some (rev acc, tl) else split_ident_aux (c :: acc) tl
  end.
Definition split_ident (s : text) : text * text :=
  match split_ident_aux [] s with Some p => p | None => ([], s) end.

(** ** Environment: modules with their top-level typedefs (submodules merged, as
    resolver.copyOverSubmoduleData does), imports by prefix and identities. *)
Record typedef := mkTd { td_name : text; td_type : ty; td_default : option text; td_units : text }.
Record modl := mkMod {
  md_prefix : text;
  md_typedefs : list typedef;
  md_imports : list (text * nat);            (* prefix -> module index *)
  md_idents : list (text * list text) }.     (* identity name, base statements *)

(** A place a type statement is read from: the module it was written in and the typedef tables of
    the enclosing statements (getOriginalParent chain), innermost first, module level excluded. *)
Definition frame := (option (list text) * list typedef)%type.   (* absolute path of the owning data node (None: a grouping), its typedefs *)
Definition pos := (nat * list frame)%type.

Fixpoint lookup_td (f : list typedef) (name : text) : option typedef :=
  match f with
  | [] => None
  | td :: tl => if text_eqb name (td_name td) then Some td else lookup_td tl name
  end.

(** the loop of findTypedef over the original parents; the typedef found keeps the frames from its
    own parent outwards *)
Fixpoint search_frames (frames : list frame) (name : text) : option (typedef * list frame) :=
  match frames with
  | [] => None
  | f :: tl => match lookup_td (snd f) name with
               | Some td => Some (td, frames)
               | None => search_frames tl name
               end
  end.

(** findModuleAndIsExternal: own module for no prefix or the own prefix, else the import *)
Definition find_module (mods : list modl) (mi : nat) (prefix : text) : option (nat * bool) :=
  match nth_error mods mi with
  | None => None
  | Some m =>
      if is_nil prefix || text_eqb prefix (md_prefix m) then Some (mi, false)
      else match assoc (md_imports m) prefix with
           | Some mj => Some (mj, true)
           | None => None
           end
  end.

Definition owner_of (mi : nat) (frames : list frame) : option (list text) :=
  match frames with
  | f :: _ => fst f
  | [] => if Nat.eqb mi 0 then Some [] else None      (* module level; the data tree is module 0's *)
  end.

(** the typedef, the place it was found (where its own type statement is read) *)
Definition find_typedef (mods : list modl) (p : pos) (qname : text) : option (typedef * pos) :=
  let (prefix, ident) := split_ident qname in
  let (mi, inner) := p in
  match find_module mods mi prefix with
  | None => None
  | Some (mj, false) =>
      match search_frames inner ident with
      | Some (td, rest) => Some (td, (mi, rest))
      | None => match nth_error mods mi with
                | None => None
                | Some m => match lookup_td (md_typedefs m) ident with
                            | Some td => Some (td, (mi, []))
                            | None => None
                            end
                end
      end
  | Some (mj, true) =>
      match nth_error mods mj with
      | None => None
      | Some m' => match lookup_td (md_typedefs m') ident with
                   | Some td => Some (td, (mj, []))
                   | None => None
                   end
      end
  end.

(** ** Stage 1: the chain of statements.  [RT levels fm base members]: [levels] are the statements
    that name a typedef, outermost (the leaf's own) first, each with the default and units stated by
    the typedef it names; [base] is the statement naming the built-in [fm]; [members] the resolved
    member types of [base] when it is a union. *)
(* statement, module it is written in, the named typedef's default and units, and the position in
   the data tree Find starts from when the typedef's own type is compiled (typedef.Parent() is the
   data node it is written in) *)
Definition level := (ty * nat * option text * text * option (list text))%type.
Inductive rt := RT (levels : list level) (fm : Z) (base : ty) (mi_base : nat) (members : list rt).

Fixpoint seq_outcomes {A} (l : list (outcome A)) : outcome (list A) :=
  match l with
  | [] => Ok []
  | o :: tl => bind o (fun a => bind (seq_outcomes tl) (fun r => Ok (a :: r)))
  end.

Fixpoint resolve (fuel : nat) (mods : list modl) (p : pos) (y : ty) : outcome rt :=
  match fuel with
  | O => OutOfFuel
  | S f =>
      match builtin_format (t_ident y) with
      | Some fm =>
          bind (seq_outcomes (map (resolve f mods p) (t_members y)))
               (fun ms => Ok (RT [] fm y (fst p) ms))
      | None =>
          if negb (is_nil (t_members y)) then Err 8   (* a derived type with embedded types: not modelled *)
          else match find_typedef mods p (t_ident y) with
               | None => Err 1
               | Some (td, p') =>
                   bind (resolve f mods p' (td_type td))
                        (fun r => match r with
                                  | RT lv fm b mb ms =>
                                      let tdself := match owner_of (fst p') (snd p') with
                                                    | Some o => Some (o ++ [td_name td])
                                                    | None => None
                                                    end in
                                      Ok (RT ((y, fst p, td_default td, td_units td, tdself) :: lv) fm b mb ms)
                                  end)
               end
      end
  end.

(** ** Leafref targets: a flat view of the data tree.  Paths are absolute, root first. *)
Inductive tnode :=
| TCont
| TLeaf (is_list : bool) (p : pos) (y : ty).
Record env := mkEnv { e_mods : list modl; e_tree : list (list text * tnode) }.

Fixpoint path_eqb (a b : list text) : bool :=
  match a, b with
  | [], [] => true
  | x :: a', y :: b' => text_eqb x y && path_eqb a' b'
  | _, _ => false
  end.
Fixpoint tree_find (t : list (list text * tnode)) (p : list text) : option tnode :=
  match t with
  | [] => None
  | (q, n) :: tl => if path_eqb p q then Some n else tree_find tl p
  end.

(** meta/find.go.  The position is the absolute path of the current node (the module is []).
    "../" pops, a leading "/" goes to the module, a prefix before ':' is dropped, every segment
    must name a child. *)
Definition slash : byte := x2f.
Definition dot : byte := x2e.
Fixpoint split_slash (acc : text) (s : text) : list text :=
  match s with
  | [] => [rev acc]
  | c :: tl => if Byte.eqb c slash then rev acc :: split_slash [] tl else split_slash (c :: acc) tl
  end.
Definition strip_prefix (seg : text) : text := snd (split_ident seg).
Definition is_dotdot (seg : text) : bool := text_eqb seg [dot; dot].

Fixpoint walk (tree : list (list text * tnode)) (cur : option (list text)) (segs : list text) : option (list text) :=
  match segs with
  | [] => cur
  | s :: tl =>
      match cur with
      | None => None
      | Some c =>
          if is_dotdot s then
            match rev c with
            | [] => None                                   (* p.Parent() == nil *)
            | _ :: up => walk tree (Some (rev up)) tl
            end
          else
            let c' := c ++ [strip_prefix s] in
            match tree_find tree c' with
            | Some _ => walk tree (Some c') tl
            | None => None
            end
      end
  end.

(** [self]: absolute path of the leaf (or of the typedef statement, as a child of the data node it
    is written in) the type belongs to; None when that place is not in the data tree *)
Definition find_path (tree : list (list text * tnode)) (abs_ok : bool) (self : option (list text)) (path : text) : option tnode :=
  let dest :=
    match path with
    | c :: tl => if Byte.eqb c slash then (if abs_ok then walk tree (Some []) (split_slash [] tl) else None)
                 else match self with
                      | Some s => walk tree (Some s) (split_slash [] path)
                      | None => None
                      end
    | [] => None
    end in
  match dest with
  | Some (x :: d) => tree_find tree (x :: d)
  | _ => None
  end.

(** the format the target's Type object ends with: built-in at the end of its typedef chain, list
    flag if the target is a leaf-list *)
Fixpoint base_format (fuel : nat) (mods : list modl) (p : pos) (ident : text) : option Z :=
  match fuel with
  | O => None
  | S f => match builtin_format ident with
           | Some fm => Some fm
           | None => match find_typedef mods p ident with
                     | Some (td, p') => base_format f mods p' (t_ident (td_type td))
                     | None => None
                     end
           end
  end.

Definition chain_fuel (mods : list modl) (p : pos) : nat :=
  S (S (fold_right (fun m n => (List.length (md_typedefs m) + n)%nat) O mods
        + fold_right (fun f n => (List.length (snd f) + n)%nat) O (snd p))).

(** ** Identities.  compiler.identity appends every identity to the [derived] list of each of its
    bases; Type.Base() holds the identities named by the base statements. *)
Definition iid_eqb (a b : iid) : bool := Nat.eqb (fst a) (fst b) && text_eqb (snd a) (snd b).
Definition mem_iid (a : iid) (l : list iid) : bool := existsb (iid_eqb a) l.

Definition resolve_ident (mods : list modl) (mi : nat) (qname : text) : option iid :=
  let (prefix, name) := split_ident qname in
  match find_module mods mi prefix with
  | None => None
  | Some (mj, _) =>
      match nth_error mods mj with
      | None => None
      | Some m => match assoc (md_idents m) name with Some _ => Some (mj, name) | None => None end
      end
  end.

Fixpoint resolve_idents (mods : list modl) (mi : nat) (qs : list text) : option (list iid) :=
  match qs with
  | [] => Some []
  | q :: tl => match resolve_ident mods mi q, resolve_idents mods mi tl with
               | Some i, Some r => Some (i :: r)
               | _, _ => None
               end
  end.

Fixpoint number_mods (i : nat) (mods : list modl) : list (nat * modl) :=
  match mods with [] => [] | m :: tl => (i, m) :: number_mods (S i) tl end.
Definition all_idents (mods : list modl) : list (iid * list text) :=
  flat_map (fun im => map (fun nb => ((fst im, fst nb), snd nb)) (md_idents (snd im))) (number_mods O mods).

(** Identity.derived of [i]: the identities one of whose base statements names [i] *)
Definition direct_derived (mods : list modl) (i : iid) : list iid :=
  map fst (filter (fun jb => match resolve_idents mods (fst (fst jb)) (snd jb) with
                             | Some bs => mem_iid i bs
                             | None => false
                             end) (all_idents mods)).

(** everything reachable through [derived] (FindIdentity's recursion), the start excluded *)
Fixpoint descendants (fuel : nat) (mods : list modl) (i : iid) : list iid :=
  match fuel with
  | O => []
  | S f => flat_map (fun j => j :: descendants f mods j) (direct_derived mods i)
  end.
Definition ident_fuel (mods : list modl) : nat := S (List.length (all_idents mods)).

Fixpoint dedup (l : list iid) : list iid :=
  match l with
  | [] => []
  | a :: tl => if mem_iid a tl then dedup tl else a :: dedup tl
  end.

(** what the harness observes by walking Base() and DerivedDirect(): the union over the bases *)
Definition accepted_union (mods : list modl) (ids : list iid) : list iid :=
  dedup (flat_map (descendants (ident_fuel mods) mods) ids).

(** ** Enum values and bit positions (compileType after the repair): a stated value is kept, an
    unstated one is one more than the highest so far, 0 for the first. *)
Fixpoint assign_from (first : bool) (next : Z) (l : list valued) : list valued :=
  match l with
  | [] => []
  | (n, v) :: tl =>
      let v' := match v with Some x => x | None => next end in
      let next' := if first || (next <=? v') then v' + 1 else next in
      (n, Some v') :: assign_from false next' tl
  end.
Definition assign (l : list valued) : list valued := assign_from true 0 l.

(** the code before the repair: [val int], 0 meaning "not stated" *)
Fixpoint assign_old_from (next : Z) (l : list valued) : list valued :=
  match l with
  | [] => []
  | (n, v) :: tl =>
      let stated := match v with Some x => x | None => 0 end in
      let next' := if 0 <? stated then stated else next in
      (n, Some next') :: assign_old_from (next' + 1) tl
  end.
Definition assign_old (l : list valued) : list valued := assign_old_from 0 l.

(** mixin after the repair: a derived enumeration/bits statement keeps its own entries and takes
    the values it does not state from the base type, by name *)
Definition inherit_values (base derived : list valued) : list valued :=
  map (fun nv => match snd nv with
                 | Some _ => nv
                 | None => match assoc base (fst nv) with
                           | Some v => (fst nv, v)
                           | None => nv
                           end
                 end) derived.

(** ** Type.mixin (base is compiled, derived is the parsed statement) *)
Definition mixin (base derived : ty) : ty :=
  Ty (t_ident derived)
     (t_format base)
     (if is_nil (t_ranges derived) then t_ranges base
      else if is_nil (t_ranges base) then t_ranges derived else t_ranges derived ++ t_ranges base)
     (if is_nil (t_lengths derived) then t_lengths base
      else if is_nil (t_lengths base) then t_lengths derived else t_lengths derived ++ t_lengths base)
     (if is_nil (t_patterns derived) then t_patterns base else t_patterns derived)
     (if t_fd derived =? 0 then t_fd base else t_fd derived)
     (if is_nil (t_enums derived) then t_enums base else inherit_values (t_enums base) (t_enums derived))
     (if is_nil (t_bits derived) then t_bits base else inherit_values (t_bits base) (t_bits derived))
     (if negb (is_nil (t_path base)) && is_nil (t_path derived) then t_path base else t_path derived)
     None
     (if is_nil (t_bases derived) then t_bases base else t_bases derived)
     (if is_nil (t_idents derived) then t_idents base else t_idents derived)
     (if is_nil (t_members derived) then t_members base else t_members derived).

(** ** The part of compileType after the format is known.  [self]/[is_list]: the leaf (or None/false
    for a typedef) the statement is compiled for; union members are already compiled (a member that
    was copied from a typedef takes the early return, which only sets the list flag). *)
Definition ctx := (option (list text) * bool * bool)%type.    (* Find's start, leaf-list, compiled for a leaf (not a typedef) *)
Definition ctx_self (c : ctx) := fst (fst c).
Definition ctx_list (c : ctx) := snd (fst c).

Definition add_list (is_list : bool) (y : ty) : ty :=
  if is_list then set_format y (fmt_list (t_format y)) else y.

(* leafref: path required, resolved from the leaf; delegate = the target's type *)
Definition post_leafref (E : env) (mi : nat) (c : ctx) (y : ty) : outcome ty :=
  if fmt_single (t_format y) =? FmtLeafRef then
    if is_nil (t_path y) then Err 2
    else match find_path (e_tree E) (snd c || Nat.eqb mi 0)
                         (* an absolute path starts at RootModule: for a typedef the module it is
                            written in; the data tree is module 0's *)
                         (ctx_self c) (t_path y) with
         | None => Err 3
         | Some TCont => Panic                       (* resolvedMeta.(HasType) *)
         | Some (TLeaf tl tp y0) =>
             match base_format (chain_fuel (e_mods E) tp) (e_mods E) tp (t_ident y0) with
             | Some f => Ok (set_target y (Some (if tl then fmt_list f else f)))
             | None => Err 1
             end
         end
  else Ok (set_target y None).

(* identityref: bases looked up from the module of the leaf unless taken over from the typedef *)
Definition post_ident (E : env) (mi : nat) (y : ty) : outcome ty :=
  if (t_format y =? FmtIdentityRef) && is_nil (t_idents y) then
    match resolve_idents (e_mods E) mi (t_bases y) with
    | Some ids => Ok (set_idents y ids)
    | None => Err 4
    end
  else Ok y.

Definition post_union (is_list : bool) (y : ty) : outcome ty :=
  if fmt_single (t_format y) =? FmtUnion then
    if is_nil (t_members y) then Err 5
    else Ok (set_members y (map (add_list is_list) (t_members y)))
  else if is_nil (t_members y) then Ok y else Err 6.

Definition post_values (y : ty) : ty :=
  let y := if fmt_single (t_format y) =? FmtEnum then set_enums y (assign (t_enums y)) else y in
  if fmt_single (t_format y) =? FmtBits then set_bits y (assign (t_bits y)) else y.

Definition post (E : env) (mi : nat) (c : ctx) (y : ty) : outcome ty :=
  bind (post_leafref E mi c y) (fun y =>
  bind (post_ident E mi y) (fun y =>
  bind (post_union (ctx_list c) (add_list (ctx_list c) y)) (fun y =>
  Ok (post_values y)))).

(** ** Stage 2: compile the chain bottom-up.  Every statement carries the module it was written in:
    findModuleAndIsExternal(parent, ..) starts at the leaf or typedef being compiled, so identityref
    bases of a typedef are looked up in the typedef's module. *)
Fixpoint compile_levels (E : env) (levels : list level) (fm : Z) (base : ty) (mib : nat) (ms : list ty)
         (c : ctx) : outcome ty :=
  match levels with
  | [] => post E mib c (set_members (set_format base fm) ms)
  | (y, mi, _, _, tdself) :: tl =>
      bind (compile_levels E tl fm base mib ms (tdself, false, false)) (fun b => post E mi c (mixin b y))
  end.

(** the context the built-in statement (and so its union members) is compiled in *)
Fixpoint base_ctx (levels : list level) (c : ctx) : ctx :=
  match levels with
  | [] => c
  | (_, _, _, _, tdself) :: tl => base_ctx tl (tdself, false, false)
  end.

Fixpoint compile_rt (E : env) (r : rt) (c : ctx) : outcome ty :=
  match r with
  | RT levels fm base mib members =>
      let cm := base_ctx levels c in
      bind ((fix go (l : list rt) : outcome (list ty) :=
               match l with
               | [] => Ok []
               | m :: tl => bind (compile_rt E m cm) (fun a => bind (go tl) (fun r => Ok (a :: r)))
               end) members)
           (fun ms => compile_levels E levels fm base mib ms c)
  end.

(** inheritFromTypedef along the chain: a typedef without default/units has taken them from the
    typedef its own type names (Typedef is a Leafable and is compiled the same way) *)
Fixpoint inherited (levels : list level) : option text * text :=
  match levels with
  | [] => (None, [])
  | (_, _, d, u, _) :: tl =>
      let (d', u') := inherited tl in
      ((match d with Some _ => d | None => d' end), (if is_nil u then u' else u))
  end.

(** ** A leaf or leaf-list *)
Record leaf := mkLeaf {
  lf_pos : pos;                       (* where its type statement is read (original parent chain) *)
  lf_self : list text;                (* absolute path of the leaf *)
  lf_list : bool;                     (* leaf-list *)
  lf_type : ty;
  lf_default : option (list text);    (* default statement(s) on the leaf itself *)
  lf_units : text }.
Definition inh := (option text * text)%type.
Definition leafres := (ty * option (list text) * text)%type.

Definition apply_inherit (l : leaf) (i : inh) : option (list text) * text :=
  ((match lf_default l with
    | Some d => Some d
    | None => match fst i with Some d => Some [d] | None => None end
    end),
   (if is_nil (lf_units l) then snd i else lf_units l)).

(** the grammar's int_value rejects a sign: a negative enum value fails the load *)
Definition has_negative (l : list valued) : bool :=
  existsb (fun nv => match snd nv with Some v => v <? 0 | None => false end) l.
Fixpoint rt_negative (r : rt) : bool :=
  match r with
  | RT levels _ base _ ms =>
      existsb (fun lv => match lv with (y, _, _, _, _) => has_negative (t_enums y) || has_negative (t_bits y) end) levels
      || has_negative (t_enums base) || has_negative (t_bits base)
      || (fix go (l : list rt) : bool := match l with [] => false | m :: tl => rt_negative m || go tl end) ms
  end.

Definition rt_levels (r : rt) : list level := match r with RT lv _ _ _ _ => lv end.

Definition compile_leaf (fuel : nat) (E : env) (l : leaf) : outcome (ty * inh) :=
  bind (resolve fuel (e_mods E) (lf_pos l) (lf_type l)) (fun r =>
  if rt_negative r then Err 7 else
  bind (compile_rt E r (Some (lf_self l), lf_list l, true)) (fun t =>
  Ok (t, inherited (rt_levels r)))).

(** ** The copies of a grouping leaf share one Type object.  The first copy compiled runs the whole
    of compileType; for the others the format is already set: only the list flag and (since the
    repair) the inheritance of default/units happen.  [fx = false] is the code before the repair. *)
Definition early_return (fx : bool) (is_list : bool) (t : ty) (i : inh) : ty * inh :=
  (add_list is_list t, if fx then i else (None, [])).

Definition compile_uses (fx : bool) (fuel : nat) (E : env) (l : leaf) (n : nat) : outcome (list leafres) :=
  bind (compile_leaf fuel E l) (fun ti =>
    let (t, i) := ti in
    let later := early_return fx (lf_list l) t i in
    Ok ((t, fst (apply_inherit l i), snd (apply_inherit l i))
        :: repeat (fst later, fst (apply_inherit l (snd later)), snd (apply_inherit l (snd later))) (n - 1))).

Definition leaf_fuel (E : env) (l : leaf) : nat := (chain_fuel (e_mods E) (lf_pos l) + 8)%nat.

(** ** What the check observes through the public accessors *)
Inductive otype := OType
  (format : Z)                         (* Format(); Single() for union members *)
  (ranges lengths : list text)         (* Range()/Length(): String() of each, in order *)
  (patterns : list (text * bool))      (* Patterns(): Pattern, Inverted() *)
  (fd : Z)                             (* FractionDigits() *)
  (enums bits : list (text * Z))       (* Enum() label/id (= Enums() ident/Value()); Bits() ident/Position *)
  (target : option Z)                  (* Resolve().Format() of a leafref *)
  (bases : list iid)                   (* Base() *)
  (accepted : list iid)                (* closure of Base() through DerivedDirect(), the bases excluded *)
  (members : list otype).              (* Union() *)

Definition values_of (l : list valued) : list (text * Z) :=
  map (fun nv => (fst nv, match snd nv with Some v => v | None => -1 end)) l.

Fixpoint project (mods : list modl) (top : bool) (t : ty) : otype :=
  match t with
  | Ty _ f rs ls ps fd es bs _ tg _ ids ms =>
      OType (if top then f else fmt_single f) rs ls ps fd
            (if fmt_single f =? FmtEnum then values_of es else [])
            (if fmt_single f =? FmtBits then values_of bs else [])
            tg ids (accepted_union mods ids)
            ((fix go (l : list ty) : list otype :=
                match l with [] => [] | m :: tl => project mods false m :: go tl end) ms)
  end.

Definition oleaf := (otype * option (list text) * text)%type.
Definition project_leaf (mods : list modl) (r : leafres) : oleaf :=
  match r with (t, d, u) => (project mods true t, d, u) end.
