(** Concrete witnesses for C02: the regions of the known findings, the behaviour before the repairs,
    and a non-trivial input meeting the hypotheses of the theorems.  All by vm_compute. *)
From Coq Require Import ZArith List Bool Strings.Byte Strings.String.
From YV Require Import Base.Verdict Typed.Model Typed.Spec Typed.Proofs Check.C02Check.
Import ListNotations.
Open Scope Z_scope.
Open Scope string_scope.

Definition st (ident : string) : ty := Ty (T ident) 0 [] [] [] 0 [] [] [] None [] [] [].
Definition st_pat (ident pat : string) : ty := Ty (T ident) 0 [] [] [(T pat, false)] 0 [] [] [] None [] [] [].
Definition st_range (ident r : string) : ty := Ty (T ident) 0 [T r] [] [] 0 [] [] [] None [] [] [].
Definition st_enum (ident : string) (es : list valued) : ty := Ty (T ident) 0 [] [] [] 0 es [] [] None [] [] [].
Definition st_path (ident p : string) : ty := Ty (T ident) 0 [] [] [] 0 [] [] (T p) None [] [] [].
Definition st_bases (ident : string) (bs : list text) : ty := Ty (T ident) 0 [] [] [] 0 [] [] [] None bs [] [].
Definition st_union (ms : list ty) : ty := Ty (T "union") 0 [] [] [] 0 [] [] [] None [] [] ms.

Definition one_mod (tds : list typedef) (ids : list (text * list text)) : list modl :=
  [mkMod (T "m") tds [] ids].
Definition leaf_x (y : ty) : leaf := mkLeaf (0%nat, []) [T "c"; T "x"] false y None [].
Definition tree0 : list (list text * tnode) :=
  [([T "c"], TCont); ([T "c"; T "tgt"], TLeaf false (0%nat, []) (st "int8"))].

(** what the model does, judged by the spec oracle of the check *)
Definition model_meets_spec (E : env) (l : leaf) (n : nat) : bool :=
  match compile_uses true (leaf_fuel E l) E l n with
  | Ok rs => spec_obs E l n (OLoaded (map (project_leaf (e_mods E)) rs))
  | Err _ => spec_obs E l n OError
  | Panic => spec_obs E l n OPanic
  | OutOfFuel => false
  end.

(** k=1: typedef s1 { type string { pattern "a.*"; } }  leaf x { type s1 { pattern "b.*"; } } *)
Definition E_pat := mkEnv (one_mod [mkTd (T "s1") (st_pat "string" "a.*") None []] []) tree0.
Definition l_pat := leaf_x (st_pat "s1" "b.*").
Lemma kf_patterns_refuted : known E_pat l_pat = Some 1%nat /\ model_meets_spec E_pat l_pat 1 = false.
Proof. split; vm_compute; reflexivity. Qed.

(** k=2: identities top, other, a{base top}, b{base other}, c{base top; base other};
    leaf x { type identityref { base top; base other; } } : the RFC accepts only c *)
Definition ids2 : list (text * list text) :=
  [(T "top", []); (T "other", []); (T "a", [T "top"]); (T "b", [T "other"]); (T "c", [T "top"; T "other"])].
Definition E_mb := mkEnv (one_mod [] ids2) tree0.
Definition l_mb := leaf_x (st_bases "identityref" [T "top"; T "other"]).
Lemma kf_multibase_refuted : known E_mb l_mb = Some 2%nat /\ model_meets_spec E_mb l_mb 1 = false.
Proof. split; vm_compute; reflexivity. Qed.

(** k=3: leaf x { type enumeration { enum a { value -1; } enum b; } } does not load *)
Definition E_neg := mkEnv (one_mod [] []) tree0.
Definition l_neg := leaf_x (st_enum "enumeration" [(T "a", Some (-1)); (T "b", None)]).
Lemma kf_negative_refuted : known E_neg l_neg = Some 3%nat /\ model_meets_spec E_neg l_neg 1 = false.
Proof. split; vm_compute; reflexivity. Qed.

(** k=4: typedef r { type leafref { path "../tgt"; } } at module level, leaf c/x { type r; } *)
Definition E_rel := mkEnv (one_mod [mkTd (T "r") (st_path "leafref" "../tgt") None []] []) tree0.
Definition l_rel := leaf_x (st "r").
Lemma kf_typedef_relative_refuted : known E_rel l_rel = Some 4%nat /\ model_meets_spec E_rel l_rel 1 = false.
Proof. split; vm_compute; reflexivity. Qed.

(** the full statement of the theorem fails on the pattern witness *)
Lemma pat_witness :
  exists r rs, resolve (leaf_fuel E_pat l_pat) (e_mods E_pat) (lf_pos l_pat) (lf_type l_pat) = Ok r
    /\ wf_rt r = true
    /\ compile_uses true (leaf_fuel E_pat l_pat) E_pat l_pat 1 = Ok rs
    /\ ~ Forall (fun x => effective_leaf E_pat l_pat r = Some (project_leaf (e_mods E_pat) x)) rs.
Proof.
  eexists. eexists. split; [vm_compute; reflexivity|]. split; [vm_compute; reflexivity|].
  split; [vm_compute; reflexivity|]. intro H. inversion H as [|? ? H1 H2]; subst.
  vm_compute in H1. discriminate.
Qed.

Lemma full_statement_refuted :
  ~ (forall fuel E l r n rs,
       resolve fuel (e_mods E) (lf_pos l) (lf_type l) = Ok r -> wf_rt r = true ->
       compile_uses true fuel E l n = Ok rs ->
       Forall (fun x => effective_leaf E l r = Some (project_leaf (e_mods E) x)) rs).
Proof.
  intro F. destruct pat_witness as (r & rs & R & W & C & N). exact (N (F _ _ _ r _ rs R W C)).
Qed.

(** before the repairs *)
(** typedef t { type int32; default 7; units u; } grouping g { leaf x { type t; } } used twice *)
Definition E_use := mkEnv (one_mod [mkTd (T "t") (st "int32") (Some (T "7")) (T "u")] []) tree0.
Definition l_use := leaf_x (st "t").
Lemma use_invariant_old_refuted :
  exists a b, compile_uses false (leaf_fuel E_use l_use) E_use l_use 2 = Ok [a; b]
    /\ snd (fst a) = Some [T "7"] /\ snd (fst b) = None /\ snd a = T "u" /\ snd b = [].
Proof. eexists. eexists. split; [vm_compute; reflexivity|]. repeat split. Qed.

Lemma use_invariant_now :
  exists a, compile_uses true (leaf_fuel E_use l_use) E_use l_use 3 = Ok [a; a; a]
    /\ snd (fst a) = Some [T "7"] /\ snd a = T "u".
Proof. eexists. split; [vm_compute; reflexivity|]. split; reflexivity. Qed.

(** enum a{value 3} b{value 0} c : was 3,4,5; RFC 7950 9.6.4.2 gives 3,0,4 *)
Definition enum_abc : list valued := [(T "a", Some 3); (T "b", Some 0); (T "c", None)].
Lemma enum_old_refuted :
  values_of (assign_old enum_abc) = [(T "a", 3); (T "b", 4); (T "c", 5)]
  /\ rfc_values [] enum_abc = [(T "a", 3); (T "b", 0); (T "c", 4)]
  /\ values_of (assign enum_abc) = rfc_values [] enum_abc.
Proof. repeat split. Qed.

(** typedef xyz { enum x; enum y; enum z; }  type xyz { enum z; } : z was renumbered 0, must stay 2 *)
Definition E_xyz := mkEnv (one_mod [mkTd (T "xyz") (st_enum "enumeration" [(T "x", None); (T "y", None); (T "z", None)]) None []] []) tree0.
Definition l_xyz := leaf_x (st_enum "xyz" [(T "z", None)]).
Lemma restricted_enum_keeps_value :
  values_of (assign_old [(T "z", None)]) = [(T "z", 0)]
  /\ exists t d u, compile_uses true (leaf_fuel E_xyz l_xyz) E_xyz l_xyz 1 = Ok [(t, d, u)]
       /\ values_of (t_enums t) = [(T "z", 2)].
Proof.
  split; [reflexivity|]. eexists. eexists. eexists. split; [vm_compute; reflexivity|]. reflexivity.
Qed.

(** sibling scopes may define the same name (RFC 7950 5.5 forbids it only along one ancestor chain):
    container a { container b { typedef t { type int32 { range "1..60"; } default 5; units s; } leaf x { type t; } }
                  container c { typedef t { type string; default none; } leaf-list y { type t; } } }
    each leaf gets the typedef of its own scope, whatever the other scope says *)
Definition td_sib_b := mkTd (T "t") (st_range "int32" "1..60") (Some (T "5")) (T "s").
Definition td_sib_c := mkTd (T "t") (st "string") (Some (T "none")) [].
Definition pos_sib_b : pos := (0%nat, [(Some [T "a"; T "b"], [td_sib_b]); (Some [T "a"], [])]).
Definition pos_sib_c : pos := (0%nat, [(Some [T "a"; T "c"], [td_sib_c]); (Some [T "a"], [])]).
Definition l_sib_x := mkLeaf pos_sib_b [T "a"; T "b"; T "x"] false (st "t") None [].
Definition l_sib_y := mkLeaf pos_sib_c [T "a"; T "c"; T "y"] true (st "t") None [].
Definition E_sib := mkEnv (one_mod [] [])
  [([T "a"], TCont); ([T "a"; T "b"], TCont); ([T "a"; T "b"; T "x"], TLeaf false pos_sib_b (st "t"));
   ([T "a"; T "c"], TCont); ([T "a"; T "c"; T "y"], TLeaf true pos_sib_c (st "t"))].
Lemma sibling_scopes :
  (exists t, compile_uses true (leaf_fuel E_sib l_sib_x) E_sib l_sib_x 1 = Ok [(t, Some [T "5"], T "s")]
             /\ t_format t = 11 /\ t_ranges t = [T "1..60"])
  /\ (exists t, compile_uses true (leaf_fuel E_sib l_sib_y) E_sib l_sib_y 1 = Ok [(t, Some [T "none"], [])]
                /\ t_format t = fmt_list FmtString /\ t_ranges t = [])
  /\ model_meets_spec E_sib l_sib_x 1 = true /\ model_meets_spec E_sib l_sib_y 1 = true.
Proof.
  split; [eexists; split; [vm_compute; reflexivity|split; reflexivity]|].
  split; [eexists; split; [vm_compute; reflexivity|split; reflexivity]|].
  split; vm_compute; reflexivity.
Qed.

(** a non-trivial input that meets every hypothesis of the correctness theorem:
    typedef t1 { type int32 { range "0..100"; } default 7; }  typedef t2 { type t1 { range "5..50"; } units u; }
    typedef e { type enumeration { enum a { value 3; } enum b { value 0; } enum c; } }
    leaf-list x { type union { type t2 { range "6..7"; } type e { enum c; } type leafref { path "../tgt"; } } } *)
Definition E_ok := mkEnv (one_mod
  [mkTd (T "t1") (st_range "int32" "0..100") (Some (T "7")) [];
   mkTd (T "t2") (st_range "t1" "5..50") None (T "u");
   mkTd (T "e") (st_enum "enumeration" enum_abc) None []] []) tree0.
Definition l_ok := mkLeaf (0%nat, []) [T "c"; T "x"] true
  (st_union [st_range "t2" "6..7"; st_enum "e" [(T "c", None)]; st_path "leafref" "../tgt"]) None [].
Lemma hyps_met :
  exists r rs, resolve (leaf_fuel E_ok l_ok) (e_mods E_ok) (lf_pos l_ok) (lf_type l_ok) = Ok r
    /\ wf_rt r = true /\ pat_region r = false /\ multibase_region r = false /\ tdrel_region r = false
    /\ compile_uses true (leaf_fuel E_ok l_ok) E_ok l_ok 3 = Ok rs /\ List.length rs = 3%nat
    /\ model_meets_spec E_ok l_ok 3 = true.
Proof.
  eexists. eexists. split; [vm_compute; reflexivity|].
  repeat (split; [vm_compute; reflexivity|]). vm_compute; reflexivity.
Qed.
