(** Proofs about Meta/Slices.v: with clone() giving every copy a backing array of its own, the
    slice-valued fields of distinct definition objects never share an array that has room to grow,
    so whatever sequence of statements, copies (uses / augment), refinements and deviations is
    applied, every object reads back exactly the entries written for it. *)
From Coq Require Import List Arith Bool Lia Strings.Byte.
From YV Require Import Meta.Slices.
Import ListNotations.

(** ---- lists ------------------------------------------------------------------------------------ *)
Lemma set_nth_length : forall A i (x : A) l, length (set_nth i x l) = length l.
Proof. intros A i x l. revert i. induction l; intros [|i]; simpl; auto. Qed.

Lemma nth_set_nth_same : forall A i (x : A) l d, i < length l -> nth i (set_nth i x l) d = x.
Proof.
  intros A i x l d. revert i. induction l; intros [|i] H; simpl in *; try (exfalso; lia); auto.
  apply IHl. lia.
Qed.

Lemma nth_set_nth_other : forall A i j (x : A) l d, i <> j -> nth j (set_nth i x l) d = nth j l d.
Proof.
  intros A i j x l d. revert i j. induction l; intros [|i] [|j] H; simpl; auto; try (exfalso; lia).
Qed.

Lemma set_nth_beyond : forall A i (x : A) l, length l <= i -> set_nth i x l = l.
Proof.
  intros A i x l. revert i. induction l; intros [|i] H; simpl in *; auto; try (exfalso; lia).
  f_equal. apply IHl. lia.
Qed.

Lemma firstn_set_nth_ge : forall A n i (x : A) l, n <= i -> firstn n (set_nth i x l) = firstn n l.
Proof.
  intros A n i x l. revert n i. induction l; intros [|n] [|i] H; simpl; auto; try (exfalso; lia).
  f_equal. apply IHl. lia.
Qed.

Lemma firstn_S_set_nth : forall A n (x : A) l, n < length l -> firstn (S n) (set_nth n x l) = firstn n l ++ [x].
Proof.
  intros A n x l. revert n. induction l; intros [|n] H; simpl in *; try (exfalso; lia); auto.
  f_equal. apply IHl. lia.
Qed.

Lemma set_nth_app_mid : forall A (pre : list A) x y post,
  set_nth (length pre) x (pre ++ y :: post) = pre ++ x :: post.
Proof. intros A pre x y post. induction pre; simpl; auto. f_equal. exact IHpre. Qed.

Lemma firstn_mid : forall A (a : list A) x r n, length a = n -> firstn (S n) (a ++ [x] ++ r) = a ++ [x].
Proof. intros A a x r n H. subst n. induction a; simpl; auto. f_equal. exact IHa. Qed.

(** ---- heap ------------------------------------------------------------------------------------- *)
Lemma heap_set_length : forall h a i x, length (heap_set h a i x) = length h.
Proof. intros. unfold heap_set. apply set_nth_length. Qed.

Lemma heap_set_other : forall h a i x a', a' <> a -> arr_of (heap_set h a i x) a' = arr_of h a'.
Proof. intros. unfold heap_set, arr_of. apply nth_set_nth_other. auto. Qed.

Lemma heap_set_same : forall h a i x, a < length h -> arr_of (heap_set h a i x) a = set_nth i x (arr_of h a).
Proof. intros. unfold heap_set. unfold arr_of at 1. apply nth_set_nth_same. auto. Qed.

Lemma heap_set_arr_length : forall h a i x a', length (arr_of (heap_set h a i x) a') = length (arr_of h a').
Proof.
  intros h a i x a'. destruct (Nat.eq_dec a' a) as [->|Hn].
  - destruct (Nat.lt_ge_cases a (length h)) as [Hl|Hl].
    + rewrite heap_set_same by auto. apply set_nth_length.
    + unfold heap_set. rewrite set_nth_beyond by auto. reflexivity.
  - rewrite heap_set_other by auto. reflexivity.
Qed.

Lemma arr_of_app_old : forall h x a, a < length h -> arr_of (h ++ [x]) a = arr_of h a.
Proof. intros. unfold arr_of. apply app_nth1. auto. Qed.

Lemma arr_of_app_new : forall h x, arr_of (h ++ [x]) (length h) = x.
Proof. intros. unfold arr_of. rewrite app_nth2 by lia. rewrite Nat.sub_diag. reflexivity. Qed.

(** ---- slices: well-formed, separate ------------------------------------------------------------ *)
Definition wf (h : heap) (s : slice) : Prop :=
  s_len s <= s_cap s /\ (0 < s_cap s -> s_arr s < length h /\ length (arr_of h (s_arr s)) = s_cap s).

(** two headers that cannot see each other's writes: one of them has no array, or the arrays differ *)
Definition sep (s s' : slice) : Prop := s_cap s = 0 \/ s_cap s' = 0 \/ s_arr s <> s_arr s'.

Lemma sep_sym : forall s s', sep s s' -> sep s' s.
Proof. unfold sep. intros s s' [H|[H|H]]; auto. Qed.

Lemma wf_nil : forall h, wf h nil_slice.
Proof. intros. split; simpl; intros; lia. Qed.

Lemma sep_nil : forall s, sep nil_slice s.
Proof. intros. left. reflexivity. Qed.

Lemma read_cap0 : forall h s, wf h s -> s_cap s = 0 -> go_read h s = [].
Proof. intros h s [Hl _] Hc. unfold go_read. replace (s_len s) with 0 by lia. reflexivity. Qed.

(** extending the heap by one array changes nothing for a well-formed slice *)
Lemma wf_app : forall h x s, wf h s -> wf (h ++ [x]) s /\ go_read (h ++ [x]) s = go_read h s.
Proof.
  intros h x s [Hl Hc]. destruct (Nat.eq_dec (s_cap s) 0) as [H0|H0].
  - split.
    + split; auto. intros. lia.
    + unfold go_read. replace (s_len s) with 0 by lia. reflexivity.
  - destruct Hc as [Ha Hn]; [lia|]. split.
    + split; auto. intros _. rewrite app_length. simpl. rewrite arr_of_app_old by auto. split; [lia|auto].
    + unfold go_read. rewrite arr_of_app_old by auto. reflexivity.
Qed.

(** a write through [s] changes nothing for a well-formed slice separate from [s] *)
Lemma wf_heap_set : forall h s i x s', wf h s' -> wf (heap_set h (s_arr s) i x) s'.
Proof.
  intros h s i x s' [Hl Hc]. split; auto. intros Hp. destruct (Hc Hp) as [Ha Hn].
  rewrite heap_set_length, heap_set_arr_length. auto.
Qed.

Lemma read_heap_set_sep : forall h s i x s',
  wf h s' -> 0 < s_cap s -> sep s s' -> go_read (heap_set h (s_arr s) i x) s' = go_read h s'.
Proof.
  intros h s i x s' Hw Hp [H|[H|H]]; [lia| |].
  - rewrite !read_cap0; auto. apply wf_heap_set; auto.
  - unfold go_read. rewrite heap_set_other by auto. reflexivity.
Qed.

(** ---- append ----------------------------------------------------------------------------------- *)
Lemma grow_cap_gt : forall c, c < grow_cap c.
Proof.
  intros c. unfold grow_cap. destruct (c =? 0) eqn:E0; [apply Nat.eqb_eq in E0; lia|].
  apply Nat.eqb_neq in E0. destruct (c <? 256); [lia|].
  assert (0 < (c + 768) / 4) by (apply Nat.div_str_pos; lia). lia.
Qed.

Lemma append_ok : forall h s x h' s2,
  wf h s -> go_append h s x = (h', s2) ->
  wf h' s2 /\ go_read h' s2 = go_read h s ++ [x] /\
  (forall s', wf h s' -> sep s s' -> wf h' s' /\ go_read h' s' = go_read h s' /\ sep s2 s').
Proof.
  intros h s x h' s2 Hw E. unfold go_append in E. destruct (s_len s <? s_cap s) eqn:Elt.
  - (* room: written in place *)
    apply Nat.ltb_lt in Elt. inversion E; subst h' s2; clear E.
    destruct Hw as [Hl Hc]. destruct Hc as [Ha Hn]; [lia|].
    split; [|split].
    + split; simpl; [lia|]. intros _. rewrite heap_set_length, heap_set_arr_length. auto.
    + unfold go_read. simpl. rewrite heap_set_same by auto. apply firstn_S_set_nth. lia.
    + intros s' Hw' Hs. split; [apply wf_heap_set; auto|]. split.
      * apply read_heap_set_sep; auto. lia.
      * destruct Hs as [H|[H|H]]; [lia| |]; [right; left; auto|right; right; simpl; auto].
  - (* full: a new array *)
    apply Nat.ltb_ge in Elt. inversion E; subst h' s2; clear E.
    pose proof (grow_cap_gt (s_cap s)) as Hg. destruct Hw as [Hl Hc].
    assert (Hrl : length (go_read h s) = s_len s).
    { unfold go_read. rewrite firstn_length. destruct (Nat.eq_dec (s_cap s) 0) as [H0|H0]; [lia|].
      destruct Hc as [_ Hn]; [lia|]. lia. }
    split; [|split].
    + split; simpl; [lia|]. intros _. rewrite app_length. simpl. split; [lia|].
      rewrite arr_of_app_new. rewrite app_length. simpl. rewrite repeat_length. lia.
    + unfold go_read at 1. simpl. rewrite arr_of_app_new. apply firstn_mid. exact Hrl.
    + intros s' Hw' _. destruct (wf_app h (go_read h s ++ [x] ++ repeat [] (grow_cap (s_cap s) - S (s_len s))) s' Hw') as [H1 H2].
      split; [exact H1|]. split; [exact H2|].
      destruct (Nat.eq_dec (s_cap s') 0) as [H0|H0]; [right; left; auto|].
      right; right. simpl. destruct Hw' as [_ Hc']. destruct Hc' as [Ha' _]; lia.
Qed.

(** a run of appends onto a slice that no other header shares *)
Lemma append_all_ok : forall xs h s h' s2,
  wf h s -> append_all h s xs = (h', s2) ->
  wf h' s2 /\ go_read h' s2 = go_read h s ++ xs /\
  (forall s', wf h s' -> sep s s' -> wf h' s' /\ go_read h' s' = go_read h s' /\ sep s2 s').
Proof.
  induction xs as [|x t IH]; intros h s h' s2 Hw E; simpl in E.
  - inversion E; subst. split; auto. split; [rewrite app_nil_r; auto|]. intros; auto.
  - destruct (go_append h s x) as [h1 s1] eqn:E1.
    destruct (append_ok _ _ _ _ _ Hw E1) as (Hw1 & Hr1 & Ho1).
    destruct (IH _ _ _ _ Hw1 E) as (Hw2 & Hr2 & Ho2).
    split; auto. split.
    + rewrite Hr2, Hr1, <- app_assoc. reflexivity.
    + intros s' Hw' Hs. destruct (Ho1 s' Hw' Hs) as (A & B & C).
      destruct (Ho2 s' A C) as (A2 & B2 & C2). split; auto. split; auto. congruence.
Qed.

(** ---- clone ------------------------------------------------------------------------------------ *)
(** filling a fresh array element by element *)
Lemma store_all_fill : forall xs h pre post a s,
  s_arr s = a -> a < length h -> arr_of h a = pre ++ repeat [] (length xs) ++ post ->
  let h' := store_all h s (length pre) xs in
  length h' = length h /\ arr_of h' a = pre ++ xs ++ post /\ (forall a', a' <> a -> arr_of h' a' = arr_of h a').
Proof.
  induction xs as [|x t IH]; intros h pre post a s Hs Ha Harr; simpl.
  - split; auto.
  - simpl in Harr.
    specialize (IH (go_store h s (length pre) x) (pre ++ [x]) post a s Hs).
    unfold go_store in *. rewrite Hs in *.
    rewrite heap_set_length in IH. specialize (IH Ha).
    rewrite heap_set_same in IH by auto. rewrite Harr in IH.
    rewrite set_nth_app_mid in IH.
    rewrite app_length in IH. simpl in IH. rewrite Nat.add_1_r in IH.
    destruct IH as (L & A & O).
    { rewrite <- app_assoc. reflexivity. }
    split; [auto|]. split.
    + rewrite A. rewrite <- app_assoc. reflexivity.
    + intros a' Hn. rewrite O by auto. apply heap_set_other. auto.
Qed.

Lemma clone_ok : forall h src h' dst,
  wf h src -> clone_field true h src = (h', dst) ->
  wf h' dst /\ go_read h' dst = go_read h src /\
  (forall s', wf h s' -> wf h' s' /\ go_read h' s' = go_read h s' /\ sep dst s').
Proof.
  intros h src h' dst Hw E. unfold clone_field in E.
  destruct (s_cap src =? 0) eqn:E0.
  - apply Nat.eqb_eq in E0. inversion E; subst. split; auto. split; auto.
    intros s' Hw'. split; auto. split; auto. left. auto.
  - apply Nat.eqb_neq in E0. simpl in E. inversion E; subst h' dst; clear E.
    set (xs := go_read h src). set (n := s_len src).
    assert (Hxl : length xs = n).
    { unfold xs, go_read. rewrite firstn_length. destruct Hw as [Hl Hc]. destruct Hc as [_ Hn]; [lia|].
      unfold n. lia. }
    pose proof (store_all_fill xs (h ++ [repeat [] n]) [] [] (length h) (mkSlice (length h) n n)) as F.
    simpl in F. rewrite app_length in F. simpl in F.
    destruct F as (L & A & O); [reflexivity|lia| |].
    { rewrite arr_of_app_new. rewrite Hxl, app_nil_r. reflexivity. }
    rewrite app_nil_r in A.
    split; [|split].
    + split; simpl; [lia|]. intros _. rewrite L. split; [lia|]. rewrite A. auto.
    + unfold go_read at 1. simpl. rewrite A. rewrite <- Hxl. apply firstn_all.
    + intros s' [Hl' Hc']. destruct (Nat.eq_dec (s_cap s') 0) as [H0|H0].
      * split; [split; auto; intros; lia|]. split; [|right; left; auto].
        unfold go_read. replace (s_len s') with 0 by lia. reflexivity.
      * destruct Hc' as [Ha' Hn']; [lia|].
        assert (Hne : s_arr s' <> length h) by lia.
        split; [|split].
        -- split; auto. intros _. rewrite L. rewrite O by auto. rewrite arr_of_app_old by auto. split; [lia|auto].
        -- unfold go_read. rewrite O by auto. rewrite arr_of_app_old by auto. reflexivity.
        -- right; right. simpl. lia.
Qed.

(** ---- states ----------------------------------------------------------------------------------- *)
Definition inv (st : state) : Prop :=
  (forall o, wf (st_heap st) (st_fld st o)) /\
  (forall o o', o <> o' -> sep (st_fld st o) (st_fld st o')).

Lemma inv_init : inv init.
Proof. split; intros; simpl; [apply wf_nil|apply sep_nil]. Qed.

Lemma upd_same : forall A (f : nat -> A) o v, upd f o v o = v.
Proof. intros. unfold upd. rewrite Nat.eqb_refl. reflexivity. Qed.
Lemma upd_other : forall A (f : nat -> A) o v k, k <> o -> upd f o v k = f k.
Proof. intros. unfold upd. destruct (k =? o) eqn:E; auto. apply Nat.eqb_eq in E. contradiction. Qed.

(** one step of the loader on the heap model does to what is read back exactly what the
    specification says, and keeps the fields of distinct objects separate *)
Lemma step_sim : forall st w p,
  inv st -> (forall o, read st o = w o) ->
  match step true st p, spec_step w p with
  | Some st', Some w' => inv st' /\ (forall o, read st' o = w' o)
  | None, None => True
  | _, _ => False
  end.
Proof.
  intros st w p [Hwf Hsep] Habs. destruct p as [o x|src dst|o k m]; simpl.
  - (* append *)
    destruct (go_append (st_heap st) (st_fld st o) x) as [h s] eqn:E.
    destruct (append_ok _ _ _ _ _ (Hwf o) E) as (W & R & O).
    split; [split|].
    + intros k. simpl. destruct (Nat.eq_dec k o) as [->|Hn].
      * rewrite upd_same. exact W.
      * rewrite upd_other by auto. apply (O (st_fld st k)); auto.
    + intros a b Hab. simpl. destruct (Nat.eq_dec a o) as [->|Ha]; destruct (Nat.eq_dec b o) as [->|Hb].
      * contradiction.
      * rewrite upd_same, upd_other by auto. apply (O (st_fld st b)); auto.
      * rewrite upd_same, upd_other by auto. apply sep_sym. apply (O (st_fld st a)); auto.
      * rewrite !upd_other by auto. auto.
    + intros k. unfold read. simpl. destruct (Nat.eq_dec k o) as [->|Hn].
      * rewrite !upd_same. rewrite R. f_equal. apply Habs.
      * rewrite !upd_other by auto. destruct (O (st_fld st k)) as (_ & R' & _); auto.
        rewrite R'. apply Habs.
  - (* clone *)
    destruct (clone_field true (st_heap st) (st_fld st src)) as [h s] eqn:E.
    destruct (clone_ok _ _ _ _ (Hwf src) E) as (W & R & O).
    split; [split|].
    + intros k. simpl. destruct (Nat.eq_dec k dst) as [->|Hn].
      * rewrite upd_same. exact W.
      * rewrite upd_other by auto. apply (O (st_fld st k)); auto.
    + intros a b Hab. simpl. destruct (Nat.eq_dec a dst) as [->|Ha]; destruct (Nat.eq_dec b dst) as [->|Hb].
      * contradiction.
      * rewrite upd_same, upd_other by auto. apply (O (st_fld st b)); auto.
      * rewrite upd_same, upd_other by auto. apply sep_sym. apply (O (st_fld st a)); auto.
      * rewrite !upd_other by auto. auto.
    + intros k. unfold read. simpl. destruct (Nat.eq_dec k dst) as [->|Hn].
      * rewrite !upd_same. rewrite R. apply Habs.
      * rewrite !upd_other by auto. destruct (O (st_fld st k)) as (_ & R' & _); auto.
        rewrite R'. apply Habs.
  - (* delete *)
    rewrite (Habs o). destruct (existsb (key_is m k) (w o)); auto.
    destruct (append_all (st_heap st) nil_slice (filter (fun c => negb (key_is m k c)) (w o))) as [h s] eqn:E.
    destruct (append_all_ok _ _ _ _ _ (wf_nil _) E) as (W & R & O).
    split; [split|].
    + intros j. simpl. destruct (Nat.eq_dec j o) as [->|Hn].
      * rewrite upd_same. exact W.
      * rewrite upd_other by auto. apply (O (st_fld st j)); auto. apply sep_nil.
    + intros a b Hab. simpl. destruct (Nat.eq_dec a o) as [->|Ha]; destruct (Nat.eq_dec b o) as [->|Hb].
      * contradiction.
      * rewrite upd_same, upd_other by auto. apply (O (st_fld st b)); auto. apply sep_nil.
      * rewrite upd_same, upd_other by auto. apply sep_sym. apply (O (st_fld st a)); auto. apply sep_nil.
      * rewrite !upd_other by auto. auto.
    + intros j. unfold read. simpl. destruct (Nat.eq_dec j o) as [->|Hn].
      * rewrite !upd_same. rewrite R. rewrite read_cap0; auto. apply wf_nil.
      * rewrite !upd_other by auto. destruct (O (st_fld st j)) as (_ & R' & _); auto. apply sep_nil.
        rewrite R'. apply Habs.
Qed.

Lemma run_sim : forall prog st w,
  inv st -> (forall o, read st o = w o) ->
  match run true st prog, spec_run w prog with
  | Some st', Some w' => forall o, read st' o = w' o
  | None, None => True
  | _, _ => False
  end.
Proof.
  induction prog as [|p t IH]; intros st w Hi Ha; simpl; auto.
  pose proof (step_sim st w p Hi Ha) as S.
  destruct (step true st p) as [st1|]; destruct (spec_step w p) as [w1|]; try contradiction; auto.
  destruct S as [Hi1 Ha1]. apply IH; auto.
Qed.

(** MAIN: the loader reads back what was written, for every program and every number of objects *)
Theorem load_reads_written : forall prog n, load_and_read true prog n = spec_read prog n.
Proof.
  intros prog n. unfold load_and_read, spec_read.
  pose proof (run_sim prog init (fun _ => []) inv_init) as S.
  destruct (run true init prog) as [st|]; destruct (spec_run (fun _ => []) prog) as [w|]; try (exfalso; apply S; intros; reflexivity); auto.
  f_equal. apply map_ext. intros o. apply S. intros; reflexivity.
Qed.

(** ---- the clause of the property in the shape it has in a module ----------------------------------
    object 0: a node of a grouping with the musts [ms] written on it; object i+1: its copy in the
    i-th "uses" of the grouping, with the musts [nth i adds] added there by refine / deviate add.
    Whatever the number of musts, of uses and of additions: every use reads back the grouping's
    musts followed by its own, and the grouping keeps its own. *)
Fixpoint uses_prog (i : nat) (adds : list (list cell)) : list op :=
  match adds with
  | [] => []
  | rs :: t => OClone 0 (S i) :: map (OAppend (S i)) rs ++ uses_prog (S i) t
  end.
Definition grouping_prog (ms : list cell) (adds : list (list cell)) : list op :=
  map (OAppend 0) ms ++ uses_prog 0 adds.

Lemma spec_run_app : forall p1 p2 w,
  spec_run w (p1 ++ p2) = match spec_run w p1 with Some w1 => spec_run w1 p2 | None => None end.
Proof.
  induction p1 as [|p t IH]; intros p2 w; simpl; auto.
  destruct (spec_step w p); auto.
Qed.

Lemma spec_run_appends : forall xs w o,
  exists w', spec_run w (map (OAppend o) xs) = Some w' /\ w' o = w o ++ xs /\ (forall k, k <> o -> w' k = w k).
Proof.
  induction xs as [|x t IH]; intros w o; simpl.
  - exists w. split; auto. split; [rewrite app_nil_r; auto|auto].
  - destruct (IH (upd w o (w o ++ [x])) o) as (w' & E & A & O).
    exists w'. split; auto. split.
    + rewrite A, upd_same, <- app_assoc. reflexivity.
    + intros k Hk. rewrite O by auto. apply upd_other. auto.
Qed.

Lemma spec_uses : forall adds i w ms,
  w 0 = ms ->
  exists w', spec_run w (uses_prog i adds) = Some w' /\ w' 0 = ms /\
    (forall j rs, nth_error adds j = Some rs -> w' (S (i + j)) = ms ++ rs) /\
    (forall k, k <= i -> w' k = w k).
Proof.
  induction adds as [|rs t IH]; intros i w ms H0; simpl.
  - exists w. split; auto. split; auto. split; [intros [|j] rs H; discriminate|auto].
  - rewrite spec_run_app.
    destruct (spec_run_appends rs (upd w (S i) (w 0)) (S i)) as (w1 & E1 & A1 & O1).
    rewrite E1.
    assert (H10 : w1 0 = ms) by (rewrite O1 by lia; rewrite upd_other by lia; auto).
    destruct (IH (S i) w1 ms H10) as (w' & E & A0 & AU & AK).
    exists w'. split; auto. split; auto. split.
    + intros [|j] rs' Hn; simpl in Hn.
      * inversion Hn; subst rs'. rewrite Nat.add_0_r. rewrite AK by lia. rewrite A1, upd_same, H0. reflexivity.
      * replace (S (i + S j)) with (S (S i + j)) by lia. apply AU. auto.
    + intros k Hk. rewrite AK by lia. rewrite O1 by lia. apply upd_other. lia.
Qed.

Theorem uses_read_back : forall (ms : list cell) (adds : list (list cell)),
  exists cells, load_and_read true (grouping_prog ms adds) (S (length adds)) = Some cells /\
    nth 0 cells [] = ms /\
    (forall j rs, nth_error adds j = Some rs -> nth (S j) cells [] = ms ++ rs).
Proof.
  intros ms adds. rewrite load_reads_written. unfold spec_read, grouping_prog.
  rewrite spec_run_app.
  destruct (spec_run_appends ms (fun _ => []) 0) as (w1 & E1 & A1 & O1). rewrite E1. simpl in A1.
  destruct (spec_uses adds 0 w1 ms A1) as (w' & E & A0 & AU & AK). rewrite E.
  eexists. split; [reflexivity|]. split.
  - simpl. exact A0.
  - intros j rs Hn. assert (Hj : j < length adds) by (apply nth_error_Some; congruence).
    change (S (length adds)) with (1 + length adds). rewrite seq_app, map_app. simpl.
    rewrite <- (AU j rs Hn). simpl.
    rewrite nth_indep with (d' := w' 0) by (rewrite map_length, seq_length; auto).
    rewrite map_nth with (d := 0). rewrite seq_nth by auto. reflexivity.
Qed.

(** without the [make] in clone() the statement is false: a grouping leaf with three musts (capacity
    four after the builder's appends) used twice, each use refined with one more must - the first
    use reads back the must of the second *)
Definition m_ (b : byte) : cell := [[b]].
Example shared_header_refuted :
  load_and_read false (grouping_prog [m_ x61; m_ x62; m_ x63] [[m_ x37]; [m_ x39]]) 3
  = Some [[m_ x61; m_ x62; m_ x63]; [m_ x61; m_ x62; m_ x63; m_ x39]; [m_ x61; m_ x62; m_ x63; m_ x39]]
  /\ spec_read (grouping_prog [m_ x61; m_ x62; m_ x63] [[m_ x37]; [m_ x39]]) 3
  = Some [[m_ x61; m_ x62; m_ x63]; [m_ x61; m_ x62; m_ x63; m_ x37]; [m_ x61; m_ x62; m_ x63; m_ x39]].
Proof. split; vm_compute; reflexivity. Qed.

(** ---- accessors of the revision list ----------------------------------------------------------- *)
Theorem racc_pure : forall revs calls, racc_run revs calls = map (racc_spec revs) calls.
Proof.
  intros revs calls. induction calls as [|a t IH]; simpl; auto.
  destruct a; simpl; rewrite IH; reflexivity.
Qed.

Definition rv_ (y : byte) : cell := [[x32; x30; x31; y]].
Example racc_sorting_refuted :
  racc_run_sorting [rv_ x39; rv_ x37; rv_ x38] [AHistory; ARevision; AHistory]
  = [[rv_ x39; rv_ x37; rv_ x38]; [rv_ x39]; [rv_ x39; rv_ x38; rv_ x37]]
  /\ map (racc_spec [rv_ x39; rv_ x37; rv_ x38]) [AHistory; ARevision; AHistory]
  = [[rv_ x39; rv_ x37; rv_ x38]; [rv_ x39]; [rv_ x39; rv_ x37; rv_ x38]].
Proof. split; vm_compute; reflexivity. Qed.
