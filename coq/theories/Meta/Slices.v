(** Executable model of the slice-valued fields of the definition objects of package meta
    (musts of Container/List/Leaf/LeafList/Any/RpcInput/RpcOutput, unique of List, rev of Module)
    under the operations that the loader applies to them:
      - Builder.Must / Builder.Unique / Builder.Revision, resolver.refine and applyDeviation "add":
        [m.musts = append(m.musts, x)]                        (meta/core_gen.in addMust, meta/builder.go)
      - clone() of a definition that came from a grouping or an augment:
        [copy := *m; if m.musts != nil { copy.musts = make(..); for i := range .. copy.musts[i] = ..}]
                                                              (meta/core_gen.in clone)
      - applyDeviation "delete": a new slice of the entries that do not match, then setMusts
                                                              (meta/resolver.go applyDeviation)
      - the accessors Module.Revision / RevisionHistory / Revisions (meta/core.go).
    Go slices are modelled as what they are: a header (array, len, cap) over a heap of backing arrays
    that never change their length; [append] writes in place when there is spare capacity and
    allocates otherwise.  A model with plain lists could not express the question the property asks
    of this code - whether what is written on one copy of a grouping node can leak into another. *)
From Coq Require Import List Arith Bool Strings.Byte.
Import ListNotations.

(** the strings of one entry: a must is [expression; error-message; error-app-tag; description;
    reference], a unique is its list of leaf names, a revision is [date; description; reference] *)
Definition cell := list (list byte).

Record slice := mkSlice { s_arr : nat; s_len : nat; s_cap : nat }.
Definition nil_slice := mkSlice 0 0 0.

(** backing arrays by number *)
Definition heap := list (list cell).

Definition arr_of (h : heap) (a : nat) : list cell := nth a h [].

Fixpoint set_nth {A} (i : nat) (x : A) (l : list A) : list A :=
  match l with
  | [] => []
  | y :: t => match i with 0 => x :: t | S j => y :: set_nth j x t end
  end.

(** a[i] = x *)
Definition heap_set (h : heap) (a i : nat) (x : cell) : heap := set_nth a (set_nth i x (arr_of h a)) h.

(** make([]T, n) *)
Definition go_make (h : heap) (n : nat) : heap * slice := (h ++ [repeat [] n], mkSlice (length h) n n).

(** s[i] = x *)
Definition go_store (h : heap) (s : slice) (i : nat) (x : cell) : heap := heap_set h (s_arr s) i x.

(** the elements s[0:len] *)
Definition go_read (h : heap) (s : slice) : list cell := firstn (s_len s) (arr_of h (s_arr s)).

(** runtime.growslice for one more element (doubling below 256 elements; the rounding to allocator
    size classes is not modelled: it only ever enlarges the result, and nothing observable depends on
    the capacity of a freshly allocated array) *)
Definition grow_cap (c : nat) : nat :=
  if c =? 0 then 1 else if c <? 256 then 2 * c else c + (c + 768) / 4.

(** append(s, x) *)
Definition go_append (h : heap) (s : slice) (x : cell) : heap * slice :=
  if s_len s <? s_cap s
  then (heap_set h (s_arr s) (s_len s) x, mkSlice (s_arr s) (S (s_len s)) (s_cap s))
  else (h ++ [go_read h s ++ [x] ++ repeat [] (grow_cap (s_cap s) - S (s_len s))],
        mkSlice (length h) (S (s_len s)) (grow_cap (s_cap s))).

(** for i, x := range xs { s[from+i] = x } *)
Fixpoint store_all (h : heap) (s : slice) (from : nat) (xs : list cell) : heap :=
  match xs with
  | [] => h
  | x :: t => store_all (go_store h s from x) s (S from) t
  end.

(** the field of the copy made by clone().  [fresh = true] is the code as it is: a nil field stays
    nil, anything else gets an array of its own.  [fresh = false] is the variant without the [make]
    (the struct copy's header is kept and the elements are written through it); it is here to show
    that the theorem about [fresh = true] is about something (SlicesProofs.shared_header_refuted). *)
Definition clone_field (fresh : bool) (h : heap) (src : slice) : heap * slice :=
  if s_cap src =? 0 then (h, src)
  else
    let xs := go_read h src in
    let '(h1, dst) := if fresh then go_make h (s_len src) else (h, src) in
    (store_all h1 dst 0 xs, dst).

(** for _, x := range xs { s = append(s, x) } *)
Fixpoint append_all (h : heap) (s : slice) (xs : list cell) : heap * slice :=
  match xs with
  | [] => (h, s)
  | x :: t => let '(h1, s1) := go_append h s x in append_all h1 s1 t
  end.

Fixpoint bytes_eqb (a b : list byte) : bool :=
  match a, b with
  | [], [] => true
  | x :: a', y :: b' => Byte.eqb x y && bytes_eqb a' b'
  | _, _ => false
  end.

Fixpoint bytes_ltb (a b : list byte) : bool :=
  match a, b with
  | _, [] => false
  | [], _ :: _ => true
  | x :: a', y :: b' =>
    if Byte.eqb x y then bytes_ltb a' b' else Nat.ltb (Byte.to_nat x) (Byte.to_nat y)
  end.
Fixpoint strings_eqb (a b : cell) : bool :=
  match a, b with
  | [], [] => true
  | x :: a', y :: b' => bytes_eqb x y && strings_eqb a' b'
  | _, _ => false
  end.
(** sort.Strings *)
Fixpoint insert_str (s : list byte) (l : cell) : cell :=
  match l with
  | [] => [s]
  | t :: r => if bytes_ltb t s then t :: insert_str s r else s :: l
  end.
Definition sort_strings (c : cell) : cell := fold_right insert_str [] c.

(** what "deviate delete" compares.  must: the expression (first string of the entry),
    [candidate.Expression() == must.Expression()]; unique: the leaf names as a set,
    isArrayStringEqual (same length, equal after sort.Strings of copies). *)
Definition cell_key (c : cell) : list byte := hd [] c.
Definition key_is (as_set : bool) (k : cell) (c : cell) : bool :=
  if as_set then Nat.eqb (length k) (length c) && strings_eqb (sort_strings k) (sort_strings c)
  else bytes_eqb (cell_key k) (cell_key c).

(** objects (definitions) are numbered; every object has one slice-valued field *)
Record state := mkState { st_heap : heap; st_fld : nat -> slice }.
Definition init : state := mkState [] (fun _ => nil_slice).

Definition upd {A} (f : nat -> A) (o : nat) (v : A) : nat -> A := fun k => if k =? o then v else f k.

Inductive op :=
| OAppend (o : nat) (x : cell)          (* statement x written on o, or added to o by refine / deviate add *)
| OClone (src dst : nat)                (* dst is the copy of src made by uses / augment *)
| ODelete (o : nat) (key : cell) (as_set : bool).  (* deviate delete { must key; } / { unique key; } on o *)

Definition read (st : state) (o : nat) : list cell := go_read (st_heap st) (st_fld st o).

(** [None]: the load fails (deviate delete of an entry that is not there) *)
Definition step (fresh : bool) (st : state) (p : op) : option state :=
  match p with
  | OAppend o x =>
    let '(h, s) := go_append (st_heap st) (st_fld st o) x in Some (mkState h (upd (st_fld st) o s))
  | OClone src dst =>
    let '(h, s) := clone_field fresh (st_heap st) (st_fld st src) in Some (mkState h (upd (st_fld st) dst s))
  | ODelete o k m =>
    let cur := read st o in
    if existsb (key_is m k) cur then
      let '(h, s) := append_all (st_heap st) nil_slice (filter (fun c => negb (key_is m k c)) cur) in
      Some (mkState h (upd (st_fld st) o s))
    else None
  end.

Fixpoint run (fresh : bool) (st : state) (prog : list op) : option state :=
  match prog with
  | [] => Some st
  | p :: t => match step fresh st p with Some st1 => run fresh st1 t | None => None end
  end.

(** what is read back from objects 0 .. n-1 after the program *)
Definition load_and_read (fresh : bool) (prog : list op) (n : nat) : option (list (list cell)) :=
  match run fresh init prog with
  | Some st => Some (map (read st) (seq 0 n))
  | None => None
  end.

(** SPECIFICATION: what was written.  Every object has the list of its entries; a copy starts with
    the entries of what it was copied from and from then on is an object of its own. *)
Definition written := nat -> list cell.

Definition spec_step (w : written) (p : op) : option written :=
  match p with
  | OAppend o x => Some (upd w o (w o ++ [x]))
  | OClone src dst => Some (upd w dst (w src))
  | ODelete o k m =>
    if existsb (key_is m k) (w o) then Some (upd w o (filter (fun c => negb (key_is m k c)) (w o))) else None
  end.

Fixpoint spec_run (w : written) (prog : list op) : option written :=
  match prog with
  | [] => Some w
  | p :: t => match spec_step w p with Some w1 => spec_run w1 t | None => None end
  end.

Definition spec_read (prog : list op) (n : nat) : option (list (list cell)) :=
  match spec_run (fun _ => []) prog with
  | Some w => Some (map w (seq 0 n))
  | None => None
  end.

(** ---- the accessors of the module's revision list (meta/core.go) as state transformers ---------- *)
Inductive racc := ARevision | AHistory | ARevisions.

(** Module.Revision(): [if len(y.rev) > 0 { return y.rev[0] }; return nil]; the other two return y.rev *)
Definition racc_step (revs : list cell) (a : racc) : list cell * list cell :=
  match a with
  | ARevision => (revs, firstn 1 revs)
  | AHistory | ARevisions => (revs, revs)
  end.

Fixpoint racc_run (revs : list cell) (calls : list racc) : list (list cell) :=
  match calls with
  | [] => []
  | a :: t => let '(revs1, ans) := racc_step revs a in ans :: racc_run revs1 t
  end.

(** what each call has to answer, whatever was called before it *)
Definition racc_spec (written_revs : list cell) (a : racc) : list cell :=
  match a with ARevision => firstn 1 written_revs | _ => written_revs end.

(** a variant of Revision() that first sorts y.rev in place, newest first (a stable insertion sort on
    the date, as sort.SliceStable), to show that the purity theorem is about something *)
Fixpoint insert_desc (c : cell) (l : list cell) : list cell :=
  match l with
  | [] => [c]
  | d :: t => if bytes_ltb (cell_key c) (cell_key d) then d :: insert_desc c t else c :: l
  end.
Definition sort_desc (l : list cell) : list cell := fold_right insert_desc [] l.
Definition racc_step_sorting (revs : list cell) (a : racc) : list cell * list cell :=
  match a with
  | ARevision => (sort_desc revs, firstn 1 (sort_desc revs))
  | AHistory | ARevisions => (revs, revs)
  end.
Fixpoint racc_run_sorting (revs : list cell) (calls : list racc) : list (list cell) :=
  match calls with
  | [] => []
  | a :: t => let '(revs1, ans) := racc_step_sorting revs a in ans :: racc_run_sorting revs1 t
  end.
