// footprint: static write-set extractor for property C20 (DESIGN.md section 5, C20).
//
// Loads the library under test ($YV_REPO, default /repo) with go/packages, builds SSA, computes the
// CHA call graph (interface calls resolved to every implementer, calls through function values to
// every function of that signature) and lists, for every function of the module reachable from the
// API entry points of each operation class,
//
//	load : parser.LoadModule*, RequireModule
//	use  : Browser.Root*, Selection.{Find,Constrain,UpsertFrom,UpsertInto,...}, nodeutil.{WriteJSON,WriteXML,ReadJSON,...}
//
// the instructions that may write shared state:
//
//	global      store to a package-level variable of the module (or to something reached from it)
//	globaladdr  the address of a package-level variable (or of a part of it, "[addr]") escapes into a call / another object
//	metafield   store to a field of a struct type declared in package meta (not a fresh local object), or
//	            ("[addr]") the address of such a field escapes into a call / another object
//	metamap     map update / delete on a map held in a field of a meta type
//	metaslice   element store / append / copy on a slice held in a field of a meta type
//	metatype    map or slice of unknown origin whose type mentions meta types
//
// Output: a Coq file (Definition fp : footprint := ...) for Conc/Footprint.v's obligations and, with
// -json, the same as JSON. Reflection-based writes and writes through unsafe are invisible.
package main

import (
	"encoding/json"
	"flag"
	"fmt"
	"go/token"
	"go/types"
	"os"
	"path/filepath"
	"sort"
	"strings"
	"time"

	"golang.org/x/tools/go/callgraph"
	"golang.org/x/tools/go/callgraph/cha"
	"golang.org/x/tools/go/packages"
	"golang.org/x/tools/go/ssa"
	"golang.org/x/tools/go/ssa/ssautil"
)

const modPath = "github.com/freeconf/yang"

type entry struct {
	class string // load | use
	pkg   string // package path relative to module
	recv  string // receiver type name ("" for functions)
	name  string
}

var entries = []entry{
	{"load", "parser", "", "LoadModule"},
	{"load", "parser", "", "RequireModule"},
	{"load", "parser", "", "LoadModuleFromString"},
	{"load", "parser", "", "LoadModuleFromStringWithOptions"},
	{"load", "parser", "", "LoadModuleWithOptions"},

	{"use", "node", "Browser", "Root"},
	{"use", "node", "Browser", "RootWithContext"},
	{"use", "node", "Selection", "Find"},
	{"use", "node", "Selection", "Constrain"},
	{"use", "node", "Selection", "UpsertFrom"},
	{"use", "node", "Selection", "UpsertInto"},
	{"use", "node", "Selection", "InsertFrom"},
	{"use", "node", "Selection", "InsertInto"},
	{"use", "node", "Selection", "UpdateFrom"},
	{"use", "node", "Selection", "UpdateInto"},
	{"use", "node", "Selection", "ReplaceFrom"},
	{"use", "node", "Selection", "Delete"},
	{"use", "node", "Selection", "GetValue"},
	{"use", "node", "Selection", "Action"},
	{"use", "nodeutil", "", "WriteJSON"},
	{"use", "nodeutil", "", "WritePrettyJSON"},
	{"use", "nodeutil", "", "WriteXML"},
	{"use", "nodeutil", "", "ReadJSON"},
	{"use", "nodeutil", "", "ReflectChild"},
}

type rec struct {
	Class string `json:"class"`
	Func  string `json:"func"`
	Kind  string `json:"kind"`
	Name  string `json:"name"`
	Pos   string `json:"pos"`
}

type output struct {
	Repo       string         `json:"repo"`
	Entries    []string       `json:"entries"` // class:name found
	Missing    []string       `json:"missing"`
	Reach      map[string]int `json:"reach"` // in-module functions reachable per class
	ReachAll   map[string]int `json:"reach_all"`
	LoadParams []string       `json:"load_params"`
	Writes     []rec          `json:"writes"`
	Packages   int            `json:"packages"`
}

type analyzer struct {
	prog *ssa.Program
	repo string
}

func inModule(p *types.Package) bool {
	return p != nil && (p.Path() == modPath || strings.HasPrefix(p.Path(), modPath+"/"))
}

func isMetaPkg(p *types.Package) bool { return p != nil && p.Path() == modPath+"/meta" }

func deref(t types.Type) types.Type {
	if p, ok := t.Underlying().(*types.Pointer); ok {
		return p.Elem()
	}
	return t
}

func namedOf(t types.Type) *types.Named {
	t = types.Unalias(t)
	if n, ok := t.(*types.Named); ok {
		return n
	}
	return nil
}

// mentionsMeta: the type is, points to, or is a container of, a type declared in package meta
func mentionsMeta(t types.Type, depth int) bool {
	if depth > 6 {
		return false
	}
	t = types.Unalias(t)
	switch t := t.(type) {
	case *types.Named:
		if isMetaPkg(t.Obj().Pkg()) {
			return true
		}
		return false
	case *types.Pointer:
		return mentionsMeta(t.Elem(), depth+1)
	case *types.Slice:
		return mentionsMeta(t.Elem(), depth+1)
	case *types.Array:
		return mentionsMeta(t.Elem(), depth+1)
	case *types.Map:
		return mentionsMeta(t.Key(), depth+1) || mentionsMeta(t.Elem(), depth+1)
	}
	return false
}

type origin struct {
	kind string // global | metafield | fresh | unknown
	name string
}

// originOf traces where the object written through v lives.
func (a *analyzer) originOf(v ssa.Value, seen map[ssa.Value]bool) []origin {
	if seen[v] || len(seen) > 64 {
		return nil
	}
	seen[v] = true
	switch v := v.(type) {
	case *ssa.Global:
		if v.Pkg != nil && inModule(v.Pkg.Pkg) {
			return []origin{{"global", v.Pkg.Pkg.Path()[len(modPath):] + "." + v.Name()}}
		}
		return []origin{{"fresh", ""}} // another module's global: not the library's state
	case *ssa.FieldAddr:
		st, _ := deref(v.X.Type()).Underlying().(*types.Struct)
		fname := "?"
		if st != nil && v.Field < st.NumFields() {
			fname = st.Field(v.Field).Name()
		}
		base := a.originOf(v.X, seen)
		if n := namedOf(deref(v.X.Type())); n != nil && isMetaPkg(n.Obj().Pkg()) {
			allFresh := len(base) > 0
			for _, b := range base {
				if b.kind != "fresh" {
					allFresh = false
				}
			}
			if allFresh {
				return []origin{{"fresh", ""}}
			}
			res := []origin{{"metafield", n.Obj().Name() + "." + fname}}
			for _, b := range base {
				if b.kind == "global" {
					res = append(res, b)
				}
			}
			return res
		}
		var res []origin
		for _, b := range base {
			switch b.kind {
			case "global":
				res = append(res, origin{"global", b.name + "." + fname})
			case "metafield":
				res = append(res, origin{"metafield", b.name + "." + fname})
			default:
				res = append(res, b)
			}
		}
		return res
	case *ssa.Field:
		return a.originOf(v.X, seen)
	case *ssa.IndexAddr:
		return a.originOf(v.X, seen)
	case *ssa.Index:
		return a.originOf(v.X, seen)
	case *ssa.UnOp:
		if v.Op == token.MUL {
			return a.originOf(v.X, seen)
		}
		return []origin{{"unknown", ""}}
	case *ssa.Phi:
		var res []origin
		for _, e := range v.Edges {
			res = append(res, a.originOf(e, seen)...)
		}
		return res
	case *ssa.ChangeType:
		return a.originOf(v.X, seen)
	case *ssa.Convert:
		return a.originOf(v.X, seen)
	case *ssa.Slice:
		return a.originOf(v.X, seen)
	case *ssa.SliceToArrayPointer:
		return a.originOf(v.X, seen)
	case *ssa.Alloc, *ssa.MakeMap, *ssa.MakeSlice, *ssa.MakeChan, *ssa.Const:
		return []origin{{"fresh", ""}}
	}
	return []origin{{"unknown", ""}}
}

func (a *analyzer) pos(p token.Pos, fn *ssa.Function) string {
	if !p.IsValid() && fn != nil {
		p = fn.Pos()
	}
	if !p.IsValid() {
		return "?"
	}
	ps := a.prog.Fset.Position(p)
	f := ps.Filename
	if rel, err := filepath.Rel(a.repo, f); err == nil && !strings.HasPrefix(rel, "..") {
		f = rel
	}
	return fmt.Sprintf("%s:%d", f, ps.Line)
}

func fnName(fn *ssa.Function) string {
	s := fn.String()
	return strings.ReplaceAll(s, modPath+"/", "")
}

func fnPkg(fn *ssa.Function) *types.Package {
	for f := fn; f != nil; f = f.Parent() {
		if f.Pkg != nil {
			return f.Pkg.Pkg
		}
	}
	if o := fn.Origin(); o != nil && o.Pkg != nil {
		return o.Pkg.Pkg
	}
	return nil
}

// scan lists the possibly-shared writes of one function
func (a *analyzer) scan(fn *ssa.Function, emit func(kind, name string, p token.Pos)) {
	report := func(addr ssa.Value, what string, containerType types.Type, p token.Pos) {
		os := a.originOf(addr, map[ssa.Value]bool{})
		for _, o := range os {
			switch o.kind {
			case "global":
				emit("global", o.name+what, p)
			case "metafield":
				switch what {
				case "":
					emit("metafield", o.name, p)
				case "[map]":
					emit("metamap", o.name, p)
				default:
					emit("metaslice", o.name+what, p)
				}
			case "unknown":
				if what != "" && containerType != nil && mentionsMeta(containerType, 0) {
					emit("metatype", types.TypeString(containerType, func(p *types.Package) string { return p.Name() })+what, p)
				}
			}
		}
	}
	// the address of a field (or element) of a non-fresh meta object / of a global handed to a
	// callee or stored away: the holder may write through it (method calls with a value-typed
	// field as pointer receiver, out-parameters)
	escapes := func(v ssa.Value, p token.Pos) {
		switch v.(type) {
		case *ssa.FieldAddr, *ssa.IndexAddr:
		default:
			return
		}
		for _, o := range a.originOf(v, map[ssa.Value]bool{}) {
			switch o.kind {
			case "global":
				emit("globaladdr", o.name+"[addr]", p)
			case "metafield":
				emit("metafield", o.name+"[addr]", p)
			}
		}
	}
	for _, b := range fn.Blocks {
		for _, ins := range b.Instrs {
			switch ins := ins.(type) {
			case *ssa.Store:
				escapes(ins.Val, ins.Pos())
				what := ""
				var ct types.Type
				if ia, ok := ins.Addr.(*ssa.IndexAddr); ok {
					what = "[]"
					ct = ia.X.Type()
				}
				report(ins.Addr, what, ct, ins.Pos())
				// the address of a module global stored somewhere
				if g, ok := ins.Val.(*ssa.Global); ok && g.Pkg != nil && inModule(g.Pkg.Pkg) {
					emit("globaladdr", g.Pkg.Pkg.Path()[len(modPath):]+"."+g.Name(), ins.Pos())
				}
			case *ssa.MapUpdate:
				report(ins.Map, "[map]", ins.Map.Type(), ins.Pos())
			case ssa.CallInstruction:
				c := ins.Common()
				if bi, ok := c.Value.(*ssa.Builtin); ok && len(c.Args) > 0 {
					switch bi.Name() {
					case "delete":
						report(c.Args[0], "[map]", c.Args[0].Type(), ins.Pos())
					case "copy":
						report(c.Args[0], "[copy]", c.Args[0].Type(), ins.Pos())
					case "append":
						report(c.Args[0], "[append]", nil, ins.Pos())
					case "clear":
						report(c.Args[0], "[clear]", c.Args[0].Type(), ins.Pos())
					}
				}
				for _, arg := range c.Args {
					if g, ok := arg.(*ssa.Global); ok && g.Pkg != nil && inModule(g.Pkg.Pkg) {
						emit("globaladdr", g.Pkg.Pkg.Path()[len(modPath):]+"."+g.Name(), ins.Pos())
					}
					escapes(arg, ins.Pos())
				}
			case *ssa.MakeInterface:
				if g, ok := ins.X.(*ssa.Global); ok && g.Pkg != nil && inModule(g.Pkg.Pkg) {
					emit("globaladdr", g.Pkg.Pkg.Path()[len(modPath):]+"."+g.Name(), ins.Pos())
				}
			case *ssa.MakeClosure:
				for _, bnd := range ins.Bindings {
					if g, ok := bnd.(*ssa.Global); ok && g.Pkg != nil && inModule(g.Pkg.Pkg) {
						emit("globaladdr", g.Pkg.Pkg.Path()[len(modPath):]+"."+g.Name(), ins.Pos())
					}
				}
			}
		}
	}
}

func coqStr(s string) string {
	var b strings.Builder
	b.WriteByte('"')
	for _, r := range s {
		switch {
		case r == '"':
			b.WriteString(`""`)
		case r < 32 || r > 126:
			b.WriteByte('?')
		default:
			b.WriteRune(r)
		}
	}
	b.WriteByte('"')
	return b.String()
}

func main() {
	repo := flag.String("repo", os.Getenv("YV_REPO"), "tree under test")
	outv := flag.String("o", "", "Coq output file")
	outj := flag.String("json", "", "JSON output file")
	pathTo := flag.String("path", "", "debug: print a call path from the roots of -pathclass to the function whose name contains this")
	pathClass := flag.String("pathclass", "use", "debug: class for -path")
	flag.Parse()
	if *repo == "" {
		*repo = "/repo"
	}
	abs, _ := filepath.Abs(*repo)
	t0 := time.Now()
	lap := func(what string) {
		if os.Getenv("FOOTPRINT_TIMING") != "" {
			fmt.Fprintf(os.Stderr, "%s: %.1fs\n", what, time.Since(t0).Seconds())
		}
	}
	cfg := &packages.Config{
		Mode: packages.NeedName | packages.NeedFiles | packages.NeedCompiledGoFiles | packages.NeedImports |
			packages.NeedDeps | packages.NeedTypes | packages.NeedSyntax | packages.NeedTypesInfo | packages.NeedTypesSizes | packages.NeedModule,
		Dir: abs,
		Env: os.Environ(),
	}
	// the library packages (commands under cmd/ are programs built on the library, not part of it)
	pats := []string{"./..."}
	if lp, e := packages.Load(&packages.Config{Mode: packages.NeedName, Dir: abs, Env: os.Environ()}, "./..."); e == nil {
		pats = nil
		for _, p := range lp {
			if p.Name != "main" && !strings.Contains(p.PkgPath, "/cmd/") {
				pats = append(pats, p.PkgPath)
			}
		}
	}
	pkgs, err := packages.Load(cfg, pats...)
	if err != nil {
		fmt.Fprintln(os.Stderr, "load:", err)
		os.Exit(3)
	}
	lap("packages.Load")
	nerr := 0
	packages.Visit(pkgs, nil, func(p *packages.Package) {
		for _, e := range p.Errors {
			if nerr < 10 {
				fmt.Fprintln(os.Stderr, "package error:", e)
			}
			nerr++
		}
	})
	if nerr > 0 {
		os.Exit(3) // the tree does not compile: no verdict
	}
	prog, _ := ssautil.AllPackages(pkgs, ssa.InstantiateGenerics)
	prog.Build()
	lap("ssa build")
	a := &analyzer{prog: prog, repo: abs}
	cg := cha.CallGraph(prog)
	lap("cha")

	out := output{Repo: abs, Reach: map[string]int{}, ReachAll: map[string]int{}, Packages: len(pkgs)}
	roots := map[string][]*ssa.Function{}
	for _, e := range entries {
		var fn *ssa.Function
		if sp := prog.ImportedPackage(modPath + "/" + e.pkg); sp != nil {
			if e.recv == "" {
				fn = sp.Func(e.name)
			} else if t := sp.Type(e.recv); t != nil {
				fn = prog.LookupMethod(types.NewPointer(t.Type()), sp.Pkg, e.name)
				if fn == nil {
					fn = prog.LookupMethod(t.Type(), sp.Pkg, e.name)
				}
			}
		}
		label := e.class + ":" + e.pkg + "."
		if e.recv != "" {
			label += e.recv + "."
		}
		label += e.name
		if fn == nil {
			out.Missing = append(out.Missing, label)
			continue
		}
		out.Entries = append(out.Entries, label)
		roots[e.class] = append(roots[e.class], fn)
		if e.class == "load" {
			sig := fn.Signature
			for i := 0; i < sig.Params().Len(); i++ {
				out.LoadParams = append(out.LoadParams, types.TypeString(sig.Params().At(i).Type(), func(p *types.Package) string { return p.Name() }))
			}
		}
	}
	sort.Strings(out.LoadParams)
	out.LoadParams = uniq(out.LoadParams)

	if *pathTo != "" {
		prev := map[*ssa.Function]*ssa.Function{}
		var q []*ssa.Function
		for _, r := range roots[*pathClass] {
			prev[r] = nil
			q = append(q, r)
		}
		for len(q) > 0 {
			f := q[0]
			q = q[1:]
			if strings.Contains(f.String(), *pathTo) {
				for g := f; g != nil; g = prev[g] {
					fmt.Println("  <-", g.String())
				}
				return
			}
			if n := cg.Nodes[f]; n != nil {
				for _, e := range n.Out {
					if _, ok := prev[e.Callee.Func]; !ok {
						prev[e.Callee.Func] = f
						q = append(q, e.Callee.Func)
					}
				}
			}
		}
		fmt.Println("no path")
		return
	}
	seenRec := map[string]bool{}
	for _, class := range []string{"load", "use"} {
		reach := map[*ssa.Function]bool{}
		var stack []*callgraph.Node
		for _, r := range roots[class] {
			if n := cg.Nodes[r]; n != nil && !reach[r] {
				reach[r] = true
				stack = append(stack, n)
			}
		}
		for len(stack) > 0 {
			n := stack[len(stack)-1]
			stack = stack[:len(stack)-1]
			for _, e := range n.Out {
				f := e.Callee.Func
				if f != nil && !reach[f] {
					reach[f] = true
					stack = append(stack, e.Callee)
				}
			}
		}
		out.ReachAll[class] = len(reach)
		var fns []*ssa.Function
		for fn := range reach {
			if inModule(fnPkg(fn)) && fn.Blocks != nil {
				fns = append(fns, fn)
			}
		}
		sort.Slice(fns, func(i, j int) bool { return fns[i].String() < fns[j].String() })
		for _, fn := range fns {
			out.Reach[class]++
			name := fnName(fn)
			if strings.HasSuffix(name, ".init") || strings.Contains(name, ".init#") {
				// package initialisers run once before main (happens-before everything)
				continue
			}
			a.scan(fn, func(kind, lname string, p token.Pos) {
				key := class + "|" + name + "|" + kind + "|" + lname
				if class == "load" && strings.HasPrefix(kind, "meta") {
					// a load may write the meta objects it builds: one record per location is enough
					key = class + "|" + kind + "|" + lname
				}
				if seenRec[key] {
					return
				}
				seenRec[key] = true
				out.Writes = append(out.Writes, rec{class, name, kind, lname, a.pos(p, fn)})
			})
		}
	}
	sort.Slice(out.Writes, func(i, j int) bool {
		x, y := out.Writes[i], out.Writes[j]
		if x.Class != y.Class {
			return x.Class < y.Class
		}
		if x.Kind != y.Kind {
			return x.Kind < y.Kind
		}
		if x.Name != y.Name {
			return x.Name < y.Name
		}
		return x.Func < y.Func
	})
	sort.Strings(out.Entries)
	sort.Strings(out.Missing)

	if *outj != "" {
		b, _ := json.MarshalIndent(out, "", " ")
		os.WriteFile(*outj, b, 0o644)
	}
	if *outv != "" {
		var b strings.Builder
		b.WriteString("(* GENERATED by tools/footprint on every run of bin/check C20 - do not edit, do not commit. *)\n")
		b.WriteString("From Coq Require Import List String.\nFrom YV Require Import Conc.Footprint.\nImport ListNotations.\nOpen Scope string_scope.\n")
		b.WriteString("Definition fp : footprint := {|\n fp_entries := [")
		for i, e := range out.Entries {
			if i > 0 {
				b.WriteString("; ")
			}
			b.WriteString(coqStr(e))
		}
		b.WriteString("];\n fp_missing := [")
		for i, e := range out.Missing {
			if i > 0 {
				b.WriteString("; ")
			}
			b.WriteString(coqStr(e))
		}
		fmt.Fprintf(&b, "];\n fp_reach_load := %d; fp_reach_use := %d;\n fp_load_params := [", out.Reach["load"], out.Reach["use"])
		for i, e := range out.LoadParams {
			if i > 0 {
				b.WriteString("; ")
			}
			b.WriteString(coqStr(e))
		}
		b.WriteString("];\n fp_writes := [\n")
		for i, w := range out.Writes {
			if i > 0 {
				b.WriteString(";\n")
			}
			cls := "Load"
			if w.Class == "use" {
				cls = "Use"
			}
			kind := map[string]string{"global": "KGlobal", "globaladdr": "KGlobalAddr", "metafield": "KMetaField",
				"metamap": "KMetaMap", "metaslice": "KMetaSlice", "metatype": "KMetaType"}[w.Kind]
			fn, pos := w.Func, w.Pos
			if w.Class == "load" && strings.HasPrefix(w.Kind, "meta") {
				// always allowed (Conc/Footprint.v load_allowed); function and position are in the JSON output
				fn, pos = "", ""
			}
			fmt.Fprintf(&b, "  mkW %s %s %s %s %s", cls, kind, coqStr(w.Name), coqStr(fn), coqStr(pos))
		}
		b.WriteString("\n] |}.\n")
		b.WriteString(`
Definition offs := Eval vm_compute in offenders fp.
Print offs.
Definition diag := Eval vm_compute in diagnose fp.
Print diag.
(* the obligations: a failure here is a failed proof obligation of property C20 *)
Theorem footprint_obligations : obligations_ok fp = true.
Proof. vm_compute. reflexivity. Qed.
Theorem use_writes_nothing_shared :
  forall w, In w (fp_writes fp) -> w_class w = Use -> use_allowed w = true.
Proof. exact (obligations_use fp footprint_obligations). Qed.
Theorem load_writes_no_package_variable :
  (forall w, In w (fp_writes fp) -> w_class w = Load -> w_kind w <> KGlobal) /\
  (forall p, In p (fp_load_params fp) -> In p load_params_allowed).
Proof. exact (obligations_load fp footprint_obligations). Qed.
Theorem every_entry_point_analysed : forall e, In e required_entries -> In e (fp_entries fp).
Proof. exact (obligations_entries fp footprint_obligations). Qed.
Print Assumptions footprint_obligations.
Print Assumptions use_writes_nothing_shared.
Print Assumptions load_writes_no_package_variable.
`)
		os.WriteFile(*outv, []byte(b.String()), 0o644)
	}
	if *outv == "" && *outj == "" {
		b, _ := json.MarshalIndent(out, "", " ")
		os.Stdout.Write(b)
	}
}

func uniq(s []string) []string {
	var r []string
	for i, x := range s {
		if i == 0 || x != s[i-1] {
			r = append(r, x)
		}
	}
	return r
}
