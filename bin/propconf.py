"""Per-property configuration of bin/check: static parts of the trusted base and assumptions.
Everything measured (counts, theorem names, Print Assumptions output) is produced by the run."""

COMMON_ASSUMPTIONS = [
    "the hand-written Gallina model is the code only as far as this run's correspondence check shows (generated inputs listed under coverage)",
    "harness code (generators, Gallina term printer, observation of the library through its exported API) is trusted",
]

HOOK_COMMITS = []
NOT_APPLICABLE = {}

PROPS = {
    "C17": {
        "level_text": "Theorems (Props/C17.v, no axioms): for every pair of well-formed values of one format, Compare has the sign of the mathematical comparison of what they denote (all signed/unsigned widths over the whole range, decimal as m*2^e, byte-lexicographic strings, enum ids, booleans); antisymmetry, transitivity, zero-iff-same-denotation; Equal decides an equivalence; CompareVals is lexicographic. Unbounded over the model; the model is tied to the code by exhaustive 8-bit tables (131072 pairs), boundary-set tables of the wider formats, random tuples and keyed lookups on Reflect/Node slice lists, all classified by vm_compute each run.",
        "level_note": "Trusted: Coq kernel+vm_compute; hand-written model (Val/Model.v) tied by differential check only; IEEE sign-of-difference fact; sort.Sort abstracted; harness code. Lookup theorems: see evidence theorems list.",
        "trusted_base": [
            "model Val/Model.v hand-written from val/types.go, val/util.go, nodeutil/reflect.go (sliceSorter), nodeutil/node_slice.go (findByKey)",
            "IEEE-754: for finite float64 x,y the sign of the float result x-y is the sign of the exact difference (Decimal64.Compare); math.Frexp decomposition in the harness",
            "Go sort.Sort abstracted as 'yields the sorted permutation' (insertion sort is the executable representative); sort.Search transcribed",
            "strings.Compare / bytes.Compare modelled as bytewise lexicographic comparison",
        ],
        "assumptions": ["enum ids within int32 (YANG enum value range); decimal64 values finite"],
    },
}
