"""Per-property configuration of bin/check. One JSON file per claimed property in bin/props.d/
(keys: level_text, level_note, trusted_base, assumptions, optional technique, design_ref, coqchk,
claimed). An optional bin/props.d/<ID>_pre.py may define pre(prop, tier, seed, outdir, evidence,
lines) -> exit code contribution, run before the harness (used by checks with a generated Coq file).
Everything measured (counts, theorem names, Print Assumptions output) is produced by the run."""
import glob
import importlib.util
import json
import os

HERE = os.path.dirname(os.path.abspath(__file__))

COMMON_ASSUMPTIONS = [
    "the hand-written Gallina model is the code only as far as this run's correspondence check shows (generated inputs listed under coverage)",
    "harness code (generators, Gallina term printer, observation of the library through its exported API) is trusted",
]
HOOK_COMMITS = []
NOT_APPLICABLE = {}

PROPS = {}
for path in sorted(glob.glob(os.path.join(HERE, "props.d", "C*.json"))):
    pid = os.path.basename(path)[:-5]
    PROPS[pid] = json.load(open(path))
    pre = os.path.join(HERE, "props.d", pid + "_pre.py")
    if os.path.exists(pre):
        spec = importlib.util.spec_from_file_location(pid + "_pre", pre)
        mod = importlib.util.module_from_spec(spec)
        spec.loader.exec_module(mod)
        PROPS[pid]["pre"] = mod.pre
hooks = os.path.join(os.path.dirname(HERE), "MANIFEST.hooks")
if os.path.exists(hooks):
    for line in open(hooks):
        line = line.strip()
        if line.startswith("commit:"):
            HOOK_COMMITS.append(line.split(":", 1)[1].strip())
