"""C20 pre-hook: the static side of the check (DESIGN.md section 5, C20).

On every run: build tools/footprint, run it on the tree under test ($YV_REPO), which writes
.work/<outdir>/Footprint_gen.v (Definition fp : footprint := ... followed by the obligations of
Conc/Footprint.v), and compile that file with coqc. A failed obligation = a broken proof obligation
of C20: the offending store instructions (function, location, file:line) printed by Coq go into a
replay file and a VIOLATION line. While the extractor runs, the -race build of harness/race is
started in the background so that the harness finds it in the Go build cache."""
import hashlib
import json
import os
import re
import shutil
import subprocess
import threading
import time

ROOT = os.path.dirname(os.path.dirname(os.path.dirname(os.path.abspath(__file__))))
WORK = os.path.join(ROOT, ".work")


def _env():
    return dict(os.environ, GOFLAGS="-mod=mod", GOPROXY="off", GOSUMDB="off", GOTOOLCHAIN="local", CGO_ENABLED="1",
                GOCACHE=os.environ.get("YV_GOCACHE", os.path.join(WORK, "gocache")))


def _run(cmd, cwd, timeout):
    p = subprocess.run(cmd, cwd=cwd, env=_env(), timeout=timeout, stdout=subprocess.PIPE, stderr=subprocess.STDOUT, text=True)
    return p.returncode, p.stdout


def _warm_race_build():
    try:
        os.makedirs(os.path.join(WORK, "C20bin"), exist_ok=True)
        _run(["go", "build", "-race", "-modfile", os.path.join(WORK, "go.mod"), "-tags", "verif",
              "-o", os.path.join(WORK, "C20bin", "racer"), "./race"], os.path.join(ROOT, "harness"), 1800)
    except Exception:
        pass


def _tree_key(repo, tool):
    """content hash of everything the extractor's output depends on: every .go/go.mod/go.sum file of the
    tree under test, the extractor binary, the Go version. Used only to skip re-running the extractor on a
    byte-identical tree (FOOTPRINT_NOCACHE=1 disables); the obligations are compiled by coqc every run."""
    h = hashlib.sha256()
    try:
        h.update(open(tool, "rb").read())
        h.update(subprocess.run(["go", "version"], env=_env(), stdout=subprocess.PIPE).stdout)
        files = []
        for d, dirs, fs in os.walk(repo):
            dirs[:] = sorted(x for x in dirs if x not in (".git",))
            for f in sorted(fs):
                if f.endswith(".go") or f in ("go.mod", "go.sum"):
                    files.append(os.path.join(d, f))
        for f in files:
            h.update(os.path.relpath(f, repo).encode() + b"\0")
            h.update(hashlib.sha256(open(f, "rb").read()).digest())
    except OSError:
        return None
    return h.hexdigest()


def _parse_offenders(out):
    """records printed by `Print offs.`: mkW cls kind "name" "fn" "pos" (Coq prints record syntax)"""
    m = re.search(r"offs\s*=\s*(.*?)\n\s*:\s*list wrec", out, re.S)
    if not m:
        return []
    body = re.sub(r"\s+", " ", m.group(1))
    res = []
    for r in re.finditer(r'w_class := (\w+); w_kind := (\w+); w_name := "((?:[^"]|"")*)"; w_fn := "((?:[^"]|"")*)"; w_pos := "((?:[^"]|"")*)"', body):
        res.append({"class": r.group(1), "kind": r.group(2), "location": r.group(3), "function": r.group(4), "position": r.group(5)})
    if not res:
        for r in re.finditer(r'mkW (\w+) (\w+) "((?:[^"]|"")*)" "((?:[^"]|"")*)" "((?:[^"]|"")*)"', body):
            res.append({"class": r.group(1), "kind": r.group(2), "location": r.group(3), "function": r.group(4), "position": r.group(5)})
    return res


def pre(prop, tier, seed, outdir, evidence, lines):
    t0 = time.time()
    repo = os.environ.get("YV_REPO", "/repo")
    os.makedirs(outdir, exist_ok=True)
    cov = evidence.setdefault("coverage", {})
    info = {"extractor": "tools/footprint (go/packages + go/ssa + callgraph/cha, golang.org/x/tools v0.29.0)"}
    cov["footprint"] = info
    warm = threading.Thread(target=_warm_race_build, daemon=True)
    warm.start()
    tool = os.path.join(WORK, "footprint")
    rc, out = _run(["go", "build", "-o", tool, "."], os.path.join(ROOT, "tools", "footprint"), 1800)
    if rc != 0:
        print(out[-3000:])
        info["error"] = "extractor does not build"
        return 4
    gen = os.path.join(outdir, "Footprint_gen.v")
    js = os.path.join(outdir, "footprint.json")
    for f in (gen, js):
        if os.path.exists(f):
            os.remove(f)
    key = None if os.environ.get("FOOTPRINT_NOCACHE") else _tree_key(repo, tool)
    cdir = os.path.join(WORK, "footprint-cache")
    hit = False
    if key and os.path.exists(os.path.join(cdir, key + ".v")) and os.path.exists(os.path.join(cdir, key + ".json")):
        shutil.copyfile(os.path.join(cdir, key + ".v"), gen)
        shutil.copyfile(os.path.join(cdir, key + ".json"), js)
        hit = True
    else:
        rc, out = _run([tool, "-repo", repo, "-o", gen, "-json", js], ROOT, 1800)
        if rc != 0 or not os.path.exists(gen):
            print(out[-3000:])
            info["error"] = "extractor failed (rc=%d)" % rc
            return 3 if rc == 3 else 4
        if key:
            os.makedirs(cdir, exist_ok=True)
            old = sorted((os.path.getmtime(os.path.join(cdir, f)), f) for f in os.listdir(cdir))
            for _, f in old[:-40]:
                os.remove(os.path.join(cdir, f))
            shutil.copyfile(gen, os.path.join(cdir, key + ".v"))
            shutil.copyfile(js, os.path.join(cdir, key + ".json"))
    info["extractor_output_reused_for_identical_tree"] = hit
    fp = json.load(open(js))
    info["entry_points"] = fp["entries"]
    info["reachable_library_functions"] = fp["reach"]
    info["reachable_functions_all"] = fp["reach_all"]
    info["records"] = len(fp["writes"])
    kinds = {}
    for w in fp["writes"]:
        k = w["class"] + ":" + w["kind"]
        kinds[k] = kinds.get(k, 0) + 1
    info["records_by_class_and_kind"] = kinds
    info["use_records"] = [w for w in fp["writes"] if w["class"] == "use"][:20]
    info["extract_s"] = round(time.time() - t0, 1)
    t1 = time.time()
    rc, cout = _run(["coqc", "-R", os.path.join(ROOT, "coq", "theories"), "YV", "Footprint_gen.v"], outdir, 1800)
    for ext in ("vo", "vok", "vos", "glob"):
        try:
            os.remove(os.path.join(outdir, "Footprint_gen." + ext))
        except OSError:
            pass
    info["coqc_s"] = round(time.time() - t1, 1)
    info["generated_obligations"] = ["footprint_obligations", "use_writes_nothing_shared", "load_writes_no_package_variable",
                                     "every_entry_point_analysed"]
    warm.join(timeout=1800)
    if rc == 0 and cout.count("Closed under the global context") >= 3:
        info["generated_obligations_discharged"] = 4
        info["verdict"] = "obligations hold"
        return 0
    info["generated_obligations_discharged"] = 0
    offenders = _parse_offenders(cout)
    dm = re.search(r"diag\s*=\s*\[(.*?)\]", cout, re.S)
    failed = re.findall(r'"([^"]+)"', dm.group(1)) if dm else []
    info["verdict"] = "obligations FAILED: " + ", ".join(failed)
    rcg, head = _run(["git", "-C", repo, "rev-parse", "HEAD"], ROOT, 60)
    rcs, st = _run(["git", "-C", repo, "status", "--porcelain"], ROOT, 60)
    rep = {"property": prop, "seed": seed, "tier": tier, "repo_head": head.strip() + ("+dirty" if st.strip() else ""),
           "broken": "generated proof obligation footprint_obligations (Conc/Footprint.v over tools/footprint output): " +
                     (", ".join(failed) or "coqc failed"),
           "offending_writes": offenders[:20],
           "missing_entry_points": fp.get("missing", []),
           "how_to_read": "each offending write is a store instruction reachable (CHA) from the API entry points of its class: "
                          "class Use = operations on a browser over a shared compiled module must not write package-level variables "
                          "or meta objects; class Load = loading a module must not write package-level variables",
           "coqc_tail": cout[-1200:] if not offenders else ""}
    d = os.path.join(ROOT, "replays")
    os.makedirs(d, exist_ok=True)
    path = os.path.join(d, "%s-seed%s-%s-static-%d.json" % (prop, seed, tier, int(time.time() * 1000) % 100000000))
    with open(path, "w") as f:
        json.dump(rep, f, indent=1)
    lines.append("VIOLATION property=%s replay=%s" % (prop, path))
    evidence["violations"] = evidence.get("violations", 0) + max(1, len(offenders))
    return 1
