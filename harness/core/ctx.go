// Package core: the case sink shared by all property sub-commands. A sub-command drives the real
// library (github.com/freeconf/yang => /repo working tree) and records, for every case, the Gallina
// term of (input, observed) and a JSON description; Coq classifies, the orchestrator reports.
package core

import (
	"bufio"
	"crypto/sha256"
	"encoding/json"
	"fmt"
	"os"
	"path/filepath"
	"sort"
)

type Ctx struct {
	Prop     string
	Seed     uint64
	Tier     string // quick | thorough | search
	OutDir   string
	Only     int // >= 0: emit only this case index
	Explode  int // >= 0: expand this (table) case into individual cases
	ShardMax int // max bytes of terms per shard file

	cases    []string
	descs    []json.RawMessage
	hashes   map[[32]byte]bool
	nontriv  int
	Hist     map[string]int
	Rule     string
	Samples  []interface{}
	Extra    map[string]interface{}
	Imports  string // Coq Require line(s) for the case file
	CaseType string
	Classify string
}

func NewCtx(prop string) *Ctx {
	return &Ctx{Prop: prop, Only: -1, Explode: -1, ShardMax: 400000, hashes: map[[32]byte]bool{},
		Hist: map[string]int{}, Extra: map[string]interface{}{}, CaseType: "case", Classify: "classify"}
}

func (c *Ctx) Thorough() bool { return c.Tier == "thorough" || c.Tier == "search" }

// Scale returns q in the quick tier and t otherwise.
func (c *Ctx) Scale(q, t int) int {
	if c.Thorough() {
		return t
	}
	return q
}

// Add records one case. term: Gallina term of type `case`; desc: JSON-able description used in
// replays and samples; nontrivial: whether the case counts towards distinct_nontrivial.
func (c *Ctx) Add(term string, desc interface{}, nontrivial bool) int {
	idx := len(c.cases)
	c.cases = append(c.cases, term)
	d, err := json.Marshal(desc)
	if err != nil {
		d, _ = json.Marshal(fmt.Sprintf("%v", desc))
	}
	c.descs = append(c.descs, d)
	h := sha256.Sum256([]byte(term))
	if !c.hashes[h] {
		c.hashes[h] = true
		if nontrivial {
			c.nontriv++
		}
	}
	if len(c.Samples) < 3 || (idx%97 == 0 && len(c.Samples) < 8) {
		c.Samples = append(c.Samples, json.RawMessage(d))
	}
	return idx
}

func (c *Ctx) Count(key string) { c.Hist[key]++ }

func (c *Ctx) N() int { return len(c.cases) }

// Flush writes cases_<k>.v shards, cases.jsonl and meta.json.
func (c *Ctx) Flush() error {
	if err := os.MkdirAll(c.OutDir, 0o755); err != nil {
		return err
	}
	old, _ := filepath.Glob(filepath.Join(c.OutDir, "cases_*.v"))
	for _, f := range old {
		os.Remove(f)
	}
	for _, pat := range []string{"cases_*.vo", "cases_*.glob", "cases_*.vok", "cases_*.vos", ".cases_*.aux"} {
		o, _ := filepath.Glob(filepath.Join(c.OutDir, pat))
		for _, f := range o {
			os.Remove(f)
		}
	}
	type shard struct {
		start int
		terms []string
	}
	var shards []shard
	cur := shard{start: 0}
	size := 0
	emitOne := func(i int) {
		if size > 0 && size+len(c.cases[i]) > c.ShardMax {
			shards = append(shards, cur)
			cur = shard{start: i}
			size = 0
		}
		cur.terms = append(cur.terms, c.cases[i])
		size += len(c.cases[i])
	}
	if c.Only >= 0 {
		if c.Only < len(c.cases) {
			cur.start = c.Only
			cur.terms = []string{c.cases[c.Only]}
		}
	} else {
		for i := range c.cases {
			emitOne(i)
		}
	}
	shards = append(shards, cur)
	for k, s := range shards {
		f, err := os.Create(filepath.Join(c.OutDir, fmt.Sprintf("cases_%d.v", k)))
		if err != nil {
			return err
		}
		w := bufio.NewWriter(f)
		fmt.Fprintf(w, "From Coq Require Import ZArith List Strings.Byte.\nFrom YV Require Import Base.Verdict %s.\nImport ListNotations.\nOpen Scope Z_scope.\n", c.Imports)
		fmt.Fprintf(w, "Definition cases : list %s := [\n", c.CaseType)
		for i, t := range s.terms {
			if i > 0 {
				w.WriteString(";\n")
			}
			w.WriteString(t)
		}
		fmt.Fprintf(w, "\n].\nDefinition rep := Eval vm_compute in summarize %s %d%%nat cases.\nPrint rep.\n", c.Classify, s.start)
		w.Flush()
		f.Close()
	}
	jf, err := os.Create(filepath.Join(c.OutDir, "cases.jsonl"))
	if err != nil {
		return err
	}
	jw := bufio.NewWriter(jf)
	for i, d := range c.descs {
		fmt.Fprintf(jw, "{\"idx\":%d,\"desc\":%s}\n", i, d)
	}
	jw.Flush()
	jf.Close()
	keys := make([]string, 0, len(c.Hist))
	for k := range c.Hist {
		keys = append(keys, k)
	}
	sort.Strings(keys)
	meta := map[string]interface{}{
		"property": c.Prop, "seed": c.Seed, "tier": c.Tier,
		"evaluations": len(c.cases), "distinct": len(c.hashes), "distinct_nontrivial": c.nontriv,
		"rule": c.Rule, "samples": c.Samples, "histogram": c.Hist, "shards": len(shards), "extra": c.Extra,
	}
	b, _ := json.MarshalIndent(meta, "", " ")
	return os.WriteFile(filepath.Join(c.OutDir, "meta.json"), b, 0o644)
}
