package core

// Worker sub-processes: inputs that can kill the process (Go stack exhaustion is fatal, not a
// recoverable panic) or loop forever are evaluated in a child `yvh worker <handler>` which is killed
// and restarted on a crash or time-out. One request per line, one response line per request; both
// are opaque single-line strings to this file (handlers base64/JSON-encode what they need).

import (
	"bufio"
	"fmt"
	"io"
	"os"
	"os/exec"
	"strings"
	"time"
)

// WorkerHandlers maps a handler name to the function run in the child for every request line.
var WorkerHandlers = map[string]func(req string) string{}

// RunWorker is the body of the hidden sub-command `yvh worker <handler>`.
func RunWorker(name string) int {
	h, ok := WorkerHandlers[name]
	if !ok {
		fmt.Fprintln(os.Stderr, "unknown worker handler", name)
		return 2
	}
	in := bufio.NewReaderSize(os.Stdin, 1<<20)
	out := bufio.NewWriter(os.Stdout)
	for {
		line, err := in.ReadString('\n')
		if len(line) > 0 {
			resp := h(strings.TrimRight(line, "\n"))
			resp = strings.ReplaceAll(resp, "\n", " ")
			out.WriteString(resp)
			out.WriteByte('\n')
			out.Flush()
		}
		if err != nil {
			return 0
		}
	}
}

type Worker struct {
	name     string
	cmd      *exec.Cmd
	stdin    io.WriteCloser
	lines    chan string
	Restarts int
}

func NewWorker(name string) *Worker { return &Worker{name: name} }

func (w *Worker) start() error {
	cmd := exec.Command(os.Args[0], "worker", w.name)
	cmd.Env = append(os.Environ(), "GOTRACEBACK=none")
	stdin, err := cmd.StdinPipe()
	if err != nil {
		return err
	}
	stdout, err := cmd.StdoutPipe()
	if err != nil {
		return err
	}
	cmd.Stderr = io.Discard
	if err := cmd.Start(); err != nil {
		return err
	}
	lines := make(chan string, 1)
	go func() {
		rd := bufio.NewReaderSize(stdout, 1<<20)
		for {
			l, err := rd.ReadString('\n')
			if err != nil {
				close(lines)
				return
			}
			lines <- strings.TrimRight(l, "\n")
		}
	}()
	w.cmd, w.stdin, w.lines = cmd, stdin, lines
	return nil
}

func (w *Worker) kill() {
	if w.cmd != nil {
		w.stdin.Close()
		w.cmd.Process.Kill()
		w.cmd.Wait()
		w.cmd = nil
		w.Restarts++
	}
}

// Call sends one request. status is "ok" (resp holds the handler's answer), "timeout" (no answer
// within the limit; the child was killed) or "fatal" (the child died: stack exhaustion, os.Exit,
// runtime fatal error).
func (w *Worker) Call(req string, limit time.Duration) (resp string, status string) {
	if w.cmd == nil {
		if err := w.start(); err != nil {
			return err.Error(), "fatal"
		}
	}
	if _, err := io.WriteString(w.stdin, req+"\n"); err != nil {
		w.kill()
		return "", "fatal"
	}
	select {
	case l, ok := <-w.lines:
		if !ok {
			w.kill()
			return "", "fatal"
		}
		return l, "ok"
	case <-time.After(limit):
		w.kill()
		return "", "timeout"
	}
}

func (w *Worker) Close() {
	if w.cmd != nil {
		w.stdin.Close()
		done := make(chan struct{})
		go func() { w.cmd.Wait(); close(done) }()
		select {
		case <-done:
		case <-time.After(2 * time.Second):
			w.cmd.Process.Kill()
		}
		w.cmd = nil
	}
}
