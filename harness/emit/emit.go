// Package emit prints Gallina terms. Text is emitted as lists of Coq.Strings.Byte constructors
// (x00..xff) so that every byte value is representable; integers as Z literals.
package emit

import (
	"fmt"
	"math/big"
	"strings"
)

func Z(v int64) string {
	if v < 0 {
		return fmt.Sprintf("(%d)", v)
	}
	return fmt.Sprintf("%d", v)
}

func ZU(v uint64) string { return fmt.Sprintf("%d", v) }

func ZBig(v *big.Int) string {
	if v.Sign() < 0 {
		return "(" + v.String() + ")"
	}
	return v.String()
}

func Nat(v int) string { return fmt.Sprintf("%d%%nat", v) }

func Bool(b bool) string {
	if b {
		return "true"
	}
	return "false"
}

func Bytes(s []byte) string {
	var b strings.Builder
	b.WriteByte('[')
	for i, c := range s {
		if i > 0 {
			b.WriteByte(';')
		}
		fmt.Fprintf(&b, "x%02x", c)
	}
	b.WriteByte(']')
	return b.String()
}

func Str(s string) string { return Bytes([]byte(s)) }

func List(items []string) string { return "[" + strings.Join(items, "; ") + "]" }

func Some(s string) string { return "(Some " + s + ")" }

func OptStr(s *string) string {
	if s == nil {
		return "None"
	}
	return Some(Str(*s))
}

func App(f string, args ...string) string {
	return "(" + f + " " + strings.Join(args, " ") + ")"
}

func Pair(a, b string) string { return "(" + a + ", " + b + ")" }
