module yvh

go 1.20

require github.com/freeconf/yang v0.0.0

replace github.com/freeconf/yang => /repo
