// racer: the dynamic side of the C20 check. Built with `go build -race` by harness/props/c20.go
// against the tree under test and run once per scenario (G goroutines x GOMAXPROCS P).
//
// Every goroutine g has a fixed plan of operations (derived from the seed): module loads and
// export / upsert / Find with query parameters / Constrain / JSON and XML write / schema dump, on
// its OWN data tree and browser, through compiled modules SHARED by all goroutines.
//
//	phase 1: a set of modules is compiled and all plans run concurrently behind a start barrier
//	         (first, so that nothing - module-level or package-level - has been warmed up);
//	phase 2 (reference): a fresh set of modules is compiled and each plan is run alone, one after
//	         the other.
//
// stdout: JSON with, per goroutine and operation, a 63-bit digest of the result in both phases.
// stderr: the race detector's reports (GORACE=halt_on_error=0), parsed by the harness.
package main

import (
	"crypto/sha256"
	"encoding/binary"
	"encoding/json"
	"flag"
	"fmt"
	"os"
	"runtime"
	"sort"
	"strings"
	"sync"

	"github.com/freeconf/yang"
	"github.com/freeconf/yang/meta"
	"github.com/freeconf/yang/node"
	"github.com/freeconf/yang/nodeutil"
	"github.com/freeconf/yang/parser"
	"github.com/freeconf/yang/source"

	"yvh/gen"
)

// the application schema shared by all goroutines
const appYang = `module app {
  namespace "urn:app";
  prefix app;
  revision 2024-01-01;

  feature metrics;
  identity transport;
  identity tcp { base transport; }
  identity udp { base transport; }

  typedef percent { type uint8 { range "0..100"; } }
  typedef level { type enumeration { enum low { value 1; } enum mid { value 5; } enum high { value 9; } } }

  grouping endpoint {
    leaf host { type string { length "1..64"; } }
    leaf port { type uint16; default 8080; }
  }
  grouping limits {
    container limits {
      leaf cpu { type percent; }
      leaf mem { type uint32; }
      leaf ratio { type decimal64 { fraction-digits 2; } }
    }
  }

  container system {
    leaf name { type string; }
    leaf level { type level; }
    leaf enabled { type boolean; default true; }
    leaf transport { type identityref { base transport; } }
    leaf-list tags { type string; }
    uses endpoint;
    uses limits;
    choice mode {
      case simple { leaf simple-arg { type int32; } }
      case advanced { container advanced { leaf depth { type int64; } leaf note { type string; } } }
    }
    container stats {
      if-feature metrics;
      config false;
      leaf hits { type uint64; }
    }
  }
  list user {
    key "id";
    leaf id { type uint32; }
    leaf login { type string; }
    leaf score { type union { type int32; type string; } }
    uses limits;
    list session {
      key "sid";
      leaf sid { type string; }
      leaf ttl { type int16; }
      uses endpoint;
    }
  }
  rpc reset { input { leaf hard { type boolean; } } output { leaf done { type boolean; } } }
  notification alarm { leaf text { type string; } }
}
`

// small modules loaded concurrently (each exercises grouping/uses, typedef, augment, choice)
func loadYang(k int) string {
	return fmt.Sprintf(`module l%d {
  namespace "urn:l%d"; prefix l;
  typedef t { type int32 { range "0..%d"; } }
  grouping g { leaf a { type t; } leaf b { type string; } container c { leaf d { type boolean; } } }
  grouping h { uses g; leaf-list e { type uint8; } }
  container top { uses h; list item { key "a"; uses g; } choice ch { leaf x { type string; } leaf y { type int8; } } }
  augment "/top" { leaf extra%d { type string; } }
}`, k, k, 100+k, k)
}

type mods struct {
	app    *meta.Module
	fcYang *meta.Module
}

func loadMods() (*mods, error) {
	app, err := parser.LoadModuleFromString(nil, appYang)
	if err != nil {
		return nil, fmt.Errorf("app schema: %w", err)
	}
	fy, err := parser.LoadModule(yang.InternalYPath, "fc-yang")
	if err != nil {
		return nil, fmt.Errorf("fc-yang: %w", err)
	}
	return &mods{app: app, fcYang: fy}, nil
}

type op struct {
	Kind string `json:"kind"`
	Arg  string `json:"arg"`
	N    int    `json:"n"`
}

// initialData: goroutine g's own data tree as plain Go maps and slices
func initialData(r *gen.Rng, g int) map[string]interface{} {
	sys := map[string]interface{}{
		"name": fmt.Sprintf("sys%d", g), "level": gen.Pick(r, []string{"low", "mid", "high"}), "enabled": r.Bool(),
		"transport": gen.Pick(r, []string{"tcp", "udp"}), "tags": []string{fmt.Sprintf("a%d", g), "b"},
		"host": fmt.Sprintf("h%d", g), "port": 1000 + r.Intn(5000),
		"limits": map[string]interface{}{"cpu": r.Intn(101), "mem": r.Intn(1 << 20), "ratio": float64(r.Intn(9000)) / 100},
	}
	if r.Bool() {
		sys["simple-arg"] = r.Intn(1000) - 500
	} else {
		sys["advanced"] = map[string]interface{}{"depth": r.Intn(1 << 30), "note": fmt.Sprintf("n%d", g)}
	}
	nu := 2 + r.Intn(4)
	users := make([]map[string]interface{}, 0, nu)
	for u := 0; u < nu; u++ {
		ns := r.Intn(3)
		sess := make([]map[string]interface{}, 0, ns)
		for s := 0; s < ns; s++ {
			sess = append(sess, map[string]interface{}{"sid": fmt.Sprintf("s%d", s), "ttl": r.Intn(3000) - 1500, "host": fmt.Sprintf("sh%d", s)})
		}
		var score interface{} = gen.Pick(r, []interface{}{7, "seven", -3})
		users = append(users, map[string]interface{}{"id": 10*u + 1, "login": fmt.Sprintf("u%d_%d", g, u), "score": score,
			"limits": map[string]interface{}{"cpu": r.Intn(101)}, "session": sess})
	}
	return map[string]interface{}{"system": sys, "user": users}
}

func makePlan(r *gen.Rng, g, iters int) []op {
	var plan []op
	kinds := []string{"json", "xml", "find", "find", "upsert", "export", "constrain", "load", "load", "loadfile", "schema", "getvalue", "delete"}
	for i := 0; i < iters; i++ {
		k := gen.Pick(r, kinds)
		o := op{Kind: k, N: r.Intn(1000)}
		switch k {
		case "find":
			o.Arg = gen.Pick(r, []string{"user=1", "user=11", "user=21?depth=1", "system?fields=name;level;limits/cpu", "user=1/session=s0",
				"system/limits", "user?fc.range=!1-2", "system?content=config", "system?content=nonconfig&with-defaults=trim", "user=999",
				"system?fc.xfields=tags", "user=11?fields=login"})
		case "constrain":
			o.Arg = gen.Pick(r, []string{"depth=1", "depth=2&content=config", "fields=user/login", "fc.xfields=system", "fc.max-node-count=5", "depth=0"})
		case "upsert":
			o.Arg = gen.Pick(r, []string{
				`{"system":{"name":"renamed%d","limits":{"cpu":%d}}}`,
				`{"user":[{"id":%d,"login":"new%d","score":"x"}]}`,
				`{"system":{"advanced":{"depth":%d,"note":"adv"}}}`,
				`{"system":{"simple-arg":%d}}`,
				`{"system":{"limits":{"cpu":%d}}}`, // may violate the 0..100 range: the error is the result
				`{"system":{"tags":["t%d","u"]}}`,
			})
			o.Arg = strings.ReplaceAll(o.Arg, "%d", fmt.Sprint(r.Intn(140)))
		case "load":
			o.N = r.Intn(6)
		case "loadfile":
			o.Arg = gen.Pick(r, []string{"fc-yang", "fc-doc"})
		case "getvalue":
			o.Arg = gen.Pick(r, []string{"name", "level", "port", "enabled", "transport"})
		case "delete":
			o.Arg = gen.Pick(r, []string{"user=1", "user=21", "system/limits", "user=11/session=s0"})
		}
		plan = append(plan, o)
	}
	return plan
}

func describeModule(m *meta.Module) string {
	var b strings.Builder
	var walk func(d meta.Definition, depth int)
	walk = func(d meta.Definition, depth int) {
		fmt.Fprintf(&b, "%d:%T:%s", depth, d, d.Ident())
		if l, ok := d.(meta.Leafable); ok && l.Type() != nil {
			fmt.Fprintf(&b, ":%s:%v", l.Type().Ident(), l.Type().Format())
		}
		if l, ok := d.(*meta.List); ok {
			for _, k := range l.KeyMeta() {
				fmt.Fprintf(&b, ":key=%s", k.Ident())
			}
		}
		b.WriteString(";")
		if h, ok := d.(meta.HasDataDefinitions); ok && depth < 12 {
			for _, c := range h.DataDefinitions() {
				walk(c, depth+1)
			}
		}
	}
	walk(m, 0)
	return b.String()
}

func str(s string, err error) string {
	if err != nil {
		return "ERR:" + err.Error() + "|" + s
	}
	return s
}

// runOp performs one operation of goroutine g on its own browser b over the shared modules.
func runOp(ms *mods, b *node.Browser, data map[string]interface{}, o op) (res string) {
	defer func() {
		if r := recover(); r != nil {
			res = fmt.Sprintf("PANIC:%v", r)
		}
	}()
	switch o.Kind {
	case "json":
		return str(nodeutil.WriteJSON(b.Root()))
	case "xml":
		sel, err := b.Root().Find("system")
		if err != nil || sel == nil {
			return fmt.Sprintf("ERR:%v", err)
		}
		return str(nodeutil.WriteXML(sel))
	case "find":
		sel, err := b.Root().Find(o.Arg)
		if err != nil {
			return "ERR:" + err.Error()
		}
		if sel == nil {
			return "NOTFOUND"
		}
		return str(nodeutil.WriteJSON(sel))
	case "constrain":
		sel, err := b.Root().Constrain(o.Arg)
		if err != nil {
			return "ERR:" + err.Error()
		}
		return str(nodeutil.WriteJSON(sel))
	case "upsert":
		n, err := nodeutil.ReadJSON(o.Arg)
		if err != nil {
			return "ERR:" + err.Error()
		}
		err = b.Root().UpsertFrom(n)
		return str(nodeutil.WriteJSON(b.Root())) + fmt.Sprintf("|%v", err)
	case "export":
		dst := map[string]interface{}{}
		err := b.Root().UpsertInto(nodeutil.ReflectChild(dst))
		return fmt.Sprintf("%v|%v", dst, err) // fmt prints maps in key order
	case "load":
		m, err := parser.LoadModuleFromString(nil, loadYang(o.N))
		if err != nil {
			return "ERR:" + err.Error()
		}
		return describeModule(m)
	case "loadfile":
		// a module read through a source.Opener (embedded file system), with its imports
		m, err := parser.LoadModule(yang.InternalYPath, o.Arg)
		if err != nil {
			return "ERR:" + err.Error()
		}
		return describeModule(m)
	case "schema":
		sb := nodeutil.Schema(ms.fcYang, ms.app)
		sel, err := sb.Root().Find("module?depth=4")
		if err != nil || sel == nil {
			return fmt.Sprintf("ERR:%v", err)
		}
		return str(nodeutil.WriteJSON(sel))
	case "getvalue":
		sel, err := b.Root().Find("system")
		if err != nil || sel == nil {
			return fmt.Sprintf("ERR:%v", err)
		}
		v, err := sel.GetValue(o.Arg)
		if err != nil {
			return "ERR:" + err.Error()
		}
		if v == nil {
			return "nil"
		}
		return fmt.Sprintf("%v:%s", v.Format(), v.String())
	case "delete":
		sel, err := b.Root().Find(o.Arg)
		if err != nil {
			return "ERR:" + err.Error()
		}
		if sel == nil {
			return "NOTFOUND"
		}
		err = sel.Delete()
		return str(nodeutil.WriteJSON(b.Root())) + fmt.Sprintf("|%v", err)
	}
	return "?"
}

func digest(s string) uint64 {
	h := sha256.Sum256([]byte(s))
	return binary.BigEndian.Uint64(h[:8]) >> 1
}

// runPlan: goroutine g's whole plan on fresh data
func runPlan(ms *mods, g int, seed uint64, plan []op, keep bool) ([]uint64, []string) {
	data := initialData(gen.New(seed), g)
	var root node.Node
	if g%2 == 0 {
		root = nodeutil.ReflectChild(data)
	} else {
		root = &nodeutil.Node{Object: data}
	}
	b := node.NewBrowser(ms.app, root)
	out := make([]uint64, 0, len(plan)+1)
	var texts []string
	add := func(s string) {
		out = append(out, digest(s))
		if keep {
			if len(s) > 300 {
				s = s[:300] + "..."
			}
			texts = append(texts, s)
		}
	}
	add(runOp(ms, b, data, op{Kind: "json"}))
	for _, o := range plan {
		add(runOp(ms, b, data, o))
	}
	return out, texts
}

func main() {
	seed := flag.Uint64("seed", 1, "seed")
	G := flag.Int("g", 4, "goroutines")
	P := flag.Int("p", 4, "GOMAXPROCS")
	iters := flag.Int("iters", 12, "operations per goroutine")
	verbose := flag.Bool("v", false, "keep result texts")
	flag.Parse()
	runtime.GOMAXPROCS(*P)
	_ = source.Dir
	r := gen.New(*seed)
	plans := make([][]op, *G)
	initials := make([]uint64, *G)
	for g := 0; g < *G; g++ {
		rg := r.Fork(uint64(g) + 1)
		initials[g] = rg.U64()
		plans[g] = makePlan(rg, g, *iters)
	}
	type result struct {
		Seq    [][]uint64     `json:"seq"`
		Conc   [][]uint64     `json:"conc"`
		Plans  [][]op         `json:"plans"`
		Texts  [][]string     `json:"texts,omitempty"`
		CTexts [][]string     `json:"ctexts,omitempty"`
		Err    string         `json:"err,omitempty"`
		Kinds  map[string]int `json:"kinds"`
	}
	res := result{Plans: plans, Kinds: map[string]int{}}
	for _, p := range plans {
		for _, o := range p {
			res.Kinds[o.Kind]++
		}
	}
	emit := func() {
		b, _ := json.Marshal(res)
		os.Stdout.Write(b)
		os.Stdout.WriteString("\n")
	}
	// phase 1: all plans concurrently, first, so that no lazily initialised state (module-level or
	// package-level) has been warmed up by a sequential run
	ms2, err := loadMods()
	if err != nil {
		res.Err = err.Error()
		emit()
		os.Exit(0)
	}
	res.Conc = make([][]uint64, *G)
	res.CTexts = make([][]string, *G)
	var wg sync.WaitGroup
	start := make(chan struct{})
	for g := 0; g < *G; g++ {
		wg.Add(1)
		go func(g int) {
			defer wg.Done()
			<-start
			res.Conc[g], res.CTexts[g] = runPlan(ms2, g, initials[g], plans[g], *verbose)
		}(g)
	}
	close(start)
	wg.Wait()
	// phase 2 (reference): fresh modules, every plan alone, one after the other
	ms1, err := loadMods()
	if err != nil {
		res.Err = err.Error()
		emit()
		os.Exit(0)
	}
	res.Seq = make([][]uint64, *G)
	res.Texts = make([][]string, *G)
	for g := 0; g < *G; g++ {
		res.Seq[g], res.Texts[g] = runPlan(ms1, g, initials[g], plans[g], *verbose)
	}
	if !*verbose {
		res.Texts, res.CTexts = nil, nil
	}
	_ = sort.Strings
	emit()
}
