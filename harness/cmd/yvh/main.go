// yvh: correspondence harness. Usage: yvh <property> -seed N -tier quick|thorough|search -out DIR
// [-only IDX] [-explode IDX]
package main

import (
	"flag"
	"fmt"
	"os"
	"strings"

	"yvh/core"
	"yvh/props"
)

func main() {
	if len(os.Args) < 2 {
		fmt.Fprintln(os.Stderr, "usage: yvh <property> [flags]")
		os.Exit(2)
	}
	if os.Args[1] == "worker" && len(os.Args) >= 3 {
		// hidden sub-command: child process evaluating inputs that may crash or hang (core/worker.go)
		os.Exit(core.RunWorker(os.Args[2]))
	}
	prop := strings.ToUpper(os.Args[1])
	fs := flag.NewFlagSet(prop, flag.ExitOnError)
	seed := fs.Uint64("seed", 1, "PRNG seed")
	tier := fs.String("tier", "quick", "quick|thorough|search")
	out := fs.String("out", ".", "output directory")
	only := fs.Int("only", -1, "emit only this case")
	explode := fs.Int("explode", -1, "expand this table case")
	fs.Parse(os.Args[2:])
	f, ok := props.Registry[prop]
	if !ok {
		fmt.Fprintln(os.Stderr, "unknown property", prop)
		os.Exit(2)
	}
	ctx := core.NewCtx(prop)
	ctx.Seed, ctx.Tier, ctx.OutDir, ctx.Only, ctx.Explode = *seed, *tier, *out, *only, *explode
	if err := f(ctx); err != nil {
		fmt.Fprintln(os.Stderr, "harness error:", err)
		os.Exit(4)
	}
	if err := ctx.Flush(); err != nil {
		fmt.Fprintln(os.Stderr, "harness error:", err)
		os.Exit(4)
	}
}
