// Package gen: deterministic generators. Every random choice in the harness derives from one
// splitmix64 state seeded by VERIF_SEED, so every case replays exactly.
package gen

type Rng struct{ s uint64 }

func New(seed uint64) *Rng { return &Rng{s: seed*0x9E3779B97F4A7C15 + 0x1234567} }

func (r *Rng) U64() uint64 {
	r.s += 0x9E3779B97F4A7C15
	z := r.s
	z = (z ^ (z >> 30)) * 0xBF58476D1CE4E5B9
	z = (z ^ (z >> 27)) * 0x94D049BB133111EB
	return z ^ (z >> 31)
}

// Intn returns a value in [0,n)
func (r *Rng) Intn(n int) int {
	if n <= 0 {
		return 0
	}
	return int(r.U64() % uint64(n))
}

func (r *Rng) Bool() bool { return r.U64()&1 == 1 }

// Chance returns true with probability num/den
func (r *Rng) Chance(num, den int) bool { return r.Intn(den) < num }

// Fork derives an independent stream (so adding draws in one generator does not shift others)
func (r *Rng) Fork(tag uint64) *Rng { return New(r.U64() ^ (tag * 0xD6E8FEB86659FD93)) }

func Pick[T any](r *Rng, xs []T) T { return xs[r.Intn(len(xs))] }
