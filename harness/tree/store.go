package tree

import (
	"fmt"
	"sort"
	"strings"

	"github.com/freeconf/yang/meta"
	"github.com/freeconf/yang/node"
	"github.com/freeconf/yang/nodeutil"
	"github.com/freeconf/yang/val"

	"yvh/emit"
)

// Cont is the content of a container, a list row or the module root in the reference store:
// plain name-keyed maps. Lists keep their rows in insertion order.
type Cont struct {
	Leaves map[string]val.Value
	Conts  map[string]*Cont
	Lists  map[string]*List
}

type List struct{ Rows []*Cont }

func NewCont() *Cont {
	return &Cont{Leaves: map[string]val.Value{}, Conts: map[string]*Cont{}, Lists: map[string]*List{}}
}

func (c *Cont) Clone() *Cont {
	if c == nil {
		return nil
	}
	n := NewCont()
	for k, v := range c.Leaves {
		n.Leaves[k] = v
	}
	for k, v := range c.Conts {
		n.Conts[k] = v.Clone()
	}
	for k, v := range c.Lists {
		l := &List{}
		for _, r := range v.Rows {
			l.Rows = append(l.Rows, r.Clone())
		}
		n.Lists[k] = l
	}
	return n
}

// has reports whether the flat kid named name holds data
func (c *Cont) has(name string) bool {
	if _, ok := c.Leaves[name]; ok {
		return true
	}
	if _, ok := c.Conts[name]; ok {
		return true
	}
	_, ok := c.Lists[name]
	return ok
}

// Hooks lets a harness observe or fail node callbacks (C12). Nil hooks are no-ops.
type Hooks struct {
	// Event is called before the store acts; a non-nil error is returned from the callback instead.
	Event func(kind string, path string, detail string) error
}

func (h *Hooks) ev(kind, path, detail string) error {
	if h == nil || h.Event == nil {
		return nil
	}
	return h.Event(kind, path, detail)
}

// Node returns a node.Node over c for schema node s (container / list row / root).
func (c *Cont) Node(s *SNode, h *Hooks, path string) node.Node {
	return &nodeutil.Basic{
		Peekable: c,
		OnChild: func(r node.ChildRequest) (node.Node, error) {
			name := r.Meta.Ident()
			kid := s.Kids[s.KidIndex(name)]
			if err := h.ev("child", path, fmt.Sprintf("%s new=%v delete=%v", name, r.New, r.Delete)); err != nil {
				return nil, err
			}
			if r.Delete {
				delete(c.Conts, name)
				delete(c.Lists, name)
				return nil, nil
			}
			if kid.Kind == KList {
				l := c.Lists[name]
				if r.New {
					l = &List{}
					c.Lists[name] = l
				}
				if l == nil {
					return nil, nil
				}
				return l.Node(kid, h, path+"/"+name), nil
			}
			sub := c.Conts[name]
			if r.New {
				sub = NewCont()
				c.Conts[name] = sub
			}
			if sub == nil {
				return nil, nil
			}
			return sub.Node(kid, h, path+"/"+name), nil
		},
		OnField: func(r node.FieldRequest, hnd *node.ValueHandle) error {
			name := r.Meta.Ident()
			if r.Write {
				detail := name + " clear"
				if !r.Clear && hnd.Val != nil {
					detail = name + " write " + hnd.Val.String()
				}
				if err := h.ev("field-write", path, detail); err != nil {
					return err
				}
				if r.Clear || hnd.Val == nil {
					delete(c.Leaves, name)
				} else {
					c.Leaves[name] = hnd.Val
				}
				return nil
			}
			if err := h.ev("field-read", path, name); err != nil {
				return err
			}
			hnd.Val = c.Leaves[name]
			return nil
		},
		OnChoose: func(sel *node.Selection, choice *meta.Choice) (*meta.ChoiceCase, error) {
			if err := h.ev("choose", path, choice.Ident()); err != nil {
				return nil, err
			}
			id := -1
			for i, ch := range s.Choices {
				if ch == choice {
					id = i
				}
			}
			best := -1
			var bestCase *meta.ChoiceCase
			for _, kid := range s.Kids {
				for gi, g := range kid.Guard {
					if g[0] == id && c.has(kid.Name) && (best < 0 || g[1] < best) {
						best = g[1]
						bestCase = kid.Cases[gi]
					}
				}
			}
			return bestCase, nil
		},
		OnBeginEdit: func(r node.NodeRequest) error {
			return h.ev("begin", path, fmt.Sprintf("new=%v delete=%v root=%v", r.New, r.Delete, r.EditRoot))
		},
		OnEndEdit: func(r node.NodeRequest) error {
			return h.ev("end", path, fmt.Sprintf("new=%v delete=%v root=%v", r.New, r.Delete, r.EditRoot))
		},
	}
}

func (l *List) keyOf(s *SNode, row *Cont) []val.Value {
	key := make([]val.Value, len(s.Keys))
	for i, k := range s.Keys {
		key[i] = row.Leaves[s.Kids[k].Name]
	}
	return key
}

func (l *List) find(s *SNode, key []val.Value) int {
	for i, row := range l.Rows {
		rk := l.keyOf(s, row)
		if len(rk) == len(key) && val.EqualVals(rk, key) {
			return i
		}
	}
	return -1
}

func keyDesc(key []val.Value) string {
	parts := make([]string, len(key))
	for i, k := range key {
		if k == nil {
			parts[i] = "nil"
		} else {
			parts[i] = k.String()
		}
	}
	return strings.Join(parts, ",")
}

// Node returns the node.Node of the list itself (rows are reached through Next).
func (l *List) Node(s *SNode, h *Hooks, path string) node.Node {
	return &nodeutil.Basic{
		Peekable: l,
		OnNext: func(r node.ListRequest) (node.Node, []val.Value, error) {
			if err := h.ev("next", path, fmt.Sprintf("new=%v delete=%v key=%s row=%d", r.New, r.Delete, keyDesc(r.Key), r.Row)); err != nil {
				return nil, nil, err
			}
			if r.New {
				row := NewCont()
				l.Rows = append(l.Rows, row)
				return row.Node(s, h, path+"="+keyDesc(r.Key)), r.Key, nil
			}
			if len(r.Key) > 0 {
				i := l.find(s, r.Key)
				if i < 0 {
					return nil, nil, nil
				}
				if r.Delete {
					l.Rows = append(l.Rows[:i:i], l.Rows[i+1:]...)
					return nil, nil, nil
				}
				return l.Rows[i].Node(s, h, path+"="+keyDesc(r.Key)), r.Key, nil
			}
			if r.Row < 0 || r.Row >= len(l.Rows) {
				return nil, nil, nil
			}
			row := l.Rows[r.Row]
			key := l.keyOf(s, row)
			for _, k := range key {
				if k == nil {
					key = nil
					break
				}
			}
			return row.Node(s, h, path+"="+keyDesc(key)), key, nil
		},
		OnBeginEdit: func(r node.NodeRequest) error {
			return h.ev("begin", path, fmt.Sprintf("new=%v delete=%v root=%v", r.New, r.Delete, r.EditRoot))
		},
		OnEndEdit: func(r node.NodeRequest) error {
			return h.ev("end", path, fmt.Sprintf("new=%v delete=%v root=%v", r.New, r.Delete, r.EditRoot))
		},
	}
}

// ---- Gallina terms and descriptions -----------------------------------------------------------

// ContentTerm is the `content` term of c aligned with s's flat kids.
func (c *Cont) ContentTerm(s *SNode) string {
	items := make([]string, len(s.Kids))
	for i, kid := range s.Kids {
		items[i] = "None"
		switch kid.Kind {
		case KLeaf:
			if v, ok := c.Leaves[kid.Name]; ok && v != nil {
				items[i] = emit.Some(emit.App("DLeaf", ValTerm(v)))
			}
		case KCont:
			if sub, ok := c.Conts[kid.Name]; ok {
				items[i] = emit.Some(emit.App("DCont", sub.ContentTerm(kid)))
			}
		case KList:
			if l, ok := c.Lists[kid.Name]; ok {
				rows := make([]string, len(l.Rows))
				for j, r := range l.Rows {
					rows[j] = emit.App("DCont", r.ContentTerm(kid))
				}
				items[i] = emit.Some(emit.App("DList", emit.List(rows)))
			}
		}
	}
	return emit.List(items)
}

// Desc is a deterministic JSON-like rendering for replay descriptions.
func (c *Cont) Desc(s *SNode) string {
	var b strings.Builder
	c.desc(s, &b)
	return b.String()
}

func (c *Cont) desc(s *SNode, b *strings.Builder) {
	b.WriteString("{")
	first := true
	for _, kid := range s.Kids {
		if !c.has(kid.Name) {
			continue
		}
		if !first {
			b.WriteString(",")
		}
		first = false
		fmt.Fprintf(b, "%q:", kid.Name)
		switch kid.Kind {
		case KLeaf:
			fmt.Fprintf(b, "%q", c.Leaves[kid.Name].String())
		case KCont:
			c.Conts[kid.Name].desc(kid, b)
		case KList:
			b.WriteString("[")
			for j, r := range c.Lists[kid.Name].Rows {
				if j > 0 {
					b.WriteString(",")
				}
				r.desc(kid, b)
			}
			b.WriteString("]")
		}
	}
	b.WriteString("}")
}

// Size counts nodes (leaves, containers, rows) for histograms
func (c *Cont) Size() int {
	n := len(c.Leaves)
	for _, s := range c.Conts {
		n += 1 + s.Size()
	}
	for _, l := range c.Lists {
		n++
		for _, r := range l.Rows {
			n += 1 + r.Size()
		}
	}
	return n
}

// SortedLeafNames is a helper for deterministic iteration
func (c *Cont) SortedLeafNames() []string {
	names := make([]string, 0, len(c.Leaves))
	for k := range c.Leaves {
		names = append(names, k)
	}
	sort.Strings(names)
	return names
}

// ChosenCases lists "path:choice=case" for every choice that has data in c (recursively);
// used by harnesses to measure how often an edit switches cases.
func (c *Cont) ChosenCases(s *SNode, path string, out map[string]int) {
	for _, kid := range s.Kids {
		if !c.has(kid.Name) {
			continue
		}
		for _, g := range kid.Guard {
			key := fmt.Sprintf("%s#%d", path, g[0])
			if old, ok := out[key]; !ok || g[1] < old {
				out[key] = g[1]
			}
		}
		switch kid.Kind {
		case KCont:
			c.Conts[kid.Name].ChosenCases(kid, path+"/"+kid.Name, out)
		case KList:
			for i, r := range c.Lists[kid.Name].Rows {
				r.ChosenCases(kid, fmt.Sprintf("%s/%s[%d]", path, kid.Name, i), out)
			}
		}
	}
}
