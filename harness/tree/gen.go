package tree

import (
	"encoding/json"
	"fmt"
	"math"
	"strings"

	"github.com/freeconf/yang/meta"
	"github.com/freeconf/yang/node"
	"github.com/freeconf/yang/parser"
	"github.com/freeconf/yang/val"

	"yvh/gen"
)

// GenOpts controls the shape of generated schemas.
type GenOpts struct {
	MaxDepth    int
	MaxKids     int
	Choices     bool     // generate choice statements (possibly nested in cases)
	Lists       bool     // generate lists
	Defaults    bool     // give some leaves defaults
	LeafLists   bool     // generate leaf-lists
	ConfigMix   bool     // mark some sub-trees config false
	ChoiceHeavy bool     // about half of the non-leaf definitions are choices
	SingleKey   bool     // lists have exactly one key
	ListHeavy   bool     // many lists, half of the leaves have defaults
	Types       []string // leaf type pool (YANG type statements without the trailing ;), nil = DefaultTypes
	KeyTypes    []string // key leaf type pool, nil = DefaultKeyTypes
	ModuleName  string
}

var DefaultTypes = []string{"int8", "int16", "int32", "int64", "uint8", "uint16", "uint32", "uint64", "string", "boolean",
	"enumeration { enum a; enum b; enum c; }", "decimal64 { fraction-digits 2; }"}
var DefaultKeyTypes = []string{"string", "int32", "uint32", "int64", "uint8", "enumeration { enum a; enum b; enum c; }"}

type gnode struct {
	kind   string // leaf leaf-list container list choice
	name   string
	typ    string
	dflt   string
	keys   []string
	kids   []*gnode
	cases  []*gcase
	cfgOff bool
}
type gcase struct {
	name string
	kids []*gnode
}

type schemaGen struct {
	r    *gen.Rng
	o    GenOpts
	next int
}

func (g *schemaGen) id(prefix string) string {
	g.next++
	return fmt.Sprintf("%s%d", prefix, g.next)
}

func (g *schemaGen) leaf(kind string) *gnode {
	types := g.o.Types
	if types == nil {
		types = DefaultTypes
	}
	n := &gnode{kind: kind, name: g.id("l"), typ: gen.Pick(g.r, types)}
	if kind == "leaf" && g.o.Defaults && (g.r.Chance(1, 3) || (g.o.ListHeavy && g.r.Chance(1, 3))) {
		n.dflt = defaultFor(g.r, n.typ)
	}
	return n
}

func defaultFor(r *gen.Rng, typ string) string {
	switch {
	case strings.HasPrefix(typ, "int"), strings.HasPrefix(typ, "uint"):
		return fmt.Sprintf("%d", 1+r.Intn(100))
	case typ == "string":
		return gen.Pick(r, []string{"dflt", "x y", "z"})
	case typ == "boolean":
		return gen.Pick(r, []string{"true", "false"})
	case strings.HasPrefix(typ, "enumeration"):
		return gen.Pick(r, []string{"a", "b", "c"})
	case strings.HasPrefix(typ, "decimal64"):
		return gen.Pick(r, []string{"1.5", "2.25", "0.5"})
	}
	return ""
}

func (g *schemaGen) kids(depth int, inCase bool) []*gnode {
	n := 1 + g.r.Intn(g.o.MaxKids)
	var out []*gnode
	for i := 0; i < n; i++ {
		roll := g.r.Intn(10)
		if g.o.ChoiceHeavy && g.o.Choices && roll >= 4 && depth < g.o.MaxDepth && g.r.Chance(1, 2) {
			roll = 9
		}
		if g.o.ListHeavy && g.o.Lists && roll >= 3 && depth < g.o.MaxDepth && g.r.Chance(1, 2) {
			roll = 6
		}
		switch {
		case roll < 4 || depth >= g.o.MaxDepth:
			if g.o.LeafLists && g.r.Chance(1, 5) {
				out = append(out, g.leaf("leaf-list"))
			} else {
				out = append(out, g.leaf("leaf"))
			}
		case roll < 6:
			c := &gnode{kind: "container", name: g.id("c")}
			c.kids = g.kids(depth+1, false)
			c.cfgOff = g.o.ConfigMix && g.r.Chance(1, 5)
			out = append(out, c)
		case roll < 8 && g.o.Lists:
			l := &gnode{kind: "list", name: g.id("q")}
			nk := 1
			if !g.o.SingleKey && g.r.Chance(1, 4) {
				nk = 2
			}
			kt := g.o.KeyTypes
			if kt == nil {
				kt = DefaultKeyTypes
			}
			for k := 0; k < nk; k++ {
				kl := &gnode{kind: "leaf", name: g.id("k"), typ: gen.Pick(g.r, kt)}
				l.keys = append(l.keys, kl.name)
				l.kids = append(l.kids, kl)
			}
			l.kids = append(l.kids, g.kids(depth+1, false)...)
			out = append(out, l)
		case g.o.Choices:
			ch := &gnode{kind: "choice", name: g.id("h")}
			nc := 2 + g.r.Intn(2)
			for k := 0; k < nc; k++ {
				cs := &gcase{name: g.id("s")}
				cs.kids = g.kids(depth+1, true)
				ch.cases = append(ch.cases, cs)
			}
			out = append(out, ch)
		default:
			out = append(out, g.leaf("leaf"))
		}
	}
	return out
}

func (n *gnode) yang(b *strings.Builder, ind string) {
	switch n.kind {
	case "leaf", "leaf-list":
		semi := ";"
		if strings.HasSuffix(n.typ, "}") {
			semi = ""
		}
		fmt.Fprintf(b, "%s%s %s { type %s%s", ind, n.kind, n.name, n.typ, semi)
		if n.dflt != "" {
			fmt.Fprintf(b, " default %q;", n.dflt)
		}
		b.WriteString(" }\n")
	case "container":
		fmt.Fprintf(b, "%scontainer %s {\n", ind, n.name)
		if n.cfgOff {
			fmt.Fprintf(b, "%s  config false;\n", ind)
		}
		for _, k := range n.kids {
			k.yang(b, ind+"  ")
		}
		fmt.Fprintf(b, "%s}\n", ind)
	case "list":
		fmt.Fprintf(b, "%slist %s {\n%s  key \"%s\";\n", ind, n.name, ind, strings.Join(n.keys, " "))
		for _, k := range n.kids {
			k.yang(b, ind+"  ")
		}
		fmt.Fprintf(b, "%s}\n", ind)
	case "choice":
		fmt.Fprintf(b, "%schoice %s {\n", ind, n.name)
		for _, c := range n.cases {
			fmt.Fprintf(b, "%s  case %s {\n", ind, c.name)
			for _, k := range c.kids {
				k.yang(b, ind+"    ")
			}
			fmt.Fprintf(b, "%s  }\n", ind)
		}
		fmt.Fprintf(b, "%s}\n", ind)
	}
}

// GenSchema returns YANG text, the loaded module and its flat view.
func GenSchema(r *gen.Rng, o GenOpts) (string, *meta.Module, *SNode, error) {
	if o.MaxDepth == 0 {
		o.MaxDepth = 3
	}
	if o.MaxKids == 0 {
		o.MaxKids = 4
	}
	if o.ModuleName == "" {
		o.ModuleName = "m"
	}
	g := &schemaGen{r: r, o: o}
	kids := g.kids(0, false)
	var b strings.Builder
	fmt.Fprintf(&b, "module %s {\n  namespace \"urn:%s\";\n  prefix %s;\n  revision 2020-01-01;\n", o.ModuleName, o.ModuleName, o.ModuleName)
	for _, k := range kids {
		k.yang(&b, "  ")
	}
	b.WriteString("}\n")
	m, err := parser.LoadModuleFromString(nil, b.String())
	if err != nil {
		return b.String(), nil, nil, err
	}
	return b.String(), m, Root(m), nil
}

// ---- data --------------------------------------------------------------------------------------

// GenValue picks a value of the leaf's type: boundaries, neighbours and random ones.
func GenValue(r *gen.Rng, l meta.Leafable) val.Value {
	t := l.Type()
	mk := func(x interface{}) val.Value {
		v, err := node.NewValue(t, x)
		if err != nil || v == nil {
			panic(fmt.Sprintf("tree.GenValue: %v for %v (%T)", err, x, x))
		}
		return v
	}
	one := func(f val.Format) interface{} {
		switch f {
		case val.FmtInt8:
			return gen.Pick(r, []int64{math.MinInt8, -1, 0, 1, 7, math.MaxInt8, int64(r.Intn(256)) - 128})
		case val.FmtInt16:
			return gen.Pick(r, []int64{math.MinInt16, -1, 0, 1, 300, math.MaxInt16, int64(r.Intn(65536)) - 32768})
		case val.FmtInt32:
			return gen.Pick(r, []int64{math.MinInt32, -1, 0, 1, 70000, math.MaxInt32, int64(int32(r.U64()))})
		case val.FmtInt64:
			return gen.Pick(r, []int64{-(1 << 53), -1, 0, 1, 1 << 40, 1 << 53, int64(r.U64()) >> 11})
		case val.FmtUInt8:
			return gen.Pick(r, []uint64{0, 1, 128, 255, uint64(r.Intn(256))})
		case val.FmtUInt16:
			return gen.Pick(r, []uint64{0, 1, 32768, 65535, uint64(r.Intn(65536))})
		case val.FmtUInt32:
			return gen.Pick(r, []uint64{0, 1, 1 << 31, math.MaxUint32, r.U64() >> 32})
		case val.FmtUInt64:
			return gen.Pick(r, []uint64{0, 1, 1 << 40, 1 << 53, r.U64() >> 11})
		case val.FmtString:
			return gen.Pick(r, []string{"a", "b", "hello", "x y", "v" + fmt.Sprint(r.Intn(1000)), "ü", ""})
		case val.FmtBool:
			return r.Bool()
		case val.FmtEnum:
			return gen.Pick(r, t.Enum()).Label
		case val.FmtDecimal64:
			return gen.Pick(r, []float64{0, 1.5, -2.25, 100.75, 0.5, float64(r.Intn(4000))/4 - 500})
		case val.FmtEmpty:
			return val.NotEmpty
		}
		panic("tree.GenValue: unsupported format " + f.String())
	}
	f := t.Format()
	if f.IsList() {
		n := 1 + r.Intn(3)
		xs := make([]interface{}, n)
		for i := range xs {
			xs[i] = one(f.Single())
		}
		return mk(xs)
	}
	return mk(one(f))
}

// GenData generates content conforming to s. density in [0,100]: chance that an optional kid is
// present. At most one case of every choice is populated.
func GenData(r *gen.Rng, s *SNode, density int, maxRows int) *Cont {
	c := NewCont()
	chosen := make([]int, len(s.Choices)) // choice id -> case index populated in this content, -1 none
	for i, ch := range s.Choices {
		chosen[i] = -1
		if r.Chance(density, 100) {
			chosen[i] = r.Intn(len(ch.CaseIdents()))
		}
	}
	for _, kid := range s.Kids {
		ok := true
		for _, g := range kid.Guard {
			if chosen[g[0]] != g[1] {
				ok = false
			}
		}
		if !ok {
			continue
		}
		isKey := false
		for _, k := range s.Keys {
			if s.Kids[k] == kid {
				isKey = true
			}
		}
		if isKey {
			continue // keys are set by the caller
		}
		if !r.Chance(density, 100) {
			continue
		}
		switch kid.Kind {
		case KLeaf:
			c.Leaves[kid.Name] = GenValue(r, kid.Leafable())
		case KCont:
			c.Conts[kid.Name] = GenData(r, kid, density, maxRows)
		case KList:
			l := &List{}
			n := r.Intn(maxRows + 1)
			seen := map[string]bool{}
			for i := 0; i < n; i++ {
				row := GenData(r, kid, density, maxRows)
				var ks []string
				for _, k := range kid.Keys {
					v := GenValue(r, kid.Kids[k].Leafable())
					row.Leaves[kid.Kids[k].Name] = v
					ks = append(ks, v.String())
				}
				id := strings.Join(ks, "\x00")
				if seen[id] {
					continue
				}
				seen[id] = true
				l.Rows = append(l.Rows, row)
			}
			c.Lists[kid.Name] = l
		}
	}
	return c
}

// JSON renders c as the JSON document nodeutil.ReadJSON accepts for s (unqualified names).
func (c *Cont) JSON(s *SNode) string {
	var b strings.Builder
	c.json(s, &b)
	return b.String()
}

func jsonScalar(v val.Value) string {
	switch x := v.(type) {
	case val.String:
		j, _ := json.Marshal(string(x))
		return string(j)
	case val.Enum:
		j, _ := json.Marshal(x.Label)
		return string(j)
	case val.IdentRef:
		j, _ := json.Marshal(x.Label)
		return string(j)
	case val.Bool:
		return fmt.Sprintf("%v", bool(x))
	case val.NotEmptyType:
		return "[null]"
	case val.Decimal64:
		return fmt.Sprintf("%v", float64(x))
	case val.Bits:
		j, _ := json.Marshal(strings.Join(x.Labels, " "))
		return string(j)
	}
	return v.String()
}

func (c *Cont) json(s *SNode, b *strings.Builder) {
	b.WriteString("{")
	first := true
	for _, kid := range s.Kids {
		if !c.has(kid.Name) {
			continue
		}
		if !first {
			b.WriteString(",")
		}
		first = false
		fmt.Fprintf(b, "%q:", kid.Name)
		switch kid.Kind {
		case KLeaf:
			v := c.Leaves[kid.Name]
			if l, ok := v.(val.Listable); ok && v.Format().IsList() {
				b.WriteString("[")
				for i := 0; i < l.Len(); i++ {
					if i > 0 {
						b.WriteString(",")
					}
					b.WriteString(jsonScalar(l.Item(i)))
				}
				b.WriteString("]")
			} else {
				b.WriteString(jsonScalar(v))
			}
		case KCont:
			c.Conts[kid.Name].json(kid, b)
		case KList:
			b.WriteString("[")
			for j, r := range c.Lists[kid.Name].Rows {
				if j > 0 {
					b.WriteString(",")
				}
				r.json(kid, b)
			}
			b.WriteString("]")
		}
	}
	b.WriteString("}")
}

// Subsample returns a copy of c in which each optional kid is kept with probability keep/100, each
// list row with the same probability, and each non-key leaf is replaced by a fresh value with
// probability mutate/100. Used to derive overlapping source/target trees from one universe tree.
func Subsample(r *gen.Rng, s *SNode, c *Cont, keep, mutate int) *Cont {
	n := NewCont()
	isKey := map[string]bool{}
	for _, k := range s.Keys {
		isKey[s.Kids[k].Name] = true
	}
	for _, kid := range s.Kids {
		if !c.has(kid.Name) {
			continue
		}
		if !isKey[kid.Name] && !r.Chance(keep, 100) {
			continue
		}
		switch kid.Kind {
		case KLeaf:
			v := c.Leaves[kid.Name]
			if !isKey[kid.Name] && r.Chance(mutate, 100) {
				v = GenValue(r, kid.Leafable())
			}
			n.Leaves[kid.Name] = v
		case KCont:
			n.Conts[kid.Name] = Subsample(r, kid, c.Conts[kid.Name], keep, mutate)
		case KList:
			l := &List{}
			for _, row := range c.Lists[kid.Name].Rows {
				if r.Chance(keep, 100) {
					l.Rows = append(l.Rows, Subsample(r, kid, row, keep, mutate))
				}
			}
			n.Lists[kid.Name] = l
		}
	}
	return n
}

// GenDataAgainst is GenData biased to populate, in every choice, a case DIFFERENT from the one the
// given target content currently holds (so that an upsert of the result has to switch cases).
func GenDataAgainst(r *gen.Rng, s *SNode, density int, maxRows int, against *Cont) *Cont {
	if against == nil {
		return GenData(r, s, density, maxRows)
	}
	c := NewCont()
	held := make([]int, len(s.Choices))
	for i := range held {
		held[i] = -1
	}
	for _, kid := range s.Kids {
		if against.has(kid.Name) {
			for _, g := range kid.Guard {
				if held[g[0]] < 0 || g[1] < held[g[0]] {
					held[g[0]] = g[1]
				}
			}
		}
	}
	chosen := make([]int, len(s.Choices))
	for i, ch := range s.Choices {
		n := len(ch.CaseIdents())
		chosen[i] = -1
		if r.Chance(density, 100) {
			chosen[i] = r.Intn(n)
			if held[i] >= 0 && n > 1 && r.Chance(4, 5) {
				chosen[i] = (held[i] + 1 + r.Intn(n-1)) % n
			}
		}
	}
	isKey := map[string]bool{}
	for _, k := range s.Keys {
		isKey[s.Kids[k].Name] = true
	}
	for _, kid := range s.Kids {
		ok := true
		for _, g := range kid.Guard {
			if chosen[g[0]] != g[1] {
				ok = false
			}
		}
		if !ok || isKey[kid.Name] || !r.Chance(density, 100) {
			continue
		}
		switch kid.Kind {
		case KLeaf:
			c.Leaves[kid.Name] = GenValue(r, kid.Leafable())
		case KCont:
			c.Conts[kid.Name] = GenDataAgainst(r, kid, density, maxRows, against.Conts[kid.Name])
		case KList:
			l := &List{}
			var trows []*Cont
			if tl := against.Lists[kid.Name]; tl != nil {
				trows = tl.Rows
			}
			seen := map[string]bool{}
			// rows with the keys of existing target rows (to merge into them) plus fresh ones
			for _, tr := range trows {
				if !r.Chance(2, 3) {
					continue
				}
				row := GenDataAgainst(r, kid, density, maxRows, tr)
				var ks []string
				for _, k := range kid.Keys {
					v := tr.Leaves[kid.Kids[k].Name]
					if v == nil {
						v = GenValue(r, kid.Kids[k].Leafable())
					}
					row.Leaves[kid.Kids[k].Name] = v
					ks = append(ks, v.String())
				}
				if id := strings.Join(ks, "\x00"); !seen[id] {
					seen[id] = true
					l.Rows = append(l.Rows, row)
				}
			}
			for i := r.Intn(maxRows + 1); i > 0; i-- {
				row := GenData(r, kid, density, maxRows)
				var ks []string
				for _, k := range kid.Keys {
					v := GenValue(r, kid.Kids[k].Leafable())
					row.Leaves[kid.Kids[k].Name] = v
					ks = append(ks, v.String())
				}
				if id := strings.Join(ks, "\x00"); !seen[id] {
					seen[id] = true
					l.Rows = append(l.Rows, row)
				}
			}
			// source order is independent of the target's order
			for i := len(l.Rows) - 1; i > 0; i-- {
				j := r.Intn(i + 1)
				l.Rows[i], l.Rows[j] = l.Rows[j], l.Rows[i]
			}
			c.Lists[kid.Name] = l
		}
	}
	return c
}
