// Package tree: the harness side of the Tree cluster (coq/theories/Tree/Schema.v).
//
//	schema.go  - view of a compiled *meta.Module as flat kids with guards, and its Gallina term
//	store.go   - the reference store: a plain in-memory node.Node (the "independent capturing node")
//	value.go   - val.Value <-> Gallina lval
//	gen.go     - generators of schemas (YANG text) and conforming data
package tree

import (
	"fmt"
	"strings"

	"github.com/freeconf/yang/meta"
	"github.com/freeconf/yang/val"

	"yvh/emit"
)

const (
	KLeaf = iota
	KCont
	KList
)

// SNode mirrors Coq's snode: one flat kid of its parent.
type SNode struct {
	Name    string
	Mod     string
	Config  bool
	Guard   [][2]int           // (choice id in the parent, case index), outermost first
	Cases   []*meta.ChoiceCase // parallel to Guard
	Kind    int
	IsList  bool // leaf-list
	Keys    []int
	Kids    []*SNode
	Choices []*meta.Choice // for containers/lists: choice id -> meta (ids in DFS order)
	When    string
	Def     meta.Definition
	Parent  *SNode
}

// Root is the flat view of the module itself (a container without a name of its own).
func Root(m *meta.Module) *SNode {
	root := &SNode{Name: m.Ident(), Mod: m.Ident(), Config: true, Kind: KCont, Def: m}
	root.fill(m.DataDefinitions())
	return root
}

func (s *SNode) fill(defs []meta.Definition) {
	s.flatten(defs, nil, nil)
	if l, ok := s.Def.(*meta.List); ok {
		for _, k := range l.KeyMeta() {
			for i, kid := range s.Kids {
				if kid.Def == meta.Definition(k) {
					s.Keys = append(s.Keys, i)
				}
			}
		}
	}
}

func (s *SNode) flatten(defs []meta.Definition, guard [][2]int, cases []*meta.ChoiceCase) {
	for _, d := range defs {
		switch x := d.(type) {
		case *meta.Choice:
			id := len(s.Choices)
			s.Choices = append(s.Choices, x)
			for k, ident := range x.CaseIdents() {
				c := x.Cases()[ident]
				g := append(append([][2]int{}, guard...), [2]int{id, k})
				cs := append(append([]*meta.ChoiceCase{}, cases...), c)
				s.flatten(c.DataDefinitions(), g, cs)
			}
		case *meta.Leaf, *meta.LeafList, *meta.Container, *meta.List:
			kid := &SNode{Name: d.Ident(), Mod: meta.OriginalModule(d).Ident(), Guard: guard, Cases: cases, Def: d, Parent: s}
			if hc, ok := d.(meta.HasConfig); ok {
				kid.Config = hc.Config()
			}
			if hw, ok := d.(meta.HasWhen); ok && hw.When() != nil {
				kid.When = hw.When().Expression()
			}
			switch y := d.(type) {
			case *meta.Leaf:
				kid.Kind = KLeaf
			case *meta.LeafList:
				kid.Kind = KLeaf
				kid.IsList = true
			case *meta.Container:
				kid.Kind = KCont
				kid.fill(y.DataDefinitions())
			case *meta.List:
				kid.Kind = KList
				kid.fill(y.DataDefinitions())
			}
			s.Kids = append(s.Kids, kid)
		default:
			// anydata/anyxml and anything else is outside the Tree model; generators never produce it
		}
	}
}

// Index of the flat kid with this name, -1 if none
func (s *SNode) KidIndex(name string) int {
	for i, k := range s.Kids {
		if k.Name == name {
			return i
		}
	}
	return -1
}

func (s *SNode) Leafable() meta.Leafable { return s.Def.(meta.Leafable) }

// ---- Gallina terms --------------------------------------------------------------------------

func guardTerm(g [][2]int) string {
	items := make([]string, len(g))
	for i, p := range g {
		items[i] = emit.Pair(emit.Nat(p[0]), emit.Nat(p[1]))
	}
	return emit.List(items)
}

func (s *SNode) metaTerm() string {
	when := "None"
	if s.When != "" {
		when = emit.Some(emit.Str(s.When))
	}
	return emit.App("mkMeta", emit.Str(s.Name), emit.Str(s.Mod), emit.Bool(s.Config), guardTerm(s.Guard), when)
}

// Term is the snode term of this node.
func (s *SNode) Term() string {
	switch s.Kind {
	case KLeaf:
		l := s.Leafable()
		dflt := "None"
		if l.HasDefault() {
			if v, err := DefaultValue(l); err == nil && v != nil {
				dflt = emit.Some(ValTerm(v))
			}
		}
		return emit.App("SLeaf", s.metaTerm(), TypeTerm(l.Type()), emit.Bool(s.IsList), dflt)
	case KCont:
		return emit.App("SCont", s.metaTerm(), s.KidsTerm())
	}
	keys := make([]string, len(s.Keys))
	for i, k := range s.Keys {
		keys[i] = emit.Nat(k)
	}
	return emit.App("SList", s.metaTerm(), emit.List(keys), emit.App("SCont", s.metaTerm(), s.KidsTerm()))
}

// KidsTerm is the `list snode` of the flat kids.
func (s *SNode) KidsTerm() string {
	items := make([]string, len(s.Kids))
	for i, k := range s.Kids {
		items[i] = k.Term()
	}
	return emit.List(items)
}

var fmtNames = map[val.Format]string{
	val.FmtInt8: "FInt8", val.FmtInt16: "FInt16", val.FmtInt32: "FInt32", val.FmtInt64: "FInt64",
	val.FmtUInt8: "FUInt8", val.FmtUInt16: "FUInt16", val.FmtUInt32: "FUInt32", val.FmtUInt64: "FUInt64",
}

// TypeTerm is the ltype term of a compiled leaf type.
func TypeTerm(t *meta.Type) string {
	f := t.Format().Single()
	if n, ok := fmtNames[f]; ok {
		return emit.App("TInt", n)
	}
	switch f {
	case val.FmtDecimal64:
		return emit.App("TDec", emit.Z(int64(t.FractionDigits())))
	case val.FmtString:
		return "TStr"
	case val.FmtBool:
		return "TBool"
	case val.FmtBinary:
		return "TBin"
	case val.FmtEmpty:
		return "TEmpty"
	case val.FmtEnum:
		var items []string
		for _, e := range t.Enum() {
			items = append(items, emit.Pair(emit.Str(e.Label), emit.Z(int64(e.Id))))
		}
		return emit.App("TEnum", emit.List(items))
	case val.FmtBits:
		var items []string
		for _, b := range t.Bits() {
			items = append(items, emit.Pair(emit.Str(b.Ident()), emit.Z(int64(b.Position))))
		}
		return emit.App("TBits", emit.List(items))
	case val.FmtIdentityRef:
		var items []string
		seen := map[string]bool{}
		var walk func(ids []*meta.Identity)
		walk = func(ids []*meta.Identity) {
			for _, id := range ids {
				if seen[id.Ident()] {
					continue
				}
				seen[id.Ident()] = true
				items = append(items, emit.Str(id.Ident()))
				walk(id.DerivedDirect())
			}
		}
		walk(t.Base())
		return emit.App("TIdRef", emit.List(items))
	case val.FmtUnion:
		var items []string
		for _, u := range t.Union() {
			items = append(items, TypeTerm(u))
		}
		return emit.App("TUnion", emit.List(items))
	case val.FmtLeafRef:
		if r := t.Resolve(); r != nil && r != t {
			return emit.App("TLeafRef", TypeTerm(r))
		}
		return emit.App("TLeafRef", "TStr")
	}
	return "TStr"
}

// SchemaPath for descriptions
func (s *SNode) Path() string {
	var parts []string
	for n := s; n != nil && n.Parent != nil; n = n.Parent {
		parts = append([]string{n.Name}, parts...)
	}
	return strings.Join(parts, "/")
}

func (s *SNode) String() string { return fmt.Sprintf("%s(kind %d)", s.Path(), s.Kind) }
