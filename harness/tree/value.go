package tree

import (
	"fmt"
	"math"
	"strings"

	"github.com/freeconf/yang/meta"
	"github.com/freeconf/yang/node"
	"github.com/freeconf/yang/val"

	"yvh/emit"
)

// DefaultValue is the typed default of a leaf, obtained the way the library does (node.NewValue).
func DefaultValue(l meta.Leafable) (v val.Value, err error) {
	defer func() {
		if r := recover(); r != nil {
			v, err = nil, fmt.Errorf("panic: %v", r)
		}
	}()
	if !l.HasDefault() {
		return nil, nil
	}
	return node.NewValue(l.Type(), l.DefaultValue())
}

func frexpZ(f float64) (int64, int64) {
	if f == 0 || math.IsNaN(f) || math.IsInf(f, 0) {
		return 0, 0
	}
	fr, exp := math.Frexp(f)
	m := int64(fr * (1 << 53))
	e := int64(exp - 53)
	for m != 0 && m%2 == 0 { // normalise so equal numbers have equal terms
		m /= 2
		e++
	}
	return m, e
}

func scalarTerm(v val.Value) string {
	switch x := v.(type) {
	case val.Int8:
		return emit.App("LV", emit.App("VInt", "FInt8", emit.Z(int64(x))))
	case val.Int16:
		return emit.App("LV", emit.App("VInt", "FInt16", emit.Z(int64(x))))
	case val.Int32:
		return emit.App("LV", emit.App("VInt", "FInt32", emit.Z(int64(x))))
	case val.Int64:
		return emit.App("LV", emit.App("VInt", "FInt64", emit.Z(int64(x))))
	case val.UInt8:
		return emit.App("LV", emit.App("VInt", "FUInt8", emit.ZU(uint64(x))))
	case val.UInt16:
		return emit.App("LV", emit.App("VInt", "FUInt16", emit.ZU(uint64(x))))
	case val.UInt32:
		return emit.App("LV", emit.App("VInt", "FUInt32", emit.ZU(uint64(x))))
	case val.UInt64:
		return emit.App("LV", emit.App("VInt", "FUInt64", emit.ZU(uint64(x))))
	case val.Decimal64:
		m, e := frexpZ(float64(x))
		return emit.App("LV", emit.App("VDec", emit.Z(m), emit.Z(e)))
	case val.String:
		return emit.App("LV", emit.App("VStr", emit.Str(string(x))))
	case val.Binary:
		return emit.App("LV", emit.App("VBin", emit.Bytes([]byte(x))))
	case val.Bool:
		return emit.App("LV", emit.App("VBool", emit.Bool(bool(x))))
	case val.Enum:
		return emit.App("LV", emit.App("VEnum", emit.Z(int64(x.Id)), emit.Str(x.Label)))
	case val.IdentRef:
		return emit.App("LV", emit.App("VIdRef", emit.Str(x.Label)))
	case val.NotEmptyType:
		return "LEmpty"
	case val.Bits:
		items := make([]string, len(x.Labels))
		for i, l := range x.Labels {
			items[i] = emit.Str(l)
		}
		return emit.App("LBits", emit.List(items))
	}
	return emit.App("LV", emit.App("VStr", emit.Str("?unsupported:"+v.Format().String()+":"+v.String())))
}

// ValTerm is the lval term of a value held by a leaf or leaf-list.
func ValTerm(v val.Value) string {
	if l, ok := v.(val.Listable); ok && v.Format().IsList() {
		items := make([]string, l.Len())
		for i := 0; i < l.Len(); i++ {
			items[i] = scalarTerm(l.Item(i))
		}
		return emit.App("LList", emit.List(items))
	}
	return scalarTerm(v)
}

// ValDesc is a short human-readable form for replay descriptions
func ValDesc(v val.Value) string {
	if v == nil {
		return "nil"
	}
	s := v.String()
	if len(s) > 40 {
		s = s[:40] + "…"
	}
	return fmt.Sprintf("%s(%s)", strings.TrimSuffix(v.Format().String(), ""), s)
}
