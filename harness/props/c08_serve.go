package props

import (
	"github.com/freeconf/yang/node"
	"github.com/freeconf/yang/nodeutil"
	"github.com/freeconf/yang/val"

	"yvh/emit"
	"yvh/tree"
)

// How the nodes that serve a C08 data tree answer Node.Next for a lookup BY key.  The contract
// (node/node.go) requires the key in the answer only "if ... the request is for the next item in the
// list"; for a lookup an implementation may hand back the request's key (all of nodeutil and the
// reference store do), report no key at all, or report the key values it reads from the entry.
// Coq side: Tree/FindNode.v keyans / kpolicy / ans_of.
const (
	c8ansEcho   = iota // return r.Key
	c8ansNil           // return nil
	c8ansStored        // return a fresh slice with the entry's own key values
)

type c8policy struct {
	byIdx bool // the answer depends on the list's flat kid index in its holder: idx%3 -> nil, stored, echo
	all   int  // otherwise every list answers like this
}

var c8policies = []c8policy{{all: c8ansNil}, {all: c8ansStored}, {byIdx: true}, {all: c8ansEcho}}

func (p c8policy) answer(idx int) int {
	if !p.byIdx {
		return p.all
	}
	return []int{c8ansNil, c8ansStored, c8ansEcho}[idx%3]
}

func (p c8policy) term() string {
	if p.byIdx {
		return "PByIdx"
	}
	return emit.App("PAll", []string{"KEcho", "KNil", "KStored"}[p.all])
}

func (p c8policy) String() string {
	if p.byIdx {
		return "by-position(nil,stored,echo)"
	}
	return []string{"echo", "nil", "stored"}[p.all]
}

// c8serve makes the reference-store node n (schema node s: root, container or list row) and
// everything reached through it answer lookups by key as *pol says at the time of the request
// (the harness switches the behaviour of one served tree between Find calls).  Iteration (no key in the
// request), creation and deletion are answered as the store does.
func c8serve(n node.Node, s *tree.SNode, pol *c8policy) node.Node {
	b, ok := n.(*nodeutil.Basic)
	if !ok || b.OnChild == nil {
		return n
	}
	child := b.OnChild
	b.OnChild = func(r node.ChildRequest) (node.Node, error) {
		c, err := child(r)
		if c == nil || err != nil {
			return c, err
		}
		idx := s.KidIndex(r.Meta.Ident())
		kid := s.Kids[idx]
		if kid.Kind == tree.KList {
			return c8serveList(c, kid, idx, pol), nil
		}
		return c8serve(c, kid, pol), nil
	}
	return b
}

func c8serveList(n node.Node, lst *tree.SNode, idx int, pol *c8policy) node.Node {
	b, ok := n.(*nodeutil.Basic)
	if !ok || b.OnNext == nil {
		return n
	}
	next := b.OnNext
	b.OnNext = func(r node.ListRequest) (node.Node, []val.Value, error) {
		row, key, err := next(r)
		if row == nil || err != nil {
			return row, key, err
		}
		if len(r.Key) > 0 && !r.New && !r.Delete {
			switch pol.answer(idx) {
			case c8ansNil:
				key = nil
			case c8ansStored:
				if rb, ok := row.(*nodeutil.Basic); ok {
					if c, ok := rb.Peekable.(*tree.Cont); ok {
						own := make([]val.Value, len(lst.Keys))
						for k, kp := range lst.Keys {
							own[k] = c.Leaves[lst.Kids[kp].Name]
						}
						key = own
					}
				}
			}
		}
		return c8serve(row, lst, pol), key, nil
	}
	return b
}
