package props

import (
	"fmt"
	"math"
	"sort"
	"strconv"
	"strings"

	"github.com/freeconf/yang/node"
	"github.com/freeconf/yang/nodeutil"
	"github.com/freeconf/yang/parser"
	"github.com/freeconf/yang/val"

	"yvh/core"
	"yvh/emit"
	"yvh/gen"
)

func init() { Registry["C17"] = C17 }

// ---- scalar values --------------------------------------------------------------------------

type sval struct {
	fmtName string // Coq constructor of the format for integer kinds
	kind    string // int | dec | str | bin | bool | enum | idref
	i       int64
	u       uint64
	f       float64
	s       string
	b       bool
	label   string
}

func (v sval) isUnsigned() bool { return strings.HasPrefix(v.fmtName, "FUInt") }

func (v sval) goVal() val.Value {
	switch v.kind {
	case "int":
		switch v.fmtName {
		case "FInt8":
			return val.Int8(v.i)
		case "FInt16":
			return val.Int16(v.i)
		case "FInt32":
			return val.Int32(v.i)
		case "FInt64":
			return val.Int64(v.i)
		case "FUInt8":
			return val.UInt8(v.u)
		case "FUInt16":
			return val.UInt16(v.u)
		case "FUInt32":
			return val.UInt32(v.u)
		case "FUInt64":
			return val.UInt64(v.u)
		}
	case "dec":
		return val.Decimal64(v.f)
	case "str":
		return val.String(v.s)
	case "bin":
		return val.Binary([]byte(v.s))
	case "bool":
		return val.Bool(v.b)
	case "enum":
		return val.Enum{Id: int(v.i), Label: v.label}
	case "idref":
		return val.IdentRef{Label: v.s}
	}
	panic("bad sval")
}

// decompose a finite float64 into m * 2^e exactly
func frexpZ(f float64) (int64, int64) {
	if f == 0 {
		return 0, 0
	}
	fr, exp := math.Frexp(f) // f = fr * 2^exp, 0.5 <= |fr| < 1
	m := int64(fr * (1 << 53))
	return m, int64(exp - 53)
}

func (v sval) term() string {
	switch v.kind {
	case "int":
		if v.isUnsigned() {
			return emit.App("VInt", v.fmtName, emit.ZU(v.u))
		}
		return emit.App("VInt", v.fmtName, emit.Z(v.i))
	case "dec":
		m, e := frexpZ(v.f)
		return emit.App("VDec", emit.Z(m), emit.Z(e))
	case "str":
		return emit.App("VStr", emit.Str(v.s))
	case "bin":
		return emit.App("VBin", emit.Str(v.s))
	case "bool":
		return emit.App("VBool", emit.Bool(v.b))
	case "enum":
		return emit.App("VEnum", emit.Z(v.i), emit.Str(v.label))
	case "idref":
		return emit.App("VIdRef", emit.Str(v.s))
	}
	panic("bad sval")
}

func (v sval) desc() string {
	switch v.kind {
	case "int":
		if v.isUnsigned() {
			return fmt.Sprintf("%s(%d)", v.fmtName[1:], v.u)
		}
		return fmt.Sprintf("%s(%d)", v.fmtName[1:], v.i)
	case "dec":
		return fmt.Sprintf("Decimal64(%v)", v.f)
	case "str":
		return fmt.Sprintf("String(%q)", v.s)
	case "bin":
		return fmt.Sprintf("Binary(%q)", v.s)
	case "bool":
		return fmt.Sprintf("Bool(%v)", v.b)
	case "enum":
		return fmt.Sprintf("Enum{%d,%q}", v.i, v.label)
	}
	return fmt.Sprintf("IdentRef(%q)", v.s)
}

func signCode(f func() int) (code int) {
	defer func() {
		if r := recover(); r != nil {
			code = 3
		}
	}()
	c := f()
	switch {
	case c < 0:
		return 0
	case c == 0:
		return 1
	}
	return 2
}

func boolCode(f func() bool) (code int) {
	defer func() {
		if r := recover(); r != nil {
			code = 3
		}
	}()
	if f() {
		return 1
	}
	return 0
}

func pack4(codes []int) string {
	var words []string
	for i := 0; i < len(codes); i += 16 {
		var w uint64
		for j := 0; j < 16 && i+j < len(codes); j++ {
			w |= uint64(codes[i+j]) << (2 * uint(j))
		}
		words = append(words, emit.ZU(w))
	}
	return emit.List(words)
}

var signedBounds = map[string][2]int64{
	"FInt8": {math.MinInt8, math.MaxInt8}, "FInt16": {math.MinInt16, math.MaxInt16},
	"FInt32": {math.MinInt32, math.MaxInt32}, "FInt64": {math.MinInt64, math.MaxInt64},
}
var unsignedMax = map[string]uint64{
	"FUInt8": math.MaxUint8, "FUInt16": math.MaxUint16, "FUInt32": math.MaxUint32, "FUInt64": math.MaxUint64,
}

func boundarySigned(name string, r *gen.Rng, extra int) []sval {
	b := signedBounds[name]
	set := map[int64]bool{}
	add := func(x int64) {
		if x >= b[0] && x <= b[1] {
			set[x] = true
		}
	}
	for _, x := range []int64{b[0], b[0] + 1, b[1], b[1] - 1, -2, -1, 0, 1, 2, b[0] / 2, b[1] / 2, b[1]/2 + 1} {
		add(x)
	}
	for _, p := range []uint{7, 8, 15, 16, 31, 32, 53, 62} {
		for _, d := range []int64{-1, 0, 1} {
			add(int64(1)<<p + d)
			add(-(int64(1) << p) + d)
		}
	}
	for i := 0; i < extra; i++ {
		span := uint64(b[1]) - uint64(b[0])
		if span == math.MaxUint64 {
			add(int64(r.U64()))
		} else {
			add(b[0] + int64(r.U64()%(span+1)))
		}
	}
	var out []sval
	for x := range set {
		out = append(out, sval{fmtName: name, kind: "int", i: x})
	}
	sort.Slice(out, func(i, j int) bool { return out[i].i < out[j].i })
	return out
}

func boundaryUnsigned(name string, r *gen.Rng, extra int) []sval {
	max := unsignedMax[name]
	set := map[uint64]bool{}
	add := func(x uint64) {
		if x <= max {
			set[x] = true
		}
	}
	for _, x := range []uint64{0, 1, 2, max, max - 1, max / 2, max/2 + 1, max/2 - 1} {
		add(x)
	}
	for _, p := range []uint{7, 8, 15, 16, 31, 32, 53, 63} {
		for _, d := range []int64{-1, 0, 1} {
			add(uint64(int64(uint64(1)<<p) + d))
		}
	}
	for i := 0; i < extra; i++ {
		if max == math.MaxUint64 {
			add(r.U64())
		} else {
			add(r.U64() % (max + 1))
		}
	}
	var out []sval
	for x := range set {
		out = append(out, sval{fmtName: name, kind: "int", u: x})
	}
	sort.Slice(out, func(i, j int) bool { return out[i].u < out[j].u })
	return out
}

func randText(r *gen.Rng, alphabet []string, maxLen int) string {
	n := r.Intn(maxLen + 1)
	var b strings.Builder
	for i := 0; i < n; i++ {
		b.WriteString(gen.Pick(r, alphabet))
	}
	return b.String()
}

var c17Alphabet = []string{"a", "b", "A", "z", "0", " ", "\x00", "\x7f", "\xff", "é", "€", "ab"}

func c17Table(ctx *core.Ctx, name string, vals []sval, idx int) {
	n := len(vals)
	signs := make([]int, 0, n*n)
	eqs := make([]int, 0, n*n)
	gv := make([]val.Value, n)
	for i, v := range vals {
		gv[i] = v.goVal()
	}
	for i := 0; i < n; i++ {
		for j := 0; j < n; j++ {
			x, y := gv[i], gv[j]
			signs = append(signs, signCode(func() int { return x.(val.Comparable).Compare(y.(val.Comparable)) }))
			eqs = append(eqs, boolCode(func() bool { return val.Equal(x, y) }))
		}
	}
	if ctx.Explode == idx {
		// expand into individual pairs; when the table is large keep only pairs on which the observed
		// code differs from the harness's own reference (selection only - Coq still classifies)
		count := 0
		for i := 0; i < n && count < 300; i++ {
			for j := 0; j < n && count < 300; j++ {
				if n*n > 2000 && signs[i*n+j] == refSign(vals[i], vals[j]) && eqs[i*n+j] == b2i(refSign(vals[i], vals[j]) == 1) {
					continue
				}
				count++
				ctx.Add(emit.App("CPair", vals[i].term(), vals[j].term(), emit.Z(int64(signs[i*n+j])), emit.Z(int64(eqs[i*n+j]))),
					map[string]interface{}{"kind": "pair", "x": vals[i].desc(), "y": vals[j].desc(),
						"observed_compare_code": signs[i*n+j], "observed_equal_code": eqs[i*n+j],
						"codes": "0 negative / 1 zero / 2 positive / 3 panic; equal: 0 false / 1 true / 3 panic"}, true)
			}
		}
		return
	}
	terms := make([]string, n)
	for i, v := range vals {
		terms[i] = v.term()
	}
	first, last := "", ""
	if n > 0 {
		first, last = vals[0].desc(), vals[n-1].desc()
	}
	ctx.Add(emit.App("CTable", emit.List(terms), pack4(signs), pack4(eqs)),
		map[string]interface{}{"kind": "table", "format": name, "values": n, "pairs": n * n, "first": first, "last": last}, n > 1)
	ctx.Hist["pairs:"+name] += n * n
}

func b2i(b bool) int {
	if b {
		return 1
	}
	return 0
}

// reference comparison used only to select which pairs of a big table to expand
func refSign(x, y sval) int {
	c := 0
	switch x.kind {
	case "int":
		if x.isUnsigned() {
			if x.u < y.u {
				c = -1
			} else if x.u > y.u {
				c = 1
			}
		} else {
			if x.i < y.i {
				c = -1
			} else if x.i > y.i {
				c = 1
			}
		}
	case "dec":
		if x.f < y.f {
			c = -1
		} else if x.f > y.f {
			c = 1
		}
	case "str", "bin", "idref":
		c = strings.Compare(x.s, y.s)
	case "bool":
		c = b2i(x.b) - b2i(y.b)
	case "enum":
		if x.i < y.i {
			c = -1
		} else if x.i > y.i {
			c = 1
		}
	}
	return c + 1
}

// ---- keyed lookups ---------------------------------------------------------------------------

type keyType struct {
	yang string
	mk   func(r *gen.Rng) sval
	goV  func(v sval) interface{} // value stored in a Go map entry
	path func(v sval) string
}

func intKT(yang, fmtName string, signed bool) keyType {
	return keyType{yang: yang,
		mk: func(r *gen.Rng) sval {
			if signed {
				return gen.Pick(r, boundarySigned(fmtName, r, 6))
			}
			return gen.Pick(r, boundaryUnsigned(fmtName, r, 6))
		},
		goV: func(v sval) interface{} {
			switch fmtName {
			case "FInt8":
				return int8(v.i)
			case "FInt16":
				return int16(v.i)
			case "FInt32":
				return int32(v.i)
			case "FInt64":
				return int64(v.i)
			case "FUInt8":
				return uint8(v.u)
			case "FUInt16":
				return uint16(v.u)
			case "FUInt32":
				return uint32(v.u)
			}
			return uint64(v.u)
		},
		path: func(v sval) string {
			if signed {
				return fmt.Sprintf("%d", v.i)
			}
			return fmt.Sprintf("%d", v.u)
		}}
}

var c17KeyTypes = []keyType{
	intKT("int8", "FInt8", true), intKT("int16", "FInt16", true), intKT("int32", "FInt32", true), intKT("int64", "FInt64", true),
	intKT("uint8", "FUInt8", false), intKT("uint16", "FUInt16", false), intKT("uint32", "FUInt32", false), intKT("uint64", "FUInt64", false),
	{yang: "decimal64 { fraction-digits 8; }",
		// close values: equal after rounding to 6 places, distinct as numbers
		mk: func(r *gen.Rng) sval {
			return sval{kind: "dec", f: gen.Pick(r, []float64{0.00000125, 0.0000015, 0.00000175, 0.000001, 1.5, 1.50000001, -2.25, 100, 0, float64(r.Intn(1000)) / 8})}
		},
		goV:  func(v sval) interface{} { return v.f },
		path: func(v sval) string { return strconv.FormatFloat(v.f, 'f', -1, 64) }},
	{yang: "string",
		mk: func(r *gen.Rng) sval {
			return sval{kind: "str", s: randText(r, []string{"a", "b", "B", "z", "0", "-", "_", "ab"}, 4) + "k"}
		},
		goV:  func(v sval) interface{} { return v.s },
		path: func(v sval) string { return v.s }},
}

func c17Lookups(ctx *core.Ctx, r *gen.Rng, count int) error {
	for n := 0; n < count; n++ {
		nk := 1 + r.Intn(2)
		kts := make([]keyType, nk)
		var ys strings.Builder
		ys.WriteString("module m { namespace \"urn:m\"; prefix m; list l { key \"")
		for i := range kts {
			kts[i] = gen.Pick(r, c17KeyTypes)
			if i > 0 {
				ys.WriteString(" ")
			}
			fmt.Fprintf(&ys, "k%d", i)
		}
		ys.WriteString("\";")
		for i, kt := range kts {
			semi := ";"
			if strings.HasSuffix(kt.yang, "}") {
				semi = ""
			}
			fmt.Fprintf(&ys, " leaf k%d { type %s%s }", i, kt.yang, semi)
		}
		ys.WriteString(" leaf v { type string; } } }")
		m, err := parser.LoadModuleFromString(nil, ys.String())
		if err != nil {
			return fmt.Errorf("c17 schema: %w", err)
		}
		nrows := r.Intn(9)
		var rows [][]sval
		seen := map[string]bool{}
		for len(rows) < nrows {
			row := make([]sval, nk)
			var id strings.Builder
			for i, kt := range kts {
				row[i] = kt.mk(r)
				id.WriteString(row[i].desc() + "|")
			}
			if seen[id.String()] {
				continue
			}
			seen[id.String()] = true
			rows = append(rows, row)
		}
		// lookup keys: every present row, plus some absent
		var targets [][]sval
		targets = append(targets, rows...)
		for i := 0; i < 3; i++ {
			row := make([]sval, nk)
			for j, kt := range kts {
				row[j] = kt.mk(r)
			}
			targets = append(targets, row)
		}
		for kind := 0; kind < 2; kind++ {
			slice := make([]map[string]interface{}, len(rows))
			for i, row := range rows {
				e := map[string]interface{}{"v": fmt.Sprintf("row%d", i)}
				for j, kt := range kts {
					e[fmt.Sprintf("k%d", j)] = kt.goV(row[j])
				}
				slice[i] = e
			}
			data := map[string]interface{}{"l": slice}
			var root node.Node
			if kind == 0 {
				root = nodeutil.ReflectChild(data)
			} else {
				root = &nodeutil.Node{Object: data}
			}
			b := node.NewBrowser(m, root)
			for _, tgt := range targets {
				parts := make([]string, nk)
				for j, kt := range kts {
					parts[j] = kt.path(tgt[j])
				}
				found, perr := c17Find(b, "l="+strings.Join(parts, ","))
				foundTerm := "None"
				var foundDesc interface{}
				if perr != "" {
					// an error/panic is reported as "found a row that cannot be right"
					foundTerm = emit.Some("[]")
					foundDesc = perr
				} else if found >= 0 {
					foundTerm = emit.Some(keyTerm(rows[found]))
					foundDesc = keyDesc(rows[found])
				}
				rt := make([]string, len(rows))
				rd := make([]string, len(rows))
				for i, row := range rows {
					rt[i] = keyTerm(row)
					rd[i] = keyDesc(row)
				}
				impl := []string{"nodeutil.Reflect slice of maps", "nodeutil.Node slice of maps"}[kind]
				ctx.Add(emit.App("CLookup", emit.Nat(kind), emit.List(rt), keyTerm(tgt), foundTerm),
					map[string]interface{}{"kind": "lookup", "impl": impl, "yang": ys.String(), "rows": rd, "find": keyDesc(tgt), "found": foundDesc}, len(rows) > 1)
				ctx.Count(fmt.Sprintf("lookup:kind%d", kind))
			}
		}
	}
	return nil
}

func keyTerm(k []sval) string {
	ts := make([]string, len(k))
	for i, v := range k {
		ts[i] = v.term()
	}
	return emit.List(ts)
}
func keyDesc(k []sval) string {
	ts := make([]string, len(k))
	for i, v := range k {
		ts[i] = v.desc()
	}
	return strings.Join(ts, ",")
}

// returns index of row found (by its payload leaf v), -1 when not found
func c17Find(b *node.Browser, path string) (idx int, perr string) {
	defer func() {
		if r := recover(); r != nil {
			idx, perr = -1, fmt.Sprintf("panic: %v", r)
		}
	}()
	sel, err := b.Root().Find(path)
	if err != nil {
		return -1, "error: " + err.Error()
	}
	if sel == nil {
		return -1, ""
	}
	v, err := sel.GetValue("v")
	if err != nil {
		return -1, "error: " + err.Error()
	}
	var i int
	if _, err := fmt.Sscanf(v.String(), "row%d", &i); err != nil {
		return -1, "error: bad payload " + v.String()
	}
	return i, ""
}

// C17 emits: exhaustive 8-bit tables, boundary tables for the wider formats, decimals, strings,
// binaries, booleans, enums, identityrefs; key tuples through CompareVals/EqualVals; keyed lookups.
func C17(ctx *core.Ctx) error {
	ctx.Imports = "Val.Model Val.History Check.C17Check"
	ctx.Rule = "tables: all ordered pairs of a value set per format (8-bit formats: the whole range; wider: boundary set + random); tuples: random key tuples of 1-3 values; lookups: Find(l=key) for every present and 3 absent keys on random lists; histories: 3-8 keyed find/delete/upsert requests through ONE live list selection over a slice of struct values / struct pointers / maps, rows read back from the Go slice after each. distinct = by SHA-256 of the case term; non-trivial = table with >1 value, tuple of >=1 value, lookup on a list with >1 row, history with a delete and another request"
	r := gen.New(ctx.Seed)
	extra := ctx.Scale(8, 60)
	idx := 0
	table := func(name string, vals []sval) {
		c17Table(ctx, name, vals, idx)
		idx++
	}
	// 8-bit exhaustive
	var i8, u8 []sval
	for x := -128; x <= 127; x++ {
		i8 = append(i8, sval{fmtName: "FInt8", kind: "int", i: int64(x)})
	}
	for x := 0; x <= 255; x++ {
		u8 = append(u8, sval{fmtName: "FUInt8", kind: "int", u: uint64(x)})
	}
	table("FInt8", i8)
	table("FUInt8", u8)
	ctx.Extra["exhaustive_8bit_pairs"] = 2 * 65536
	for _, name := range []string{"FInt16", "FInt32", "FInt64"} {
		table(name, boundarySigned(name, r.Fork(1), extra))
	}
	for _, name := range []string{"FUInt16", "FUInt32", "FUInt64"} {
		table(name, boundaryUnsigned(name, r.Fork(2), extra))
	}
	// decimals: finite doubles incl. extremes and neighbours
	fr := r.Fork(3)
	decs := []float64{0, math.Copysign(0, -1), 1, -1, 0.5, -0.5, 0.1, 0.2, 0.30000000000000004, 0.3, 1e-300, -1e-300, 5e-324, -5e-324,
		math.MaxFloat64, -math.MaxFloat64, 9007199254740992, 9007199254740993, 9007199254740994, -9007199254740992,
		9223372036854775807, 1.5, 2.5, 1e15, 1e15 + 0.125, 123.456, -123.456, 3.14, math.Nextafter(1, 2), math.Nextafter(1, 0)}
	for i := 0; i < extra; i++ {
		decs = append(decs, math.Float64frombits(fr.U64()))
	}
	var dvals []sval
	dseen := map[uint64]bool{}
	for _, f := range decs {
		if math.IsNaN(f) || math.IsInf(f, 0) || dseen[math.Float64bits(f)] {
			continue
		}
		dseen[math.Float64bits(f)] = true
		dvals = append(dvals, sval{kind: "dec", f: f})
	}
	table("FDecimal64", dvals)
	// strings / binary / identityref
	sr := r.Fork(4)
	texts := []string{"", "a", "b", "ab", "abc", "aB", "a\x00", "\x00", "\xff", "é", "€", "z", "Z", " ", "a ", "10", "9", "ab\xff", "ab\x00c"}
	for i := 0; i < extra; i++ {
		texts = append(texts, randText(sr, c17Alphabet, 6))
	}
	tset := map[string]bool{}
	var svals, bvals, ivals []sval
	for _, t := range texts {
		if tset[t] {
			continue
		}
		tset[t] = true
		svals = append(svals, sval{kind: "str", s: t})
		bvals = append(bvals, sval{kind: "bin", s: t})
		ivals = append(ivals, sval{kind: "idref", s: t})
	}
	table("FString", svals)
	table("FBinary", bvals)
	table("FIdentRef", ivals)
	table("FBool", []sval{{kind: "bool", b: false}, {kind: "bool", b: true}})
	var evals []sval
	for _, id := range []int64{math.MinInt32, math.MinInt32 + 1, -2, -1, 0, 1, 2, 3, 100, math.MaxInt32 - 1, math.MaxInt32} {
		evals = append(evals, sval{kind: "enum", i: id, label: fmt.Sprintf("e%d", id&0xff)})
	}
	evals = append(evals, sval{kind: "enum", i: 1, label: "other-label-same-id"})
	table("FEnum", evals)

	// tuples through CompareVals / EqualVals
	if ctx.Explode < 0 {
		tr := r.Fork(5)
		pools := [][]sval{boundarySigned("FInt64", tr, 2), boundaryUnsigned("FUInt64", tr, 2), boundaryUnsigned("FUInt8", tr, 0), svals, evals,
			boundarySigned("FInt16", tr, 0), boundaryUnsigned("FUInt32", tr, 2)}
		nt := ctx.Scale(300, 6000)
		for n := 0; n < nt; n++ {
			l := 1 + tr.Intn(3)
			a := make([]sval, l)
			b := make([]sval, l)
			for i := 0; i < l; i++ {
				p := gen.Pick(tr, pools)
				a[i] = gen.Pick(tr, p)
				if tr.Chance(1, 2) {
					b[i] = a[i] // equal prefix: forces the comparison into later components
				} else {
					b[i] = gen.Pick(tr, p)
				}
			}
			ga := make([]val.Value, l)
			gb := make([]val.Value, l)
			for i := range a {
				ga[i], gb[i] = a[i].goVal(), b[i].goVal()
			}
			s := signCode(func() int { return val.CompareVals(ga, gb) })
			e := boolCode(func() bool { return val.EqualVals(ga, gb) })
			ctx.Add(emit.App("CTuple", keyTerm(a), keyTerm(b), emit.Z(int64(s)), emit.Z(int64(e))),
				map[string]interface{}{"kind": "tuple", "a": keyDesc(a), "b": keyDesc(b), "observed_compare_code": s, "observed_equal_code": e}, true)
			ctx.Count(fmt.Sprintf("tuple:len%d", l))
		}
		if err := c17Lookups(ctx, r.Fork(6), ctx.Scale(40, 800)); err != nil {
			return err
		}
		if err := c17History(ctx, r.Fork(7), ctx.Scale(150, 3000)); err != nil {
			return err
		}
	}
	return nil
}
